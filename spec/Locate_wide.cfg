\* thorough, exhaustive: every history of 2 locate calls with all 5 target sequences
SPECIFICATION Spec
CONSTANTS
  MaxCalls = 2
  MemoAlways = FALSE
  TopoIds = {"line3", "line4r", "line2s", "line4m", "rect32", "rect32r", "rect33m"}
  NTargetSets = 5
INVARIANT ImageOK
INVARIANT Containment
INVARIANT MemoSound
CHECK_DEADLOCK FALSE
