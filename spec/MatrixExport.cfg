SPECIFICATION Spec
INVARIANT CheckEntry
INVARIANT Checked
CHECK_DEADLOCK FALSE
