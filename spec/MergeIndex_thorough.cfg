\* thorough, exhaustive: every sequence of <= 3 merge sets of <= 3 indices out of <= 4
SPECIFICATION Spec
CONSTANTS
  MaxN = 4
  MaxSets = 3
  MaxLen = 3
  Mutant = "none"
INVARIANT TypeOK
INVARIANT Downwards
INVARIANT RootsAreReps
INVARIANT Result
INVARIANT Docstring
INVARIANT EmitDone
CHECK_DEADLOCK FALSE
