---------------------------- MODULE UnitGrammar ----------------------------
(***************************************************************************)
(* C20 -- unit tables, unit strings, parsing and formatting                *)
(* (SI.Units.__setattr__, SI.parse, SI._split_factors, Dimension.__call__, *)
(* Quantity.__format__, Quantity.__truediv__(str); unit._Units.parse).     *)
(*                                                                         *)
(* level A: the abstract syntax of a unit string,                          *)
(*     [number] factor (('*'|'/') factor)*,  factor = [prefix] unit [power]*)
(*   evaluated directly against the physical table AUnits (exponent vector *)
(*   and exact value of every unit in SI reference units) and the prefix   *)
(*   table.                                                                *)
(* level I: the CHARACTERS of that string parsed the way the code does     *)
(*   (lstrip of the number characters, _split_factors, lookup of           *)
(*   prefix+name in the flat dict that Units.__setattr__ filled, ** power, *)
(*   running product), against a dict built by replaying the definitions   *)
(*   of SI.py through the model of Units.__setattr__ (prefix expansion,    *)
(*   collision check).                                                     *)
(*                                                                         *)
(* Values are exact: n/d * 10^e (SciRat).  A literal with more digits than *)
(* a TLC integer holds is kept as a digit string (`big`) and may only be   *)
(* scaled by powers of ten.                                                *)
(***************************************************************************)
EXTENDS Dimension, Json

\* ------------------------------------------------------------- exact values n/d * 10^e
S(n, d, e) == [n |-> n, d |-> d, e |-> e, big |-> <<>>]
TooBig == [n |-> 0, d |-> 0, e |-> 0, big |-> <<>>]          \* outside the arithmetic range of the model / inexact root
IsBad(a) == a.d = 0
RECURSIVE Strip10(_, _)
Strip10(n, e) == IF n # 0 /\ n % 10 = 0 THEN Strip10(n \div 10, e + 1) ELSE <<n, e>>
SNorm(n, d, e) == LET r == Rat(n, d)
                      a == Strip10(r[1], 0)
                      b == Strip10(r[2], 0)
                  IN IF r[1] = 0 THEN S(0, 1, 0) ELSE S(a[1], b[1], e + a[2] - b[2])
SOne == S(1, 1, 0)
NDig(n) == Len(Digits(Abs(n)))
Fits(a, b) == NDig(a) + NDig(b) <= 9
SMul(a, b) == IF IsBad(a) \/ IsBad(b) THEN TooBig
              ELSE IF a.big # <<>> THEN (IF b.big = <<>> /\ b.n = 1 /\ b.d = 1 THEN [a EXCEPT !.e = a.e + b.e] ELSE TooBig)
              ELSE IF b.big # <<>> THEN (IF a.n = 1 /\ a.d = 1 THEN [b EXCEPT !.e = a.e + b.e] ELSE TooBig)
              ELSE IF Fits(a.n, b.n) /\ Fits(a.d, b.d) THEN SNorm(a.n * b.n, a.d * b.d, a.e + b.e) ELSE TooBig
SInv(a) == IF IsBad(a) \/ a.big # <<>> \/ a.n = 0 THEN TooBig ELSE SNorm(a.d, a.n, -a.e)
SDiv(a, b) == SMul(a, SInv(b))
RECURSIVE SPowNat(_, _)
SPowNat(a, k) == IF k = 0 THEN SOne ELSE SMul(a, SPowNat(a, k - 1))
\* exact q-th root of a natural number, or -1
RootOf(n, q) == IF \E r \in 0..Min2(n, 1300) : (IF q = 2 THEN r * r ELSE r * r * r) = n
                THEN CHOOSE r \in 0..Min2(n, 1300) : (IF q = 2 THEN r * r ELSE r * r * r) = n ELSE -1
SRoot(a, q) == IF q = 1 THEN a
               ELSE IF IsBad(a) \/ a.big # <<>> \/ a.n < 0 \/ a.e % q # 0 \/ a.n > 1600000 \/ a.d > 1600000 THEN TooBig
               ELSE IF RootOf(a.n, q) = -1 \/ RootOf(a.d, q) = -1 THEN TooBig
               ELSE S(RootOf(a.n, q), RootOf(a.d, q), a.e \div q)
\* a ** (p/q), p/q a rational <<p, q>> with q in {1, 2, 3}
SPow(a, k) == IF k[2] > 3 THEN TooBig
              ELSE LET r == SRoot(a, k[2]) IN IF k[1] >= 0 THEN SPowNat(r, k[1]) ELSE SInv(SPowNat(r, -k[1]))
SNeg(a) == [a EXCEPT !.n = -a.n]

\* ------------------------------------------------------------- quantities
QV(pw, val) == [pw |-> pw, val |-> val]
QErr(kind) == [pw |-> ErrPowers, val |-> TooBig, err |-> kind]
QMul(a, b) == QV(PMul(a.pw, b.pw), SMul(a.val, b.val))
QDiv(a, b) == QV(PDiv(a.pw, b.pw), SDiv(a.val, b.val))
QPow(a, k) == QV(PPow(a.pw, k), SPow(a.val, k))
QNum(v) == QV(NoPowers, v)

\* ------------------------------------------------------------- the tables
CONSTANTS Prefixes,    \* prefix character -> power of ten   (Units.__prefix)
          Defs,        \* the definitions of SI.py in order: [name, kind, pw, val, expr]
          AUnits       \* level A: unit name -> [pw, val, prefixable]: what the SI brochure says
PrefixChars == DOMAIN Prefixes

\* float(chars) for strings over '+-0123456789.': [ok, val]
NumChars == DigitSet \cup {"+", "-", "."}
FloatOf(s) ==
  LET sign == IF s # <<>> /\ s[1] \in {"+", "-"} THEN 1 ELSE 0
      body == SubSeq(s, sign + 1, Len(s))
      k == FirstIdx(body, ".")
      ip == IF k = 0 THEN body ELSE SubSeq(body, 1, k - 1)
      fp == IF k = 0 THEN <<>> ELSE SubSeq(body, k + 1, Len(body))
      ok == AllIn(ip, DigitSet) /\ AllIn(fp, DigitSet) /\ (ip # <<>> \/ fp # <<>>)
      digits == LStrip(ip \o fp, {"0"})
      neg == sign = 1 /\ s[1] = "-"
  IN IF ~ok THEN [ok |-> FALSE, val |-> TooBig]
     ELSE IF Len(RStrip(digits, {"0"})) > 9
          THEN [ok |-> TRUE, val |-> [n |-> IF neg THEN -1 ELSE 1, d |-> 1, e |-> -Len(fp) + (Len(digits) - Len(RStrip(digits, {"0"}))), big |-> RStrip(digits, {"0"})]]
     ELSE [ok |-> TRUE, val |-> SNorm((IF neg THEN -1 ELSE 1) * NatOf(digits), 1, -Len(fp))]

\* SI.parse(s) against the flat dict U (level I)
RECURSIVE ParseFold(_, _, _)
ParseFold(U, q, fs) ==
  IF fs = <<>> THEN q
  ELSE LET f == Head(fs)
           u == LStrip(f.base, NumChars)
           num == SubSeq(f.base, 1, Len(f.base) - Len(u))
           fl == IF num = <<>> THEN [ok |-> TRUE, val |-> SOne] ELSE FloatOf(num)
       IN IF ~fl.ok \/ u \notin DOMAIN U THEN QErr("ValueError")       \* `invalid (sub)expression`
          ELSE LET v == QMul(QNum(fl.val), QPow(U[u], f.power))
               IN ParseFold(U, IF f.isnumer THEN QMul(q, v) ELSE QDiv(q, v), Tail(fs))
IsErr(q) == q.pw = ErrPowers
ParseStr(U, s) ==
  LET tail == LStrip(s, NumChars)
      head == SubSeq(s, 1, Len(s) - Len(tail))
      fl == IF head = <<>> THEN [ok |-> TRUE, val |-> SOne] ELSE FloatOf(head)
      fs == SplitFactors(tail)
  IN IF ~fl.ok \/ IsErrFactors(fs) THEN QErr("ValueError") ELSE ParseFold(U, QNum(fl.val), fs)

\* Units.__setattr__(name, value) on dict U: [ok, U] (ok = FALSE: ValueError, dict unchanged)
SetAttr(U, name, value) ==
  LET scaled == {<<p>> \o name : p \in PrefixChars}
  IN IF name \in DOMAIN U THEN [ok |-> FALSE, U |-> U, why |-> "already defined"]
     ELSE IF scaled \cap DOMAIN U # {} THEN [ok |-> FALSE, U |-> U, why |-> "collision"]
     ELSE [ok |-> TRUE, why |-> "",
           \* (TLCEval: build the dict eagerly instead of keeping a chain of lazy function values)
           U |-> TLCEval([k \in DOMAIN U \cup {name} \cup scaled |->
                    IF k \in DOMAIN U THEN U[k]
                    ELSE IF k = name THEN value
                    ELSE QMul(value, QNum(S(1, 1, Prefixes[k[1]])))])]
\* units['name'] = value: plain dict assignment, no prefixes, no check
SetItem(U, name, value) == TLCEval([k \in DOMAIN U \cup {name} |-> IF k = name THEN value ELSE U[k]])

DefValue(U, df) == IF df.kind = "base" THEN QV(df.pw, df.val) ELSE ParseStr(U, df.expr)
ApplyDef(U, df) == IF df.kind = "raw" THEN SetItem(U, df.name, DefValue(U, df)) ELSE SetAttr(U, df.name, DefValue(U, df)).U
RECURSIVE Build(_, _)
Build(U, k) == IF k > Len(Defs) THEN U ELSE Build(ApplyDef(U, Defs[k]), k + 1)
EmptyUnits == [k \in {} |-> QNum(SOne)]

\* ------------------------------------------------------------- level A: abstract syntax
\* factor: [op, p, u, k]: op in {"", "*", "/"} ("" = first factor, numerator), p prefix char or "", u unit name, k power <<n, d>> (n >= 0)
APrefixVal(p) == IF p = "" THEN SOne ELSE S(1, 1, Prefixes[p])
AFactorOK(f) == f.u \in DOMAIN AUnits /\ (f.p = "" \/ (f.p \in PrefixChars /\ AUnits[f.u].prefixable))
AFactorVal(f) == QPow(QV(AUnits[f.u].pw, SMul(APrefixVal(f.p), AUnits[f.u].val)), f.k)
RECURSIVE AEval(_, _)
AEval(q, fs) == IF fs = <<>> THEN q
                ELSE LET f == Head(fs) IN AEval(IF f.op = "/" THEN QDiv(q, AFactorVal(f)) ELSE QMul(q, AFactorVal(f)), Tail(fs))
\* the characters of the abstract string
PowerChars(k) == IF k = One THEN <<>>
                 ELSE Digits(k[1]) \o (IF k[2] = 1 THEN <<>> ELSE <<"_">> \o Digits(k[2]))
FactorChars(f) == (IF f.op = "" THEN <<>> ELSE <<f.op>>) \o (IF f.p = "" THEN <<>> ELSE <<f.p>>) \o f.u \o PowerChars(f.k)
RECURSIVE FactorsChars(_)
FactorsChars(fs) == IF fs = <<>> THEN <<>> ELSE FactorChars(Head(fs)) \o FactorsChars(Tail(fs))

\* ------------------------------------------------------------- formatting
\* format(r, '.Pf') for an exact r = n/d*10^e that is not a rounding tie: [ok, text]
Pow10(k) == RPowNat(RInt(10), k)[1]
FixedOf(v, P) ==
  IF IsBad(v) \/ v.big # <<>> \/ v.e + P > 8 \/ v.e + P < -8 \/ NDig(v.n) > 7 \/ NDig(v.d) > 7 \/ NDig(v.n) + v.e + P > 9 THEN [ok |-> FALSE, text |-> <<>>]
  ELSE LET sc == v.e + P
           num == IF sc >= 0 THEN Abs(v.n) * Pow10(sc) ELSE Abs(v.n)
           den == IF sc >= 0 THEN v.d ELSE v.d * Pow10(-sc)
           qt == num \div den
           rm == num % den
           tie == 2 * rm = den
           K == IF 2 * rm > den THEN qt + 1 ELSE qt
           ds == Digits(K)
           padded == IF Len(ds) <= P THEN [i \in 1..(P + 1 - Len(ds)) |-> "0"] \o ds ELSE ds
           ip == SubSeq(padded, 1, Len(padded) - P)
           fp == SubSeq(padded, Len(padded) - P + 1, Len(padded))
       IN IF tie \/ NDig(den) > 9 THEN [ok |-> FALSE, text |-> <<>>]
          ELSE [ok |-> TRUE, text |-> (IF v.n < 0 THEN <<"-">> ELSE <<>>) \o ip \o (IF P = 0 THEN <<>> ELSE <<".">> \o fp)]

\* Quantity.__format__(q, spec) with spec = prec \o unit (prec = "" or "." digits): [kind, text]
FmtChars == DigitSet \cup {".", ","}
FormatQ(U, q, spec) ==
  LET unit == LStrip(spec, FmtChars)
      fmt == SubSeq(spec, 1, Len(spec) - Len(unit))
      P == IF fmt = <<>> THEN 6 ELSE NatOf(Tail(fmt))        \* fmt is "" or "." digits in this model
      uq == ParseStr(U, unit)
  IN IF IsErr(uq) THEN [kind |-> "ValueError", text |-> <<>>]
     ELSE IF uq.pw # q.pw THEN [kind |-> "DimensionError", text |-> <<>>]   \* Dimension.__call__: expected [..], got [..]
     ELSE LET fx == FixedOf(SDiv(q.val, uq.val), P)
          IN IF fx.ok THEN [kind |-> "text", text |-> fx.text \o unit] ELSE [kind |-> "inexact", text |-> <<>>]

\* ------------------------------------------------------------- unit.py (nutils.unit): _Units.parse
\* re.split('([a-zA-Z...]+)', s): alternating non-word / word pieces
Letters == {"a","b","c","d","e","f","g","h","i","j","k","l","m","n","o","p","q","r","s","t","u","v","w","x","y","z",
            "A","B","C","D","E","F","G","H","I","J","K","L","M","N","O","P","Q","R","S","T","U","V","W","X","Y","Z"}
RECURSIVE WordSplit(_, _, _)
\* acc: pieces so far (last one is being extended); inword: whether the last piece is a word
WordSplit(s, acc, inword) ==
  IF s = <<>> THEN (IF inword THEN Append(acc, <<>>) ELSE acc)
  ELSE LET c == s[1]
           isl == c \in Letters
       IN IF isl = inword THEN WordSplit(Tail(s), [acc EXCEPT ![Len(acc)] = Append(@, c)], inword)
          ELSE WordSplit(Tail(s), Append(acc, <<c>>), isl)
IntOf(s) == LET sign == IF s # <<>> /\ s[1] \in {"+", "-"} THEN 1 ELSE 0
                body == SubSeq(s, sign + 1, Len(s))
            IN IF body = <<>> \/ ~AllIn(body, DigitSet) THEN [ok |-> FALSE, v |-> 0]
               ELSE [ok |-> TRUE, v |-> (IF sign = 1 /\ s[1] = "-" THEN -1 ELSE 1) * NatOf(body)]
\* UQ: name -> quantity (no prefixed entries: prefixes are resolved at parse time, the whole name wins)
RECURSIVE UParseFold(_, _, _, _)
UParseFold(UQ, q, parts, i) ==
  IF i > Len(parts) THEN q
  ELSE LET pw == RStrip(parts[i + 1], {"*", "/"})
           io == IF pw = <<>> THEN [ok |-> TRUE, v |-> 1] ELSE IntOf(pw)
           sgn == IF parts[i - 1] # <<>> /\ parts[i - 1][Len(parts[i - 1])] = "/" THEN -1 ELSE 1
           name == parts[i]
           direct == name \in DOMAIN UQ
           viaprefix == Len(name) >= 2 /\ name[1] \in PrefixChars /\ Tail(name) \in DOMAIN UQ
       IN IF ~io.ok \/ (~direct /\ ~viaprefix) THEN QErr("ValueError")
          ELSE LET k == RInt(sgn * io.v)
                   base == IF direct THEN UQ[name] ELSE QMul(UQ[Tail(name)], QNum(S(1, 1, Prefixes[name[1]])))
               IN UParseFold(UQ, QMul(q, QPow(base, k)), parts, i + 2)
UParse(UQ, s) ==
  LET parts == WordSplit(s, <<<<>>>>, FALSE)
      head == RStrip(parts[1], {"*", "/"})
      fl == IF head = <<>> THEN [ok |-> TRUE, val |-> SOne] ELSE FloatOf(head)
  IN IF ~fl.ok THEN QErr("ValueError") ELSE UParseFold(UQ, QNum(fl.val), parts, 2)
=============================================================================
