\* quick, exhaustive: every one-dimensional spline (degree <= 3, <= 3 elements, every multiplicity vector,
\* continuity argument, periodicity), discont, legendre, removedofs
SPECIFICATION Spec
CONSTANTS
  DimA <- Dims_1d
  DimB <- Dims_1d
  MaxDims = 1
  RemChoices <- Rem_1
  MaxDer = 0
  SmallNd = 0
  SmallNe = 0
  Kinds <- Kinds_struct
  Mutant = "none"
INVARIANT TypeOK
INVARIANT InvInverse
INVARIANT InvNoDead
INVARIANT InvUnit
INVARIANT InvSpline
INVARIANT EmitState
PROPERTY StepProp
CHECK_DEADLOCK FALSE
