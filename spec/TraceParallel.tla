--------------------------- MODULE TraceParallel ---------------------------
(***************************************************************************)
(* Trace validation for nutils' fork based loop parallelism (C16): every   *)
(* recorded execution of the real code must be a behaviour of Parallel and *)
(* every Parallel invariant must hold in every state of it.                *)
(*                                                                         *)
(* Events come from                                                        *)
(*   - the env-guarded hook in src/nutils/parallel.py (NUTILS_VERIF_TRACE):*)
(*     ctxrange, fork, child_start, claim / exhausted (written while       *)
(*     range._lock is held), child_exit, wait, fork_raise, kill_children;  *)
(*   - the harness: acq / rel of the lock<n> objects of the generated      *)
(*     script (the script's `multiprocessing` global is a logging shim     *)
(*     around the real module; acq is written after the real acquire, rel  *)
(*     before the real release), return(ok) / raise of the call, where ok  *)
(*     is the implementation side verdict "result equals the maxprocs(1)   *)
(*     result" (bit exact for integer data, up to reassociation for        *)
(*     floats).                                                            *)
(* One line per event in an O_APPEND file: the file order is a             *)
(* linearisation.  The harness cuts the file into episodes (one ctxrange   *)
(* each), maps process ids to 0 (parent), 1.. (children in fork order).    *)
(*                                                                         *)
(* Input (env VF_TRACE): JSON list of episodes                             *)
(*   [id, np, niter, shared, nlocks, body,  -- configuration of Parallel;  *)
(*                                             body exported from the      *)
(*                                             script that ran (binding T) *)
(*    killed |-> <<procids that received SIGKILL>>,                        *)
(*    events |-> << [p, ev, v, ok] >>]                                     *)
(* Unlogged steps (fork of a child, acquiring / releasing range._lock, the *)
(* reads and writes of the statements, SIGKILL) are silent steps.          *)
(***************************************************************************)
EXTENDS Naturals, Sequences, FiniteSets, TLC, Json, IOUtils

Traces == JsonDeserialize(IOEnv.VF_TRACE)
NT == Len(Traces)
TMaxProcs == 6

VARIABLES tid, l, cfg, plan, pc, index, rlock, loc, step, nheld, alock, tmp, shm, priv,
          claimed, done, exit, nfork, nwait, nfails, faults, bad, hist

P == INSTANCE Parallel WITH MaxProcs <- TMaxProcs, Configs <- {}, MaxFaults <- 1000000,
                            LockedClaim <- TRUE, CheckExit <- TRUE, KillChildren <- TRUE,
                            KillInCS <- TRUE, Record <- FALSE, FaultPlans <- {{}}

svars == <<cfg, plan, pc, index, rlock, loc, step, nheld, alock, tmp, shm, priv,
           claimed, done, exit, nfork, nwait, nfails, faults, bad, hist>>
tvars == <<tid, l, cfg, plan, pc, index, rlock, loc, step, nheld, alock, tmp, shm, priv,
           claimed, done, exit, nfork, nwait, nfails, faults, bad, hist>>

T == Traces[tid]
E == T.events
Killed == {T.killed[i] : i \in 1..Len(T.killed)}
Procs == 0..(TMaxProcs - 1)

TraceInit == /\ tid \in 1..NT
             /\ l = 1
             /\ cfg = [id |-> Traces[tid].id, np |-> Traces[tid].np, niter |-> Traces[tid].niter,
                       shared |-> Traces[tid].shared, nlocks |-> Traces[tid].nlocks, body |-> Traces[tid].body]
             /\ plan = {}
             /\ pc = [p \in Procs |-> IF p = 0 THEN (IF Traces[tid].np > 1 THEN "forking" ELSE "acq") ELSE "unborn"]
             /\ index = 0
             /\ rlock = TMaxProcs
             /\ loc = [p \in Procs |-> 0]
             /\ step = [p \in Procs |-> 0]
             /\ nheld = [p \in Procs |-> 0]
             /\ alock = [k \in 1..Traces[tid].nlocks |-> TMaxProcs]
             /\ tmp = [p \in Procs |-> <<>>]
             /\ shm = [a \in 1..Len(Traces[tid].shared) |-> [i \in 1..Traces[tid].niter |-> 0]]
             /\ priv = [p \in Procs |-> [a \in 1..Len(Traces[tid].shared) |-> [i \in 1..Traces[tid].niter |-> 0]]]
             /\ claimed = [i \in 1..Traces[tid].niter |-> 0]
             /\ done = [i \in 1..Traces[tid].niter |-> 0]
             /\ exit = [p \in Procs |-> "none"]
             /\ nfork = 0 /\ nwait = 0 /\ nfails = 0 /\ faults = 0
             /\ bad = {}
             /\ hist = <<>>

IsEvent(name) == l <= Len(E) /\ E[l].ev = name /\ l' = l + 1 /\ UNCHANGED tid
Q == E[l].p          \* process of the current event
V == E[l].v

\* remaining logged events of process p
Remaining(p) == {i \in l..Len(E) : E[i].p = p}

\* ---- logged steps
TStart == IsEvent("child_start") /\ pc[Q] = "acq" /\ loc[Q] = 0 /\ UNCHANGED svars
TClaim == IsEvent("claim") /\ pc[Q] = "write" /\ loc[Q] = V /\ P!ClaimWrite(Q)
TExh == IsEvent("exhausted") /\ index >= P!NI /\ P!ClaimRead(Q)
TAcq == IsEvent("acq") /\ pc[Q] = "body" /\ nheld[Q] < Len(P!Cur(Q).locks)
        /\ P!Cur(Q).locks[nheld[Q] + 1] = V /\ P!AcqA(Q)
TRel == IsEvent("rel") /\ pc[Q] = "unl" /\ P!Cur(Q).locks[nheld[Q]] = V /\ P!RelA(Q)
TExit0 == IsEvent("child_exit") /\ V = 0 /\ P!ChildExit(Q)
TExit1 == IsEvent("child_exit") /\ V = 1 /\ Q # 0 /\ P!Exc(Q)
TWait == IsEvent("wait") /\ nwait + 1 = V /\ (exit[V] = "ok") = E[l].ok /\ P!Wait
TForkRaise == IsEvent("fork_raise") /\ nfails = V /\ nfails > 0 /\ P!Finish
TKillChildren == IsEvent("kill_children") /\ P!Exc(0)
\* the harness compared the returned value with the single-process result
TReturn == IsEvent("return") /\ E[l].ok = TRUE /\ nfails = 0 /\ P!Finish
TRaise == IsEvent("raise") /\ pc[0] = "raised" /\ UNCHANGED svars

\* ---- silent steps
SFork == P!Fork /\ UNCHANGED <<tid, l>>
SClaimAcq == \E p \in 0..(cfg.np - 1) : Remaining(p) # {} /\ P!ClaimAcq(p) /\ UNCHANGED <<tid, l>>
SClaimRead == \E p \in 0..(cfg.np - 1) : index < P!NI /\ P!ClaimRead(p) /\ UNCHANGED <<tid, l>>
SClaimRel == \E p \in 0..(cfg.np - 1) : P!ClaimRel(p) /\ UNCHANGED <<tid, l>>
SClaimExh == \E p \in 0..(cfg.np - 1) : P!ClaimExh(p) /\ UNCHANGED <<tid, l>>
SStmt == \E p \in 0..(cfg.np - 1) : /\ \/ P!UpdRead(p) \/ P!UpdWrite(p) \/ P!RdEnd(p) \/ P!Slot(p) \/ P!Nop(p)
                                    /\ UNCHANGED <<tid, l>>
SKill == \E c \in Killed : Remaining(c) = {} /\ P!Kill(c) /\ UNCHANGED <<tid, l>>

TraceNext == \/ TStart \/ TClaim \/ TExh \/ TAcq \/ TRel \/ TExit0 \/ TExit1 \/ TWait \/ TForkRaise
             \/ TKillChildren \/ TReturn \/ TRaise
             \/ SFork \/ SClaimAcq \/ SClaimRead \/ SClaimRel \/ SClaimExh \/ SStmt \/ SKill

TraceSpec == TraceInit /\ [][TraceNext]_tvars

\* ---- acceptance bookkeeping (needs -workers 1)
ASSUME TLCSet(2, [t \in 1..NT |-> 0])
Progress == TLCSet(2, [TLCGet(2) EXCEPT ![tid] = IF l > @ THEN l ELSE @])
Rejected == {t \in 1..NT : TLCGet(2)[t] # Len(Traces[t].events) + 1}
TraceAccepted == \/ Rejected = {}
                 \/ /\ \A t \in Rejected : PrintT(<<"VF", ToJson([tid |-> t, matched |-> TLCGet(2)[t] - 1, len |-> Len(Traces[t].events)])>>)
                    /\ FALSE

\* the design invariants, evaluated in every state of every recorded behaviour
AtMostOnce == P!AtMostOnce
ExactlyOnce == P!ExactlyOnce
MutexRange == P!MutexRange
MutexArrays == P!MutexArrays
NoLostUpdate == P!NoLostUpdate
NoPartialResult == P!NoPartialResult
=============================================================================
