\* simulation: deeper nestings (up to 3 wrappers on up to 2 structured-topology operations), all bases
SPECIFICATION Spec
CONSTANTS
  MaxDepth = 3
  MaxStructOps = 2
  MaxElems = 16
  TailLen = 2
  Bases = {"line2", "line3", "line3p", "line2p", "sq22", "sq21", "sq12p", "sq22p", "cube211", "idx1", "tri2", "mixed3", "tet1", "prism1"}
  Wrappers = {"mask", "reorder", "derive", "plain", "chainindex", "split"}
  LookupMutant = "none"
INVARIANT DenIsDen
INVARIANT PrefixFree
INVARIANT ElemDims
INVARIANT LookupCorrect
INVARIANT FIndex
INVARIANT CrossConsistent
INVARIANT InterfaceConsistent
INVARIANT EmitAll
CHECK_DEADLOCK FALSE
