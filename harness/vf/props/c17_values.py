"""C17 helper: the python side of the value terms of spec/HashSem.tla.

 * ``Registry(classtab)``  builds the synthetic classes from the class table
   that the TLA+ model emits (the model dictates names / modules / versions).
 * ``Registry.build(term)``  materialises a term  <<kind, payload, kids>>  as a
   live python / numpy / nutils object by the construction route recorded in
   the payload (S->C).
 * ``export(obj, classes)``  walks a live nutils object (Immutable / Singleton
   / DataClass / arraydata / frozen containers / scalars) and returns the term
   that describes it, adding real classes to ``classes`` (nutils -> spec, T).
 * run as a script it is the worker used for the "other process / other
   PYTHONHASHSEED" columns:  python -m vf.props.c17_values job.json out.json
"""

import collections
import dataclasses
import gc
import io
import json
import pickle
import sys
import types as pytypes

import numpy

ATOMS = {'nan': float('nan'), 'inf': float('inf'), '-inf': float('-inf')}
NUL = '~'   # NUL bytes are written "~" in the model's raw texts


class Unsupported(Exception):
    pass


class Mismatch(Exception):
    """the live object built by a construction route is not the value the model describes"""

    def __init__(self, kind, route, detail):
        Exception.__init__(self, '{} built by route {}: {}'.format(kind, route, detail))
        self.kind, self.route, self.detail = kind, route, detail


def _same(x, y):
    return x is y or (type(x) is type(y) and (x == y or x != x))


def _un(s):
    return s.replace(NUL, '\0')


class CacheCall:
    """a call of a function memoised with nutils.cache.function; its "hash" is the name of the cache file"""

    def __init__(self, func, args, kwargs):
        self.func, self.args, self.kwargs = func, args, kwargs

    def __reduce__(self):
        raise pickle.PicklingError('a call is not a value')

    def key(self):
        import tempfile, shutil, os, treelog
        from nutils import cache
        d = tempfile.mkdtemp(prefix='cache', dir=os.environ.get('VF_C17_TMP') or None)
        try:
            with treelog.set(treelog.NullLog()), cache.enable(d):
                r = self.func(*self.args, **self.kwargs)
            names = os.listdir(d)
        finally:
            shutil.rmtree(d, ignore_errors=True)
        assert len(names) == 1 and len(names[0]) == 40, names
        bytes.fromhex(names[0])
        return names[0]


def nutils_digest(v):
    """hex digest of a materialised value (cache file name for calls), or 'raise:..' / 'notbytes:..'"""
    from nutils import types
    try:
        if isinstance(v, CacheCall):
            return v.key()
        h = types.nutils_hash(v)
    except AssertionError:
        raise
    except Exception as e:
        return 'raise:' + type(e).__name__
    return h.hex() if isinstance(h, bytes) else 'notbytes:' + type(h).__name__


class Registry:
    def __init__(self, classtab):
        from nutils import types
        self.tab = classtab
        self.cls = {}
        self._registered = set()
        import builtins
        for key, c in classtab.items():
            base = c['base']
            if base == 'builtin':
                self.cls[key] = getattr(builtins, c['name'])
                continue
            params = list(c['params'])
            ndef = c['ndef']
            ns = {'__module__': c['mod'], '__qualname__': c['qual']}
            if base == 'function':
                assert params == ['a', 'b'] and ndef == 1
                self.cls[key] = self._memoised(c)
                continue
            if base == 'plain':
                cls = type(c['name'], (), dict(ns, tagged=key))
            elif base == 'namedtuple':
                cls = collections.namedtuple(c['name'], params, module=c['mod'])
            elif base == 'dataclass':
                cls = dataclasses.make_dataclass(c['name'], params, frozen=True)
                cls.__module__ = c['mod']
            elif base in ('Immutable', 'Singleton'):
                assert params == ['a', 'b'] and ndef == 1
                def __init__(self, a, b=2):
                    self.a = a
                    self.b = b
                def meth(self):
                    return 'meth'
                def other(self):
                    return 'other'
                ns.update(__init__=__init__, meth=meth, other=other)
                meta, parent = (types.ImmutableMeta, types.Immutable) if base == 'Immutable' else (types.SingletonMeta, types.Singleton)
                cls = meta(c['name'], (parent,), ns, version=int(c['ver']))
            elif base == 'DataClass':
                assert params == ['a', 'b'] and ndef == 1
                ns.update(__annotations__={'a': object, 'b': object}, b=2)
                cls = types.DataClassMeta(c['name'], (types.DataClass,), ns)
            else:
                raise Unsupported('class base ' + base)
            # binding of the model's class constants to what nutils_hash will read
            assert cls.__name__ == c['name'] and cls.__module__ == c['mod'] and cls.__qualname__ == c['qual'], (key, cls.__name__, cls.__module__, cls.__qualname__)
            if base in ('Immutable', 'Singleton'):
                assert cls._version == int(c['ver'])
            m = sys.modules.get(c['mod'])
            if m is None:
                m = sys.modules[c['mod']] = pytypes.ModuleType(c['mod'])
            if (c['mod'], c['qual']) not in self._registered:     # the first class of that name is the importable one
                self._registered.add((c['mod'], c['qual']))
                setattr(m, c['qual'], cls)
            self.cls[key] = cls

    @staticmethod
    def _memoised(c):
        from nutils import cache
        def f(a, b=2):
            return (a, b)
        f.__name__ = c['name']
        f.__qualname__ = c['qual']
        f.__module__ = c['mod']
        g = cache.function(f, version=int(c['ver']))
        return g

    def call(self, p, kids):
        key, route = p
        f = self.cls[key]
        a, b = (self.build(k) for k in kids)
        if route == 'pos':
            return CacheCall(f, (a, b), {})
        if route == 'kw':
            return CacheCall(f, (), dict(b=b, a=a))
        if route == 'mixed':
            return CacheCall(f, (a,), dict(b=b))
        if route == 'default':
            assert b == 2 and type(b) is int
            return CacheCall(f, (a,), {})
        raise Unsupported(route)

    # ------------------------------------------------------------------
    def scalar(self, kind, r):
        if r in ATOMS and kind == 'float':
            v = ATOMS[r]
        elif kind == 'bool':
            v = {'True': True, 'False': False}[r]
        elif kind == 'int':
            v = int(r)
        elif kind == 'float':
            v = float(r)
        elif kind == 'complex':
            v = complex(r.strip('()'))
        else:
            raise Unsupported(kind)
        # the model hashes the payload as repr(data)
        assert type(v).__name__ == kind and repr(v) == r, (kind, r, v)
        return v

    def ints(self, vals):
        return [int(x) for x in vals.split(',')] if vals else []

    def shape(self, kids):
        return tuple(self.build(k) for k in kids)

    def ndarray(self, p, kids):
        dt, vals, route = p
        shape = tuple(int(s) for s in self.shape(kids))
        flat = numpy.array(self.ints(vals), dtype=numpy.dtype(dt))
        a = flat.reshape(shape)
        if route == 'C':
            pass
        elif route == 'F':
            a = numpy.asfortranarray(a)
        elif route == 'T':
            a = numpy.ascontiguousarray(a.T).T
        elif route == 'view':
            assert a.ndim == 1
            big = numpy.empty(2 * len(a) + 1, dtype=a.dtype)
            big[:] = 9
            big[::2][:len(a)] = a
            a = big[::2][:len(a)]
            assert not a.flags.c_contiguous or len(a) < 2
        else:
            raise Unsupported(route)
        if a.dtype.str != dt or a.shape != shape:
            raise Mismatch('ndarray', route, 'dtype/shape {} {}'.format(a.dtype.str, a.shape))
        return a

    def arraydata(self, p, kids):
        from nutils import types
        knd, vals, route = p
        shape = self.shape(kids)
        ishape = tuple(int(s) for s in shape)
        native = dict(bool=bool, int=int, float=float, complex=complex)[knd]
        data = [native(x) for x in self.ints(vals)]
        src = dict(native=native, i32='<i4', i16='<i2', u8='|u1', be='>i8', f32='<f4', c64='<c8')
        if route in src:
            ad = types.arraydata(numpy.array(data, dtype=src[route]).reshape(ishape))
        elif route == 'list':
            ad = types.arraydata(numpy.array(data, dtype=native).reshape(ishape).tolist())
        elif route == 'F':
            ad = types.arraydata(numpy.asfortranarray(numpy.array(data, dtype=native).reshape(ishape)))
        elif route == 'wrap':
            ad = types.arraydata(types.arraydata(numpy.array(data, dtype=native).reshape(ishape)))
        elif route == 'reshape':
            ad = types.arraydata(numpy.array(data, dtype=native)).reshape(*shape)
        else:
            raise Unsupported(route)
        got = [native(x) for x in numpy.asarray(ad).ravel()]
        if ad.dtype is not native or tuple(ad.shape) != ishape or got != data or any(type(s) is not int and not isinstance(s, numpy.integer) for s in ad.shape):
            raise Mismatch('arraydata', route, 'model: dtype {} shape {} values {}; object: dtype {} shape {} values {}'.format(native.__name__, ishape, data, getattr(ad.dtype, '__name__', ad.dtype), tuple(ad.shape), got))
        return ad

    def inst(self, p, kids):
        key, route = p
        c = self.tab[key]
        cls = self.cls[key]
        if c['base'] in ('Immutable', 'Singleton'):
            assert kids[-1] == ['tuple', [], []]
            kids = kids[:-1]
        a, b = (self.build(k) for k in kids)
        if route == 'pos':
            o = cls(a, b)
        elif route == 'kw':
            o = cls(b=b, a=a)
        elif route == 'mixed':
            o = cls(a, b=b)
        elif route == 'default':
            assert b == 2 and type(b) is int
            o = cls(a)
        elif route == 'pickle':
            s = pickle.dumps(cls(a, b))
            gc.collect()
            o = pickle.loads(s)
        else:
            raise Unsupported(route)
        # values are materialised one at a time, so no other instance of the class is alive
        if type(o) is not cls or type(o.a) is not type(a) or type(o.b) is not type(b) or not _same(o.a, a) or not _same(o.b, b):
            raise Mismatch('inst:' + c['base'], route, 'requested ({!r}, {!r}) but the object carries ({!r}, {!r})'.format(a, b, getattr(o, 'a', None), getattr(o, 'b', None)))
        return o

    def build(self, t):
        from nutils import types
        k, p, c = t
        if k == 'none':
            return None
        if k == 'ellipsis':
            return Ellipsis
        if k in ('bool', 'int', 'float', 'complex'):
            return self.scalar(k, p[0])
        if k == 'npscalar':
            v = getattr(numpy, p[0])(self.scalar(p[1], p[2]))
            assert isinstance(v, numpy.generic) and repr(dict(b=bool, i=int, f=float, c=complex)[v.dtype.kind](v)) == p[2]
            return v
        if k == 'str':
            return _un(p[0])
        if k == 'bytes':
            return _un(p[0]).encode()
        if k == 'type':
            return self.cls[p[0]]
        if k == 'tuple':
            return tuple(self.build(x) for x in c)
        if k == 'list':
            return [self.build(x) for x in c]
        if k in ('dict', 'fdict'):
            d = {}
            for pair in c:
                assert pair[0] == 'pair'
                key = self.build(pair[2][0])
                assert key not in d      # the model never builds python-equal keys
                d[key] = self.build(pair[2][1])
            assert len(d) == len(c)
            return d if k == 'dict' else types.frozendict(d)
        if k in ('set', 'frozenset'):
            items = [self.build(x) for x in c]
            s = set()
            for x in items:
                s.add(x)
            assert len(s) == len(items)
            return s if k == 'set' else frozenset(items)
        if k == 'fms':
            once = {}
            for x in c:      # equal terms denote the same object occurring several times
                if json.dumps(x) not in once:
                    once[json.dumps(x)] = self.build(x)
            items = [once[json.dumps(x)] for x in c]
            # the model never puts python-equal items of different terms in a multiset
            assert len(collections.Counter(items)) == len({json.dumps(x) for x in c}) or any(x != x for x in items)
            return types.frozenmultiset(items)
        if k == 'hfunc':
            ident = self.build(c[0])
            @types.hashable_function(ident)
            def f(x):
                return x
            return f
        if k == 'nt':
            return self.cls[p[0]](*(self.build(x) for x in c))
        if k == 'dc':
            return self.cls[p[0]](*(self.build(x) for x in c))
        if k == 'method':
            return getattr(self.build(c[0]), p[0])
        if k == 'buf':
            f = io.BytesIO(p[0].encode())
            f.seek(int(p[1]))
            return f
        if k == 'ndarray':
            return self.ndarray(p, c)
        if k == 'arraydata':
            return self.arraydata(p, c)
        if k == 'inst':
            return self.inst(p, c)
        if k == 'call':
            return self.call(p, c)
        raise Unsupported(k)


# ----------------------------------------------------------------------
# random terms of the same grammar (judged by TLC like the emitted ones)

def _sc(k, r):
    return [k, [r], []]


_LEAVES = ([['none', [], []], ['ellipsis', [], []], _sc('bool', 'True'), _sc('bool', 'False')]
           + [_sc('int', r) for r in ('0', '1', '2', '-1', '10', '255', '-128')]
           + [_sc('float', r) for r in ('0.0', '-0.0', '1.0', '2.0', '0.5', 'inf', '-inf', '1e+100')]
           + [_sc('complex', r) for r in ('0j', '(1+0j)', '1j', '(1+1j)')]
           + [_sc('str', r) for r in ('', '1', 'a', 'ab', 'True', 'None', 'int', 'tuple', 'a~b', '1.0')]
           + [_sc('bytes', r) for r in ('', '1', 'a', 'ab', 'a~b')]
           + [['npscalar', list(p), []] for p in (('int64', 'int', '1'), ('int32', 'int', '1'), ('int8', 'int', '-1'), ('bool_', 'bool', 'True'),
                                                   ('float64', 'float', '1.0'), ('float32', 'float', '0.5'), ('complex128', 'complex', '(1+0j)'))]
           + [['type', [k], []] for k in ('int', 'bool', 'float', 'str', 'tuple', 'A1@m1', 'A1@m2', 'A2@m1', 'P@m1', 'Q@m1')])
_EMPTY = ['tuple', [], []]


def random_term(rng, depth, hashable=False, used=None):
    """a random value term; hashable: usable as dict key / set element / argument of an interned class"""
    if used is None:
        used = set()
    if depth == 0 or rng.random() < 0.25:
        return rng.choice(_LEAVES)
    kinds = ['tuple', 'tuple', 'frozenset', 'fdict', 'fms', 'nt', 'dc', 'inst', 'inst', 'hfunc', 'method', 'arraydata']
    if not hashable:
        kinds += ['list', 'dict', 'set', 'ndarray', 'nt', 'tuple']
    k = rng.choice(kinds)
    sub = lambda h=hashable: random_term(rng, depth - 1, h, used)
    if k in ('tuple', 'list'):
        return [k, [], [sub() for _ in range(rng.randrange(0, 4))]]
    if k in ('dict', 'fdict'):
        return [k, [], [['pair', [], [sub(True), sub(True if k == 'fdict' else hashable)]] for _ in range(rng.randrange(0, 3))]]
    if k in ('set', 'frozenset'):
        return [k, [], [sub(True) for _ in range(rng.randrange(0, 4))]]
    if k == 'fms':
        items = [sub(True) for _ in range(rng.randrange(0, 3))]
        return [k, [], [x for x in items for _ in range(rng.randrange(1, 3))]]
    if k == 'nt':
        return [k, [rng.choice(['P@m1', 'P@m2', 'Q@m1'])], [sub(), sub()]]
    if k == 'dc':
        return [k, [rng.choice(['R@m1', 'R@m2', 'R2@m1'])], [sub(True), sub(True)]]
    if k == 'inst':
        free = [c for c in ('I1@m1', 'I1@m2', 'I1v1@m1', 'I2@m1', 'S1@m1', 'S1@m2', 'S2@m1', 'D1@m1', 'D1@m2', 'D2@m1') if c not in used]
        if not free:
            return rng.choice(_LEAVES)
        key = rng.choice(free)
        if key[0] in 'SD':
            used.add(key)       # one live instance per interned class inside a value (interning is Intern.tla's subject)
        a = sub(True)
        b = rng.choice([_sc('int', '2'), _sc('int', '2'), sub(True)])
        route = rng.choice(['pos', 'kw', 'mixed'] + (['default'] if b == _sc('int', '2') else []))
        return [k, [key, route], [a, b] if key[0] == 'D' else [a, b, _EMPTY]]
    if k == 'hfunc':
        ident = sub(True)
        if ident[0] in ('type', 'hfunc', 'method'):
            ident = _sc('str', 'f')
        return [k, [], [ident]]
    if k == 'method':
        key = rng.choice(['I1@m1', 'I2@m1', 'I1@m2'])
        return [k, [rng.choice(['meth', 'other'])], [['inst', [key, 'pos'], [sub(True), _sc('int', '2'), _EMPTY]]]]
    if k == 'ndarray':
        dt = rng.choice(['<i8', '<i4', '>i8', '<f8', '|b1', '|u1', '<i2'])
        shape = rng.choice([[], [0], [1], [2], [3], [1, 2], [2, 1], [2, 2], [1, 1, 2]])
        size = 1
        for n in shape:
            size *= n
        vals = ','.join(str(rng.randrange(0, 2)) for _ in range(size))
        route = rng.choice(['C'] + (['F'] if shape else []) + (['view'] if len(shape) == 1 and size else []) + (['T'] if len(shape) == 2 else []))
        return [k, [dt, vals, route], [_sc('int', str(n)) for n in shape]]
    if k == 'arraydata':
        knd = rng.choice(['int', 'int', 'bool', 'float', 'complex'])
        shape = rng.choice([[], [0], [1], [2], [3], [1, 2], [2, 1], [2, 2]])
        size = 1
        for n in shape:
            size *= n
        vals = ','.join(str(rng.randrange(0, 2)) for _ in range(size))
        routes = dict(int=['native', 'i32', 'i16', 'u8', 'list', 'be', 'F', 'wrap', 'reshape'], bool=['native', 'list', 'wrap'],
                      float=['native', 'f32', 'list', 'F'], complex=['native', 'c64', 'list'])[knd]
        route = rng.choice(routes)
        if route == 'F' and not shape:
            route = 'native'      # numpy.asfortranarray promotes 0-d to 1-d
        if size == 0 and route == 'list' and knd != 'float':
            route = 'native'      # numpy.asarray([]) is float64
        return [k, [knd, vals, route], [_sc('int', str(n)) for n in shape]]
    raise AssertionError(k)


def random_terms(rng, n, reg):
    """n distinct random terms that can be materialised faithfully (python-equal set elements etc. are discarded)"""
    out, seen = [], set()
    tries = 0
    while len(out) < n and tries < 20 * n:
        tries += 1
        t = random_term(rng, rng.choice([1, 2, 2, 3]))
        s = json.dumps(t)
        if s in seen or len(s) > 1500:
            continue
        seen.add(s)
        try:
            v = reg.build(t)
            del v
        except AssertionError:
            continue        # artefact of the generator (python-equal keys, ...)
        except Mismatch:
            pass            # judged later
        out.append(t)
    return out


# ----------------------------------------------------------------------
# nutils -> spec

def _classkey(cls, classes, base, params, ver='0'):
    key = 'real:{}/{}'.format(cls.__module__, cls.__qualname__)
    if key not in classes:
        classes[key] = dict(name=cls.__name__, mod=cls.__module__, qual=cls.__qualname__, ver=str(ver), base=base, params=list(params), ndef=0)
    return key


_BUILTIN_KEYS = {bool: 'bool', int: 'int', float: 'float', complex: 'complex', str: 'str', bytes: 'bytes', tuple: 'tuple', list: 'list', dict: 'dict', frozenset: 'frozenset'}


def export(v, classes, memo=None):
    """term describing the live object ``v`` (raises Unsupported outside the vocabulary).

    Expressions are DAGs; to keep the term (a tree) small, the second and later
    references to a large shared sub-object are exported as ['opaque', digest]:
    the sub-object then stands for itself (its real digest), which is sound for
    the equality pattern and only gives up modelling below that point."""
    if memo is None:
        memo = {}
    hit = memo.get(id(v))
    if hit is not None:
        t, _, size = hit
        if size > 300:
            h = getattr(v, '__nutils_hash__', None)
            if isinstance(h, bytes):
                return ['opaque', [h.hex()], []]
        return t
    t = _export(v, classes, memo)
    memo[id(v)] = (t, v, _size(t))
    return t


def _size(t):
    return 8 + sum(len(x) + 3 for x in t[1]) + sum(_size(k) for k in t[2])


def _arr_values(a):
    """values of a small integer-valued array as text, else a digest of the bytes (still injective)"""
    a = numpy.asarray(a)
    if a.size == 0:
        return ''
    if a.size <= 12 and a.dtype.kind in 'biuf' and numpy.isfinite(a.astype(float)).all() and (a == numpy.round(a.astype(float))).all() \
            and (numpy.abs(a.astype(float)) < 1000).all() and not (a.dtype.kind == 'f' and numpy.signbit(a).any()):
        return ','.join(str(int(x)) for x in a.ravel())
    import hashlib
    return 'sha:' + hashlib.sha1(numpy.ascontiguousarray(a).tobytes()).hexdigest()


def _export(v, classes, memo):
    from nutils import types
    if v is None:
        return ['none', [], []]
    if v is Ellipsis:
        return ['ellipsis', [], []]
    tv = type(v)
    if isinstance(v, types.arraydata):
        knd = v.dtype.__name__
        vals = _arr_values(numpy.asarray(v))
        return ['arraydata', [knd, vals, 'native'], [export(s, classes, memo) for s in v.shape]]
    if isinstance(v, types.Immutable):
        key = _classkey(tv, classes, 'Singleton' if isinstance(v, types.Singleton) else 'Immutable', [], tv._version)
        return ['inst', [key, 'real'], [export(a, classes, memo) for a in v._args]]
    if isinstance(v, types.DataClass):
        names = list(tv.__signature__.parameters)
        key = _classkey(tv, classes, 'DataClass', names)
        return ['inst', [key, 'real'], [export(getattr(v, n), classes, memo) for n in names]]
    if isinstance(v, types.frozendict):
        return ['fdict', [], [['pair', [], [export(k, classes, memo), export(x, classes, memo)]] for k, x in v.items()]]
    if isinstance(v, types.frozenmultiset):
        return ['fms', [], [export(x, classes, memo) for x in v]]
    if isinstance(v, numpy.generic):
        kind = dict(b='bool', i='int', f='float', c='complex').get(v.dtype.kind)
        if kind is None:
            raise Unsupported('numpy scalar kind ' + v.dtype.kind)
        py = dict(bool=bool, int=int, float=float, complex=complex)[kind](v)
        return ['npscalar', [type(v).__name__, kind, repr(py)], []]
    if tv in (bool, int, float, complex):
        return [tv.__name__, [repr(v)], []]
    if tv is str:
        if '\0' in v or NUL in v:
            raise Unsupported('string with NUL or ~')
        return ['str', [v], []]
    if tv is bytes:
        try:
            s = v.decode('ascii')
        except UnicodeDecodeError:
            raise Unsupported('non-ascii bytes')
        if '\0' in s or NUL in s:
            raise Unsupported('bytes with NUL or ~')
        return ['bytes', [s], []]
    if tv is tuple:
        return ['tuple', [], [export(x, classes, memo) for x in v]]
    if tv is list:
        return ['list', [], [export(x, classes, memo) for x in v]]
    if tv is dict:
        return ['dict', [], [['pair', [], [export(k, classes, memo), export(x, classes, memo)]] for k, x in v.items()]]
    if tv in (set, frozenset):
        return [tv.__name__, [], [export(x, classes, memo) for x in v]]
    if tv is type:
        if v in _BUILTIN_KEYS:
            return ['type', [_BUILTIN_KEYS[v]], []]
        return ['type', [_classkey(v, classes, 'plain', [])], []]
    if tv is numpy.ndarray:
        if v.dtype.kind not in 'biufc':
            raise Unsupported('ndarray dtype ' + v.dtype.str)
        return ['ndarray', [v.dtype.str, _arr_values(v), 'C'], [[ 'int', [str(int(s))], []] for s in v.shape]]
    h = getattr(v, '__nutils_hash__', None)
    if isinstance(h, bytes):
        # a custom __nutils_hash__ (compiled function, solver method, ...): not modelled, stands for itself
        return ['opaque', [h.hex()], []]
    raise Unsupported(tv.__name__)


# ----------------------------------------------------------------------
# real nutils objects (deterministic; rebuilt identically in every process)

def real_corpus(tier='quick'):
    from nutils import mesh, function, evaluable, solver, transform, transformseq, element, elementseq, types
    from nutils.expression_v2 import Namespace
    out = []

    def add(label, obj):
        out.append((label, obj))

    for shape, label in (([2, 3], 'rect23'), ([2, 2], 'rect22'), ([3], 'line3'), ([2], 'line2')):
        dom, geom = mesh.rectilinear(shape)
        add(label + '.transforms', dom.transforms)
        add(label + '.opposites', dom.opposites)
        add(label + '.references', dom.references)
        add(label + '.boundary.transforms', dom.boundary.transforms)
        add(label + '.boundary.references', dom.boundary.references)
        add(label + '.interfaces.transforms', dom.interfaces.transforms)
        add(label + '.refined.transforms', dom.refined.transforms)
        for deg in (1, 2):
            add(label + '.gauss%d' % deg, dom.sample('gauss', deg))
            add(label + '.bnd.gauss%d' % deg, dom.boundary.sample('gauss', deg))
        add(label + '.bezier2', dom.sample('bezier', 2))
        add(label + '.uniform1', dom.sample('uniform', 1))
        for i in range(len(dom.transforms)):
            add(label + '.trans[%d]' % i, dom.transforms[i])
        add(label + '.ref[0]', dom.references[0])
        add(label + '.refined.ref[0]', dom.refined.references[0])
    for etype in ('triangle', 'mixed', 'square'):
        dom, geom = mesh.unitsquare(2, etype)
        add(etype + '.transforms', dom.transforms)
        add(etype + '.references', dom.references)
        add(etype + '.gauss2', dom.sample('gauss', 2))
        add(etype + '.boundary.transforms', dom.boundary.transforms)
    # expressions
    dom, geom = mesh.rectilinear([2, 2])
    ns = Namespace()
    ns.x = geom
    ns.define_for('x', gradient='∇', normal='n', jacobians=('dV', 'dS'))
    ns.add_field(('u', 'v'), dom.basis('std', degree=1))
    ns.add_field('w', dom.basis('spline', degree=2))
    smp = dom.sample('gauss', 2)
    bsmp = dom.boundary.sample('gauss', 2)
    exprs = {
        'mass': smp.integral('u v dV' @ ns),
        'mass_swapped': smp.integral('v u dV' @ ns),
        'lapl': smp.integral('∇_i(u) ∇_i(v) dV' @ ns),
        'lapl_swapped': smp.integral('∇_i(v) ∇_i(u) dV' @ ns),
        'bnd': bsmp.integral('u n_0 dS' @ ns),
        'nonlin': smp.integral('(u^2 + w) v dV' @ ns),
        'sum': smp.integral('(u + w) dV' @ ns),
        'sum_swapped': smp.integral('(w + u) dV' @ ns),
        'bound': smp.bind('u x_0' @ ns),
    }
    for name, f in exprs.items():
        ev = f.as_evaluable_array
        add('ev.' + name, ev)
        add('ev.' + name + '.simplified', ev.simplified)
        add('ev.' + name + '.optimized', ev.optimized_for_numpy)
        add('compiled.' + name, evaluable.compile(ev))
    d = exprs['lapl'].derivative('v')
    add('ev.dlapl', d.as_evaluable_array)
    add('ev.ddlapl', d.derivative('u').as_evaluable_array)
    add('system.lapl', solver.System(exprs['lapl'], trial='u', test='v'))
    add('system.nonlin', solver.System(exprs['nonlin'], trial='u', test='v'))
    for m in (solver.Direct(), solver.Direct(solver='cg'), solver.Newton(), solver.Newton(atol=1e-8), solver.LinesearchNewton(), solver.Minimize()):
        add('method.{}.{}'.format(type(m).__name__, sorted(getattr(m, 'linargs', {}).items())), m)
    # array data in evaluables
    for a in (numpy.array([1, 2, 3]), numpy.array([1., 2., 3.]), numpy.array([[1, 2], [3, 4]]), numpy.array([True, False]), numpy.arange(6).reshape(2, 3), numpy.arange(6).reshape(3, 2)):
        add('constant.{}.{}'.format(a.dtype, a.shape), evaluable.constant(a))
        add('arraydata.{}.{}'.format(a.dtype, a.shape), types.arraydata(a))
    return out


# ----------------------------------------------------------------------
# worker: hash the same values in another interpreter

def hash_terms(reg, terms):
    """digest (hex) of every term, each value materialised, hashed and dropped before the next"""
    from nutils import types
    out = []
    for t in terms:
        try:
            v = reg.build(t)
        except (Unsupported, AssertionError):
            raise
        except Exception:
            out.append(None)     # reported by the main process
            continue
        out.append(nutils_digest(v))
        del v
    return out


def hash_real(tier):
    from nutils import types
    out = []
    try:
        corpus = real_corpus(tier)
    except Exception as e:
        return 'raise:' + type(e).__name__ + ':' + str(e)[:200]
    for label, obj in corpus:
        try:
            out.append(types.nutils_hash(obj).hex())
        except Exception as e:
            out.append('raise:' + type(e).__name__)
    return out


def main(job, outpath):
    with open(job) as f:
        j = json.load(f)
    reg = Registry(j['classtab'])
    res = dict(seed=__import__('os').environ.get('PYTHONHASHSEED'))
    res['terms'] = hash_terms(reg, j['terms'])
    res['real'] = hash_real(j['tier'])
    if j.get('pickles'):
        from nutils import types
        with open(j['pickles'], 'rb') as f:
            blobs = pickle.load(f)
        ph = []
        for b in blobs:
            if b is None:
                ph.append(None)
                continue
            try:
                ph.append(types.nutils_hash(pickle.loads(b)).hex())
            except Exception as e:
                ph.append('raise:' + type(e).__name__ + ':' + str(e)[:80])
        res['unpickled'] = ph
    with open(outpath, 'w') as f:
        json.dump(res, f)


if __name__ == '__main__':
    main(sys.argv[1], sys.argv[2])
