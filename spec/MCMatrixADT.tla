---------------------------- MODULE MCMatrixADT ----------------------------
(* constant definitions for the model-checking configurations of MatrixADT *)
EXTENDS MatrixADT
Shapes2 == (0..2) \X (0..2)
Shapes3 == (0..3) \X (0..3)
ShapesSub == {<<2, 2>>}
ShapesBig == {<<2, 3>>, <<3, 2>>, <<3, 3>>, <<0, 2>>, <<3, 0>>, <<1, 3>>, <<4, 2>>}
ShapesSq2 == {<<2, 2>>}
NoShapes == {}
=============================================================================
