----------------------------- MODULE ApplyCache -----------------------------
(***************************************************************************)
(* C11, the memo of coordinate maps: design specification of               *)
(* nutils.types.lru_cache (src/nutils/types.py) as it is used by           *)
(* transform.Matrix.apply, Square.invapply and Square.transform_poly, i.e.  *)
(* by every item.apply of transform.apply(chain, points).                  *)
(*                                                                         *)
(* The cache is a state machine over the arrays the caller holds:          *)
(*   buffers   numpy allocations: an address (addresses are REUSED after a  *)
(*             buffer is freed), the writeable flag of the owning array and *)
(*             a content version (bumped by every in-place write)           *)
(*   views     the arrays handed to the coordinate map: the owner itself or *)
(*             a slice/transpose of it -- offset, strides and shape over    *)
(*             the 4 x 2 cells of the buffer; a view of a writeable buffer  *)
(*             may carry its own read-only flag                             *)
(*   cache     entries [key, val, base]: the key the wrapper computes from  *)
(*             the argument (item, data pointer, strides, shape), the       *)
(*             cached image and the buffer whose destruction pops the entry *)
(* One action per thing a caller can do: Alloc, MkView, Mutate, Drop (the   *)
(* last reference frees the buffer: weakref callback = Finalize) and Call   *)
(* (bypass for writeable arguments / hit / miss+store).                     *)
(*                                                                         *)
(* The VALUE of an argument is the matrix of buffer cells it addresses      *)
(* together with the identity and content version of the buffer; the image  *)
(* under item t is the pair of t and that value (the harness computes the   *)
(* exact affine image from it).                                             *)
(*                                                                         *)
(* Property (C11: the affine map of a chain does not depend on history):    *)
(*   Transparent   every call returns the image of the argument passed      *)
(*   EntriesFresh  every cache entry holds the image of what its key        *)
(*                 addresses now, and its base buffer is alive              *)
(* Design toggles (spec mutants, each must violate Transparent):            *)
(*   KeyStrides = FALSE   the key omits the strides                         *)
(*   Finalizer  = FALSE   entries survive the destruction of their buffer   *)
(*   CheckBases = FALSE   only the argument's own writeable flag is checked *)
(***************************************************************************)
EXTENDS Integers, Sequences, FiniteSets, TLC, Json

CONSTANTS MaxBufs,     \* number of allocations in a behaviour
          Addrs,       \* set of addresses
          Items,       \* transform items
          MaxViews,    \* number of arrays (owners and views) in a behaviour
          MaxOps,      \* length of a behaviour
          MaxVer,      \* in-place writes per buffer
          UseKinds,    \* the kinds of views taken (subset of Kinds)
          FirstFit,    \* reduction: an allocation takes the lowest free address (TRUE) or any free address (FALSE)
          KeyStrides, Finalizer, CheckBases

VARIABLES bufs, views, cache, last, hist,
          guarded    \* ghost: <<item, array, content version>> of the calls that bypassed the cache although the array itself is
                     \* read-only (its buffer is writeable): what a design that looks at the argument's own flag only would have cached
vars == <<bufs, views, cache, last, hist, guarded>>
\* identity of a state for the search: everything but the route by which it was reached
StateView == <<bufs, views, cache, last, guarded>>

\* ------------------------------------------------------------------ views on a 4 x 2 buffer (row-major cells 0..7)
Kinds == {"full", "even", "head", "headT", "odd", "mid", "tail", "rev"}
Geo(k) == CASE k = "full"  -> [off |-> 0, st |-> <<2, 1>>,  sh |-> <<4, 2>>]     \* a[:]
            [] k = "even"  -> [off |-> 0, st |-> <<4, 1>>,  sh |-> <<2, 2>>]     \* a[::2]
            [] k = "head"  -> [off |-> 0, st |-> <<2, 1>>,  sh |-> <<2, 2>>]     \* a[:2]
            [] k = "headT" -> [off |-> 0, st |-> <<1, 2>>,  sh |-> <<2, 2>>]     \* a[:2].T
            [] k = "odd"   -> [off |-> 2, st |-> <<4, 1>>,  sh |-> <<2, 2>>]     \* a[1::2]
            [] k = "mid"   -> [off |-> 2, st |-> <<2, 1>>,  sh |-> <<2, 2>>]     \* a[1:3]
            [] k = "tail"  -> [off |-> 4, st |-> <<2, 1>>,  sh |-> <<2, 2>>]     \* a[2:]
            [] k = "rev"   -> [off |-> 6, st |-> <<-2, 1>>, sh |-> <<4, 2>>]     \* a[::-1]
Cells(k) == LET g == Geo(k) IN [i \in 1..g.sh[1] |-> [j \in 1..g.sh[2] |-> g.off + (i - 1) * g.st[1] + (j - 1) * g.st[2]]]

NoBuf == [st |-> "none", addr |-> 0, wr |-> FALSE, ver |-> 0]
NoView == [st |-> "none", buf |-> 0, kind |-> "none", ro |-> FALSE, owner |-> FALSE]
Dropped == [st |-> "dropped", buf |-> 0, kind |-> "none", ro |-> FALSE, owner |-> FALSE]
NoCall == [view |-> 0, item |-> 0, how |-> "none", res |-> <<>>, want |-> <<>>]

LiveBufs == {b \in 1..MaxBufs : bufs[b].st = "live"}
LiveViews == {v \in 1..MaxViews : views[v].st = "live"}
ViewsOf(b) == {v \in LiveViews : views[v].buf = b}
FreeAddrs == Addrs \ {bufs[b].addr : b \in LiveBufs}
NextBuf == CHOOSE b \in 1..MaxBufs : bufs[b].st = "none" /\ \A c \in 1..(b - 1) : bufs[c].st # "none"
NextView == CHOOSE v \in 1..MaxViews : views[v].st = "none" /\ \A w \in 1..(v - 1) : views[w].st # "none"
HasBuf == \E b \in 1..MaxBufs : bufs[b].st = "none"
HasView == \E v \in 1..MaxViews : views[v].st = "none"

\* what __array_interface__ reports for array v
Ptr(v) == bufs[views[v].buf].addr * 100 + Geo(views[v].kind).off
Key(t, v) == <<t, Ptr(v), IF KeyStrides THEN Geo(views[v].kind).st ELSE <<0, 0>>, Geo(views[v].kind).sh>>
\* the value of array v now, and its image under item t
Value(v) == [buf |-> views[v].buf, ver |-> bufs[views[v].buf].ver, cells |-> Cells(views[v].kind)]
Image(t, v) == <<t, Value(v)>>
\* "for base in _array_bases(arg): if base.flags.writeable: return func(args)"
Bypass(v) == IF CheckBases THEN ~views[v].ro \/ bufs[views[v].buf].wr ELSE ~views[v].ro

Init == /\ bufs = [b \in 1..MaxBufs |-> NoBuf]
        /\ views = [v \in 1..MaxViews |-> NoView]
        /\ cache = {}
        /\ last = NoCall
        /\ hist = <<>>
        /\ guarded = {}

Room == Len(hist) < MaxOps
Log(op) == hist' = Append(hist, op)
Op(name, b, v, k, f, t) == [op |-> name, b |-> b, v |-> v, kind |-> k, flag |-> f, t |-> t, addr |-> 0, how |-> "none", ncache |-> 0, want |-> <<>>]

\* numpy.array(...) / types.frozenarray(...): a new buffer at any address that is free now, held through its owner array
Alloc(a, wr) == /\ Room /\ HasBuf /\ HasView /\ a \in FreeAddrs
                /\ (FirstFit => \A c \in FreeAddrs : a <= c)
                /\ bufs' = [bufs EXCEPT ![NextBuf] = [st |-> "live", addr |-> a, wr |-> wr, ver |-> 0]]
                /\ views' = [views EXCEPT ![NextView] = [st |-> "live", buf |-> NextBuf, kind |-> "full", ro |-> ~wr, owner |-> TRUE]]
                /\ Log([Op("alloc", NextBuf, NextView, "full", wr, 0) EXCEPT !.addr = a])
                /\ UNCHANGED <<cache, last, guarded>>
\* a[::2], a[:2].T, ...: views of a frozen array are frozen; a view of a writeable array may be made read-only
MkView(b, k, ro) == /\ Room /\ HasView /\ b \in LiveBufs /\ ViewsOf(b) # {}
                    /\ (~bufs[b].wr => ro)
                    /\ views' = [views EXCEPT ![NextView] = [st |-> "live", buf |-> b, kind |-> k, ro |-> ro, owner |-> FALSE]]
                    /\ Log(Op("view", b, NextView, k, ro, 0))
                    /\ UNCHANGED <<bufs, cache, last, guarded>>
\* in-place write through the writeable owner
Mutate(b) == /\ Room /\ b \in LiveBufs /\ bufs[b].wr /\ bufs[b].ver < MaxVer
             /\ bufs' = [bufs EXCEPT ![b].ver = @ + 1]
             /\ Log(Op("mutate", b, 0, "none", FALSE, 0))
             /\ UNCHANGED <<views, cache, last, guarded>>
\* del v; the last reference frees the buffer, and the weakref callback pops the entries registered on it
Drop(v) == /\ Room /\ v \in LiveViews
           /\ LET b == views[v].buf
                  dies == ViewsOf(b) = {v}
              IN /\ views' = [views EXCEPT ![v] = Dropped]
                 /\ bufs' = IF dies THEN [bufs EXCEPT ![b].st = "freed"] ELSE bufs
                 /\ cache' = IF dies /\ Finalizer THEN {e \in cache : e.base # b} ELSE cache
                 /\ Log([Op("drop", b, v, "none", dies, 0) EXCEPT !.ncache = Cardinality(cache')])
           /\ guarded' = {g \in guarded : g[2] # v}
           /\ UNCHANGED last
\* item.apply(v) through the wrapper
CallWith(t, v, how, res, cache2) ==
    /\ cache' = cache2
    /\ last' = [view |-> v, item |-> t, how |-> how, res |-> res, want |-> Image(t, v)]
    /\ Log([Op("call", views[v].buf, v, views[v].kind, FALSE, t) EXCEPT !.how = how, !.ncache = Cardinality(cache2), !.want = res])
    /\ UNCHANGED <<bufs, views>>
CallBypass(t, v) == /\ Room /\ v \in LiveViews /\ Bypass(v)
                    /\ CallWith(t, v, "bypass", Image(t, v), cache)
                    /\ guarded' = IF views[v].ro THEN guarded \cup {<<t, v, bufs[views[v].buf].ver>>} ELSE guarded
CallHit(t, v) == /\ Room /\ v \in LiveViews /\ ~Bypass(v)
                 /\ \E e \in cache : e.key = Key(t, v) /\ CallWith(t, v, "hit", e.val, cache)
                 /\ UNCHANGED guarded
CallMiss(t, v) == /\ Room /\ v \in LiveViews /\ ~Bypass(v)
                  /\ ~\E e \in cache : e.key = Key(t, v)
                  /\ CallWith(t, v, "miss", Image(t, v), cache \cup {[key |-> Key(t, v), val |-> Image(t, v), base |-> views[v].buf]})
                  /\ UNCHANGED guarded

Next == \/ \E a \in Addrs, wr \in BOOLEAN : Alloc(a, wr)
        \/ \E b \in 1..MaxBufs, k \in UseKinds \ {"full"}, ro \in BOOLEAN : MkView(b, k, ro)
        \/ \E b \in 1..MaxBufs : Mutate(b)
        \/ \E v \in 1..MaxViews : Drop(v)
        \/ \E t \in Items, v \in 1..MaxViews : CallBypass(t, v) \/ CallHit(t, v) \/ CallMiss(t, v)
Spec == Init /\ [][Next]_vars

\* ------------------------------------------------------------------ property clauses
Transparent == last.res = last.want
\* an entry is only ever consulted for an argument with the entry's key: what it holds must be the image of the cells
\* that key addresses in the buffer that lives at that address now
EntriesFresh == \A e \in cache : /\ e.base \in LiveBufs
                                 /\ e.val[2].buf = e.base /\ e.val[2].ver = bufs[e.base].ver
KeysDistinct == \A e, f \in cache : e.key = f.key => e = f
\* garbage collection of keys: nothing is cached for buffers that are gone
NoLeak == \A e \in cache : bufs[e.base].st = "live"
TypeOK == /\ \A b \in 1..MaxBufs : bufs[b].st \in {"none", "live", "freed"}
          /\ \A v \in LiveViews : views[v].buf \in LiveBufs
          /\ \A b, c \in LiveBufs : b # c => bufs[b].addr # bufs[c].addr

Emit(x) == PrintT(<<"VF", ToJson(x)>>)
\* behaviours for the replay: the route to every distinct (state, last call)
EmitCall == (Len(hist) > 0 /\ hist[Len(hist)].op = "call") => Emit(hist)
\* simulation: whole random behaviours (states that the correct design identifies are reached by many routes, and a
\* wrong implementation may tell the routes apart)
EmitFull == Len(hist) = MaxOps => Emit(hist)
\* the stuttering step Done prints the behaviour of the walk that was actually taken (an invariant is also evaluated
\* on every successor the random walk does not choose)
Done == Len(hist) = MaxOps /\ Emit(hist) /\ UNCHANGED vars
SimSpec == Init /\ [][Next \/ Done]_vars
=============================================================================
