--------------------------- MODULE TransformChain ---------------------------
(***************************************************************************)
(* C11, vocabulary: transform items, their exact affine maps, the swap     *)
(* rules and the chain rewritings canonical / uppermost / promote of       *)
(* src/nutils/transform.py.                                                *)
(*                                                                         *)
(* References.  A reference element is a product of simplices and is       *)
(* written as the sequence d of its simplex dimensions (all >= 1); <<>> is *)
(* the point, <<1>> the line, <<2>> the triangle, <<1,1>> the square,      *)
(* <<2,1>> the prism ... (nutils nests TensorReference to the right and    *)
(* drops 0-dimensional factors, element.py:100-107,606-616, so the flat    *)
(* sequence is a faithful name of the nested object).                      *)
(*                                                                         *)
(* Items are records [t, d, c, s] (all four fields always present so that  *)
(* TLC can compare any two items):                                         *)
(*   t = "X"  Index(ndims = c[1], index = c[2])        identity map        *)
(*   t = "I"  Identity(ndims = c[1])                                       *)
(*   t = "C"  child of reference d, c[k] = child number in factor k        *)
(*            (SimplexChild / right nested TensorChild)                    *)
(*   t = "E"  edge c[2] of factor c[1] of reference d                      *)
(*            (SimplexEdge / TensorEdge1 / TensorEdge2 nests)              *)
(*   t = "S"  ScaledUpdim(s[1], s[2])                                      *)
(*                                                                         *)
(* Affine maps are exact dyadic: [m, n, e, A, b] denotes                   *)
(*   x in Q^n |-> (A x + b) / 2^e in Q^m   (A = m rows of n integers),     *)
(* always normalised (e minimal).                                          *)
(***************************************************************************)
EXTENDS Integers, Sequences, FiniteSets, TLC

\* ------------------------------------------------------------------ integers
RECURSIVE TcPow2(_)
TcPow2(k) == IF k <= 0 THEN 1 ELSE 2 * TcPow2(k - 1)
RECURSIVE TcSum(_)
TcSum(s) == IF Len(s) = 0 THEN 0 ELSE s[1] + TcSum(Tail(s))
TcPre(s, k) == SubSeq(s, 1, k)                    \* first k entries
TcPost(s, k) == SubSeq(s, k + 1, Len(s))          \* all but the first k entries
TcDrop(s, k) == TcPre(s, k - 1) \o TcPost(s, k)   \* s without entry k
TcSet(s, k, v) == [s EXCEPT ![k] = v]
TcIns(s, k, v) == TcPre(s, k - 1) \o <<v>> \o TcPost(s, k - 1)   \* insert v so that it becomes entry k

\* ------------------------------------------------------------------ affine maps
RECURSIVE TcDot(_, _, _, _)
\* sum_{t <= k} row[t] * B[t][c]
TcDot(row, B, c, k) == IF k = 0 THEN 0 ELSE row[k] * B[k][c] + TcDot(row, B, c, k - 1)
RECURSIVE TcDotV(_, _, _)
TcDotV(row, v, k) == IF k = 0 THEN 0 ELSE row[k] * v[k] + TcDotV(row, v, k - 1)

AllEven(F) == /\ \A r \in 1..F.m : F.b[r] % 2 = 0
              /\ \A r \in 1..F.m : \A c \in 1..F.n : F.A[r][c] % 2 = 0
RECURSIVE MapNorm(_)
MapNorm(F) == IF F.e > 0 /\ AllEven(F)
              THEN MapNorm(TLCEval([m |-> F.m, n |-> F.n, e |-> F.e - 1,
                            A |-> [r \in 1..F.m |-> [c \in 1..F.n |-> F.A[r][c] \div 2]],
                            b |-> [r \in 1..F.m |-> F.b[r] \div 2]]))
              ELSE F
IdMap(n) == TLCEval([m |-> n, n |-> n, e |-> 0,
             A |-> [r \in 1..n |-> [c \in 1..n |-> IF r = c THEN 1 ELSE 0]],
             b |-> [r \in 1..n |-> 0]])
\* F after G
Compose(F, G) == MapNorm(TLCEval([m |-> F.m, n |-> G.n, e |-> F.e + G.e,
                          A |-> [r \in 1..F.m |-> [c \in 1..G.n |-> TcDot(F.A[r], G.A, c, F.n)]],
                          b |-> [r \in 1..F.m |-> TcDotV(F.A[r], G.b, F.n) + F.b[r] * TcPow2(G.e)]]))
\* the same map at a larger exponent (not normalised; only used inside BlockDiag)
Rescale(F, e) == LET k == TcPow2(e - F.e)
                 IN TLCEval([m |-> F.m, n |-> F.n, e |-> e,
                     A |-> [r \in 1..F.m |-> [c \in 1..F.n |-> F.A[r][c] * k]],
                     b |-> [r \in 1..F.m |-> F.b[r] * k]])
BlockDiag(F0, G0) ==
    LET e == IF F0.e > G0.e THEN F0.e ELSE G0.e
        F == Rescale(F0, e)
        G == Rescale(G0, e)
    IN MapNorm(TLCEval([m |-> F.m + G.m, n |-> F.n + G.n, e |-> e,
                A |-> [r \in 1..(F.m + G.m) |-> [c \in 1..(F.n + G.n) |->
                         IF r <= F.m THEN (IF c <= F.n THEN F.A[r][c] ELSE 0)
                         ELSE (IF c > F.n THEN G.A[r - F.m][c - F.n] ELSE 0)]],
                b |-> [r \in 1..(F.m + G.m) |-> IF r <= F.m THEN F.b[r] ELSE G.b[r - F.m]]]))

\* ------------------------------------------------------------------ simplex tables
\* SimplexChild(n, c), transform.py:309-335, entries times 2
SimplexChildMap(n, c) ==
    LET std == [m |-> n, n |-> n, e |-> 1,
                A |-> [r \in 1..n |-> [k \in 1..n |-> IF r = k THEN 1 ELSE 0]],
                b |-> [r \in 1..n |-> IF c > 0 /\ r = c THEN 1 ELSE 0]]
        mk(A, b) == [m |-> n, n |-> n, e |-> 1, A |-> A, b |-> b]
    IN IF n = 0 THEN IdMap(0)
       ELSE IF c <= n THEN std
       ELSE IF n = 2 /\ c = 3 THEN mk(<< <<-1, 0>>, <<1, 1>> >>, <<1, 0>>)
       ELSE IF n = 3 /\ c = 4 THEN mk(<< <<-1, 0, -1>>, <<1, 1, 0>>, <<0, 0, 1>> >>, <<1, 0, 0>>)
       ELSE IF n = 3 /\ c = 5 THEN mk(<< <<0, -1, 0>>, <<1, 0, 0>>, <<0, 1, 1>> >>, <<1, 0, 0>>)
       ELSE IF n = 3 /\ c = 6 THEN mk(<< <<1, 0, 0>>, <<0, -1, 0>>, <<0, 1, 1>> >>, <<0, 1, 0>>)
       ELSE mk(<< <<-1, 0, -1>>, <<-1, -1, 0>>, <<1, 1, 1>> >>, <<1, 1, 0>>)   \* n = 3, c = 7
\* SimplexEdge(n, e): the facet opposite to vertex e; vertex 0 is the origin, vertex k the k-th unit vector
SimplexVertex(n, k) == [r \in 1..n |-> IF r = k THEN 1 ELSE 0]
EdgeKept(e, idx) == IF idx - 1 < e THEN idx - 1 ELSE idx      \* idx-th (1-based) vertex number that is not e
SimplexEdgeMap(n, e) ==
    [m |-> n, n |-> n - 1, e |-> 0,
     A |-> [r \in 1..n |-> [c \in 1..(n - 1) |-> SimplexVertex(n, EdgeKept(e, c + 1))[r] - SimplexVertex(n, EdgeKept(e, 1))[r]]],
     b |-> [r \in 1..n |-> SimplexVertex(n, EdgeKept(e, 1))[r]]]
\* SimplexEdge.swap, transform.py:267-272: SwapTab[e + 1][c + 1] = <<ichild, iedge>> such that
\* edge(e) o child(c)  =  child(ichild) o edge(iedge)
SwapTab == << << <<1, 0>>, <<2, 0>>, <<3, 0>>, <<7, 1>> >>,
              << <<0, 1>>, <<2, 1>>, <<3, 1>>, <<6, 1>> >>,
              << <<0, 2>>, <<1, 2>>, <<3, 2>>, <<5, 1>> >>,
              << <<0, 3>>, <<1, 3>>, <<2, 3>>, <<4, 3>> >> >>

\* ------------------------------------------------------------------ items
MkX(n, i) == [t |-> "X", d |-> <<>>, c |-> <<n, i>>, s |-> <<>>]
MkI(n) == [t |-> "I", d |-> <<>>, c |-> <<n>>, s |-> <<>>]
MkC(d, cs) == [t |-> "C", d |-> d, c |-> cs, s |-> <<>>]
MkE(d, j, e) == [t |-> "E", d |-> d, c |-> <<j, e>>, s |-> <<>>]
MkS(a, b) == [t |-> "S", d |-> <<>>, c |-> <<>>, s |-> <<a, b>>]
NoSwap == <<>>

\* reference a child / edge item maps from
EdgeFromRef(d, j) == IF d[j] = 1 THEN TcDrop(d, j) ELSE TcSet(d, j, d[j] - 1)
RECURSIVE ToDims(_)
RECURSIVE FromDims(_)
ToDims(it) == IF it.t \in {"X", "I"} THEN it.c[1]
              ELSE IF it.t \in {"C", "E"} THEN TcSum(it.d)
              ELSE ToDims(it.s[1])
FromDims(it) == IF it.t \in {"X", "I"} THEN it.c[1]
                ELSE IF it.t = "C" THEN TcSum(it.d)
                ELSE IF it.t = "E" THEN TcSum(it.d) - 1
                ELSE FromDims(it.s[2])
RECURSIVE FromRef(_)
\* only defined for C / E / S items
FromRef(it) == IF it.t = "C" THEN it.d
               ELSE IF it.t = "E" THEN EdgeFromRef(it.d, it.c[1])
               ELSE FromRef(it.s[2])
IsChild(it) == it.t = "C"
IsTensorChild(it) == it.t = "C" /\ Len(it.d) >= 2
NChildren(d) == TcPow2(TcSum(d))
NEdges(d) == TcSum(d) + Len(d)

RECURSIVE ChildMapFrom(_, _, _)
ChildMapFrom(d, cs, k) == IF k > Len(d) THEN IdMap(0)
                          ELSE BlockDiag(SimplexChildMap(d[k], cs[k]), ChildMapFrom(d, cs, k + 1))
RECURSIVE ItemMap(_)
ItemMap(it) ==
    IF it.t \in {"X", "I"} THEN IdMap(it.c[1])
    ELSE IF it.t = "C" THEN ChildMapFrom(it.d, it.c, 1)
    ELSE IF it.t = "E" THEN
        LET j == it.c[1]
        IN BlockDiag(IdMap(TcSum(TcPre(it.d, j - 1))),
                     BlockDiag(SimplexEdgeMap(it.d[j], it.c[2]), IdMap(TcSum(TcPost(it.d, j)))))
    ELSE Compose(ItemMap(it.s[1]), ItemMap(it.s[2]))
RECURSIVE ChainMap(_, _)
\* map of a chain (first item outermost); n0 = dimension of the empty chain
ChainMap(chain, n0) == IF Len(chain) = 0 THEN IdMap(n0)
                       ELSE IF Len(chain) = 1 THEN ItemMap(chain[1])
                       ELSE Compose(ItemMap(chain[1]), ChainMap(Tail(chain), n0))
ChainFromDims(chain, n0) == IF Len(chain) = 0 THEN n0 ELSE FromDims(chain[Len(chain)])
ChainToDims(chain, n0) == IF Len(chain) = 0 THEN n0 ELSE ToDims(chain[1])
\* consecutive items fit
WellFormedChain(chain) == \A k \in 1..(Len(chain) - 1) : FromDims(chain[k]) = ToDims(chain[k + 1])

\* ------------------------------------------------------------------ swap rules
\* edge.swapup(other): (edge, other) -> (child, edge') with the same composition, or NoSwap
SwapUp(edge, other) ==
    IF edge.t = "E" /\ other.t = "C" /\ other.d = EdgeFromRef(edge.d, edge.c[1]) THEN
        LET d == edge.d
            j == edge.c[1]
            dropped == d[j] = 1
            sub == IF dropped THEN 0 ELSE other.c[j]
            p == SwapTab[edge.c[2] + 1][sub + 1]
            cs == IF dropped THEN TcIns(other.c, j, p[1]) ELSE TcSet(other.c, j, p[1])
        IN <<MkC(d, cs), MkE(d, j, p[2])>>
    ELSE IF edge.t = "S" /\ other.t = "I" THEN <<edge.s[1], edge.s[2]>>
    ELSE NoSwap
\* edge.swapdown(other): (other, edge) -> (edge', child') with the same composition, or NoSwap
SwapDownHits(n, c, e) == {p \in (0..n) \X (0..(TcPow2(n - 1) - 1)) : SwapTab[p[1] + 1][p[2] + 1] = <<c, e>>}
SwapDown(other, edge) ==
    IF edge.t = "E" /\ other.t = "C" /\ other.d = edge.d THEN
        LET d == edge.d
            j == edge.c[1]
            hits == SwapDownHits(d[j], other.c[j], edge.c[2])
        IN IF hits # {} THEN
               LET p == CHOOSE q \in hits : \A r \in hits : q[1] < r[1] \/ (q[1] = r[1] /\ q[2] <= r[2])
                   cs == IF d[j] = 1 THEN TcDrop(other.c, j) ELSE TcSet(other.c, j, p[2])
               IN <<MkE(d, j, p[1]), MkC(EdgeFromRef(d, j), cs)>>
           ELSE IF Len(d) >= 2 THEN <<MkS(other, edge), MkI(FromDims(edge))>>
           ELSE NoSwap
    ELSE IF edge.t = "S" /\ IsTensorChild(other) THEN <<MkS(other, edge), MkI(FromDims(edge))>>
    ELSE NoSwap

\* ------------------------------------------------------------------ chain rewriting, one loop iteration each
\* canonical, transform.py:31-45; state <<items, p>> with p the 1-based position of python's items[i]
CanonGo(items, p) == FromDims(items[p]) > FromDims(items[Len(items)])
CanonStep(items, p) ==
    LET sw == SwapDown(items[p], items[p + 1])
    IN IF sw # NoSwap THEN <<[[items EXCEPT ![p] = sw[1]] EXCEPT ![p + 1] = sw[2]], IF p > 1 THEN p - 1 ELSE p>>
       ELSE <<items, p + 1>>
\* uppermost, transform.py:52-66; p = python's i (1-based position of items[i-1])
UpperGo(items, p) == ToDims(items[p]) < ToDims(items[1])
UpperStep(items, p) ==
    LET sw == SwapUp(items[p - 1], items[p])
    IN IF sw # NoSwap THEN <<[[items EXCEPT ![p - 1] = sw[1]] EXCEPT ![p] = sw[2]], IF p < Len(items) THEN p + 1 ELSE p>>
       ELSE <<items, p - 1>>
\* loop budget: a generous bound on the number of iterations; reaching it means "does not terminate"
Fuel(n) == 4 * n * n + 8
Diverged == <<MkX(0, 999)>>
RECURSIVE CanonLoop(_, _, _)
CanonLoop(items, p, fuel) == IF ~CanonGo(items, p) THEN items
                             ELSE IF fuel = 0 THEN Diverged
                             ELSE LET st == CanonStep(items, p) IN CanonLoop(st[1], st[2], fuel - 1)
Canonical(chain) == IF Len(chain) < 2 THEN chain ELSE CanonLoop(chain, 1, Fuel(Len(chain)))
RECURSIVE UpperLoop(_, _, _)
UpperLoop(items, p, fuel) == IF ~UpperGo(items, p) THEN items
                             ELSE IF fuel = 0 THEN Diverged
                             ELSE LET st == UpperStep(items, p) IN UpperLoop(st[1], st[2], fuel - 1)
Uppermost(chain) == IF Len(chain) < 2 THEN chain ELSE UpperLoop(chain, Len(chain), Fuel(Len(chain)))
\* promote, transform.py:69-75
PromoteSplit(chain, ndims) == {k \in 1..Len(chain) : FromDims(chain[k]) = ndims}
Promote(chain, ndims) ==
    LET ks == PromoteSplit(chain, ndims)
    IN IF ks = {} THEN chain
       ELSE LET k == CHOOSE x \in ks : \A y \in ks : x <= y
            IN Canonical(TcPre(chain, k)) \o Uppermost(TcPost(chain, k))
IsCanonical(chain) == \A k \in 1..(Len(chain) - 1) : SwapDown(chain[k], chain[k + 1]) = NoSwap

\* ------------------------------------------------------------------ enumeration helpers
\* all child-index tuples of reference d
ChildTuples(d) == {cs \in [1..Len(d) -> 0..7] : \A k \in 1..Len(d) : cs[k] < TcPow2(d[k])}
ChildItems(d) == {MkC(d, cs) : cs \in ChildTuples(d)}
EdgeItems(d) == {MkE(d, q[1], q[2]) : q \in {q \in (1..Len(d)) \X (0..3) : q[2] <= d[q[1]]}}
\* k-th child / edge in the order of Reference.child_transforms / edge_transforms (0-based k)
RECURSIVE ChildTupleOf(_, _, _)
\* row-major: first factor is most significant (element.py:720)
ChildTupleOf(d, k, pos) == IF pos > Len(d) THEN <<>>
                           ELSE LET rest == TcPow2(TcSum(TcPost(d, pos)))
                                IN <<k \div rest>> \o ChildTupleOf(d, k % rest, pos + 1)
ChildNo(d, k) == MkC(d, ChildTupleOf(d, k, 1))
RECURSIVE EdgeNoFrom(_, _, _)
EdgeNoFrom(d, k, j) == IF k <= d[j] THEN MkE(d, j, k) ELSE EdgeNoFrom(d, k - d[j] - 1, j + 1)
EdgeNo(d, k) == EdgeNoFrom(d, k, 1)
ChildSeq(d) == [k \in 1..NChildren(d) |-> ChildNo(d, k - 1)]
EdgeSeq(d) == [k \in 1..NEdges(d) |-> EdgeNo(d, k - 1)]
\* position (0-based) of an item in a sequence of items, -1 if absent
PosIn(seq, it) == IF \E k \in 1..Len(seq) : seq[k] = it THEN (CHOOSE k \in 1..Len(seq) : seq[k] = it) - 1 ELSE -1
=============================================================================
