"""Program generation through the ExprBuilder TLA+ state machine and parallel replay helpers."""

import json
import multiprocessing
import os
import random
import signal

from . import tlc, dag

CFG = '''SPECIFICATION Spec
CONSTANTS
  Families <- VFFamilies
  EmitMin = {EmitMin}
INVARIANT ShapeSound
INVARIANT IxSound
CONSTRAINT EmitComplete
CHECK_DEADLOCK FALSE
'''


def canon(nodes):
    return json.dumps([[n['op'], n['d'], n['p'], n['sh'], n['dt']] for n in nodes], separators=(',', ':'))


def _famdef(f):
    return 'Fam({}, {}, {}, {}, {})'.format(f.get('Ops', 'AllOps'), f.get('LeafSet', 'AllLeaves'), f['MaxNodes'], f['MaxOps'], f['MaxLeaves'])


def generate_multi(rep, tag, families, *, EmitMin=1, simulate=None, depth=None, seed=0, exhaustive=False, timeout=900):
    """run ExprBuilder once over a list of vocabularies (dicts with Ops, LeafSet, MaxNodes, MaxOps, MaxLeaves; the
    family is chosen in the initial state); returns a list (per family) of lists of distinct programs"""
    defs = 'VFFamilies == << ' + ',\n  '.join(_famdef(f) for f in families) + ' >>'
    p = os.path.join(tlc.workdir(tag + '-defs'), 'MCExprBuilderX.tla')
    with open(p, 'w') as f:
        f.write('---- MODULE MCExprBuilderX ----\nEXTENDS MCExprBuilder\n' + defs + '\n====\n')
    kw = {}
    if simulate:
        kw = dict(simulate=dict(num=simulate), depth=depth or max(f['MaxNodes'] for f in families) + 1, seed=seed)
    res = tlc.run('MCExprBuilderX', cfg_text=CFG.format(EmitMin=EmitMin), tag=tag, workers=1 if simulate else None,
                  deadlock=False, timeout=timeout, extra_modules=[p], coverage=False, **kw)
    if res.violated:
        raise tlc.TLCError('ExprBuilder internal invariant {} violated'.format(res.violated))
    rep.add_tlc(res, exhaustive=exhaustive)
    seen = [dict() for _ in families]
    for e in res.emitted:
        seen[e['fam'] - 1].setdefault(canon(e['nodes']), e['nodes'])
    return [list(d.values()) for d in seen]


def generate(rep, tag, *, MaxNodes, MaxOps, MaxLeaves, Ops='AllOps', LeafSet='AllLeaves', EmitMin=1,
             simulate=None, depth=None, seed=0, exhaustive=False, timeout=600, extra_defs=''):
    """single-vocabulary convenience wrapper around generate_multi"""
    return generate_multi(rep, tag, [dict(Ops=Ops, LeafSet=LeafSet, MaxNodes=MaxNodes, MaxOps=MaxOps, MaxLeaves=MaxLeaves)],
                          EmitMin=EmitMin, simulate=simulate, depth=depth, seed=seed, exhaustive=exhaustive, timeout=timeout)[0]


def interesting(nodes):
    """score used to prioritise programs: prefers argument dependence, loops, structural ops"""
    ops = [n['op'] for n in nodes]
    s = 0
    s += 3 * min(2, sum(o == 'Arg' for o in ops))
    s += 2 * any(o in ('LoopSum', 'LoopConcat') for o in ops)
    s += len(set(ops) & {'Inflate', 'Take', 'TakeDiag', 'Diagonalize', 'Ravel', 'Unravel', 'Transpose', 'InsertAxis', 'Choose', 'Power', 'Sum', 'Multiply', 'Add'})
    s += len({tuple(n['d']) for n in nodes if n['d']}) > 2
    # extended vocabulary (none of these occurs in base programs): prefer the shapes that the rewrite / codegen rules act on
    for n in nodes:
        op = n['op']
        if op == 'Einsum' and any(nodes[d - 1]['op'] in ('Transpose', 'InsertAxis') for d in n['d']):
            s += 4
        elif op == 'SearchSorted':
            s += 2 * (n['p'][0] == 1) + (len(n['d']) == 3)
        elif op == 'LoopConcat' and n['p'][2] == 0:
            s += 4
        elif op in ('PolyGrad', 'PolyMul'):
            s += 2 + 3 * (nodes[n['d'][0] - 1]['sh'][-1:] >= [3])     # at least degree 1 in two variables / 2 in one
        elif op == 'Legendre':
            s += 2 * (n['p'][0] >= 2)
        elif op in ('LoopSumN', 'UniqueInverse', 'Monomial'):
            s += 2
        elif op in ('Real', 'Imag', 'Conjugate') and nodes[n['d'][0] - 1]['op'] in ('FloatToComplex', 'Multiply', 'Add'):
            s += 2
    return s


def cover_leaves(programs, per_leaf, rng):
    """choose programs such that every leaf of the pool occurs in at least `per_leaf` of them (if available)"""
    byleaf = {}
    progs = [p for p in programs if not dag.unstable(p)]
    rng.shuffle(progs)
    for p in progs:
        for n in p:
            if not n['d']:
                byleaf.setdefault(json.dumps([n['op'], n['p'], n['sh'], n['dt']]), []).append(p)
    out, seen = [], set()
    for leaf, ps in sorted(byleaf.items()):
        for p in ps[:per_leaf]:
            c = canon(p)
            if c not in seen:
                seen.add(c)
                out.append(p)
    return out


def select(programs, k, rng, need_arg=False):
    progs = [p for p in programs if (not need_arg or any(n['op'] == 'Arg' for n in p)) and not dag.unstable(p)]
    rng.shuffle(progs)
    progs.sort(key=lambda p: -interesting(p) - rng.random())
    # keep a mix: top half by score, rest random
    top = progs[:k // 2]
    rest = progs[k // 2:]
    rng.shuffle(rest)
    return top + rest[:k - len(top)]


# ---------------------------------------------------------------------------
# parallel replay with watchdog

class Timeout(Exception):
    pass


def _alarm(signum, frame):
    raise Timeout()


def with_timeout(seconds, fn, *args, **kw):
    """watchdog in CPU time of this process (ITIMER_PROF), so that a loaded machine cannot turn a slow but
    terminating computation into a 'does not terminate' verdict; a generous wall-clock backstop (20 x) catches
    blocking (non CPU-bound) hangs"""
    old = signal.signal(signal.SIGALRM, _alarm)
    oldp = signal.signal(signal.SIGPROF, _alarm)
    signal.setitimer(signal.ITIMER_PROF, seconds, 0.5)   # re-fires: an exception raised inside a weakref/GC callback is swallowed
    signal.setitimer(signal.ITIMER_REAL, 20 * seconds, 0.5)
    try:
        return fn(*args, **kw)
    finally:
        signal.setitimer(signal.ITIMER_PROF, 0)
        signal.setitimer(signal.ITIMER_REAL, 0)
        signal.signal(signal.SIGALRM, old)
        signal.signal(signal.SIGPROF, oldp)


def _worker(payload):
    fn, item = payload
    try:
        return fn(item)
    except BaseException as e:  # the per-item function reports nutils failures itself; this is harness trouble
        import traceback
        return dict(harness_error=traceback.format_exc())


def pmap(fn, items, nproc=None, chunksize=4):
    nproc = nproc or min(16, os.cpu_count() or 4)
    if len(items) < 8:
        return [_worker((fn, it)) for it in items]
    ctx = multiprocessing.get_context('fork')
    with ctx.Pool(nproc, maxtasksperchild=200) as pool:
        return pool.map(_worker, [(fn, it) for it in items], chunksize=chunksize)


# ---------------------------------------------------------------------------
# shrinking of failing programs to a root-cause skeleton

def _retarget(nodes, k, repl):
    """replace node k (1-based) by `repl`: an int (use that earlier node instead) or a leaf dict; drop dead nodes"""
    new = [dict(n, d=list(n['d']), sh=list(n['sh'])) for n in nodes]
    if isinstance(repl, int):
        for n in new[k:]:
            n['d'] = [repl if x == k else x for x in n['d']]
            n['sh'] = [-repl if x == -k else x for x in n['sh']]     # loop dependent axis lengths refer to nodes as -position
        if k == len(new):      # replacing the root by an operand: root becomes that operand
            new = new[:repl]
    else:
        new[k - 1] = dict(repl)
    # remove nodes not reachable from the root
    root = len(new)
    live = set()
    stack = [root]
    while stack:
        x = stack.pop()
        if x in live:
            continue
        live.add(x)
        stack.extend(new[x - 1]['d'])
        stack.extend(-x for x in new[x - 1]['sh'] if x < 0)
    order = sorted(live)
    remap = {old: i + 1 for i, old in enumerate(order)}
    out = []
    for old in order:
        n = dict(new[old - 1])
        n['d'] = [remap[x] for x in n['d']]
        n['sh'] = [-remap[-x] if x < 0 else x for x in n['sh']]
        out.append(n)
    return out


def _const_leaf(n):
    size = 1
    for s in n['sh']:
        size *= s
    vals = [1 + (i % 2) for i in range(size)] if n['dt'] != 'b' else [i % 2 for i in range(size)]
    if n.get('ix', 0):
        vals = [i % n['ix'] for i in range(size)]
    p = []
    for v in vals:
        p += [v, 1]
    return dict(op='Const', d=[], p=p, sh=list(n['sh']), dt=n['dt'], ix=n.get('ix', 0), cl=True)


def shrink(nodes, outcome, want, max_rounds=6):
    """greedy structural shrinking. outcome(list of programs) -> list of outcome labels; a candidate is
    accepted when its label equals `want`.  Returns the shrunk program."""
    cur = nodes
    for _ in range(max_rounds):
        cands = []
        for k in range(len(cur), 0, -1):
            n = cur[k - 1]
            if not n['d']:
                continue
            for dpos in n['d']:
                dn = cur[dpos - 1]
                if k == len(cur):
                    if dn.get('cl', True) and dn['d']:
                        cands.append(_retarget(cur, k, dpos))   # a closed operand becomes the root
                elif dn['sh'] == n['sh'] and dn['dt'] == n['dt']:
                    cands.append(_retarget(cur, k, dpos))
            if k != len(cur) and n.get('cl', True) and all(s > 0 for s in n['sh']) and not any(-k in m['sh'] for m in cur):
                cands.append(_retarget(cur, k, _const_leaf(n)))
        cands = [c for c in cands if len(c) < len(cur) or sum(1 for n in c if n['d']) < sum(1 for n in cur if n['d'])]
        seen = set()
        uniq = []
        for c in cands:
            s = canon(c)
            if s not in seen:
                seen.add(s)
                uniq.append(c)
        if not uniq:
            break
        labels = outcome(uniq)
        good = [c for c, l in zip(uniq, labels) if l == want]
        if not good:
            break
        cur = min(good, key=lambda c: (sum(1 for n in c if n['d']), len(c)))
    return cur


def skeleton(nodes):
    return '+'.join(sorted(n['op'] for n in nodes if n['d']))


LOOP_OPS = '{"LoopSum","LoopConcat","Take","Inflate","Multiply","Add","IntToFloat","InsertAxis","Sum","Transpose","Diagonalize","Power"}'


def corpus(rep, rng, tag, k, *, quick, need_arg=True, core_leaves='{1, 2, 13, 14, 22}', extra=()):
    """standard program corpus for the ArraySem-based checks: small exhaustive part + simulated full vocabulary + loop-heavy"""
    both = generate_multi(rep, tag + '-exh', [dict(MaxNodes=5, MaxOps=2, MaxLeaves=3, Ops='CoreOps', LeafSet=core_leaves),
                                              # every leaf of the pool under every applicable single constructor
                                              dict(MaxNodes=3, MaxOps=1, MaxLeaves=2, Ops='AllOps', LeafSet='AllLeaves')], EmitMin=1, exhaustive=True)
    progs = [p for p in both[0] if sum(1 for n in p if n['d']) >= 2]
    allleaves = both[1]
    sims = generate(rep, tag + '-sim', MaxNodes=12, MaxOps=7, MaxLeaves=5, EmitMin=3, simulate=150 if quick else 3000, depth=13, seed=rep.seed + 11)
    loops = generate(rep, tag + '-loops', MaxNodes=10, MaxOps=5, MaxLeaves=4, EmitMin=3, Ops=LOOP_OPS,
                     LeafSet='{1, 2, 8, 13, 14, 20, 22, 23}', simulate=150 if quick else 3000, depth=11, seed=rep.seed + 12)
    loops = [p for p in loops if any(n['op'] in ('LoopSum', 'LoopConcat') for n in p)]
    sel = select(progs, k // 3, rng, need_arg=need_arg) + select(sims, k // 3, rng, need_arg=need_arg) + select(loops, k // 3, rng)
    sel += cover_leaves(allleaves, 5 if quick else 40, rng)
    for name, kw, sim in extra:
        sel += select(generate(rep, tag + '-' + name, EmitMin=2, simulate=sim, depth=kw['MaxNodes'] + 1, seed=rep.seed + 13, **kw), k // 6, rng)
    rep.constants['ExprBuilder'] = dict(exhaustive_programs=len(progs), simulate_programs=len(sims), loop_programs=len(loops), selected=len(sel))
    return sel


# ---------------------------------------------------------------------------
# dedicated vocabularies for the constructors outside the base (bool/int/float, static shape) vocabulary; the base
# corpus above is unchanged by them.  One TLC -simulate run serves all requested families (the family is chosen in the
# initial state of ExprBuilder).
EXT_FAMILIES = {
    # complex dtype
    'cx': dict(Ops='{"FloatToComplex","Real","Imag","Conjugate","Multiply","Add","Negative","Power","Absolute","Reciprocal","Sum","Product","Inflate","Take","Diagonalize",'
                   '"TakeDiag","Transpose","InsertAxis","Ravel","Unravel","Determinant","Inverse","Equal","Choose","LoopSum","LoopConcat"}',
               LeafSet='{1, 2, 13, 14, 22, 41, 42, 43, 44, 45, 47, 48, 49, 50, 51}', MaxOps=5, MaxNodes=10, MaxLeaves=4),
    # Einsum under Transpose / InsertAxis (the absorb rules of _optimized_for_numpy), integer and complex operands
    'einsum': dict(Ops='{"Einsum","Transpose","InsertAxis","Multiply","Sum","Take","IntToFloat","FloatToComplex","LoopSum"}',
                   LeafSet='{1, 2, 7, 12, 13, 17, 22, 25, 28, 43}', MaxOps=4, MaxNodes=8, MaxLeaves=4),
    # polynomials (nutils_poly): 1 and 2 variables
    'poly': dict(Ops='{"Polyval","PolyMul","PolyGrad","PolyDegree","PolyNCoeffs","Legendre","InsertAxis","Take","Multiply","Add","Sum","Transpose","LoopSum","IntToFloat"}',
                 LeafSet='{1, 2, 4, 7, 13, 16, 22, 26, 27, 30, 53, 54, 55, 56, 57}', MaxOps=4, MaxNodes=8, MaxLeaves=4),
    # sorting / searching / unique / offsets
    'search': dict(Ops='{"SearchSorted","ArgSort","UniqueMask","UniqueInverse","SizesToOffsets","CompressIndices","Find","Take","BoolToInt","Sum","InsertAxis","Unravel","Multiply","Add","LoopConcat"}',
                   LeafSet='{4, 5, 13, 15, 16, 17, 20, 21, 22, 24, 27, 37, 38, 39}', MaxOps=5, MaxNodes=9, MaxLeaves=4),
    # loop dependent axis lengths (element dependent block sizes)
    'dyn': dict(Ops='{"MacroLenTab","RangeN","InsertAxisN","LoopConcat","LoopSum","Take","Inflate","Multiply","Add","IntToFloat","Sum","Negative","InsertAxis","Diagonalize","Power"}',
                LeafSet='{1, 4, 8, 13}', MaxOps=5, MaxNodes=9, MaxLeaves=4),
    # loop whose number of iterations is an integer argument (InRange(a14, n)): programs whose only argument dependence
    # may be the loop length
    'arglen': dict(Ops='{"MacroArgLoop","LoopSumN","IntToFloat","Multiply","Add","Take","InsertAxis","Inflate","Power","Sum","Diagonalize"}',
                   LeafSet='{1, 7, 8, 13, 15, 30, 39}', MaxOps=6, MaxNodes=10, MaxLeaves=4),
    # Monomial (sparse product helper of evaluable.factor)
    'monomial': dict(Ops='{"Monomial","Multiply","Add","Take","Inflate","Sum","InsertAxis","Power","LoopSum"}',
                     LeafSet='{1, 3, 4, 7, 8, 13, 15, 22, 24, 30, 39}', MaxOps=4, MaxNodes=8, MaxLeaves=4),
    # Inflate through a rank-3 index block with unequal trailing lengths (strides of the raveled dofmap)
    'inflate3': dict(Ops='{"Inflate","Transpose","Multiply","Negative","Add","Sum","IntToFloat"}', LeafSet='{59, 60}', MaxOps=3, MaxNodes=6, MaxLeaves=3),
    # products of three factors u_i v_j C_ij: two sparse factors on disjoint axes and a dense factor coupling them
    'uvc': dict(Ops='{"MacroUVC","Multiply","Negative","Add","Transpose"}', LeafSet='{8}', MaxOps=8, MaxNodes=14, MaxLeaves=6),
}
EXT_MARK = {
    'cx': lambda p: any(n['dt'] == 'c' for n in p),
    'einsum': lambda p: any(n['op'] == 'Einsum' for n in p),
    'poly': lambda p: any(n['op'] in ('PolyMul', 'PolyGrad', 'PolyDegree', 'PolyNCoeffs', 'Legendre') or n['op'] == 'Polyval' and p[n['d'][1] - 1]['sh'][-1:] == [2] for n in p),
    'search': lambda p: any(n['op'] in ('SearchSorted', 'ArgSort', 'UniqueMask', 'UniqueInverse', 'SizesToOffsets', 'CompressIndices', 'Find') for n in p),
    'dyn': lambda p: any(any(x < 0 for x in n['sh']) for n in p),
    'arglen': lambda p: any(n['op'] == 'LoopSumN' for n in p),
    'monomial': lambda p: any(n['op'] == 'Monomial' for n in p),
    'inflate3': lambda p: any(n['op'] == 'Inflate' and len(p[n['d'][1] - 1]['sh']) == 3 for n in p),
    'uvc': lambda p: sum(n['op'] == 'Multiply' for n in p) >= 2,
}


BASE_OPS = {"Negative", "Absolute", "Sign", "Reciprocal", "LogicalNot", "Multiply", "Add", "Minimum", "Maximum", "FloorDivide", "Mod", "Equal", "Less", "Greater",
            "Power", "BoolToInt", "IntToFloat", "InsertAxis", "Transpose", "Sum", "Product", "Take", "TakeDiag", "Diagonalize", "Inflate", "Ravel", "Unravel",
            "RavelIndex", "Choose", "InRange", "Determinant", "Inverse", "Polyval", "LoopSum", "LoopConcat"}


def _family_ops(fam):
    """constructor names of a family, the ones outside the base vocabulary first"""
    import re
    ops = [o for o in re.findall(r'"(\w+)"', fam.get('Ops', '')) if not o.startswith('Macro')]
    return [o for o in ops if o not in BASE_OPS] + [o for o in ops if o in BASE_OPS]


def select_covering(programs, k, rng, ops, need_arg=False):
    """like select(), but first makes sure that every constructor of `ops` (in that priority order) occurs in at least one
    selected program, as far as k allows: a small sample must not miss a constructor of the family"""
    ranked = select(programs, len(programs), rng, need_arg=need_arg)

    def has(p, op, live):
        """p contains constructor op (live: applied to something that depends on an argument, and the root depends on it)"""
        if not live:
            return any(n['op'] == op for n in p)
        dep, use = [], [False] * len(p)
        for n in p:
            dep.append(n['op'] == 'Arg' or any(dep[d - 1] for d in n['d']))
        use[-1] = True
        for i in range(len(p) - 1, -1, -1):
            if use[i]:
                for d in p[i]['d']:
                    use[d - 1] = True
        return any(n['op'] == op and dep[i] and use[i] for i, n in enumerate(p))

    chosen, seen = [], set()
    ext = [op for op in ops if op not in BASE_OPS]
    for rnd, op in [(1, o) for o in ext] + [(2, o) for o in ext] + [(1, o) for o in ops if o in BASE_OPS]:   # two programs per new constructor
        if len(chosen) >= k:
            break
        if sum(has(p, op, True) for p in chosen) >= rnd:
            continue
        for live in (True, False):
            hit = next((p for p in ranked if canon(p) not in seen and has(p, op, live)), None)
            if hit is not None:
                seen.add(canon(hit))
                chosen.append(hit)
                break
    for p in ranked:
        if len(chosen) >= k:
            break
        c = canon(p)
        if c not in seen:
            seen.add(c)
            chosen.append(p)
    return chosen


def extended(rep, rng, tag, names, k_each, *, quick, need_arg=False, simulate=None, families=None):
    """programs over the extended vocabulary: returns dict name -> selected programs (each uses the family's
    characteristic constructors)"""
    fams = dict(EXT_FAMILIES, **(families or {}))
    rng = random.Random(rep.seed + 1717)     # own stream: the selection of the base corpus is independent of the extended families
    per = generate_multi(rep, tag, [fams[n] for n in names], EmitMin=2, simulate=simulate or (60 * len(names) if quick else 1500 * len(names)),
                         depth=max(fams[n]['MaxNodes'] for n in names) + 1, seed=rep.seed + 17)
    out = {}
    for n, ps in zip(names, per):
        mark = next((EXT_MARK[m] for m in EXT_MARK if n.startswith(m)), None)   # 'cxdiff', 'dynsparse', ... share the mark of their prefix
        ps = [p for p in ps if mark is None or mark(p)]
        out[n] = select_covering(ps, k_each, rng, _family_ops(fams[n]), need_arg=need_arg)
        rep.constants['extended:' + n] = dict(generated=len(ps), selected=len(out[n]))
    return out
