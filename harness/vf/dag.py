"""DAG JSON <-> nutils evaluables, and the TLC-side evaluation service (EvalDag).

A program is a list of node dicts {op, d, p, sh, dt[, ix]} in post order (d holds
1-based positions), exactly the records of spec/ArraySem.tla / ExprBuilder.tla.
spec -> nutils uses the RAW constructors of nutils.evaluable (never the
simplifying helpers) so that the program replayed is the program generated.
"""

import json
import os
import subprocess
from fractions import Fraction

import numpy

from . import tlc

DT = {'b': bool, 'i': int, 'f': float, 'c': complex}
ARGNAMES = {1: 'a1', 2: 'a2', 3: 'a3', 4: 'a4', 5: 'a5', 6: 'a6', 7: 'a7', 8: 'a8', 9: 'a9', 10: 'a10', 11: 'a11', 12: 'a12', 13: 'a13', 14: 'a14', 15: 'a15'}


def build(nodes):
    """return list of nutils evaluable arrays, one per node"""
    from nutils import evaluable as ev, types
    out = []
    c = ev.constant
    for n in nodes:
        op, d, p, sh, dt = n['op'], n['d'], n['p'], n['sh'], DT[n['dt']]
        A = [out[i - 1] for i in d]
        if op == 'Arg':
            r = ev.Argument(ARGNAMES[p[0]], tuple(c(k) for k in sh), dt)
        elif op == 'Const':
            vals = [Fraction(p[2 * k], p[2 * k + 1]) for k in range(len(p) // 2)]
            if dt is complex:   # <<re n, re d, im n, im d>> per element
                arr = numpy.array([complex(float(re), float(im)) for re, im in zip(vals[::2], vals[1::2])], dtype=complex).reshape(sh)
            else:
                arr = numpy.array([float(v) if dt is float else (bool(v) if dt is bool else int(v)) for v in vals], dtype=dt).reshape(sh)
            r = ev.Constant(types.arraydata(arr))
        elif op == 'Zeros':
            r = ev.Zeros(tuple(c(k) for k in sh), dt)
        elif op == 'Range':
            r = ev.Range(c(p[0]))
        elif op == 'LoopIndex':
            r = ev.loop_index('l{}'.format(p[0]), c(p[1]))
        elif op == 'InsertAxis':
            r = ev.InsertAxis(A[0], c(p[0]))
        elif op == 'Transpose':
            r = ev.Transpose(A[0], tuple(p))
        elif op == 'Sum':
            r = ev.Sum(A[0])
        elif op == 'Product':
            r = ev.Product(A[0])
        elif op == 'Multiply':
            r = ev.Multiply(types.frozenmultiset([A[0], A[1]]))
        elif op == 'Add':
            r = ev.Add(types.frozenmultiset([A[0], A[1]]))
        elif op == 'Power':
            r = ev.Power(A[0], A[1])
        elif op in ('Negative', 'Reciprocal', 'Absolute', 'LogicalNot', 'BoolToInt', 'IntToFloat', 'Sign',
                    'TakeDiag', 'Diagonalize', 'Ravel', 'Determinant', 'Inverse', 'FloatToComplex', 'Real', 'Imag', 'Conjugate'):
            r = getattr(ev, op)(A[0])
        elif op in ('FloorDivide', 'Mod', 'Minimum', 'Maximum', 'Equal', 'Less', 'Greater', 'Take', 'Choose', 'Polyval'):
            r = getattr(ev, op)(A[0], A[1])
        elif op == 'Inflate':
            r = ev.Inflate(A[0], A[1], c(p[0]))
        elif op == 'Unravel':
            r = ev.Unravel(A[0], c(p[0]), c(p[1]))
        elif op == 'RavelIndex':
            r = ev.RavelIndex(A[0], A[1], c(p[0]), c(p[1]))
        elif op == 'InRange':
            r = ev.InRange(A[0], c(p[0]))
        elif op == 'NormDim':
            r = ev.NormDim(A[0], A[1])
        elif op == 'RangeN':
            r = ev.Range(A[0])
        elif op == 'InsertAxisN':
            r = ev.InsertAxis(A[0], A[1])
        elif op == 'SearchSorted':
            r = ev.SearchSorted(A[0], array=A[1], sorter=A[2] if len(A) == 3 else None, side=('left', 'right')[p[0]])
        elif op in ('ArgSort', 'UniqueMask'):
            r = getattr(ev, op)(A[0])
        elif op in ('UniqueInverse', 'CompressIndices'):
            r = getattr(ev, op)(A[0], A[1])
        elif op == 'SizesToOffsets':
            r = ev._SizesToOffsets(A[0])
        elif op == 'Find':
            r = ev.Find(A[0])       # the second operand of the model node is the length Sum(BoolToInt(where)), implied here
        elif op == 'Monomial':
            # d = values, then per factor the argument followed by one index node per axis of the argument
            args, indices, i = [], [], 1
            while i < len(A):
                args.append(A[i])
                indices.append(tuple(A[i + 1:i + 1 + A[i].ndim]))
                i += 1 + A[i].ndim
            r = ev.Monomial(A[0], tuple(args), tuple(indices), tuple(p))
        elif op == 'PolyMul':
            import nutils_poly
            r = ev.PolyMul(A[0], A[1], tuple((nutils_poly.MulVar.Left, nutils_poly.MulVar.Right, nutils_poly.MulVar.Both)[v] for v in p))
        elif op in ('PolyGrad', 'PolyDegree', 'Legendre'):
            r = getattr(ev, op)(A[0], p[0])
        elif op == 'PolyNCoeffs':
            r = ev.PolyNCoeffs(p[0], A[0])
        elif op == 'Einsum':
            dec = es_decode(p)
            r = ev.Einsum(tuple(A), tuple(tuple(q) for q in dec[1:]), tuple(dec[0]))
        elif op == 'LoopSum':
            idx = ev.loop_index('l{}'.format(p[0]), c(p[1]))
            r = ev.LoopSum(idx.loop_id, idx.length, A[0], A[0].shape)
        elif op == 'LoopIndexN':    # loop whose length is the value of a scalar integer node (e.g. InRange of an int argument)
            r = ev.loop_index('l{}'.format(p[0]), A[0])
        elif op == 'LoopSumN':
            idx = ev.loop_index('l{}'.format(p[0]), A[1])
            r = ev.LoopSum(idx.loop_id, idx.length, A[0], A[0].shape)
        elif op == 'LoopConcat':
            idx = ev.loop_index('l{}'.format(p[0]), c(p[1]))
            r = ev.loop_concatenate(A[0], idx)
        else:
            raise KeyError(op)
        out.append(r)
    return out


def es_decode(p):
    'Einsum node parameters <<Len(out), out..., rank1, idx1..., ...>> -> [out, idx1, idx2, ...] (ArraySem!EsDecode)'
    out, pos = [], 0
    while pos < len(p):
        out.append(list(p[pos + 1:pos + 1 + p[pos]]))
        pos += p[pos] + 1
    return out


def es_encode(out_idx, args_idx):
    p = []
    for q in (out_idx, *args_idx):
        p += [len(q), *q]
    return p


# ---------------------------------------------------------------------------
# nutils -> DAG JSON (for C->S: simplification steps, derivative expressions)

class Unsupported(Exception):
    pass


def const_int(a):
    'value of a constant scalar integer evaluable (axis length etc.)'
    from nutils import evaluable as ev
    if isinstance(a, ev.Constant) and a.ndim == 0:
        return int(a.value)
    if a.ndim or not a.isconstant:      # closed expressions (also those containing complete loops) are evaluated
        raise Unsupported('non-constant length')
    lo, hi = a._intbounds
    if lo == hi:
        return int(lo)
    return int(ev.eval_once(a))


def export(roots):
    """export nutils evaluables (list) into one shared program; returns (nodes, positions of roots).
    Raises Unsupported for nodes outside the ArraySem vocabulary."""
    from nutils import evaluable as ev
    nodes = []
    memo = {}
    argids = {v: k for k, v in ARGNAMES.items()}

    def static_shape(a):
        # a non-constant (loop dependent) axis length becomes -k, k the position of the exported length node
        out = []
        for n in a.shape:
            try:
                out.append(cint(n))
            except Unsupported:
                if n.arguments - {x for x in n.arguments if isinstance(x, ev._LoopIndex)}:
                    raise Unsupported('argument dependent length')
                out.append(-visit(n))
        return out

    def dtc(a):
        return {bool: 'b', int: 'i', float: 'f', complex: 'c'}.get(a.dtype) or _unsup('dtype {}'.format(a.dtype))

    def _unsup(msg):
        raise Unsupported(msg)

    def cint(a):
        return const_int(a)

    def add(op, d, p, a):
        nodes.append(dict(op=op, d=d, p=p, sh=static_shape(a), dt=dtc(a), ix=0))
        return len(nodes)

    def visit(a):
        if a in memo:
            return memo[a]
        T = type(a).__name__
        if T == 'Argument':
            if a.name not in argids:
                raise Unsupported('argument ' + a.name)
            r = add('Arg', [], [argids[a.name]], a)
        elif T == 'Constant':
            v = numpy.asarray(a.value)
            if v.size > 64:
                raise Unsupported('large constant')
            p = []
            for x in v.ravel():
                for y in ((x.real, x.imag) if v.dtype.kind == 'c' else (x,)):
                    fr = Fraction(y.item()) if v.dtype.kind in 'fc' else Fraction(int(y))
                    if fr.denominator > 10000 or abs(fr.numerator) > 10000:
                        raise Unsupported('constant magnitude')
                    p += [fr.numerator, fr.denominator]
            r = add('Const', [], p, a)
        elif T == 'Zeros':
            r = add('Zeros', [], [], a)
        elif T == 'Range':
            try:
                r = add('Range', [], [cint(a.length)], a)
            except Unsupported:
                r = add('RangeN', [visit(a.length)], [], a)
        elif T == '_LoopIndex':
            name = str(a.loop_id)
            if not (name.startswith('l') and name[1:].isdigit()):
                raise Unsupported('loop id ' + name)
            try:
                r = add('LoopIndex', [], [int(name[1:]), cint(a.length)], a)
            except Unsupported:
                r = add('LoopIndexN', [visit(a.length)], [int(name[1:])], a)
        elif T == 'InsertAxis':
            try:
                r = add('InsertAxis', [visit(a.func)], [cint(a.length)], a)
            except Unsupported:
                r = add('InsertAxisN', [visit(a.func), visit(a.length)], [], a)
        elif T == 'Transpose':
            r = add('Transpose', [visit(a.func)], list(a.axes), a)
        elif T in ('Sum', 'Product', 'TakeDiag', 'Diagonalize', 'Ravel', 'Determinant', 'Inverse', 'Sign'):
            r = add(T, [visit(a.func)], [], a)
        elif T in ('Multiply', 'Add'):
            f1, f2 = a.funcs
            r = add(T, [visit(f1), visit(f2)], [], a)
        elif T == 'Power':
            r = add('Power', [visit(a.func), visit(a.power)], [], a)
        elif T in ('Negative', 'Reciprocal', 'Absolute', 'BoolToInt', 'IntToFloat', 'FloatToComplex', 'Real', 'Imag', 'Conjugate'):
            r = add(T, [visit(a.arg)], [], a)
        elif T == 'LogicalNot':
            r = add(T, [visit(a.x)], [], a)
        elif T in ('FloorDivide', 'Mod'):
            r = add(T, [visit(a.dividend), visit(a.divisor)], [], a)
        elif T in ('Minimum', 'Maximum', 'Equal', 'Less', 'Greater'):
            r = add(T, [visit(a.x), visit(a.y)], [], a)
        elif T == 'Take':
            r = add('Take', [visit(a.func), visit(a.indices)], [], a)
        elif T == 'Inflate':
            r = add('Inflate', [visit(a.func), visit(a.dofmap)], [cint(a.length)], a)
        elif T == 'Unravel':
            r = add('Unravel', [visit(a.func)], [cint(a.sh1), cint(a.sh2)], a)
        elif T == 'RavelIndex':
            r = add('RavelIndex', [visit(a.ia), visit(a.ib)], [cint(a.na), cint(a.nb)], a)
        elif T == 'Choose':
            r = add('Choose', [visit(a.index), visit(a.choices)], [], a)
        elif T == 'InRange':
            r = add('InRange', [visit(a.index)], [cint(a.length)], a)
        elif T == 'NormDim':
            r = add('NormDim', [visit(a.length), visit(a.index)], [], a)
        elif T == 'Polyval':
            if a.points_ndim not in (1, 2, 3):
                raise Unsupported('Polyval nvars')
            r = add('Polyval', [visit(a.coeffs), visit(a.points)], [], a)
        elif T == 'PolyMul':
            r = add('PolyMul', [visit(a.coeffs_left), visit(a.coeffs_right)], [{'Left': 0, 'Right': 1, 'Both': 2}[repr(v).split('.')[-1]] for v in a.vars], a)
        elif T == 'PolyGrad':
            r = add('PolyGrad', [visit(a.coeffs)], [a.nvars], a)
        elif T == 'PolyDegree':
            r = add('PolyDegree', [visit(a.ncoeffs)], [a.nvars], a)
        elif T == 'PolyNCoeffs':
            r = add('PolyNCoeffs', [visit(a.degree)], [a.nvars], a)
        elif T == 'Legendre':
            r = add('Legendre', [visit(a.x)], [a.degree], a)
        elif T == 'Monomial':
            d = [visit(a.values)]
            for arg, idx in zip(a.args, a.indices):
                d += [visit(arg)] + [visit(i) for i in idx]
            r = add('Monomial', d, list(a.powers), a)
        elif T == 'SearchSorted':
            r = add('SearchSorted', [visit(a.arg), visit(a.array)] + ([visit(a.sorter)] if a.sorter is not None else []), [dict(left=0, right=1)[a.side]], a)
        elif T in ('ArgSort',):
            r = add(T, [visit(a.array)], [], a)
        elif T == 'UniqueMask':
            r = add(T, [visit(a.sorted_array)], [], a)
        elif T == 'UniqueInverse':
            r = add(T, [visit(a.unique_mask), visit(a.sorter)], [], a)
        elif T == '_SizesToOffsets':
            r = add('SizesToOffsets', [visit(a.sizes)], [], a)
        elif T == 'CompressIndices':
            r = add(T, [visit(a.indices), visit(a.length)], [], a)
        elif T == 'Find':
            w = visit(a.where)
            r = add('Find', [w, visit(a.shape[0])], [], a)
        elif T == 'Einsum':
            labels = sorted({i for idx in a.args_idx for i in idx})
            if len(a.args) > 3 or len(labels) > 4:
                raise Unsupported('large Einsum')
            ren = {l: k for k, l in enumerate(labels)}
            r = add('Einsum', [visit(x) for x in a.args], es_encode([ren[i] for i in a.out_idx], [[ren[i] for i in idx] for idx in a.args_idx]), a)
        elif T == 'LoopSum':
            name = str(a.loop_id)
            if not (name.startswith('l') and name[1:].isdigit()):
                raise Unsupported('loop id ' + name)
            try:
                r = add('LoopSum', [visit(a.func)], [int(name[1:]), cint(a.length)], a)
            except Unsupported:
                r = add('LoopSumN', [visit(a.func), visit(a.length)], [int(name[1:])], a)
        elif T == 'LoopConcatenate':
            name = str(a.loop_id)
            if not (name.startswith('l') and name[1:].isdigit()):
                raise Unsupported('loop concatenate')
            # chunk size 0: element dependent (the chunks are laid out consecutively in loop order, as loop_concatenate builds them)
            chunk = cint(a.func.shape[-1]) if a.func.shape[-1].isconstant else 0
            r = add('LoopConcat', [visit(a.func)], [int(name[1:]), cint(a.length), chunk], a)
        elif T in ('Guard',):
            r = add('Identity', [visit(a.fun)], [], a)
        elif T == '_Get':
            # func[..., index] == Take(func, index) with scalar index
            r = add('Take', [visit(a.func), visit(a.index)], [], a)
        else:
            raise Unsupported(T)
        memo[a] = r
        return r

    pos = [visit(r) for r in roots]
    return nodes, pos


# ---------------------------------------------------------------------------
# environments

ARGSH = {1: [2], 2: [2, 2], 3: [], 4: [3], 5: [2], 6: [2], 7: [2, 2, 2], 8: [3, 3], 9: [4], 10: [2], 11: [], 12: [2, 2], 13: [6], 14: [], 15: [2, 2, 3]}
ARGDT = {1: float, 2: float, 3: float, 4: float, 5: int, 6: bool, 7: float, 8: float, 9: float, 10: complex, 11: complex, 12: complex, 13: float, 14: int, 15: float}

# integer data per argument id (flat); chosen to avoid ties/kinks where possible.  Complex arguments (10-12) carry
# 2 * size integers: the real parts followed by the imaginary parts (ArraySem!ArgArr recognises them by that length)
ENVS = [
    {1: [1, 2], 2: [1, 2, 3, 5], 3: [2], 4: [1, 2, 3], 5: [1, 0], 6: [1, 0], 7: [1, 2, 3, 4, 5, 6, 7, 9], 8: [2, 1, 0, 1, 3, 1, 0, 1, 2], 9: [1, 2, 3, 4],
     10: [1, 2, 2, -1], 11: [2, 1], 12: [1, 2, 0, 1, 1, 0, -1, 2], 13: [1, 2, -1, 3, 0, 2], 14: [2], 15: [1, 2, 3, 4, 5, 6, 7, 8, 9, -1, -2, -3]},
    {1: [-2, 3], 2: [2, -1, 1, 3], 3: [-3], 4: [-1, 3, 2], 5: [0, 1], 6: [0, 1], 7: [-1, 2, -3, 1, 3, -2, 2, 1], 8: [1, -2, 3, 2, 1, -1, -3, 1, 2], 9: [-2, 1, 3, -1],
     10: [-1, 3, 1, 4], 11: [-1, 2], 12: [2, -1, 1, 1, 0, 1, 2, -1], 13: [-2, 1, 3, 0, -1, 2], 14: [0], 15: [2, -1, 3, 1, -2, 4, -3, 2, 1, 5, -1, 2]},
    {1: [3, -1], 2: [-3, 1, 2, -2], 3: [-4], 4: [2, -2, 1], 5: [1, 1], 6: [1, 1], 7: [2, -1, 1, 3, -2, 1, -3, 2], 8: [-1, 3, 2, 1, -2, 3, 2, 1, -3], 9: [2, -3, -1, 4],
     10: [0, -2, -3, 1], 11: [3, -4], 12: [-1, 1, 2, 0, 2, -1, 0, 3], 13: [3, -1, 0, 2, 1, -3], 14: [1], 15: [-1, 3, 2, -2, 1, 5, 4, -3, 2, 1, 3, -4]},
]


def argsize(a):
    'number of integers of data of argument id a (complex: real parts, then imaginary parts)'
    return int(numpy.prod(ARGSH[a])) * (2 if ARGDT[a] is complex else 1)


def env_arrays(env):
    out = {}
    for k, v in env.items():
        if ARGDT[k] is complex:
            h = len(v) // 2
            out[ARGNAMES[k]] = (numpy.array(v[:h], dtype=float) + 1j * numpy.array(v[h:], dtype=float)).reshape(ARGSH[k])
        else:
            out[ARGNAMES[k]] = numpy.array(v, dtype=ARGDT[k]).reshape(ARGSH[k])
    return out


INEXACT_OPS = {'Inverse', 'Reciprocal', 'Power', 'Determinant', 'Legendre'}
DISCONTINUOUS_OPS = {'FloorDivide', 'Mod', 'Less', 'Greater', 'Equal', 'Sign', 'SearchSorted', 'ArgSort', 'UniqueMask'}


def unstable(nodes):
    """True if a discontinuous operation consumes a float value that is not exactly representable in IEEE
    arithmetic (it derives from a matrix inverse, reciprocal or float power): the real evaluation may then land
    on the other side of the discontinuity (floor(1.9999999999999996/2) vs floor(2/2)) although it is correct up
    to rounding, which the properties explicitly allow.  Such programs are not judged against the exact model."""
    inexact = []
    for n in nodes:
        ix = n['dt'] in 'fc' and (n['op'] in INEXACT_OPS or any(inexact[d - 1] for d in n['d'])
                                  or n['op'] == 'Absolute' and nodes[n['d'][0] - 1]['dt'] == 'c')   # hypot
        if n['op'] in DISCONTINUOUS_OPS and any(inexact[d - 1] for d in n['d']):
            return True
        # comparisons produce bool/int results that depend discontinuously on inexact inputs: handled above
        inexact.append(ix)
    return False


def args_used(nodes):
    return sorted({n['p'][0] for n in nodes if n['op'] == 'Arg'})


def nloops(nodes):
    return max([n['p'][0] for n in nodes if n['op'] in ('LoopIndex', 'LoopSum', 'LoopConcat', 'LoopIndexN', 'LoopSumN')] + [3])


# ---------------------------------------------------------------------------
# TLC evaluation service

def _job(jid, nodes, evals, pairs=()):
    N = [dict(op=n['op'], d=n['d'], p=n['p'], sh=n['sh'], dt=n['dt']) for n in nodes]
    nl = nloops(nodes)
    ev = []
    for e in evals:
        ev.append(dict(args=[e['env'].get(a, [0] * argsize(a)) for a in sorted(ARGSH)],
                       lenv=list(e.get('lenv', [0] * nl)) + [0] * (nl - len(e.get('lenv', [0] * nl))),
                       seed=list(e.get('seed', (0, 0))), node=e['node']))
    return dict(id=jid, N=N, argsh=[ARGSH[a] for a in sorted(ARGSH)], evals=ev, pairs=[dict(a=a, b=b) for a, b in pairs])


def run_jobs(module, jobdicts, tag, nproc=None, timeout=1800):
    """run spec/<module>.tla (a job-evaluating spec: one initial state per job, work done in the constraint)
    over `jobdicts` (each with an integer 'id' = position) split over parallel single-worker TLC processes.
    Returns (results by position (None where TLC emitted nothing), list of tlc.Result for statistics)."""
    import shutil
    if not jobdicts:
        return [], []
    nproc = nproc or min(16, max(1, len(jobdicts) // 8))
    wd = tlc.workdir(tag)
    chunks = [[] for _ in range(nproc)]
    for i, j in enumerate(jobdicts):
        chunks[i % nproc].append(j)
    procs = []
    for c, chunk in enumerate(chunks):
        if not chunk:
            continue
        cd = os.path.join(wd, 'c{}'.format(c))
        os.makedirs(cd)
        for fn in ('ArraySem.tla', module + '.tla', module + '.cfg'):
            shutil.copy(os.path.join(tlc.SPEC, fn), cd)
        jp = os.path.join(cd, 'jobs.json')
        with open(jp, 'w') as f:
            json.dump(chunk, f)
        cmd = ['java', '-XX:+UseSerialGC', '-XX:TieredStopAtLevel=1', '-Xmx1g', '-Xss32m', '-cp', tlc.JAR, 'tlc2.TLC', '-workers', '1', '-metadir', os.path.join(cd, 'meta'),
               '-noGenerateSpecTE', '-deadlock', '-config', module + '.cfg', module + '.tla']
        e = dict(os.environ, VF_JOBS=jp)
        out = open(os.path.join(cd, 'tlc.out'), 'w')
        procs.append((subprocess.Popen(cmd, cwd=cd, env=e, stdout=out, stderr=subprocess.STDOUT), cd, out))
    results = [None] * len(jobdicts)
    stats = []
    for p, cd, out in procs:
        try:
            p.wait(timeout=timeout)
        except subprocess.TimeoutExpired:
            p.kill()
        out.close()
        text = open(os.path.join(cd, 'tlc.out'), errors='replace').read()
        res = tlc.Result()
        res.cmd = 'tlc2.TLC -workers 1 -config {0}.cfg {0}.tla'.format(module)
        tlc.parse(text, res)
        stats.append(res)
        for e in res.emitted:
            results[e['id']] = e
        if p.returncode not in (0,) and not res.emitted:
            raise tlc.TLCError('{} failed in {}:\n{}'.format(module, cd, '\n'.join(text.splitlines()[-30:])))
    return results, stats


def evaluate(jobs, tag='evaldag', nproc=None, timeout=1800):
    """jobs: list of (nodes, evals, pairs). Returns (list of results in job order, TLC stats list).
    result = dict(vals=[array dicts], verdicts=[...]) or None if TLC could not evaluate the job."""
    return run_jobs('EvalDag', [_job(i, nodes, evals, pairs) for i, (nodes, evals, pairs) in enumerate(jobs)], tag, nproc, timeout)


class Cx:
    'exact complex number (pair of Fractions) as the model projects elements of complex arrays'
    __slots__ = 're', 'im'

    def __init__(self, re, im):
        self.re, self.im = re, im

    def __complex__(self):
        return complex(float(self.re), float(self.im))

    def __str__(self):
        return '({}{}{}j)'.format(self.re, '+' if self.im >= 0 else '-', abs(self.im))

    __repr__ = __str__


def arr_value(proj):
    """model array projection -> (values as Fraction ndarray(object) or None if any undefined, tangents likewise);
    elements of complex arrays (8 integers) become Cx"""
    sh = proj['sh']
    vals, tans = [], []
    bad = tbad = False
    for item in proj['v']:
        if len(item) == 8:
            vn, vd, tn, td, wn, wd, un, ud = item
            if vd == 0 or wd == 0:
                bad = True
                vals.append(None)
            else:
                vals.append(Cx(Fraction(vn, vd), Fraction(wn, wd)))
            if td == 0 or ud == 0:
                tbad = True
                tans.append(None)
            else:
                tans.append(Cx(Fraction(tn, td), Fraction(un, ud)))
            continue
        vn, vd, tn, td = item
        if vd == 0:
            bad = True
            vals.append(None)
        else:
            vals.append(Fraction(vn, vd))
        if td == 0:
            tbad = True
            tans.append(None)
        else:
            tans.append(Fraction(tn, td))
    v = numpy.empty(len(vals), dtype=object)
    v[:] = vals
    t = numpy.empty(len(tans), dtype=object)
    t[:] = tans
    return v.reshape(sh), bad, t.reshape(sh), tbad


def matches(model_vals, actual, dt):
    """compare model Fractions with numpy result"""
    actual = numpy.asarray(actual)
    if list(actual.shape) != list(model_vals.shape):
        return False
    if dt in ('b', 'i'):
        exp = numpy.array([int(x) for x in model_vals.ravel()], dtype=int).reshape(model_vals.shape)
        return bool((actual.astype(int) == exp).all())
    if dt == 'c':
        exp = numpy.array([complex(x) for x in model_vals.ravel()], dtype=complex).reshape(model_vals.shape)
        return bool(numpy.allclose(actual, exp, rtol=1e-9, atol=1e-12, equal_nan=False))
    if actual.dtype.kind == 'c':
        return False
    exp = numpy.array([float(x) for x in model_vals.ravel()], dtype=float).reshape(model_vals.shape)
    return bool(numpy.allclose(actual, exp, rtol=1e-9, atol=1e-12, equal_nan=False))


KIND = {'b': 'b', 'i': 'i', 'f': 'f', 'c': 'c'}


def dtype_char(dtype):
    return numpy.dtype(dtype).kind.replace('u', 'i')
