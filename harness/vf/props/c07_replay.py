"""C07 helper: binding of the FuncBuilder / NumpySem model to nutils -- the real samples and leaves, and the replay of one
behaviour (program + predicted shape, kind, per-point values or verdict) into nutils function arrays."""

import json
import warnings

import numpy

from . import c07_ops as ops
from .c07_pool import Timeout, watchdog

SAMPLE_NAMES = {1: 'lineB', 2: 'lineG', 3: 'lineU', 4: 'rectB', 5: 'prodYX', 6: 'prodXY'}
PT_LEAVES = ('X', 'EX', 'BX', 'Y', 'EY')
BUILD_CPU_S = 20       # CPU seconds allowed for building one call
EVAL_CPU_S = 40        # CPU seconds allowed for one sample.eval

_WORLD = None


class World:
    def __init__(self, tables):
        from nutils import mesh, function
        self.function = function
        dX, x = mesh.line(2, space='X')
        dY, y = mesh.rectilinear([2, 1], space='Y')
        self.pt = dict(X=x, EX=dX.f_index, BX=dX.basis('std', degree=1), Y=y, EY=dY.f_index)
        self.samples = {
            'lineB': dX.sample('bezier', 2), 'lineG': dX.sample('gauss', 1), 'lineU': dX.sample('uniform', 2),
            'rectB': dY.sample('bezier', 2),
            'prodYX': dY.sample('gauss', 1) * dX.sample('bezier', 2),
            'prodXY': dX.sample('gauss', 1) * dY.sample('gauss', 1)}
        self.tables = tables                      # sample id -> table emitted by the spec
        g = tables[min(tables)]['globals']
        self.globals = {l['name']: l for l in g}
        self.gval = {}
        self.leafobj = {}
        self.args = {}
        for l in g:
            val, bad = ops.decode(l['sh'], l['dt'], l['v'])
            assert not bad.any()
            self.gval[l['name']] = val
            if l['src'] == 'arg':
                self.leafobj[l['name']] = function.Argument(l['name'], tuple(l['sh']), ops.KINDS[l['dt']])
                self.args[l['name']] = val
            elif l['src'] == 'const':
                self.leafobj[l['name']] = function.Array.cast(val)
            else:
                self.leafobj[l['name']] = ops.raw_value(l)
        self.ptval = {}                           # (sample id, leaf name) -> ndarray (npoints, *shape)
        for sid, t in tables.items():
            for l in t['leaves']:
                vals = [ops.decode(l['sh'], l['dt'], pv)[0] for pv in l['pv']]
                self.ptval[sid, l['name']] = numpy.array(vals)

    def nutils_leaf(self, name):
        return self.pt[name] if name in self.pt else self.leafobj[name]

    def numpy_leaf(self, sid, name, pt):
        if name in self.pt:
            return numpy.array(self.ptval[sid, name][pt])
        l = self.globals[name]
        return ops.raw_value(l) if l['src'] == 'raw' else self.gval[name]


def set_world(world):
    global _WORLD
    _WORLD = world


def bind_samples(world, rep):
    """the sample model is itself bound: nutils must evaluate every point-dependent leaf on every real sample to exactly the
    model constants (count, order and value of the points); anything else is a machinery failure, not a finding"""
    n = 0
    for sid, t in sorted(world.tables.items()):
        smp = world.samples[t['name']]
        if smp.npoints != t['np']:
            raise RuntimeError('sample {} has {} points, the model says {}'.format(t['name'], smp.npoints, t['np']))
        for l in t['leaves']:
            f = world.pt[l['name']]
            if tuple(f.shape) != tuple(l['sh']) or ops.kind_of(f.dtype) != l['dt']:
                raise RuntimeError('leaf {} has shape/dtype {} {}, the model says {} {}'.format(l['name'], f.shape, f.dtype, l['sh'], l['dt']))
            got = smp.eval(f)
            want = world.ptval[sid, l['name']]
            if got.shape != want.shape or not (got == want).all():
                raise RuntimeError('sample model not bound: leaf {} on sample {} evaluates to {} but the model constants are {}'.format(l['name'], t['name'], got.tolist(), want.tolist()))
            n += 1
    # arguments and constants evaluate to the model values, too
    for name, obj in world.leafobj.items():
        if hasattr(obj, 'lower'):
            got = world.samples['lineG'].eval(obj, arguments=world.args)
            if not (got == world.gval[name][None]).all():
                raise RuntimeError('global leaf {} not bound'.format(name))
    rep.extra['sample_leaves_bound'] = n
    return n


# ---------------------------------------------------------------------------
# classification of exceptions

def unsupported(ex, op=None):
    """exceptions by which nutils DECLARES that it does not implement a call or a form of it (a refusal is not a wrong value:
    never a violation, counted as skipped)"""
    s = str(ex)
    if isinstance(ex, NotImplementedError):
        return 'NotImplementedError'
    if isinstance(ex, TypeError) and ('no implementation found' in s or 'NotImplemented' in s or 'unexpected keyword argument' in s):
        return 'no dispatch for this call / keyword'
    if isinstance(ex, ValueError) and ('no total order' in s or 'not defined for complex' in s):
        return 'declared unsupported for complex'
    if isinstance(ex, (ValueError, TypeError)) and ('is not supported' in s or 'Use logical operators to compare booleans' in s):
        return 'declared unsupported: ' + s[:60]
    if isinstance(ex, ValueError) and 'expected a condition of length' in s:
        return 'compress: documented to be stricter than NumPy about the length of the condition'
    if isinstance(ex, ValueError) and 'axis lengths do not match' in s:
        return 'diagonal / trace: declared restriction to equal axis lengths'
    if isinstance(ex, ValueError) and 'should be strictly monotonic increasing' in s:
        return 'Basis.__getitem__: declared restriction to increasing indices'
    if isinstance(ex, ValueError) and 'only "ord" values of None' in s:
        return 'norm: declared restriction'
    if op == 'repeat' and isinstance(ex, TypeError) and "required positional argument: 'axis'" in s:
        return 'repeat: the axis argument is mandatory (only singleton axes can be repeated)'
    return None


# ---------------------------------------------------------------------------
# numpy on plain ndarrays: guard of the transcription of the model

def numpy_reference(world, e):
    """run the program with real numpy on plain ndarrays, per point. returns list over points of (values list, failing (node, exception) or None)"""
    out = []
    nodes = e['nodes']
    for pt in range(world.tables[e['smp']]['np']):
        vals = []
        fail = None
        for k, n in enumerate(nodes, 1):
            if n['op'] == 'leaf':
                vals.append(world.numpy_leaf(e['smp'], n['p'], pt))
                continue
            try:
                with numpy.errstate(all='ignore'), warnings.catch_warnings():
                    warnings.simplefilter('ignore')
                    vals.append(ops.apply(n['op'], n['p'], [vals[d - 1] for d in ops.seq(n['d'])]))
            except Exception as ex:
                fail = (k, ex)
                break
        out.append((vals, fail))
    return out


def same_values(want, bad, got, dt):
    got = numpy.asarray(got)
    if got.shape != want.shape:
        return False
    ok = ~bad
    if dt in ('b', 'i'):
        return bool((got[ok].astype(numpy.int64) == want[ok].astype(numpy.int64)).all())
    with numpy.errstate(all='ignore'):
        return bool(numpy.allclose(got[ok], want[ok], rtol=1e-9, atol=1e-12))


def model_vs_numpy(world, e, ref):
    """sanity guard of the transcription. returns None if model and numpy agree, 'undefined' if the comparison is void
    (model value undefined), else a description of the disagreement (= a MODEL bug)"""
    nodes = e['nodes']
    root = nodes[-1]
    anybad = any(n['bad'] for n in nodes)
    for pt, (vals, fail) in enumerate(ref):
        if fail is not None and isinstance(fail[1], IndexError):
            fn = nodes[fail[0] - 1]
            if (fn['op'] == 'take' and not fn['p']['lit']) or (fn['op'] == 'getitem' and any(it['k'] == 'node' for it in ops.seq(fn['p']))) or fn['op'] == 'choose':
                return 'undefined'          # run-time index out of range: the model marks the ENTRIES undefined, which an empty result cannot show
        if fail is not None and fail[0] != len(nodes):
            # numpy refuses an inner call on these data although the model gives it a (partly undefined) value:
            # run-time index out of range and the like
            if anybad:
                return 'undefined'
            return 'numpy raises {!r} at inner node {} but the model gives it a value'.format(fail[1], fail[0])
        if root['dt'] in ('REJECT', 'TYPEERR'):
            if fail is None:
                return 'model says {} ({}) but numpy returns a value at point {}'.format(root['dt'], e['why'], pt)
            continue
        if fail is not None:
            if anybad:
                return 'undefined'
            return 'model says value but numpy raises {!r} at node {}'.format(fail[1], fail[0])
        for k, (n, v) in enumerate(zip(nodes, vals), 1):
            if n['op'] == 'leaf':
                continue
            v = numpy.asarray(v)
            if list(v.shape) != list(ops.seq(n['sh'])):
                return 'node {} shape: model {} numpy {}'.format(k, n['sh'], v.shape)
            if ops.kind_of(v.dtype) != n['dt']:
                return 'node {} kind: model {} numpy {}'.format(k, n['dt'], v.dtype)
        want, bad = ops.decode(root['sh'], root['dt'], e['root'][pt])
        if not same_values(want, bad, vals[-1], root['dt']):
            return 'root value at point {}: model {} numpy {}'.format(pt, want.tolist(), numpy.asarray(vals[-1]).tolist())
    return None


def unstable(nodes):
    """a discontinuous call consumes a float value that is not exactly representable / exactly rounded: the evaluation may
    legitimately land on the other side of the discontinuity, which the property allows (rounding)"""
    inexact = []
    for n in nodes:
        d = ops.seq(n['d'])
        ix = n['dt'] in ('f', 'c') and (not n['dy'] or n['bad'] or n['op'] in ops.INEXACT or any(inexact[j - 1] for j in d))
        if n['op'] == 'inv' and (n['bad'] or any(inexact[j - 1] for j in d)):
            return True                 # (nearly) singular matrices: the inverse amplifies rounding without bound
        sel = ops.DISCONT_OPERANDS.get(n['op'])
        if n['op'] in ops.DISCONT and any(inexact[j - 1] for i, j in enumerate(d) if sel is None or i in sel):
            return True
        inexact.append(ix or (n['dt'] in ('b', 'i') and any(inexact[j - 1] for j in d)))
    return False


# ---------------------------------------------------------------------------
# root-cause keys

CONTRACTIONS = ('einsum', 'dot', 'matmul', 'vdot')


def unit_slice_needs_clipping(items, shape):
    """does the index contain a slice with step 1 whose bounds lie outside the axis or describe an empty range (the forms that
    function._takeslice does not clip)?"""
    consumed = sum(1 if it['k'] in ('int', 'slice', 'arr', 'node') else len(ops.seq(it['sh'])) if it['k'] == 'mask' else 0 for it in items)
    ax = 0
    for it in items:
        if it['k'] == 'ell':
            ax += len(shape) - consumed
        elif it['k'] == 'mask':
            ax += len(ops.seq(it['sh']))
        elif it['k'] == 'slice':
            a = ops.seq(it['a'])
            if ax < len(shape) and (not a[4] or a[5] == 1):
                n = shape[ax]
                start = 0 if not a[0] else a[1] + n if a[1] < 0 else a[1]
                stop = n if not a[2] else a[3] + n if a[3] < 0 else a[3]
                if start < 0 or stop < 0 or start > n or stop > n or start > stop:
                    return True
            ax += 1
        elif it['k'] != 'new':
            ax += 1
    return False


def key_for(nodes, k, what, ex=None):
    """root-cause signature of a deviation at node k: call + the feature of its parameters / operand kinds that selects the
    code path + the kind of deviation (stable across seeds, never the whole input)"""
    op, desc = ops.descriptor(nodes, k)
    n = nodes[k - 1]
    opsh = [ops.seq(nodes[d - 1]['sh']) for d in ops.seq(n['d'])]
    opdt = [nodes[d - 1]['dt'] for d in ops.seq(n['d'])]
    msg = str(ex) if ex is not None else ''
    fnindex = (op == 'take' and not n['p']['lit']) or (op == 'getitem' and any(it['k'] == 'node' for it in ops.seq(n['p'])))
    if isinstance(ex, ZeroDivisionError) and any(0 in ops.seq(nn['sh']) for nn in nodes if nn['dt'] in 'bifc'):
        return 'zero-size-array:eval-exception:ZeroDivisionError'          # one root cause irrespective of the call
    # ---- one key per root cause where several calls / parameter forms share it
    if op in CONTRACTIONS and what == 'dtype' and set(opdt) == {'b'}:
        return 'contraction-of-booleans:dtype'
    if op in ('floor_divide', 'mod', 'divmod') and what == 'dtype' and set(opdt) == {'b'}:
        return 'floor_divide-mod-of-booleans:dtype'
    if op == 'cross' and what == 'dtype' and set(opdt) <= {'b', 'i'}:
        return 'cross:integer-operands:dtype'
    if op in ('take', 'getitem', 'compress') and 'need at least one array to stack' in msg:
        return 'take:empty-index-list:build-exception:ValueError'
    if op == 'getitem' and what in ('shape', 'eval-exception:AssertionError') and unit_slice_needs_clipping(ops.seq(n['p']), opsh[0]):
        return 'getitem:slice-bounds-not-clipped:' + what
    if fnindex and what == 'eval-exception:AssertionError':
        return 'take:unbounded-integer-index:eval-exception:AssertionError'
    if fnindex and what == 'eval-exception:AttributeError' and "'NoneType' object has no attribute 'shape'" in msg:
        return 'take:point-dependent-index:eval-exception:AttributeError'
    if op == 'interp' and what == 'not-rejected':
        return 'interp:not-rejected'
    if op == 'getitem' and desc in ('multiple-index-arrays', 'index-array-with-int') and what in ('shape', 'value', 'not-rejected'):
        return 'getitem:combined-index-arrays:outer-product-instead-of-broadcast'
    if (op == 'getitem' and desc == 'bool-mask' and what.startswith('build-exception')) or (op in ('take', 'getitem') and what == 'build-exception:UFuncTypeError'):
        return 'getitem:bool-mask:' + what                                # boolean index (mask, or a bool used as the integer 0 / 1)
    if what in ('build-exception:AssertionError', 'build-exception:ValueError') and 'need at least one array to stack' not in msg \
            and (0 in ops.seq(n['sh']) or any(0 in sh for sh in opsh)) and op in ('reshape', 'ravel', 'take', 'getitem', 'compress'):
        return 'zero-size-array:' + what                                  # reshape / ravel (and take, which ravels) of an array without elements
    if op == 'power' and what == 'eval-exception:AssertionError' and msg.startswith('power='):
        return 'power:unbounded-integer-exponent:eval-exception:AssertionError'
    if op == 'choose' and what == 'eval-exception:AssertionError' and opdt[:1] == ['b']:
        return 'choose:boolean-selector:eval-exception:AssertionError'
    if op == 'transpose' and desc in ('axes-negative', 'axes') and what in ('eval-exception:AssertionError', 'not-rejected'):
        return 'transpose:axes-not-validated:' + what
    if op == 'searchsorted' and what in ('not-rejected', 'eval-exception:AttributeError', 'eval-exception:AssertionError', 'eval-exception:KeyError'):
        return 'searchsorted:sorted-array-not-validated:' + what
    if op in ('det', 'inv') and what == 'eval-exception:AssertionError' and set(opdt) <= {'b', 'i'}:
        return 'det-inv:integer-operand:eval-exception:AssertionError'
    if op in ('prod', 'vdot', 'matmul', 'reshape'):
        return '{}:{}'.format(op, what)                # the descriptor does not select the code path here
    if op in ops.BINARY or op in ops.UNARY or op == 'divmod':
        return '{}:{}:{}'.format(op, desc, what)
    return '{}:{}:{}'.format(op, desc, what)


# positions (0-based) of the operands on which NumPy dispatches (__array_function__ relevant arguments); None = all
DISPATCH_ON = {'take': (0,), 'getitem': (0,), 'compress': (0,), 'repeat': (0,)}


def replay(item):
    e, world = item, _WORLD
    function = world.function
    nodes = e['nodes']
    root = nodes[-1]
    smp = world.samples[SAMPLE_NAMES[e['smp']]]
    out = dict(status='ok', expr=ops.pyexpr(nodes), smp=SAMPLE_NAMES[e['smp']])
    if root['dt'] == 'NODEMAND':
        out.update(status='skip', why='NumPy behaviour is an implementation accident (nothing demanded): ' + e['why'])
        return out
    # ---- numpy on plain ndarrays: guard of the model
    ref = numpy_reference(world, e)
    dis = model_vs_numpy(world, e, ref)
    if dis == 'undefined':
        out.update(status='skip', why='model value undefined (numpy raises on these data)')
        return out
    if dis is not None:
        out.update(status='modelbug', what=dis)
        return out
    # ---- build the function array with the same calls
    objs = []
    nchecked = 0
    for k, n in enumerate(nodes, 1):
        if n['op'] == 'leaf':
            objs.append(world.nutils_leaf(n['p']))
            continue
        isroot = k == len(nodes)
        A = [objs[d - 1] for d in ops.seq(n['d'])]
        try:
            with warnings.catch_warnings(), watchdog(BUILD_CPU_S):
                warnings.simplefilter('ignore')
                obj = ops.apply(n['op'], n['p'], A, function.expand_dims)
        except Timeout:
            out.update(status='violation', key=key_for(nodes, k, 'build-timeout'), what='building {} did not return within {} CPU seconds'.format(ops.pyexpr(nodes, k), BUILD_CPU_S))
            return out
        except Exception as ex:
            if isroot and root['dt'] == 'REJECT':
                if unsupported(ex, n['op']):      # "no implementation" is not a rejection of these operands
                    out.update(status='skip', why='not implemented by nutils: {} [{}]'.format(n['op'], unsupported(ex, n['op'])))
                else:
                    out.update(status='ok', rejected=True)
                return out
            if isroot and root['dt'] == 'TYPEERR':
                out.update(status='skip', why='numpy has no loop for these kinds (nothing demanded)')
                return out
            why = unsupported(ex, n['op'])
            if why:
                out.update(status='skip', why='not implemented by nutils: {} [{}]'.format(n['op'], why))
                return out
            what = 'build-exception:' + type(ex).__name__
            out.update(status='violation', key=key_for(nodes, k, what, ex),
                       what='{} raises {}: {} although numpy returns an array of shape {} kind {}'.format(ops.pyexpr(nodes, k), type(ex).__name__, str(ex)[:120], n['sh'], n['dt']))
            return out
        if isroot and root['dt'] == 'TYPEERR':
            out.update(status='skip', why='numpy has no loop for these kinds (nothing demanded)')
            return out
        if not isinstance(obj, function.Array):
            sel = DISPATCH_ON.get(n['op'])
            if not any(isinstance(a, function.Array) for i, a in enumerate(A) if sel is None or i in sel):
                # plain NumPy handled the call itself (no function array in a dispatching position): not a nutils matter
                out.update(status='skip', why='numpy did not dispatch to nutils (no function array among the dispatching operands)')
                return out
            if isroot and root['dt'] == 'REJECT':
                out.update(status='violation', key='{}:not-rejected:{}'.format(n['op'], e['why']), what='{} returns {!r} although numpy rejects the operands'.format(ops.pyexpr(nodes, k), type(obj)))
                return out
            out.update(status='violation', key=key_for(nodes, k, 'not-a-function-array'), what='{} returns a {} instead of a function array'.format(ops.pyexpr(nodes, k), type(obj).__name__))
            return out
        if isroot and root['dt'] == 'REJECT':
            got = 'shape {}'.format(getattr(obj, 'shape', '?'))
            key = key_for(nodes, k, 'not-rejected')
            out.update(status='violation', key=key if key.startswith('getitem:combined-index-arrays') else key + ':' + e['why'],
                       what='{} is accepted ({}) although numpy rejects the operands ({})'.format(ops.pyexpr(nodes, k), got, e['why']))
            return out
        what = None
        if list(obj.shape) != list(ops.seq(n['sh'])):
            what = 'shape', '{} has shape {} but numpy gives {}'.format(ops.pyexpr(nodes, k), obj.shape, tuple(ops.seq(n['sh'])))
        elif ops.kind_of(obj.dtype) != n['dt']:
            what = 'dtype', '{} has dtype {} but numpy gives kind {}'.format(ops.pyexpr(nodes, k), obj.dtype.__name__, n['dt'])
        elif tuple(numpy.shape(obj)) != tuple(ops.seq(n['sh'])) or numpy.ndim(obj) != len(ops.seq(n['sh'])) or numpy.size(obj) != int(numpy.prod(ops.seq(n['sh']), dtype=int)):
            what = 'shape-ndim-size', 'numpy.shape / ndim / size of {} are {} {} {} but the shape is {}'.format(ops.pyexpr(nodes, k), numpy.shape(obj), numpy.ndim(obj), numpy.size(obj), n['sh'])
        if what and ((n['op'] in ('floor_divide', 'mod', 'divmod') and {nodes[d - 1]['dt'] for d in ops.seq(n['d'])} == {'b'})
                     or (n['op'] == 'reciprocal' and nodes[ops.seq(n['d'])[0] - 1]['dt'] in 'bi')):
            out.update(status='skip', why='not implemented by nutils: {} [declared unsupported: boolean floor division / boolean or integer reciprocal]'.format(n['op']))
            return out
        if what:
            # an operation that nutils refuses anyway when it is evaluated is unsupported, whatever its announced type
            try:
                with numpy.errstate(all='ignore'), warnings.catch_warnings(), watchdog(EVAL_CPU_S):
                    warnings.simplefilter('ignore')
                    smp.eval(obj, arguments={nn['p']: world.args[nn['p']] for nn in nodes if nn['op'] == 'leaf' and nn['p'] in world.args})
            except Exception as ex:
                why = unsupported(ex, n['op'])
                if why:
                    out.update(status='skip', why='not implemented by nutils (raised at evaluation): {} [{}]'.format(n['op'], why))
                    return out
            out.update(status='violation', key=key_for(nodes, k, what[0]), what=what[1])
            return out
        nchecked += 1
        objs.append(obj)
    # ---- evaluate at every point
    args = {n['p']: world.args[n['p']] for n in nodes if n['op'] == 'leaf' and n['p'] in world.args}
    anybad = any(n['bad'] for n in nodes)

    def evaluate(obj):
        with numpy.errstate(all='ignore'), warnings.catch_warnings(), watchdog(EVAL_CPU_S):
            warnings.simplefilter('ignore')
            return smp.eval(obj, arguments=args)

    def unoptimized_is_right(wantv, judgedv):
        """root-cause attribution: does the function array evaluate correctly when the evaluable optimizer
        (optimized_for_numpy, a C02 matter) is switched off?  Then the function layer lowered the call correctly."""
        try:
            from nutils import evaluable
            with numpy.errstate(all='ignore'), warnings.catch_warnings(), watchdog(EVAL_CPU_S):
                warnings.simplefilter('ignore')
                got0 = evaluable.eval_once(smp.bind(objs[-1]).as_evaluable_array, arguments=args, _optimize=False)
            return same_values(wantv, ~judgedv, numpy.asarray(got0), root['dt'])
        except Exception:
            return False

    def refvals(k):
        return numpy.array([numpy.asarray(vals[k - 1]) for vals, fail in ref])

    def first_deviation():
        'first call (post order) whose evaluation deviates from numpy on plain ndarrays: root-cause attribution only'
        for k, n in enumerate(nodes, 1):
            if n['op'] == 'leaf' or not hasattr(objs[k - 1], 'lower'):
                continue
            try:
                got = evaluate(objs[k - 1])
            except Exception as ex:
                return k, 'eval-exception:' + type(ex).__name__, ex
            want = refvals(k)
            if got.shape != want.shape or not same_values(want, ~numpy.isfinite(want.astype(complex)), got, n['dt']):
                return k, 'value', None
        return len(nodes), 'value', None

    try:
        got = evaluate(objs[-1])
    except Timeout:
        out.update(status='violation', key=key_for(nodes, len(nodes), 'eval-timeout'), what='evaluation of {} did not return within {} CPU seconds'.format(out['expr'], EVAL_CPU_S))
        return out
    except Exception as ex:
        k, what, ex2 = first_deviation()
        ex2 = ex2 or ex
        if unsupported(ex2, nodes[k - 1]['op']):
            out.update(status='skip', why='not implemented by nutils (raised at evaluation): {} [{}]'.format(nodes[k - 1]['op'], unsupported(ex2, nodes[k - 1]['op'])))
            return out
        if any(nn['bad'] for nn in nodes[:k]):      # undefined model values (run-time index out of range ...) at or below the failing call
            out.update(status='skip', why='model value undefined at some point (evaluation raises)')
            return out
        what = 'eval-exception:' + type(ex2).__name__
        key = key_for(nodes, k, what, ex2)
        if root['dt'] in 'bifc' and not anybad:
            w0 = numpy.array([ops.decode(root['sh'], root['dt'], pv)[0] for pv in e['root']]).reshape((len(e['root']),) + tuple(ops.seq(root['sh'])))
            if unoptimized_is_right(w0, numpy.ones(w0.shape, dtype=bool)):
                key = 'evaluable-optimizer:eval-exception-only-with-_optimize'
        out.update(status='violation', key=key,
                   what='sample.eval of {} on {} raises {}: {}'.format(out['expr'], out['smp'], type(ex2).__name__, str(ex2)[:120]))
        return out
    want = []
    bad = []
    for pv in e['root']:
        w, b = ops.decode(root['sh'], root['dt'], pv)
        want.append(w)
        bad.append(b)
    want = numpy.array(want).reshape((len(want),) + tuple(ops.seq(root['sh'])))
    bad = numpy.array(bad).reshape(want.shape)
    if got.shape != want.shape:
        out.update(status='violation', key=key_for(nodes, len(nodes), 'evaluated-shape'), what='sample.eval of {} has shape {} instead of {}'.format(out['expr'], got.shape, want.shape))
        return out
    if ops.kind_of(got.dtype) != root['dt']:
        out.update(status='violation', key=key_for(nodes, len(nodes), 'evaluated-dtype'), what='sample.eval of {} has dtype {} instead of kind {}'.format(out['expr'], got.dtype, root['dt']))
        return out
    out['typed'] = nchecked
    if unstable(nodes):
        out.update(status='ok', valued=False, why='discontinuous call on inexact float data (rounding may legitimately differ): only shape and kind judged')
        return out
    # ---- values.  Points at which plain numpy produces a non-finite number anywhere in the program (division by zero ...) are
    # not judged at all; at the other points the entries the model defines are compared with the MODEL, the entries it leaves
    # undefined (irrational roots, transcendental functions, numbers beyond the model's cap) with numpy's own result for the
    # operands' values at that point.
    finite = numpy.ones(len(want), dtype=bool)
    eps = 0.
    if anybad:
        for pt, (vals, fail) in enumerate(ref):
            for n, v in zip(nodes, vals):
                v = numpy.asarray(v)
                if v.dtype.kind in 'fc':
                    if not numpy.isfinite(v).all():
                        finite[pt] = False
                    eps = max(eps, float(numpy.finfo(v.dtype).eps))     # numpy computes bool/int8 operands in half precision
                if n['op'] == 'arctan2' and (numpy.asarray(vals[ops.seq(n['d'])[1] - 1]) == 0).any():
                    finite[pt] = False      # on the branch cut the result depends on the SIGN of a zero
                # NumPy does not check that the table of searchsorted / interp is sorted: the result is unspecified otherwise
                if n['op'] in ('searchsorted', 'interp'):
                    tab = numpy.asarray(vals[ops.seq(n['d'])[0 if n['op'] == 'searchsorted' else 1] - 1])
                    if tab.ndim == 1 and not ((numpy.diff(tab.real) >= 0).all() if n['op'] == 'searchsorted' else (numpy.diff(tab.real) > 0).all()):
                        finite[pt] = False
    fb = numpy.zeros(want.shape, dtype=bool)
    if anybad and bad.any():
        r = refvals(len(nodes))
        fb = bad & finite.reshape((-1,) + (1,) * (want.ndim - 1))
        want = numpy.where(fb, r, want) if root['dt'] != 'c' else numpy.where(fb, r.astype(complex), want)
    judged = (~bad | fb) & finite.reshape((-1,) + (1,) * (want.ndim - 1))
    if not judged.any() and judged.size:
        out.update(status='ok', valued=False, why='model value undefined at every point: only shape and kind judged')
        return out
    if eps > 1e-12 and fb.any():
        # numpy evaluates bool / int8 operands of float functions in HALF precision: its own result is no reference for these entries
        judged = judged & ~fb
    if not same_values(want, ~judged, got, root['dt']):
        k, what, ex2 = first_deviation()
        pts = [i for i in range(len(want)) if not same_values(want[i], ~judged[i], got[i], root['dt'])]
        key = 'evaluable-optimizer:value-wrong-only-with-_optimize' if unoptimized_is_right(want, judged) else key_for(nodes, k, 'value')
        out.update(status='violation', key=key,
                   what='{} on sample {}: value at point {} is {} but numpy gives {}'.format(out['expr'], out['smp'], pts[0], got[pts[0]].tolist(), want[pts[0]].tolist()))
        return out
    out['points'] = int(finite.sum())
    out['entries'] = int((judged & ~fb).sum())
    out['entries_fallback'] = int((judged & fb).sum())
    # ---- second spelling of the same call (operators, Array methods) must give the same function
    n = root
    try:
        with warnings.catch_warnings(), watchdog(BUILD_CPU_S):
            warnings.simplefilter('ignore')
            alt = ops.apply_alt(n['op'], n['p'], [objs[d - 1] for d in ops.seq(n['d'])])
    except Exception as ex:
        alt = None
        if not unsupported(ex, n['op']):
            out.update(status='violation', key=key_for(nodes, len(nodes), 'alt-spelling:build-exception:' + type(ex).__name__, ex),
                       what='operator/method spelling of {} raises {}: {}'.format(out['expr'], type(ex).__name__, str(ex)[:120]))
            return out
    if alt is not None and isinstance(alt, function.Array):
        if tuple(alt.shape) != tuple(objs[-1].shape) or alt.dtype != objs[-1].dtype:
            out.update(status='violation', key=key_for(nodes, len(nodes), 'alt-spelling:shape-dtype'), what='operator/method spelling of {} has shape {} dtype {}'.format(out['expr'], alt.shape, alt.dtype))
            return out
        try:
            got2 = evaluate(alt)
        except Exception as ex:
            out.update(status='violation', key=key_for(nodes, len(nodes), 'alt-spelling:eval-exception:' + type(ex).__name__, ex), what='operator/method spelling of {} fails to evaluate: {!r}'.format(out['expr'], ex))
            return out
        if not same_values(want, ~judged, got2, root['dt']):
            out.update(status='violation', key=key_for(nodes, len(nodes), 'alt-spelling:value'), what='operator/method spelling of {} evaluates differently'.format(out['expr']))
            return out
        out['alt'] = True
    return out


def canon(e):
    return json.dumps([[n['op'], n['d'], n['p']] for n in e['nodes']], sort_keys=True, separators=(',', ':'))


def point_dependent(e):
    return any(n['op'] == 'leaf' and n['p'] in PT_LEAVES for n in e['nodes'])
