SPECIFICATION Spec
CONSTANTS
  MaxLeaves = 2
  MaxOps = 2
  MaxStack = 2
  VarSet <- VarsB
  NumSet <- NumsA
  FuncSet <- FuncsB
  Toks <- ToksB
  GToks <- GToksB
  IntExps <- ExpsB
  Wraps <- WrapsB
  Muts <- AllMuts
  Cors <- AllCors
  Styles <- OneStyle
  EmitMin = 0
  Bug = ""
INVARIANT VerdictAgree
INVARIANT FreeAgree
INVARIANT MeaningAgree
INVARIANT RenderBalanced
INVARIANT Unbalanced
CONSTRAINT EmitComplete
CONSTRAINT EmitTables
CHECK_DEADLOCK FALSE
