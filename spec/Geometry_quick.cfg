\* quick: all base meshes but prodm, one refinement of line / tri (tet: for the boundary fields only), all geometry maps, a subset of the fields
SPECIFICATION Spec
CONSTANTS
  MeshNames = {"line", "rect", "tri", "prod", "box", "tet", "prod3"}
  RefineOn = {"line", "tri"}
  MaxLevel = 1
  Refine2On = {"line"}
  GeomIds = {1, 2, 3, 4, 5, 6, 7, 8, 9, 10, 11, 12, 13, 14, 15, 16, 17, 18, 19, 20, 21}
  FieldIds = {2, 7, 13}
  Lattice = 2
  Lattice3 = 1
  IntegrateOn = {"line", "rect", "tri", "tet"}
  BFieldOn = {"tri", "box", "tet"}
  RefineOnB = {"tet"}
  ProdGeomIds = {12, 22}
  ProdFieldIds = {2, 7, 13}
  GmMutant = "none"
INVARIANT TypeOK
INVARIANT GradIsDerivative
INVARIANT SurfGradProjects
INVARIANT SurfGradBoundary
INVARIANT MeasureIsGram
INVARIANT NormalOrthogonal
INVARIANT NormalOutward
INVARIANT NormalRoutes
INVARIANT ExteriorOrthogonal
INVARIANT InterfaceOpposite
INVARIANT DivTheoremElem
INVARIANT DivTheoremMesh
INVARIANT VolumePositive
INVARIANT PerSpace
INVARIANT ProductGradient
INVARIANT CoarseMeasure
INVARIANT BoundaryFieldTangential
INVARIANT BoundarySurfGrad
INVARIANT EmitEval
PROPERTY RefinePreserves
