------------------------------- MODULE DimFn -------------------------------
(***************************************************************************)
(* C20 -- design specification of the nutils_dispatch / NEP-18 entries of  *)
(* Quantity.__DISPATCH_TABLE that act on nutils function arrays:           *)
(* differentiation (grad, surfgrad, div, curl, laplace, derivative,        *)
(* curvature), integration (jacobian, Sample.integral, Sample.bind,        *)
(* function.evaluate), geometry helpers (normal, normalized), argument     *)
(* manipulation (linearize, replace_arguments, field, arguments_for,       *)
(* factor, kronecker, jump, opposite), Topology.locate, and arithmetic     *)
(* on wrapped function arrays.                                             *)
(*                                                                         *)
(* A behaviour is a PROGRAM: a sequence of operations on a growing list of *)
(* objects; an object is a function array (plain, or wrapped in a          *)
(* Quantity of some class) with a symbolic shape ("d" = space dimension,   *)
(* "n" = number of dofs, "p" = points).  Values are not modelled: the      *)
(* harness evaluates every result numerically and compares it with the     *)
(* same program run on the unwrapped arrays ("the same computation on      *)
(* plain numbers in reference units"); the model decides class, dimension  *)
(* and rejection.                                                          *)
(***************************************************************************)
EXTENDS Dimension, Json

CONSTANTS Inits,      \* set of [u, v, x, nd]: classes (names) of the fields u, v, the geometry x; space dimension
          InitCache,  \* Dimension.__cache at the start: name -> powers for the classes used by Inits and OtherDims
          OtherDims,  \* classes offered for the coords / tol / maxdist arguments of locate
          MaxSteps

VARIABLES objs, prog, cache, nd, phase
vars == <<objs, prog, cache, nd, phase>>

Obj(dim, sh, geo) == [q |-> dim # Dimless, dim |-> dim, sh |-> sh, geo |-> geo]
UDim(x) == IF x.q THEN x.dim ELSE Dimless
AVec(c, x) == Vec(IF x.q THEN c[x.dim] ELSE NoPowers)
Out(kind, dim, pw, sh) == [kind |-> kind, dim |-> dim, pw |-> pw, sh |-> sh]
NoOut(kind) == Out(kind, Dimless, NoPowers, <<>>)

\* apply the table entry of f to the classes ds; sh: shape of the result
Apply(c, f, ds, k, sh, geo) ==
  LET d == Dispatch(c, DispOf(f), ds, k)
  IN [cache |-> d.cache,
      out |-> CASE d.res = "rej" -> NoOut("reject")
                [] d.res = "raw" -> Out("plain", Dimless, NoPowers, sh)
                [] d.res = "wrap" -> IF DOMAIN d.cache[d.name] = {} THEN Out("plain", Dimless, NoPowers, sh)
                                     ELSE Out("q", d.name, d.cache[d.name], sh),
      geo |-> geo]

N == Len(objs)
Idx == 1..N
\* (written without \/ and \E so that TLC does not generate one successor per witness)
Newest(S) == IF Len(prog) = 0 THEN TRUE ELSE N \in S   \* after the first operation every operation involves the newest object
Front(s) == SubSeq(s, 1, Len(s) - 1)
Last(s) == s[Len(s)]
Quant(S) == {i \in S : objs[i].q} # {}          \* SI is only involved if an operand is a Quantity

Commit(act, f, a, k, ds, r) ==
  /\ prog' = Append(prog, [act |-> act, f |-> f, a |-> a, k |-> k, ds |-> ds, out |-> r.out])
  /\ cache' = r.cache
  /\ nd' = nd
  /\ IF r.out.kind \in {"q", "plain"}
     THEN objs' = Append(objs, [q |-> r.out.kind = "q", dim |-> r.out.dim, sh |-> r.out.sh, geo |-> r.geo]) /\ phase' = "ready"
     ELSE objs' = objs /\ phase' = "leaf"

D(i) == UDim(objs[i])
Sh(i) == objs[i].sh

\* ---- differentiation with respect to a geometry: __div_like / __laplace (class of arg, class of geom)
Grad == \E f \in {"function.grad", "function.surfgrad"}, i \in Idx, j \in Idx :
          /\ objs[j].geo /\ Len(Sh(i)) <= 1 /\ Quant({i, j}) /\ Newest({i, j})
          /\ Commit("Grad", f, <<i, j>>, Zero, <<>>, Apply(cache, f, <<D(i), D(j)>>, Zero, Sh(i) \o <<"d">>, FALSE))
Div == \E i \in Idx, j \in Idx :
          /\ objs[j].geo /\ Sh(i) # <<>> /\ Last(Sh(i)) = "d" /\ Quant({i, j}) /\ Newest({i, j})
          /\ Commit("Div", "function.div", <<i, j>>, Zero, <<>>, Apply(cache, "function.div", <<D(i), D(j)>>, Zero, Front(Sh(i)), FALSE))
Curl == \E i \in Idx, j \in Idx :
          /\ nd = 3 /\ objs[j].geo /\ Sh(i) = <<"d">> /\ Quant({i, j}) /\ Newest({i, j})
          /\ Commit("Curl", "function.curl", <<i, j>>, Zero, <<>>, Apply(cache, "function.curl", <<D(i), D(j)>>, Zero, Sh(i), FALSE))
Laplace == \E i \in Idx, j \in Idx :
          /\ objs[j].geo /\ Len(Sh(i)) <= 1 /\ Quant({i, j}) /\ Newest({i, j})
          /\ Commit("Laplace", "function.laplace", <<i, j>>, Zero, <<>>, Apply(cache, "function.laplace", <<D(i), D(j)>>, Zero, Sh(i), FALSE))
\* ---- jacobian(geom, ndims): __pow_like; ndims = None (k = -1 here) has no static dimension: it must not return a value
Jacobian == \E j \in Idx, k \in {nd, nd - 1, -1} :
          /\ objs[j].geo /\ objs[j].q /\ Newest({j})
          /\ IF k = -1 THEN Commit("Jacobian", "function.jacobian", <<j>>, RInt(k), <<>>, [cache |-> cache, out |-> NoOut("undef"), geo |-> FALSE])
             ELSE Commit("Jacobian", "function.jacobian", <<j>>, RInt(k), <<>>, Apply(cache, "function.jacobian", <<D(j)>>, RInt(k), <<>>, FALSE))
Curvature == \E j \in Idx :
          /\ objs[j].geo /\ objs[j].q /\ Newest({j})
          /\ Commit("Curvature", "function.curvature", <<j>>, Zero, <<>>, Apply(cache, "function.curvature", <<D(j)>>, Zero, <<>>, FALSE))
Normal == \E j \in Idx :
          /\ objs[j].geo /\ objs[j].q /\ Newest({j})
          /\ Commit("Normal", "function.normal", <<j>>, Zero, <<>>, Apply(cache, "function.normal", <<D(j)>>, Zero, <<"d">>, FALSE))
Normalized == \E i \in Idx :
          /\ objs[i].q /\ Sh(i) # <<>> /\ Newest({i})
          /\ Commit("Normalized", "function.normalized", <<i>>, Zero, <<>>, Apply(cache, "function.normalized", <<D(i)>>, Zero, Sh(i), FALSE))
\* ---- __unary on function arrays
Derivative == \E i \in Idx :
          /\ objs[i].q /\ Len(Sh(i)) <= 1 /\ Newest({i})
          /\ Commit("Derivative", "function.derivative", <<i>>, Zero, <<>>, Apply(cache, "function.derivative", <<D(i)>>, Zero, Sh(i) \o <<"n">>, FALSE))
SameShapeUnary == \E f \in {"function.jump", "function.opposite", "function.linearize", "function.replace_arguments",
                            "operator.neg", "numpy.absolute"}, i \in Idx :
          /\ objs[i].q /\ Newest({i})
          /\ Commit("SameShapeUnary", f, <<i>>, Zero, <<>>, Apply(cache, f, <<D(i)>>, Zero, Sh(i), objs[i].geo /\ f \in {"operator.neg"}))
Kronecker == \E i \in Idx :
          /\ objs[i].q /\ Len(Sh(i)) <= 1 /\ Newest({i})
          /\ Commit("Kronecker", "function.kronecker", <<i>>, Zero, <<>>, Apply(cache, "function.kronecker", <<D(i)>>, Zero, <<"d">> \o Sh(i), FALSE))
SumLast == \E i \in Idx :
          /\ objs[i].q /\ Sh(i) # <<>> /\ Newest({i})
          /\ Commit("SumLast", "numpy.sum", <<i>>, Zero, <<>>, Apply(cache, "numpy.sum", <<D(i)>>, Zero, Front(Sh(i)), FALSE))
GetItem == \E i \in Idx :
          /\ objs[i].q /\ Sh(i) # <<>> /\ Sh(i)[1] = "d" /\ Newest({i})
          /\ Commit("GetItem", "operator.getitem", <<i>>, Zero, <<>>, Apply(cache, "operator.getitem", <<D(i)>>, Zero, Tail(Sh(i)), FALSE))
\* ---- function.field(name, array): __field multiplies the classes of ALL positional arguments (the name unpacks as Dimensionless)
Field == \E i \in Idx :
          /\ objs[i].q /\ Len(Sh(i)) >= 1 /\ Sh(i)[1] = "n" /\ Newest({i})
          /\ Commit("Field", "function.field", <<i>>, Zero, <<>>, Apply(cache, "function.field", <<Dimless, D(i)>>, Zero, Tail(Sh(i)), FALSE))
\* ---- integration: __sample; bind prepends the points axis, integral removes the spatial dependence
Integral == \E i \in Idx :
          /\ objs[i].q /\ Newest({i}) /\ ~("p" \in {Sh(i)[m] : m \in 1..Len(Sh(i))})
          /\ Commit("Integral", "Sample.integral", <<i>>, Zero, <<>>, Apply(cache, "Sample.integral", <<D(i)>>, Zero, Sh(i), FALSE))
Bind == \E i \in Idx :
          /\ objs[i].q /\ Newest({i}) /\ Len(Sh(i)) <= 1 /\ ~("p" \in {Sh(i)[m] : m \in 1..Len(Sh(i))})
          /\ Commit("Bind", "Sample.bind", <<i>>, Zero, <<>>, Apply(cache, "Sample.bind", <<D(i)>>, Zero, <<"p">> \o Sh(i), FALSE))
ArgumentsFor == \E i \in Idx :
          /\ objs[i].q /\ Newest({i})
          /\ Commit("ArgumentsFor", "function.arguments_for", <<i>>, Zero, <<>>, [Apply(cache, "function.arguments_for", <<D(i)>>, Zero, <<>>, FALSE) EXCEPT !.out.kind = "dict"])
\* ---- arithmetic on wrapped function arrays (same table entries as for numbers)
Compatible(s, t) == IF s = t THEN TRUE ELSE IF s = <<>> THEN TRUE ELSE t = <<>>
BShape(s, t) == IF s = <<>> THEN t ELSE s
Binary == \E f \in {"operator.mul", "operator.truediv", "operator.add", "numpy.subtract", "numpy.multiply"}, i \in Idx, j \in Idx :
          /\ Compatible(Sh(i), Sh(j)) /\ Quant({i, j}) /\ Newest({i, j})
          /\ Commit("Binary", f, <<i, j>>, Zero, <<>>, Apply(cache, f, <<D(i), D(j)>>, Zero, BShape(Sh(i), Sh(j)), FALSE))
SqrtPow == \E i \in Idx, k \in {RInt(2), Half, RInt(-1)} :
          /\ objs[i].q /\ Newest({i})
          /\ \/ k = Half /\ Commit("SqrtPow", "numpy.sqrt", <<i>>, Zero, <<>>, Apply(cache, "numpy.sqrt", <<D(i)>>, Zero, Sh(i), FALSE))
             \/ Commit("SqrtPow", "operator.pow", <<i>>, k, <<>>, Apply(cache, "operator.pow", <<D(i)>>, k, Sh(i), FALSE))
Stack == \E i \in Idx, j \in Idx :
          /\ Sh(i) = Sh(j) /\ Len(Sh(i)) <= 1 /\ Quant({i, j}) /\ Newest({i, j})
          /\ Commit("Stack", "numpy.stack", <<i, j>>, Zero, <<>>, Apply(cache, "numpy.stack", <<D(i), D(j)>>, Zero, <<"2">> \o Sh(i), FALSE))
\* ---- Topology.locate(geom, coords, tol=.., maxdist=..): dc, dt, dm classes of coords, tol, maxdist;
\*      nt / nm = 1: the argument is not given (tol defaults to the NUMBER 0, maxdist to None)
Locate == \E j \in Idx, dc \in OtherDims, dt \in OtherDims, dm \in OtherDims, nt \in {0, 1}, nm \in {0, 1} :
          /\ objs[j].geo /\ Len(prog) = 0 /\ (IF objs[j].q THEN TRUE ELSE dc # Dimless)
          /\ (nt = 1 => dt = Dimless) /\ (nm = 1 => dm = Dimless)
          \* `tol is None` never holds for the default tol=0, so k[1] = 0 also when tol is not given
          /\ Commit("Locate", "Topology.locate", <<j>>, <<nt, nm>>, <<dc, dt, dm>>,
                    [Apply(cache, "Topology.locate", <<D(j), dc, dt, dm>>, <<0, nm>>, <<>>, FALSE) EXCEPT !.out.kind = IF @ = "plain" THEN "sample" ELSE @])

Op == /\ phase = "ready" /\ Len(prog) < MaxSteps
      /\ (Grad \/ Div \/ Curl \/ Laplace \/ Jacobian \/ Curvature \/ Normal \/ Normalized \/ Derivative \/ SameShapeUnary
          \/ Kronecker \/ SumLast \/ GetItem \/ Field \/ Integral \/ Bind \/ ArgumentsFor \/ Binary \/ SqrtPow \/ Stack \/ Locate)
Next == Op

\* u: scalar field, v: scalar field of another class, x: geometry, b: basis (shape n) of the class of u
Init == \E s \in Inits :
          /\ objs = <<Obj(s.u, <<>>, FALSE), Obj(s.v, <<>>, FALSE), Obj(s.x, <<"d">>, TRUE), Obj(s.u, <<"n">>, FALSE)>>
          /\ nd = s.nd /\ prog = <<>> /\ cache = InitCache /\ phase = "ready"
Spec == Init /\ [][Next]_vars

\* ------------------------------------------------------------- invariants
TypeOK == /\ \A i \in Idx : objs[i].q => objs[i].dim \in DOMAIN cache /\ DOMAIN cache[objs[i].dim] # {}
          /\ Len(prog) <= MaxSteps
CacheSound == \A n \in DOMAIN cache : Name(cache[n]) = n /\ Strip(cache[n]) = cache[n] /\ NameToPowers(n) = cache[n]

\* the dimension of the last result is what physics dictates for the rule class of the function
LastStep == prog[Len(prog)]
Sound ==
  Len(prog) > 0 =>
    LET st == LastStep
        f == st.f
        rule == RuleOfF(f)
        \* objects the step consumed (the result, if any, was appended after them)
        A(i) == AVec(cache, objs[st.a[i]])
        a == IF f = "function.field" THEN VZero ELSE A(1)
        b == IF f = "function.field" THEN A(1)
             ELSE IF f = "Topology.locate" THEN Vec(cache[st.ds[1]])
             ELSE IF Len(st.a) >= 2 THEN A(2) ELSE A(1)
        want == Physics(rule, a, b, st.k)
        got == st.out
    IN CASE f = "function.jacobian" /\ st.k = RInt(-1) -> got.kind = "undef"
         [] f = "Topology.locate" ->
              \* accepted only if coords, and tol / maxdist when given, have the dimension of the geometry
              LET okt == st.k[1] = 1 \/ Vec(cache[st.ds[2]]) = a
                  okm == st.k[2] = 1 \/ Vec(cache[st.ds[3]]) = a
              IN (got.kind = "sample") => (want.k = "plain" /\ okt /\ okm)
         [] want.k = "reject" -> got.kind = "reject"
         [] want.k = "plain" -> got.kind \in {"plain", "dict"} /\ Vec(got.pw) = VZero
         [] want.k = "dim" -> /\ got.kind \in {"q", "plain"}
                              /\ Vec(got.pw) = want.v
                              /\ (got.kind = "plain" <=> want.v = VZero)

\* ------------------------------------------------------------- emission for the S->C replay
Emit == Len(prog) = 0 \/ PrintT(<<"VF", ToJson([nd |-> nd, init |-> SubSeq(objs, 1, 4), initpw |-> [i \in 1..4 |-> cache[UDim(objs[i])]], prog |-> prog])>>)
=============================================================================
