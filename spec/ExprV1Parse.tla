----------------------------- MODULE ExprV1Parse -----------------------------
(***************************************************************************)
(* C19 -- the index / shape / LINKED-LENGTH bookkeeping of                 *)
(* nutils.expression_v1 (_Array and _ExpressionParser) and the derivation  *)
(* machine for the version 1 language.                                     *)
(*                                                                         *)
(* Part 1 (Q...): one operator per method of expression_v1._Array          *)
(*   (_apply_indices, _update_lengths, _join_lengths, _join_shapes,        *)
(*   _simplify_shape, __mul__, _add_sub, __truediv__, __pow__, grad,       *)
(*   append_axis) and per branch of _ExpressionParser.parse_var (variable, *)
(*   argument, dirac, indexed number, normal, gradient, function call,     *)
(*   substitution) and parse().  linked_lengths is modelled as the code    *)
(*   has it: a set of groups of length terms, merged through a cache       *)
(*   term -> group.  What is modelled is a CORRECT implementation: the     *)
(*   seeded defects (Bug) reproduce the ways the real one can go wrong.    *)
(* Part 2: the shift/reduce derivation machine (one action per production  *)
(*   of the documented grammar, rule-breaking constructors, token          *)
(*   corruptions).                                                         *)
(* Property (invariants over every derivable tree, for a namespace without *)
(* and with a fallback length):                                            *)
(*   VerdictAgree   the bookkeeping accepts iff the documented rules hold  *)
(*                  and every length can be deduced without conflict,      *)
(*   FreeAgree      free / summed indices, the length of every free index  *)
(*                  and the shape of every argument are the deduced ones,  *)
(*   GroupsAgree    every group of linked lengths knows exactly the        *)
(*                  integers of the equivalence class of its members,      *)
(*   InferenceSound the classes decide what the link equations decide.     *)
(* The meaning (ExprV1Lang!Val1) is emitted with every complete state and  *)
(* compared with the real namespace by the harness.                        *)
(***************************************************************************)
EXTENDS ExprV1Lang

CONSTANTS Fams, Lazy, EmitMin, Bug

VARIABLES stk, fin, jd, fam
vars == <<stk, fin, jd, fam>>

\* a vocabulary
Fam1(ml, mo, ms, v, a, n, f, t, g, e, w, x, ft, m, c, s) ==
  [ML |-> ml, MO |-> mo, MS |-> ms,
   V |-> v,        \* variables
   A |-> a,        \* arguments
   N |-> n,        \* number literals
   F |-> f,        \* functions
   T |-> t,        \* index tokens of variables / arguments
   G |-> g,        \* gradient index tokens
   E |-> e,        \* integer exponents
   W |-> w,        \* brackets
   X |-> x,        \* leaves with deduced lengths: "$" "DELTA" (dirac), "cix" (indexed number), "normal"
   FT |-> ft,      \* features: "grad" "surf" "grad2" (two gradient indices) "subst" "subst2" "rank2" (arguments with two axes) "argscalar"
   M |-> m,        \* rule breakers
   C |-> c,        \* token corruptions
   S |-> s,        \* extra rendering styles
   VO |-> FALSE, PK |-> FALSE,
   FB |-> 3]       \* the fallback length of the second namespace
MaxLeaves == Fams[fam].ML
MaxOps == Fams[fam].MO
MaxStack == Fams[fam].MS
VarSet == Fams[fam].V
ArgSet == Fams[fam].A
NumSet == Fams[fam].N
FuncSet == Fams[fam].F
Toks == Fams[fam].T
GToks == Fams[fam].G
IntExps == Fams[fam].E
Wraps == Fams[fam].W
Extras == Fams[fam].X
Feats == Fams[fam].FT
Muts == Fams[fam].M
Cors == Fams[fam].C
Styles == Fams[fam].S
ValidOnly == Fams[fam].VO
PruneKids == Fams[fam].PK
Fallback == Fams[fam].FB

\* ================================================================== part 1: the bookkeeping
Without(sq, i) == SubSeq(sq, 1, i - 1) \o SubSeq(sq, i + 1, Len(sq))
Without2(sq, i, j) == SubSeq(sq, 1, i - 1) \o SubSeq(sq, i + 1, j - 1) \o SubSeq(sq, j + 1, Len(sq))
InsertAt(sq, i, x) == SubSeq(sq, 1, i - 1) \o <<x>> \o SubSeq(sq, i, Len(sq))
PosIn(sq, x) == CHOOSE p \in 1..Len(sq) : sq[p] = x /\ \A q \in 1..(p - 1) : sq[q] # x     \* str.index

QOk(ix, sh, sm, ll) == [ok |-> TRUE, why |-> "", ix |-> TLCEval(ix), sh |-> TLCEval(sh), sm |-> TLCEval(sm), ll |-> TLCEval(ll)]
QFail(w) == [ok |-> FALSE, why |-> w, ix |-> <<>>, sh |-> <<>>, sm |-> {}, ll |-> {}]
\* cache = {l: g for g in linked_lengths for l in g}
CacheOf(ll) == TLCEval([t \in UNION ll |-> CHOOSE g \in ll : t \in g])
NoCache == [t \in {} |-> {}]
CGet(c, t) == IF t \in DOMAIN c THEN c[t] ELSE {t}                       \* cache.get(t, frozenset([t]))
CUpd(c, K, g) == TLCEval([t \in DOMAIN c \cup K |-> IF t \in K THEN g ELSE c[t]])   \* cache.update((k, g) for k in K)
CVals(c) == TLCEval({c[t] : t \in DOMAIN c})                                      \* frozenset(cache.values())
TwoKnown(g) == Cardinality({t \in g : ~IsLen(t)}) > 1
\* _update_lengths(linked_lengths, index, a, b)
QUpdate(ll, a, b) ==
  LET c == CacheOf(ll) IN
  IF a # b THEN
       IF ~IsLen(a) /\ ~IsLen(b) THEN [ok |-> FALSE, ll |-> {}]
       ELSE LET g == CGet(c, a) \cup CGet(c, b)
                c2 == CUpd(c, IF Bug = "update-nontransitive" THEN {a, b} ELSE g, g)
            IN IF TwoKnown(g) THEN [ok |-> FALSE, ll |-> {}] ELSE [ok |-> TRUE, ll |-> CVals(c2)]
  ELSE IF IsLen(a) /\ a \notin DOMAIN c THEN [ok |-> TRUE, ll |-> CVals(CUpd(c, {a}, {a}))]
  ELSE [ok |-> TRUE, ll |-> CVals(c)]
\* _join_lengths(*args): the groups are merged one by one through the cache
RECURSIVE QJoinFold(_, _)
QJoinFold(groups, c) ==
  IF groups = {} THEN c
  ELSE LET g == CHOOSE y \in groups : TRUE
           newg == UNION {CGet(c, t) : t \in g}
       IN QJoinFold(groups \ {g}, CUpd(c, IF Bug = "join-nontransitive" THEN g ELSE newg, newg))
QJoin(groups) == LET ll == CVals(QJoinFold(groups, NoCache)) IN
                 IF \E g \in ll : TwoKnown(g) THEN [ok |-> FALSE, ll |-> {}] ELSE [ok |-> TRUE, ll |-> ll]
\* _simplify_shape
GroupAt(ll, t) == IF \E g \in ll : t \in g THEN CHOOSE g \in ll : t \in g ELSE {t}
QSimplify(sh, ll) == TLCEval([p \in 1..Len(sh) |-> IF IsLen(sh[p]) /\ KnownIn(GroupAt(ll, sh[p])) # {} THEN CHOOSE t \in KnownIn(GroupAt(ll, sh[p])) : TRUE ELSE sh[p]])
\* _join_shapes: two arrays with the same (order of) indices
QJoinShapes(shA, llA, shB, llB) ==
  IF \E p \in 1..Len(shA) : shA[p] # shB[p] /\ ~IsLen(shA[p]) /\ ~IsLen(shB[p]) THEN [ok |-> FALSE, why |-> "shape-differ", sh |-> <<>>, ll |-> {}]
  ELSE LET j == QJoin(llA \cup llB \cup {{shA[p], shB[p]} : p \in {q \in 1..Len(shA) : shA[q] # shB[q]}}) IN
       IF ~j.ok THEN [ok |-> FALSE, why |-> "length-conflict", sh |-> <<>>, ll |-> {}]
       ELSE [ok |-> TRUE, why |-> "", sh |-> QSimplify(shA, j.ll), ll |-> j.ll]
\* _apply_indices: the while loop over i (1-based here)
RECURSIVE QApply(_, _, _, _, _)
QApply(i, ix, sh, sm, ll) ==
  IF i > Len(ix) THEN QOk(ix, sh, sm, ll)
  ELSE LET t == ix[i]
           j == PosIn(ix, t)
       IN IF IsDigit(t) THEN
               IF ~IsLen(sh[i]) /\ DigitVal[t] >= sh[i] THEN QFail("numeral-range")
               ELSE QApply(i, Without(ix, i), Without(sh, i), sm, ll)
          ELSE IF t \notin AllLetters THEN QFail("index-symbol")
          ELSE IF t \in sm THEN QFail("index-thrice")
          ELSE IF j < i THEN
               LET u == QUpdate(ll, sh[j], sh[i]) IN
               IF ~u.ok THEN QFail("trace-length")
               ELSE QApply(i - 1, Without2(ix, j, i), Without2(sh, j, i), sm \cup {t}, u.ll)
          ELSE QApply(i + 1, ix, sh, sm, IF IsLen(sh[i]) /\ ~\E g \in ll : sh[i] \in g THEN ll \cup {{sh[i]}} ELSE ll)
QWrap(ix, sh, ll) == IF Len(ix) # Len(sh) THEN QFail("index-count") ELSE QApply(1, ix, sh, {}, ll)
\* the singleton groups append_axis adds for lengths the array does not know yet
Singles(terms, ll) == {{t} : t \in {y \in terms : IsLen(y) /\ ~\E g \in ll : y \in g}}
\* __mul__
QMul(A, B) ==
  IF (SeqToSet(A.ix) \cup A.sm) \cap B.sm # {} \/ (SeqToSet(B.ix) \cup B.sm) \cap A.sm # {} THEN QFail("index-thrice")
  ELSE LET common == SelectSeq(A.ix, LAMBDA l : l \in SeqToSet(B.ix))
           onlyB == SelectSeq(B.ix, LAMBDA l : l \notin SeqToSet(A.ix))
           onlyA == SelectSeq(A.ix, LAMBDA l : l \notin SeqToSet(B.ix))
           ixs == A.ix \o onlyB                                                              \* self with the axes of other appended
           LenOf(R, l) == R.sh[PosIn(R.ix, l)]
           shA == TLCEval(A.sh \o [p \in 1..Len(onlyB) |-> LenOf(B, onlyB[p])])
           llA == TLCEval(A.ll \cup Singles({LenOf(B, onlyB[p]) : p \in 1..Len(onlyB)}, A.ll))
           shB == TLCEval([p \in 1..Len(ixs) |-> IF ixs[p] \in SeqToSet(B.ix) THEN LenOf(B, ixs[p]) ELSE LenOf(A, ixs[p])])   \* other, transposed to self
           llB == TLCEval(B.ll \cup Singles({LenOf(A, onlyA[p]) : p \in 1..Len(onlyA)}, B.ll))
           js == QJoinShapes(shA, llA, shB, llB)
           keep == {p \in 1..Len(ixs) : ixs[p] \notin SeqToSet(common)}
       IN IF ~js.ok THEN QFail(js.why)
          ELSE QOk(SelectSeq(ixs, LAMBDA l : l \notin SeqToSet(common)),
                   PickPos(js.sh, keep, 1), A.sm \cup B.sm \cup (IF Bug = "mul-nosummed" THEN {} ELSE SeqToSet(common)), js.ll)
\* _add_sub
QAdd(A, B) ==
  IF SeqToSet(A.ix) # SeqToSet(B.ix) THEN QFail("term-indices")
  ELSE LET shB == TLCEval([p \in 1..Len(A.ix) |-> B.sh[PosIn(B.ix, A.ix[p])]])
           js == QJoinShapes(A.sh, A.ll, shB, B.ll)
       IN IF ~js.ok THEN QFail(js.why) ELSE QOk(A.ix, js.sh, A.sm \cup B.sm, js.ll)
\* __truediv__ / __pow__
QScalarOp(A, B, w) ==
  IF Len(B.ix) > 0 THEN QFail(w)
  ELSE IF (A.sm \cup SeqToSet(A.ix)) \cap B.sm # {} THEN QFail("index-thrice")
  ELSE LET j == QJoin(A.ll \cup B.ll) IN IF ~j.ok THEN QFail("length-conflict") ELSE QOk(A.ix, A.sh, A.sm \cup B.sm, j.ll)
\* grad: the indices one by one, _apply_indices from the new position
RECURSIVE QGrad(_, _, _)
QGrad(A, toks, p) == IF p > Len(toks) \/ ~A.ok THEN A
                     ELSE QGrad(QApply(Len(A.ix) + 1, Append(A.ix, toks[p]),
                                       Append(A.sh, IF Bug = "grad-len-from-arg" /\ Len(A.sh) > 0 THEN A.sh[Len(A.sh)] ELSE GDim), A.sm, A.ll), toks, p + 1)
RECURSIVE QFold(_, _, _)
QFold(Op(_, _), rs, n) == IF n = 1 THEN rs[1] ELSE LET l == QFold(Op, rs, n - 1) IN IF ~l.ok THEN l ELSE Op(l, rs[n])
RECURSIVE QFirstFail(_, _)
QFirstFail(rs, p) == IF ~rs[p].ok THEN QFail(rs[p].why) ELSE QFirstFail(rs, p + 1)
RECURSIVE CatIx(_, _)
CatIx(rs, n) == IF n = 0 THEN <<>> ELSE CatIx(rs, n - 1) \o rs[n].ix
RECURSIVE CatSh(_, _)
CatSh(rs, n) == IF n = 0 THEN <<>> ELSE CatSh(rs, n - 1) \o rs[n].sh

\* raw: the groups of the arguments of a call are united as they are (what the implementation does), not joined
RECURSIVE QB(_, _)
QB(e, raw) ==
  LET R(p) == QB(e.kids[p], raw)
      n == Len(e.kids)
  IN
  CASE e.op = "num" -> QOk(<<>>, <<>>, {}, {})
    [] e.op = "var" -> IF e.nm \notin DOMAIN JVarTab THEN QFail("unknown-name") ELSE QWrap(e.ix, JVarTab[e.nm].sh, {})
    [] e.op = "arg" ->                                            \* _get_arg
         IF e.nm \in DOMAIN ArgDecl /\ Len(ArgDecl[e.nm]) # Len(e.ix) THEN QFail("arg-rank")
         ELSE QWrap(e.ix, [p \in 1..Len(e.ix) |-> ArgTerm(e.nm, p)], {})
    [] e.op = "eye" -> QWrap(e.ix, <<LeafTerm(e.sg[1], 1), LeafTerm(e.sg[1], 1)>>, {})
    [] e.op = "cix" ->                                            \* parse_const: append_axis per index
         IF \E p \in 1..Len(e.ix) : IsDigit(e.ix[p]) THEN QFail("numeral-on-constant")
         ELSE IF \E p \in 1..Len(e.ix) : e.ix[p] \notin AllLetters THEN QFail("index-symbol")
         ELSE QOk(e.ix, <<LeafTerm(e.sg[1], 1)>>, {}, {{LeafTerm(e.sg[1], 1)}})
    [] e.op = "normal" -> QWrap(e.ix, <<GDim>>, {})
    [] e.op \in {"scope", "jump", "mean"} -> R(1)
    [] e.op = "grad" ->
         IF IsConstItem(e.kids[1]) THEN QFail("derivative-of-constant") ELSE QGrad(R(1), e.ix, 1)
    [] e.op = "call" ->
         LET rs == TLCEval([p \in 1..n |-> R(p)]) IN
         IF \E p \in 1..n : ~rs[p].ok THEN QFirstFail(rs, 1)
         ELSE IF e.nm \notin DOMAIN Func1Tab THEN QFail("unknown-function")
         ELSE IF Func1Tab[e.nm] \in {"sqr", "abs", "opp"} /\ n # 1 THEN QFail("argument-count")
         ELSE IF Func1Tab[e.nm] = "d" /\ (n # 2 \/ ~(e.kids[2].op = "arg" \/ (e.kids[2].op = "var" /\ e.kids[2].nm = "x" /\ Len(e.kids[2].ix) = 1))) THEN QFail("argument-count")
         ELSE LET rawll == UNION {rs[p].ll : p \in 1..n}
                  j == IF Bug = "call-raw-union" \/ raw THEN [ok |-> TRUE, ll |-> rawll] ELSE QJoin(rawll)
              IN IF ~j.ok THEN QFail("length-conflict")
                 ELSE QApply(1, CatIx(rs, n), CatSh(rs, n), UNION {rs[p].sm : p \in 1..n}, j.ll)
    [] e.op = "subst" ->
         LET body == R(1)
             \* per substitution: the left hand side (parse_lhs_arg), the value transposed to it, the links
             B(p) == LET b == e.kids[p]
                         lsh == [q \in 1..Len(b.ix) |-> ArgTerm(b.nm, q)]
                         rhs == QB(b.kids[1], raw)
                     IN IF b.sg # <<>> THEN QFail("subst-lhs-questionmark")
                        ELSE IF \E q \in 1..Len(b.ix) : IsDigit(b.ix[q]) THEN QFail("subst-lhs-numeric")
                        ELSE IF \E q, r \in 1..Len(b.ix) : q < r /\ b.ix[q] = b.ix[r] THEN QFail("subst-lhs-repeated")
                        ELSE IF b.nm \in DOMAIN ArgDecl /\ Len(ArgDecl[b.nm]) # Len(b.ix) THEN QFail("arg-rank")
                        ELSE IF ~rhs.ok THEN rhs
                        ELSE IF SeqToSet(rhs.ix) # SeqToSet(b.ix) THEN QFail("subst-indices")
                        ELSE QOk(b.ix, lsh, {}, rhs.ll \cup (IF Bug = "subst-nolink" THEN {} ELSE {{lsh[q], rhs.sh[PosIn(rhs.ix, b.ix[q])]} : q \in 1..Len(b.ix)}))
             bs == TLCEval([p \in 2..n |-> B(p)])
         IN IF ~body.ok THEN body
            ELSE IF n < 2 THEN QFail("subst-zero")
            ELSE IF \E p \in 2..n : ~bs[p].ok THEN QFail(bs[CHOOSE p \in 2..n : ~bs[p].ok /\ \A q \in 2..(p - 1) : bs[q].ok].why)
            ELSE IF \E p, q \in 2..n : p < q /\ e.kids[p].nm = e.kids[q].nm THEN QFail("subst-duplicate")
            ELSE LET j == QJoin(body.ll \cup UNION {bs[p].ll : p \in 2..n}) IN
                 IF ~j.ok THEN QFail("length-conflict") ELSE QOk(body.ix, body.sh, body.sm, j.ll)
    [] e.op = "pow" ->
         IF e.kids[1].op = "pow" THEN QFail("repeated-power")
         ELSE LET b == R(1)  x == R(2) IN IF ~b.ok THEN b ELSE IF ~x.ok THEN x ELSE QScalarOp(b, x, "exponent-dim")
    [] e.op = "frac" ->
         IF e.kids[1].op = "frac" \/ e.kids[2].op = "frac" THEN QFail("repeated-fraction")
         ELSE LET b == R(1)  x == R(2) IN IF ~b.ok THEN b ELSE IF ~x.ok THEN x ELSE QScalarOp(b, x, "denominator-dim")
    [] e.op = "term" ->
         LET rs == TLCEval([p \in 1..n |-> R(p)]) IN
         IF \E p \in 2..n : IsNumItem(e.kids[p]) THEN QFail("number-position")
         ELSE IF \E p \in 1..n : ~rs[p].ok THEN QFirstFail(rs, 1)
         ELSE QFold(QMul, rs, n)
    [] e.op = "sum" ->
         LET rs == TLCEval([p \in 1..n |-> R(p)]) IN
         IF \E p \in 1..n : e.sg[p] \in {"+-", "--"} THEN QFail("misplaced-minus")
         ELSE IF \E p \in 1..n : ~rs[p].ok THEN QFirstFail(rs, 1)
         ELSE QFold(QAdd, rs, n)

Q(e) == QB(e, FALSE)
\* the (argument, number of axes) pairs in parsing order: "previously defined with ..."
RECURSIVE ArgUses(_)
ArgUses(e) == (IF e.op \in {"arg", "bind"} THEN {<<e.nm, Len(e.ix)>>} ELSE {}) \cup UNION {ArgUses(e.kids[p]) : p \in 1..Len(e.kids)}
RECURSIVE Unknowns(_)
Unknowns(e) == (CASE e.op \in {"arg", "bind"} -> {t \in {ArgTerm(e.nm, p) : p \in 1..Len(e.ix)} : IsLen(t)}
                  [] e.op \in {"eye", "cix"} -> {LeafTerm(e.sg[1], 1)}
                  [] OTHER -> {}) \cup UNION {Unknowns(e.kids[p]) : p \in 1..Len(e.kids)}
\* parse(): every group must contain an integer, or gets the fallback length
QTopR(r, e, fb) ==
  LET uses == TLCEval(ArgUses(e))
      Known(g) == {t \in g : ~IsLen(t)}
      LenOfT(t) == IF ~IsLen(t) THEN t
                   ELSE LET gs == {g \in r.ll : t \in g} IN
                        IF \E g \in gs : Known(g) = {} THEN fb                 \* a group without an integer decides (lengths.update, any order)
                        ELSE IF gs = {} THEN fb ELSE CHOOSE x \in Known(CHOOSE g \in gs : TRUE) : TRUE
      used == SelectSeq(ArgOrder, LAMBDA nm : \E y \in uses : y[1] = nm)
  IN IF RankClash(uses) /\ r.ok THEN [ok |-> FALSE, why |-> "arg-rank", ix |-> <<>>, sh |-> <<>>, sm |-> {}, ll |-> {}, args |-> <<>>]
     ELSE IF ~r.ok THEN [ok |-> FALSE, why |-> r.why, ix |-> <<>>, sh |-> <<>>, sm |-> {}, ll |-> {}, args |-> <<>>]
     ELSE IF fb = 0 /\ \E g \in r.ll : Known(g) = {} THEN [ok |-> FALSE, why |-> "undetermined-length", ix |-> <<>>, sh |-> <<>>, sm |-> {}, ll |-> r.ll, args |-> <<>>]
     ELSE [ok |-> TRUE, why |-> "", ix |-> r.ix, sh |-> TLCEval([p \in 1..Len(r.sh) |-> LenOfT(r.sh[p])]), sm |-> r.sm, ll |-> r.ll,
           args |-> TLCEval([q \in 1..Len(used) |-> <<used[q], LET rk == (CHOOSE y \in uses : y[1] = used[q])[2] IN [p \in 1..rk |-> LenOfT(ArgTerm(used[q], p))]>>])]
QTop(e, fb) == QTopR(Q(e), e, fb)

\* ================================================================== the judgement of one tree
Emit(x) == PrintT(<<"VF", ToJson(x)>>)
ProjArr(a) == [sh |-> a.sh, v |-> [k \in 1..Len(a.v) |-> <<a.v[k][1][1], a.v[k][1][2], a.v[k][2][1], a.v[k][2][2]>>]]
NoArr == [sh |-> <<>>, v |-> <<>>]
RECURSIVE Ops(_)
Ops(e) == {e.op} \cup (IF e.op \in {"call", "var", "num", "grad"} THEN {e.nm} ELSE {}) \cup UNION {Ops(e.kids[p]) : p \in 1..Len(e.kids)}
NoCase == [t |-> <<>>, ok |-> "none", why |-> "", guess |-> <<>>, fr |-> <<>>, arr |-> NoArr, rev |-> NoArr, args |-> <<>>, ops |-> {}, no |-> 0, st |-> 0, fam |-> 0,
           fb |-> 0, okF |-> "same", argsF |-> <<>>, arrF |-> NoArr, revF |-> NoArr, nun |-> 0, kf |-> ""]
NoJd == [c |-> FALSE, verdict |-> TRUE, free |-> TRUE, groups |-> TRUE, sound |-> TRUE, case |-> NoCase]
RECURSIVE IntBind(_)
IntBind(n) == (n.op = "bind" /\ n.why = "" /\ n.kids[1].dt = "i") \/ \E p \in 1..Len(n.kids) : IntBind(n.kids[p])
RECURSIVE HasCall2(_)
HasCall2(e) == (e.op = "call" /\ Len(e.kids) >= 2) \/ \E p \in 1..Len(e.kids) : HasCall2(e.kids[p])
Reverse1(sq) == [p \in 1..Len(sq) |-> sq[Len(sq) + 1 - p]]
\* the array with its axes in reverse order
XRev(a) == XMk(Reverse1(a.sh), LAMBDA idx : a.v[Flat(Reverse1(idx), a.sh) + 1])
Judge1(ent) ==
  LET e == ent.e
      an == TLCEval(Ann1(e))
      hasU == an.un # {}                         \* without unknown lengths a fallback length changes nothing
      w0 == TopWhy(an, 0)                        \* namespace without fallback length
      wF == IF hasU THEN TopWhy(an, Fallback) ELSE w0      \* namespace with fallback length
      qr == TLCEval(Q(e))
      q0 == QTopR(qr, e, 0)
      qF == IF hasU THEN QTopR(qr, e, Fallback) ELSE q0
      fs == FreeSet(an.cnt)
      fr == FreeSeq(an.cnt)
      rf0 == TLCEval(ResFun(an, 0))
      rfF == IF hasU THEN TLCEval(ResFun(an, Fallback)) ELSE rf0
      n0 == Resolve(an, rf0)
      nF == Resolve(an, rfF)
      a0 == ArrOf1(n0, fr)
      aF == ArrOf1(nF, fr)
      FreeOk(q, rf) == /\ SeqToSet(q.ix) = fs /\ Len(q.ix) = Cardinality(fs)
                       /\ q.sm = {l \in AllLetters : an.cnt[l] = 2}
                       /\ q.sh = [p \in 1..Len(q.ix) |-> ResT(an.lt[q.ix[p]], rf)]
                       /\ q.args = ArgShapes(an, rf)
      structural == an.why = "" /\ ~RankClash(an.ar)
      \* the trees the implementation's call branch (groups of the arguments united, not joined) decides differently
      QProj(q) == <<q.ok, q.sh, q.args>>
      qb == TLCEval(QB(e, TRUE))
      kf == IF HasCall2(e) /\ (QProj(QTopR(qb, e, 0)) # QProj(q0) \/ (hasU /\ QProj(QTopR(qb, e, Fallback)) # QProj(qF)))
            THEN "call-arguments:linked-lengths-not-joined"
            \* an integer valued substitute for a (real) argument: the function layer refuses the replacement
            ELSE IF (w0 = "" \/ wF = "") /\ IntBind(an) THEN "substitute:integer-value"
            ELSE ""
  IN [c |-> TRUE,
      verdict |-> (w0 = "") = q0.ok /\ (wF = "") = qF.ok,
      free |-> /\ (w0 = "" /\ q0.ok) => FreeOk(q0, rf0)
               /\ (hasU /\ wF = "" /\ qF.ok) => FreeOk(qF, rfF),
      \* every group of the bookkeeping knows the integers of the class of its members (no stale group)
      groups |-> (structural /\ ~Conflict(an) /\ qF.ok) =>
                    \A g \in qF.ll : \A t \in g : {x \in g : ~IsLen(x)} = KnownIn(ClassOf(t, an.lk)),
      sound |-> (structural /\ Cardinality(an.un) <= 3) => InferenceSoundFor(an),
      case |-> [t |-> Render1(e, 0),
                ok |-> IF w0 # "" THEN "bad" ELSE IF IntNegPow1(an) THEN "skip" ELSE "ok",
                why |-> w0,
                guess |-> IF structural THEN fr
                          ELSE LET t == Render1(e, 0) IN SelectSeq(LetterOrder, LAMBDA l : Cardinality({p \in 1..Len(t) : t[p] = l}) % 2 = 1),
                fr |-> IF w0 = "" THEN fr ELSE <<>>,
                arr |-> IF w0 = "" THEN ProjArr(a0) ELSE NoArr,
                rev |-> IF w0 = "" /\ Len(fr) >= 2 THEN ProjArr(XRev(a0)) ELSE NoArr,
                args |-> IF w0 = "" THEN ArgShapes(an, rf0) ELSE <<>>,
                ops |-> Ops(e), no |-> ent.no, st |-> 0, fam |-> 0, nun |-> Cardinality(an.un), kf |-> kf,
                \* the namespace with a fallback length: the same verdict and lengths (what the expression says wins), except that
                \* lengths that cannot be deduced take the fallback
                fb |-> Fallback,
                okF |-> IF w0 = "undetermined-length" /\ wF = "" THEN (IF IntNegPow1(an) THEN "skip" ELSE "ok") ELSE "same",
                argsF |-> IF w0 = "undetermined-length" /\ wF = "" THEN ArgShapes(an, rfF) ELSE <<>>,
                arrF |-> IF w0 = "undetermined-length" /\ wF = "" THEN ProjArr(aF) ELSE NoArr,
                revF |-> IF w0 = "undetermined-length" /\ wF = "" /\ Len(fr) >= 2 THEN ProjArr(XRev(aF)) ELSE NoArr]]

\* ================================================================== part 2: the derivation machine
\* follows the rules so far: lengths may still be undetermined (a later production can decide them)
Plausible1(e) == LET an == Ann1(e) IN an.why = "" /\ ~RankClash(an.ar) /\ ~Conflict(an)
\* built from numbers, constant arrays and arguments only (what the function layer accepts as substituted value)
RECURSIVE SpaceFree(_)
SpaceFree(e) == /\ e.op \notin {"normal", "grad", "jump", "mean", "call", "subst"}
                /\ e.op = "var" => (e.nm \in DOMAIN JVarTab /\ JVarTab[e.nm].cst)
                /\ \A p \in 1..Len(e.kids) : SpaceFree(e.kids[p])
RECURSIVE HasOp(_, _)
HasOp(e, ops) == e.op \in ops \/ \E p \in 1..Len(e.kids) : HasOp(e.kids[p], ops)
\* stack entry: tree, syntactic rank (1 item, 2 power, 3 term, 4 fraction, 5 sum), leaves, productions
Ent(e, r, nl, no) == [e |-> e, r |-> r, nl |-> nl, no |-> no,
                      v |-> IF ValidOnly \/ PruneKids \/ ~Lazy THEN TLCEval(Plausible1(e)) ELSE TRUE]
L == Len(stk)
Top == stk[L]
Sec == stk[L - 1]
RECURSIVE SumField(_, _)
SumField(f, n) == IF n = 0 THEN 0 ELSE f[n] + SumField(f, n - 1)
NL == SumField([p \in 1..L |-> stk[p].nl], L)
NO == SumField([p \in 1..L |-> stk[p].no], L)
Admit(x) == ValidOnly => x.v
Grow1 == PruneKids => Top.v
Grow2 == PruneKids => (Top.v /\ Sec.v)
Push(x) == stk' = Append(stk, x) /\ Admit(x)
Rep1(x) == stk' = Append(SubSeq(stk, 1, L - 1), x) /\ Admit(x)
Rep2(x) == stk' = Append(SubSeq(stk, 1, L - 2), x) /\ Admit(x)
Open == ~fin.done
\* random walks: no leaf / bracket / call / gradient / power when the remaining productions cannot reduce the stack to one tree any more
Room == Lazy => NO + L <= MaxOps
CanLeaf == Open /\ NL < MaxLeaves /\ L < MaxStack /\ Room
CanOp == Open /\ NO < MaxOps
CanOp1 == CanOp /\ Room
DigitOf(k) == IF k = 1 THEN "1" ELSE IF k = 2 THEN "2" ELSE IF k = 3 THEN "3" ELSE IF k = 4 THEN "4" ELSE IF k = 5 THEN "5" ELSE "6"
Letters == Toks \cap AllLetters

PNum == /\ CanLeaf /\ \E t \in NumSet : Push(Ent(NumNd(t), 1, 1, 0)) /\ UNCHANGED fin
PVar == /\ CanLeaf
        /\ \E nm \in VarSet : \E ix \in [1..Len(JVarTab[nm].sh) -> Toks] : Push(Ent(VarNd(nm, ix), 1, 1, 0))
        /\ UNCHANGED fin
\* an argument: one axis, with "rank2" also two, with "argscalar" also none
ArgRanks(nm) == IF nm \in DOMAIN ArgDecl THEN {Len(ArgDecl[nm])}
                ELSE {1} \cup (IF "rank2" \in Feats THEN {2} ELSE {}) \cup (IF "argscalar" \in Feats THEN {0} ELSE {})
PArg == /\ CanLeaf
        /\ \E nm \in ArgSet : \E rk \in ArgRanks(nm) : \E ix \in [1..rk -> Letters] : Push(Ent(ArgNd(nm, ix), 1, 1, 0))
        /\ UNCHANGED fin
\* leaves whose lengths are deduced: dirac, indexed number; the normal
PV1Leaf == /\ CanLeaf
           /\ \/ \E sym \in {"DELTA", "$"} \cap Extras : \E ix \in [1..2 -> Letters] : Push(Ent(V1Leaf("eye", sym, ix, DigitOf(NL + 1)), 1, 1, 0))
              \/ /\ "cix" \in Extras
                 /\ \E t \in NumSet : \E l \in Letters : Push(Ent(V1Leaf("cix", t, <<l>>, DigitOf(NL + 1)), 1, 1, 0))
              \/ /\ "normal" \in Extras
                 /\ \E t \in Toks : Push(Ent(Nd("normal", "n", <<t>>, <<>>, <<>>), 1, 1, 0))
           /\ UNCHANGED fin
\* rule breakers at the leaves
PBadLeaf == /\ CanLeaf
            /\ \/ /\ "arg-rank" \in Muts          \* an argument of known shape with one axis too many / too few
                  /\ \E nm \in ArgSet \cap DOMAIN ArgDecl : \E d \in {-1, 1} : Len(ArgDecl[nm]) + d >= 0
                        /\ \E ix \in [1..(Len(ArgDecl[nm]) + d) -> Letters] : Push(Ent(ArgNd(nm, ix), 1, 1, 0))
               \/ /\ "unknown" \in Muts /\ \E ix \in {<<>>, <<"i">>} : Push(Ent(VarNd("zz", ix), 1, 1, 0))
               \* (an array without any index is no rule breaker: version 1 reads `f(q)`, `q + q` with all axes omitted in some places)
               \/ /\ "index-count" \in Muts
                  /\ \E nm \in VarSet : \E d \in {-1, 1} : Len(JVarTab[nm].sh) + d >= 1
                        /\ \E ix \in [1..(Len(JVarTab[nm].sh) + d) -> Letters] : Push(Ent(VarNd(nm, ix), 1, 1, 0))
               \/ /\ "normal-count" \in Muts /\ Push(Ent(Nd("normal", "n", <<"i", "j">>, <<>>, <<>>), 1, 1, 0))
            /\ UNCHANGED fin
PWrap == /\ CanOp1 /\ L >= 1 /\ Grow1
         /\ \E w \in Wraps : Rep1(Ent(Nd(w, "", <<>>, <<Top.e>>, <<>>), 1, Top.nl, Top.no + 1))
         /\ UNCHANGED fin
\* gradient / surface gradient of a variable or a compound: one index, with "grad2" also two
GradKinds == (IF "grad" \in Feats THEN {","} ELSE {}) \cup (IF "surf" \in Feats THEN {";"} ELSE {})
PGrad == /\ CanOp1 /\ L >= 1 /\ Grow1 /\ Top.r = 1
         /\ \/ Top.e.op \in {"var", "scope"}
            \/ ("derivative-of-constant" \in Muts /\ Top.e.op \in {"num", "cix"})
         /\ \E kd \in GradKinds : \E m \in {1} \cup (IF "grad2" \in Feats THEN {2} ELSE {}) : \E ix \in [1..m -> GToks] :
               Rep1(Ent(GradNd(kd, ix, Top.e), 1, Top.nl, Top.no + 1))
         /\ UNCHANGED fin
PCall1 == /\ CanOp1 /\ L >= 1 /\ Grow1
          /\ \E f \in FuncSet \cap {"sqr", "abs", "opposite"} : Rep1(Ent(Nd("call", f, <<>>, <<Top.e>>, <<>>), 1, Top.nl, Top.no + 1))
          /\ UNCHANGED fin
\* a call with two arguments: the product function, the derivative to the geometry / to an argument
PCall2 == /\ CanOp /\ L >= 2 /\ Grow2
          /\ \/ "mul" \in FuncSet /\ Rep2(Ent(Nd("call", "mul", <<>>, <<Sec.e, Top.e>>, <<>>), 1, Sec.nl + Top.nl, Sec.no + Top.no + 1))
             \/ /\ "d" \in FuncSet
                /\ \/ Top.e.op = "arg" /\ ~HasOp(Sec.e, {"subst"})
                   \/ (Top.e.op = "var" /\ Top.e.nm = "x" /\ Len(Top.e.ix) = 1 /\ Top.e.ix[1] \in AllLetters)
                /\ Rep2(Ent(Nd("call", "d", <<>>, <<Sec.e, Top.e>>, <<>>), 1, Sec.nl + Top.nl, Sec.no + Top.no + 1))
             \/ /\ "unknown" \in Muts /\ Rep2(Ent(Nd("call", "nofunc", <<>>, <<Sec.e, Top.e>>, <<>>), 1, Sec.nl + Top.nl, Sec.no + Top.no + 1))
          /\ UNCHANGED fin
\* substitution: the item below the top gets (argument_indices = top); the index letters of the left hand side are the free
\* letters of the value, in alphabetical or reverse order; rule breakers: other letters, repeated, numeral, question mark
LhsChoices(e) == LET an == Ann1(e)
                     fr == FreeSeq(an.cnt)
                 IN IF an.why # "" THEN {}
                    ELSE {fr, Reverse1(fr)}
                         \cup (IF "subst-indices" \in Muts THEN {fr \o <<"l">>} \cup (IF Len(fr) >= 1 THEN {Tail(fr)} ELSE {}) ELSE {})
                         \cup (IF "subst-lhs" \in Muts /\ Len(fr) = 1 THEN {<<"0">>} ELSE {})
                         \cup (IF "subst-lhs" \in Muts /\ Len(fr) = 2 THEN {<<fr[1], fr[1]>>} ELSE {})
SubstItem(e) == e.op \in {"var", "arg", "scope"}
PSubst == /\ CanOp /\ L >= 2 /\ Grow2 /\ "subst" \in Feats
          /\ SpaceFree(Top.e) /\ ~HasOp(Sec.e, {"subst"})
          /\ \/ Sec.r = 1 /\ SubstItem(Sec.e)
             \/ "subst2" \in Feats /\ Sec.r = 1 /\ Sec.e.op = "subst" /\ Len(Sec.e.kids) = 2
          /\ \E nm \in ArgSet : \E ix \in LhsChoices(Top.e) : \E flag \in {<<>>} \cup (IF "subst-lhs" \in Muts THEN {<<"?">>} ELSE {}) :
                /\ (Sec.e.op = "subst" /\ Sec.e.kids[2].nm = nm) => "subst-duplicate" \in Muts
                /\ Rep2(Ent(IF Sec.e.op = "subst" THEN Nd("subst", "", <<>>, Append(Sec.e.kids, BindNd(nm, ix, Top.e, flag)), <<>>)
                            ELSE Nd("subst", "", <<>>, <<Sec.e, BindNd(nm, ix, Top.e, flag)>>, <<>>),
                            1, Sec.nl + Top.nl, Sec.no + Top.no + (IF Sec.e.op = "subst" THEN 0 ELSE 1)))
          /\ UNCHANGED fin
PPowInt == /\ CanOp1 /\ L >= 1 /\ Grow1 /\ (Top.r = 1 \/ (Top.r = 2 /\ "repeated-power" \in Muts))
           /\ \E x \in IntExps : Rep1(Ent(Nd("pow", "int", <<>>, <<Top.e, NumNd(x)>>, <<>>), 2, Top.nl, Top.no + 1))
           /\ UNCHANGED fin
PPowScoped == /\ CanOp /\ L >= 2 /\ Grow2 /\ Sec.r = 1 /\ "powscoped" \in Feats
              /\ Rep2(Ent(Nd("pow", "scoped", <<>>, <<Sec.e, Top.e>>, <<>>), 2, Sec.nl + Top.nl, Sec.no + Top.no + 1))
              /\ UNCHANGED fin
PTerm == /\ CanOp /\ L >= 2 /\ Grow2 /\ Sec.r <= 3 /\ Top.r <= 2 /\ "noterm" \notin Feats
         /\ (IsNumItem(Top.e) => "number-position" \in Muts)
         /\ Rep2(Ent(Nd("term", "", <<>>, IF Sec.r = 3 THEN Append(Sec.e.kids, Top.e) ELSE <<Sec.e, Top.e>>, <<>>), 3,
                     Sec.nl + Top.nl, Sec.no + Top.no + (IF Sec.r = 3 THEN 0 ELSE 1)))
         /\ UNCHANGED fin
PFrac == /\ CanOp /\ L >= 2 /\ Grow2 /\ Top.r <= 3 /\ Sec.r <= 3 /\ "frac" \in Feats
         /\ Rep2(Ent(Nd("frac", "", <<>>, <<Sec.e, Top.e>>, <<>>), 4, Sec.nl + Top.nl, Sec.no + Top.no + 1))
         /\ UNCHANGED fin
PNeg == /\ CanOp1 /\ L >= 1 /\ Grow1 /\ Top.r <= 4 /\ "neg" \in Feats
        /\ Rep1(Ent(Nd("sum", "", <<>>, <<Top.e>>, <<"-">>), 5, Top.nl, Top.no + 1))
        /\ UNCHANGED fin
PSum == /\ CanOp /\ L >= 2 /\ Grow2 /\ Top.r <= 4
        /\ \E sgn \in {"+"} \cup (IF "minus" \in Feats THEN {"-"} ELSE {}) :
              Rep2(Ent(Nd("sum", "", <<>>, IF Sec.r = 5 THEN Append(Sec.e.kids, Top.e) ELSE <<Sec.e, Top.e>>,
                          IF Sec.r = 5 THEN Append(Sec.e.sg, sgn) ELSE <<"+", sgn>>), 5,
                       Sec.nl + Top.nl, Sec.no + Top.no + (IF Sec.r = 5 THEN 0 ELSE 1)))
        /\ UNCHANGED fin

\* ---- finishing: a rendering style or one token-level corruption of the canonical string
CanonToks == Render1(Top.e, 0)
InIndexList(t, p) == \E q \in 1..(p - 1) : t[q] = "_" /\ \A m \in (q + 1)..(p - 1) : t[m] \in AllLetters \cup DOMAIN DigitVal \cup {",", ";"}
CorPositions(kind, t) ==
  CASE kind = "grad-space-before" -> {p \in 1..Len(t) : t[p] \in {",", ";"} /\ p > 1 /\ t[p - 1] # ")" /\ (p = Len(t) \/ t[p + 1] # " ")}
    [] kind = "grad-space-after" -> {p \in 1..Len(t) : t[p] \in {",", ";"} /\ (p = Len(t) \/ t[p + 1] # " ")}
    [] kind = "arg-space" -> {p \in 1..Len(t) : t[p] = "?"}
    [] kind = "subst-space" -> {p \in 2..Len(t) : t[p] = "(" /\ \E q \in (p + 1)..Len(t) : t[q] = "=" /\ t[p - 1] \notin DOMAIN Func1Tab /\ t[p - 1] # " " /\ t[p - 1] # "("}
    [] kind = "subst-no-equals" -> {p \in 1..Len(t) : t[p] = "="}
    \* (a comma directly after an index list reads as a gradient: only commas after a bracket or an unindexed name)
    [] kind = "call-no-space" -> {p \in 2..(Len(t) - 1) : t[p] = "," /\ t[p + 1] = " " /\ ~InIndexList(t, p)}
    [] OTHER -> {}
Corrupt(kind, t, p) ==
  CASE kind = "grad-space-before" -> InsertAt(t, p, " ")
    [] kind = "grad-space-after" -> InsertAt(t, p + 1, " ")
    [] kind = "arg-space" -> InsertAt(t, p + 1, " ")
    [] kind = "subst-space" -> InsertAt(t, p, " ")
    [] kind = "subst-no-equals" -> Without(t, p)
    [] kind = "call-no-space" -> Without(t, p + 1)
Refinish(j, e, f) ==
  IF f.ck = "" THEN [j EXCEPT !.case.t = RenderTop1(e, f.st), !.case.st = f.st]
  ELSE [j EXCEPT !.case.t = Corrupt(f.ck, Render1(e, 0), f.cp), !.case.ok = "bad", !.case.why = f.ck,
                 !.case.fr = <<>>, !.case.arr = NoArr, !.case.rev = NoArr, !.case.args = <<>>,
                 !.case.okF = "same", !.case.argsF = <<>>, !.case.arrF = NoArr, !.case.revF = NoArr]
FewIfLazy(S) == IF Lazy /\ S # {} THEN {CHOOSE p \in S : \A q \in S : p <= q, CHOOSE p \in S : \A q \in S : p >= q} ELSE S
PFinish == /\ Open /\ L = 1
           /\ \/ \E st \in Styles : fin' = [done |-> TRUE, st |-> st, ck |-> "", cp |-> 0]
              \/ Top.v /\ jd.case.ok # "bad" /\ \E k \in Cors : \E p \in FewIfLazy(CorPositions(k, CanonToks)) : fin' = [done |-> TRUE, st |-> 0, ck |-> k, cp |-> p]
           /\ UNCHANGED stk

Init == stk = <<>> /\ fin = [done |-> FALSE, st |-> 0, ck |-> "", cp |-> 0] /\ jd = NoJd /\ fam \in 1..Len(Fams)
Production == PNum \/ PVar \/ PArg \/ PV1Leaf \/ PBadLeaf \/ PWrap \/ PGrad \/ PCall1 \/ PCall2 \/ PSubst \/ PPowInt \/ PPowScoped \/ PTerm \/ PFrac \/ PNeg \/ PSum
Judgeable(sq) == Len(sq) = 1 /\ sq[1].no >= EmitMin
Next == /\ \/ ~Lazy /\ Production /\ jd' = IF Judgeable(stk') THEN Judge1(stk'[1]) ELSE NoJd
           \/ Lazy /\ (Judgeable(stk) => jd.c) /\ Production /\ jd' = NoJd
           \/ Lazy /\ Judgeable(stk) /\ ~jd.c /\ jd' = Judge1(stk[1]) /\ UNCHANGED <<stk, fin>>
           \/ PFinish /\ jd.c /\ jd' = Refinish(jd, Top.e, fin')
        /\ UNCHANGED fam
Spec == Init /\ [][Next]_vars
\* the bare machine (no judgement), one named action per production: per-action coverage (vacuity guard)
ANum == PNum /\ UNCHANGED <<jd, fam>>
AVar == PVar /\ UNCHANGED <<jd, fam>>
AArg == PArg /\ UNCHANGED <<jd, fam>>
AV1Leaf == PV1Leaf /\ UNCHANGED <<jd, fam>>
ABadLeaf == PBadLeaf /\ UNCHANGED <<jd, fam>>
AWrap == PWrap /\ UNCHANGED <<jd, fam>>
AGrad == PGrad /\ UNCHANGED <<jd, fam>>
ACall1 == PCall1 /\ UNCHANGED <<jd, fam>>
ACall2 == PCall2 /\ UNCHANGED <<jd, fam>>
ASubst == PSubst /\ UNCHANGED <<jd, fam>>
APowInt == PPowInt /\ UNCHANGED <<jd, fam>>
APowScoped == PPowScoped /\ UNCHANGED <<jd, fam>>
ATerm == PTerm /\ UNCHANGED <<jd, fam>>
AFrac == PFrac /\ UNCHANGED <<jd, fam>>
ANeg == PNeg /\ UNCHANGED <<jd, fam>>
ASum == PSum /\ UNCHANGED <<jd, fam>>
AFinish == PFinish /\ UNCHANGED <<jd, fam>>
BareNext == ANum \/ AVar \/ AArg \/ AV1Leaf \/ ABadLeaf \/ AWrap \/ AGrad \/ ACall1 \/ ACall2 \/ ASubst \/ APowInt \/ APowScoped \/ ATerm \/ AFrac \/ ANeg \/ ASum \/ AFinish
BareSpec == Init /\ [][BareNext]_vars

\* ================================================================== the property
VerdictAgree == jd.verdict
FreeAgree == jd.free
GroupsAgree == jd.groups
InferenceSound == jd.sound

\* ================================================================== emission
EmitComplete == jd.c => Emit([jd.case EXCEPT !.fam = fam])
EmitTables == (L = 0 /\ fam = 1) =>
  Emit([v1vars |-> JVarTab, normal |-> NrmTab, gdim |-> GDim,
        args |-> [nm \in DOMAIN ArgNo |-> [base |-> ArgBase[nm], step |-> ArgStep[nm], decl |-> IF nm \in DOMAIN ArgDecl THEN ArgDecl[nm] ELSE <<0>>, known |-> nm \in DOMAIN ArgDecl]],
        nums |-> [t \in DOMAIN NumTab |-> NumTab[t]]])
=============================================================================
