#!/usr/bin/env python3
"""Regenerates /verif/MANIFEST.json from the table below (single source of truth)."""
import json, os
HERE = os.path.dirname(os.path.dirname(os.path.abspath(__file__)))

CHECKS = {
 'C10': dict(
   category='model_checking',
   text="Topo.tla: a topology denotes a set of cells over the atoms of the dyadic grid of maximal depth L (unit boxes; half squares for simplex / mixed meshes) with one action per public topology operation (refined, refine_spaces, refined_by, refined_by & refined_by, take, subset, -, |, slicing, trim by half spaces and by max/min of two half spaces, complement) and a structure tag mirroring which nutils class results; TLC checks Disjoint, WithinHull, BoundaryClosed (sum of normals zero, flux of x = dim x volume), InterfacesOnce, FacetPartition, CutShared and the action property StepConserves exhaustively over every denotation reachable within MaxOps operations on small bases and by simulation for deeper histories (spec mutants child-drop, trim-overlap, nb-skew must violate). Behaviours chosen by TLC with the model's predicted observation of every state (element keys, measures, moments, boundary facet atoms with normals, interior facet atoms with their two cells, complement and cut after a trim) are replayed step by step on real nutils topologies (rectilinear incl. periodic, products, multipatch, triangle / mixed) and compared after every step (S->C, TopoEval.tla).",
   note="Level sets are half spaces on the dyadic grid so trimming is exact; 1-D and 2-D meshes, identity geometry; operations the implementation refuses (NotImplementedError / unsupported operand / missing attribute) are counted, not judged; the label under which a boundary facet is filed after repeated trims is not judged; replay coverage (never the verdict) depends on a wall-clock budget.",
   technique="TLA+ cell-complex model of topology operations checked by TLC; TLC-chosen operation histories with predicted observations replayed on real topologies"),
 'C08': dict(
   category='model_checking',
   text="Geometry.tla is an exact-rational TLA+ machine that builds a mesh (rectilinear / simplex / product, refined or not), a polynomial geometry map and a polynomial field and lowers the operators the way nutils does (root derivative, inverse / Gram pseudo inverse, normal as the orthonormalised exterior vector of the pushed edge, Gram determinant, exact quadrature); TLC checks the defining identities as invariants (gradient of p(X) is p'(X), surface gradient is the tangential projection, normals unit / orthogonal / outward / opposite on interfaces, divergence theorem per element and per mesh, refinement preserves integrals; spec mutants must violate). Every evaluation state of the model is replayed on real nutils meshes and function objects: grad, div, curl, laplace, symgrad, surfgrad, J, normal, exterior normal, per-space gradients and the integrals of the divergence theorem are compared point by point with the state the model predicts (S->C); the edge transforms of every reference element and the transform chains of all boundary / interface elements of the real topologies are exported and TLC decides that the tangent columns span the facet and that ext points out of the element (T).",
   note="Polynomial geometries and fields of low degree with small integer coefficients on line/square/triangle (cube/tet thorough); integral invariance for curved geometries is decided only through exact quadrature of the polynomial integrands, curvature and general manifolds in 3-D are outside.",
   technique="TLA+ exact-rational geometry machine checked by TLC; model states replayed on real meshes/functions; exported edge/transform tables validated by TLC"),
 'C11': dict(
   category='model_checking',
   text="TransformChain.tla/ChainRewrite.tla model transform items with exact dyadic affine maps, swapup/swapdown method by method and the loops of canonical/uppermost/promote as a machine with one action per loop iteration (invariants MapPreserved, WellFormed, Terminates, CanonicalDone, OperatorAgrees); TransformSeq.tla/SeqNesting.tla give the denotation and the lookup algorithm (index_with_tail) of Structured/Index/Plain/Masked/Reordered/Derived/UniformDerived/Chained sequences and of the structured axes algebra (invariants LookupCorrect, FIndex, PrefixFree, CrossConsistent, InterfaceConsistent). Bindings: every child/edge item and every swap result of the live code is decided by TLC (T, TransformTables.tla); ChainRewrite behaviours are replayed on transform.canonical/uppermost/promote and SeqNesting states are rebuilt from the real classes and compared element by element and lookup by lookup incl. f_index/f_coords/opposite geometry (S->C); nestings produced by real topology operations with their recorded lookups, interface chains and locate() results are validated by TLC (C->S, TraceTopo.tla). Spec mutants (wrong swap entry, three wrong Lookup variants) violate.",
   note="Simplices and tensor products up to dimension 3, chains up to length 4, nestings up to depth 3; locate() on affine geometries only (Newton accuracy for non-affine maps is outside).",
   technique="TLA+ transform-chain rewriting machine + sequence-nesting model checked by TLC; live tables validated by TLC; behaviours replayed on the real classes; recorded real nestings/lookups validated by TLC"),
 'C16': dict(
   category='model_checking',
   text="Parallel.tla models fork, the shared range with its lock (claim = read/test/write as separate steps), per-array locks, shared vs copy-on-write private memory, worker exceptions, SIGKILL and the parent's wait/kill logic; TLC checks AtMostOnce, ExactlyOnce, MutexRange, MutexArrays, NoLostUpdate, NoPartialResult, RaiseOnlyOnFault, NoOrphans and termination exhaustively (spec mutants: unlocked claim, ignored exit code, no kill of children must violate). Bindings: the loop bodies of scripts that evaluable.compile really generates under maxprocs>1 are exported as configurations of the model and TLC decides for each that every schedule yields the serial result (T); TLC-generated schedules with faults are replayed step by step into the real parallel.ctxrange/fork/range/_wait/shzeros with the predicted shared state compared after every step (S->C); real multi-process integrate/eval/locate runs recorded through the env-guarded hook in parallel.py and a logging shim around the locks of the generated script are validated by TraceParallel.tla, and their results compared with the maxprocs=1 result (C->S).",
   note="3 processes x 3 iterations x 2 arrays exhaustive; a worker killed inside a critical section deadlocks its siblings (POSIX semaphore) - the model shows it, the property only forbids returning a partial result, so it is observed and not judged.",
   technique="TLA+ fork/range/lock protocol model checked by TLC; generated-script configurations decided by TLC; schedule replay into the real primitives; trace validation of hooked real multi-process runs"),
 'C19': dict(
   category='model_checking',
   text="Two TLA+ model pairs. ExprLang/ExprParse (v2 and the shared grammar): the documented reading (syntax trees, rendering, the rules as a declarative count of index occurrences, the meaning as explicit index-notation sums over exact two-sided rationals) and a model of the algorithm of expression_v2._Parser/_FunctionArrayOps (one operator per parse_* method) with a derivation machine (one action per production, rule-breaking constructors, token-level corruptions); TLC checks over every derivable tree VerdictAgree, FreeAgree, MeaningAgree. ExprV1Lang/ExprV1Parse (version-1-only language): arguments ?u_i with deduced axis lengths, dirac, indexed numbers, gradients and surface gradients, normal, substitution, calls with several arguments incl. d(f, x_i) and d(f, ?u); length deduction stated as equivalence classes of links between length terms with the verdicts known / undetermined / conflicting, with and without fallback_length, cross-checked against the solutions of the link equations; TLC checks a model of the _Array linked-length bookkeeping against that reading (VerdictAgree, FreeAgree, GroupsAgree, InferenceSound; five spec mutants each violate one; chains of three or more links in every order); derivatives of quadratic data by exact rules. Every complete state is emitted with the predicted verdict, shape, free-index order, argument shapes and values and fed to the real `expr @ ns`, `ns.x_ij = expr` (v2) and `ns.eval_ij(expr)`, assignment and `@` (v1, plain and fallback_length namespaces): exception class, shape, axis order, argument shapes and values on both sides of an interface must agree (S->C).",
   note="Depth <= 3 exhaustive per production, simulation beyond; data are quadratic on a straight interface of a two-element mesh; judged on validity, shape and order only: derivatives of order three or more through quotients and powers, derivatives to an argument of a substituted expression, nested substitutions; substituted values are numbers, constant arrays and arguments; outside the model: stack <a, b>_i, consumed/generated axes f:i(...), the all-indices-omitted reading, J:x / d:x, surfgrad(f, x_i) / n(x_i), fixed lengths length_<indices>=, default_geometry_name, the deprecated _,x_i / n:x_i / _,?u spellings (SyntaxError); error message texts are not compared.",
   technique="TLA+ grammar/meaning models + parser-algorithm models (v2 parser, v1 linked-length bookkeeping) checked by TLC; derivations replayed on the real expression_v1/v2 namespaces"),
 'C09': dict(
   category='model_checking',
   text="SampleAlg.tla models every sample class of sample.py (_DefaultIndex, _CustomIndex, _Empty, _Add, _Mul, _TakeElements, _Zip) with a code layer (nelems/npoints/getindex/evaluable indices computed as the class does) and a denotation (elements, points, weight factors); TLC checks IndexPartition, EvalOrder, EvIndexAgrees, Quadrature, OpLaw over all nestings of the public operations; every nesting is rebuilt from real base samples and compared on nelems, npoints, getindex, row-by-row eval and integrate = sum(weight x value). GaussOracle.tla gives exact monomial integrals (dyadic affine images of references, closed simplex formula) for all reference elements, child subsets and dyadic half-space trims; TLC checks RefVolume/ChildrenTile/TrimSplits and the live decompositions exported from the code (T); Gauss schemes of all degrees are compared with the oracle (2e-13), plus points-inside and sum of weights.",
   note="take_elements judged for strictly increasing index lists; trims are dyadic half-spaces; quadrature comparison numeric against exact rationals; rename_spaces and tuple degrees not covered.",
   technique="TLA+ sample-algebra model + exact quadrature oracle checked by TLC; nestings replayed on real samples; exported decompositions validated by TLC"),
 'C20': dict(
   category='model_checking',
   text="Dimension.tla/DimMachine.tla/DimFn.tla model dimensions as exponent vectors at two levels: what physics dictates (rule classes for the 85 dispatched functions) and a code-shaped level (powers dicts with zero-stripping, class-name construction/parsing character by character, the Dimension cache, the 18 dispatchers); UnitGrammar/UnitMachine model unit definition, parsing and formatting. TLC checks homomorphism, abelian-group laws, Sound/NoSpuriousReject, CacheSound, UniqueParse, RoundTrip; every emitted transition/program/string outcome is replayed on real SI.Quantity objects (S->C) and the live dispatch table (85 entries) and unit table (701 keys) are checked by TLC (T).",
   note="Exact rational scalars and 2-vectors; inexact roots and 2-D array results are checked for dimension only; == / != between different dimensions are modelled as the code behaves (return False/True) and not judged.",
   technique="TLA+ two-level dimension/unit models checked by TLC; spec->code replay on SI.Quantity; live dispatch and unit tables validated by TLC"),
 'C17': dict(
   category='model_checking',
   text="HashSem.tla transcribes nutils_hash branch by branch as an injective term encoding Enc(v) with SHA-1 as a constructor and defines behavioural identity Canon(v); Hash.tla builds values (18 base, 14 wrapping actions) and TLC judges Injective/Stable of every value against the whole universe (the name-only type tag of the code is predicted to collide, the qualified tag holds); Intern.tla models the weak intern tables with Construct/Load/Drop/Dump and checks UniqueLive/ExactArgs/SameWhileAlive/TableSound. Every value is materialised in Python and hashed in seven settings (other PYTHONHASHSEEDs, pickle round trips, rebuilds), the real hash-equality table and exported structures of 145 real nutils objects are decided by TLC (HashTable.tla), and intern histories are replayed with identity/argument/table-size comparison after every step.",
   note="SHA-1 assumed injective; topologies and function arrays are not nutils-hashable and therefore outside; fork not modelled (fresh interpreters instead); mutable buffer ambiguity reported as a note only.",
   technique="TLA+ term-encoding model + intern-table state machine checked by TLC; value universe materialised and hashed for real; real hash tables validated by TLC"),
 'C15': dict(
   category='model_checking',
   text="MatrixADT.tla models the assemble_csr/coo/block pipeline statement by statement (compress_indices, the three validation tests, backend scatter) and the matrix operations (neg, T, scale, add, sub, submatrix with its cache, pickle through __reduce__) over Gaussian-integer dense denotations; TLC checks AcceptIffValid, Faithful, CompressCorrect, BlockFaithful, PickleFaithful, CacheTransparent, StepsFaithful exhaustively for all small CSR/COO inputs incl. ill-formed ones; every behaviour is replayed on every available backend (numpy, scipy) with the model's denotation, rowsupp, diagonal and products as oracle, and the real export('csr'/'coo') tables are checked by TLC (MatrixExport).",
   note="Shapes up to 2x2 (3x3 thorough), nnz <= 4, exact dyadic Gaussian integers (no rounding behaviour); MKL backend not importable here; any exception counts as rejection of ill-formed input.",
   technique="TLA+ ADT model checked exhaustively by TLC; behaviours replayed on all backends; exported tables validated by TLC"),
 'C01': dict(
   category='model_checking',
   text="Programs are the complete states of the typed DAG-builder TLA+ machine ExprBuilder (TLC exhaustive for small vocabularies, -simulate beyond, directed families); their meaning is the exact-rational TLA+ semantics ArraySem evaluated by TLC (EvalDag). Each program is built with nutils' raw constructors, simplified under a watchdog and evaluated: shape, dtype, values at three argument assignments must equal the model (S->C). Every rewrite step of the real fixed-point driver is recorded, exported back to DAG JSON and TLC decides with PairVerdict whether the step preserved the value (C->S).",
   note="Vocabulary: 35 constructors over bool/int/float on shapes up to rank 3 (no transcendental functions, Eig, complex); model-undefined values (division by zero, non-square roots, magnitude cap) are skipped; failing programs are shrunk to an op skeleton that is the known-finding key.",
   technique="TLA+ typed program-builder state machine + TLA+ reference semantics evaluated by TLC; spec->code replay and TLC validation of recorded rewrite steps"),
 'C02': dict(
   category='model_checking',
   text="Programs and nested tuples of outputs with shared subterms/loops from the ExprBuilder TLA+ machine are compiled by evaluable.compile under 10-14 configurations (_simplify x _optimize x cache_const_intermediates, stats, maxprocs) and called four times (first-run and rerun paths); returned structure, shapes, dtypes and values are compared with the ArraySem TLA+ model values computed by TLC (S->C). In addition the executed statements of the real generated scripts (first run and rerun, three configurations; recorded with sys.settrace through the nutils._util.function seam) are validated by TLC against the TraceCodeGen abstract machine: no read of undefined/uninitialised buffers, no stale values across loop iterations, accumulate only into zeroed buffers not read since, no write to frozen globals (C->S).",
   note="The machine checks buffer/accumulator discipline of the script, contribution completeness is decided through the values; parallel configurations are exercised on a subset in the quick tier (fork is slow in the sandbox).",
   technique="TLA+ program-builder + TLA+ reference semantics (TLC) as oracle across all compile configurations; TLC trace validation of executed generated scripts against a TLA+ statement machine"),
 'C03': dict(
   category='model_checking',
   text="CompiledFn.tla models the persistent state of a compiled function (first_run, frozen cached globals, aliasing of returned arrays) and user moves (call with env e, wrong-shape call, overwrite of a returned writable array); TLC checks Pure/CachedFrozen/CacheIntact over all histories up to MaxLen (spec mutant FreezeCached=FALSE must violate) and emits every maximal history; histories are replayed on programs mixing constant and argument-dependent subterms: each call must equal the ArraySem model value and a freshly compiled function, argument arrays must be bit-identical after the call, user writes are really attempted.",
   note="Histories exhaustive to length 4 (5 thorough) but sampled per program; aliasing is observed through behaviour (writes, reuse of argument objects mutated in place), not through buffer identity.",
   technique="TLA+ call-history model checked by TLC; TLC-generated histories replayed into real compiled functions with TLA+ model values as oracle"),
 'C04': dict(
   category='model_checking',
   text="Reference Jacobians are the exact dual-number lifting of the ArraySem TLA+ semantics: TLC evaluates the tangent of the root for a unit seed on every element of every real argument; evaluable.derivative of the same program must have shape root+argument and equal the Jacobian column by column; integer/boolean roots must have zero derivative.",
   note="Kinks (abs/sign/min/max ties, floor, comparisons) have undefined model tangents and are skipped; transcendental functions and complex differentiation are outside the exact model; second derivatives not yet bound.",
   technique="TLA+ dual-number reference semantics evaluated by TLC; spec->code replay of generated programs"),
 'C05': dict(
   category='model_checking',
   text="SparseCheck.tla states every clause of the property (index range, strict lexicographic order, CSR row pointers monotone, columns strictly increasing per row, scatter equals dense) as TLA+ predicates; the real COO (assparse of the simplified expression) and CSR (as_csr) data recorded for ExprBuilder programs are handed to TLC, which computes the dense reference from the ArraySem semantics of the same program and reports the first failing clause.",
   note="Values are passed as exact rationals (denominator <= 20000), others skipped and counted; loop-dependent block sizes are not in the vocabulary yet (constant chunk sizes only).",
   technique="recorded sparse data validated by TLC against TLA+ clauses and the TLA+ reference semantics"),
 'C06': dict(
   category='model_checking',
   text="(a) every node of every ExprBuilder program carries the model typing (shape/dtype, cross-checked against ArraySem inside TLC by the ShapeSound/IxSound invariants); the real node must announce the same ndim/shape/dtype, evaluate to exactly that, and evaluate given only the arguments it announces. (b) IntBounds.tla states soundness of the interval transfer functions per constructor and is checked exhaustively by TLC (spec mutant: naive Inflate rule violates); every integer node of the real code is evaluated at all loop iterations and must lie in its _intbounds.",
   note="Only soundness of ranges is demanded, never tightness; function.Array level metadata is left to C07.",
   technique="TLA+ typing rules + TLA+ interval-soundness spec (TLC exhaustive) + replay of generated programs node by node"),
 'C07': dict(
   category='model_checking',
   text="NumpySem.tla is an exact rational model of NumPy array semantics: broadcasting; the kind promotion lattice with the per-function minimum; basic, advanced and mask indexing; the reshape/transpose family; stack/concatenate/take/choose/compress/repeat; reductions; dot/matmul/vdot/cross/einsum; trace/diagonal; det/inv/norm; searchsorted/interp; and the shape/kind rule of the transcendental ufuncs; every call returns a value or a REJECT / TYPEERR / NODEMAND verdict. FuncBuilder.tla is a state machine with one action per call family whose behaviours are compositions of these calls over constants, arguments, raw operands and point-dependent leaves (coordinate, element index, basis); the leaves' exact per-point values on six samples (two of them product samples with two point axes) are model constants that the harness first binds to the real samples. TLC explores it exhaustively per family (1-3 calls) and by simulation (up to 4 calls), checks the invariants VerdictUniform, SizeLaw, BroadcastLaw, KindLaw and StructLaw (a promotion spec mutant must violate) and emits each program with predicted shape, kind and per-point values or verdict. Each program is replayed through the same NumPy API calls (NEP-13/18 dispatch) on nutils function arrays: .shape/.dtype and numpy.shape/ndim/size are compared before evaluation, sample.eval at every point afterwards; REJECT must raise when the expression is built; operator and method spellings must agree. Every behaviour is also cross-checked against the installed numpy on plain ndarrays: a disagreement there is a model bug (machinery failure), never a finding.",
   note="Only the element kind is compared, never the width; entries the rational model leaves undefined (irrational roots, transcendental values, magnitudes above 20000) are compared with numpy on the operands' values at that point; points where numpy itself yields inf/nan and discontinuous calls on inexact floats are not judged; declared refusals and legacy NumPy forms for 0-d operands are skipped and counted; eig/eigh are not modelled; arrays have <= 12 entries and rank <= 3, samples are a 2-element line, a 2x1 rectilinear mesh and their products; the recorded known-finding keys (combined index arrays, zero-size arrays, boolean corner cases, unbounded integer indices) mask regressions inside exactly those code paths; action coverage is computed from emitted behaviours.",
   technique="TLA+ NumPy-semantics model + program-building state machine checked by TLC; every emitted program replayed through NEP-13/18 dispatch on real function arrays and samples"),
 'C12': dict(
   category='model_checking',
   text="Five TLA+ design models checked by TLC. Basis/BasisSpline/BasisMachine model 1-D B-spline structure twice (from the knot-vector definition and as a transcription of topology.py's index arithmetic; invariants SplImplRefines, dimension formula, p+1 functions per element, continuity C^(p-m) from multiplicity or the continuity argument) with tensor products, discont/Legendre, removedofs, Mask, Prune and Part as actions (InverseMaps, NoDeadDof, InvUnit and the action property StepProp in every state); MergeIndex models util.merge_index_map as the code's pointer machine (Downwards, RootsAreReps, result = equivalence-class numbering); BasisNodal covers every small simplex mesh with std/lagrange/bernstein/bubble/discont as lattice-node gluing; BasisHier classical and truncated hierarchical bases on every small dyadic refinement incl. periodic; BasisMulti multipatch splines glued along shared sides. S->C: every emitted state carries the predicted structure (ndofs, per-element dof lists, supports, interface continuity orders, partition-of-unity elements); the same basis is built through the public nutils API and get_dofs/get_support/ndofs compared exactly (up to renumbering for C0 simplex bases), then the numeric clauses are checked as the model predicts them: sample.eval(basis) equals get_coefficients scattered to get_dofs, the non-zero set equals the dof list, the sum is one where predicted, jumps of all derivatives up to the promised order vanish on every interface, alternative public routes to the same basis agree. T: the dof tables of every replayed basis and of Mask/Prune/Part children are loaded by TLC and judged for InverseMaps and MaskOp/PruneOp/PartOp.",
   note="Basis function values are compared with the basis' own coefficient tables, partition of unity and continuity at Gauss points; truncated hierarchical bases: ndofs, bounds of each per-element dof set, partition of unity, continuity and InverseMaps, not the exact truncated supports; uniform knot values, identity geometry; trimmed topologies as whole-element subsets; multipatch only axis-aligned consistently oriented layouts; 'not smoother than advertised' is not demanded; quick replay coverage (never the verdict) is clock limited.",
   technique="TLA+ models of spline / nodal / hierarchical / multipatch basis structure and of merge_index_map checked by TLC; predicted structures replayed on real bases; exported dof tables validated by TLC"),
 'C14': dict(
   category='model_checking',
   text="Solver.tla models System.solve and the Newton/ReuseNewton/LinesearchNewton/Arnoldi/direct protocols and Matrix._solver with residual norms abstracted to IEEE-comparison classes, StepRetry.tla the bisection retry tree of System.step, LinSolve.tla the constrained linear solve in exact rational arithmetic; TLC checks Certified/NoSilent/Tiling/ConsExact/IndepOfGuess; all model behaviours are replayed on the real System.solve/step/Matrix.solve (S->C) and recorded real nonlinear solves are validated by TraceSolver.tla (C->S).",
   note="Residuals abstracted to six magnitudes; tol=0 demands only finiteness and exact constraints; MKL backend absent; exact arithmetic up to 3x3.",
   technique="TLA+ solver-protocol models checked by TLC; oracle-sequence replay into the real solver loop and trace validation of real solves"),
 'C18': dict(
   category='model_checking',
   text="TLA+ specs CacheFn/CacheRec of cache.function and cache.Recursion (one action per step of the wrapper, crash between any two bytes of pickle.dump, concurrent callers) are checked exhaustively by TLC for Transparent, MutexCompute, LockHeld, StoredIsTrue, termination; bound to the code by trace validation of real multi-process runs with SIGKILLs (TraceCacheFn/TraceCacheRec) and by realising every model-reachable file state (every byte prefix, junk tails, chimeras) on real cache files.",
   note="Assumes SIGKILL-style process death (no fsync/power-loss reordering), flock semantics of Linux, deterministic pickles for a deterministic function; bounds: 2 processes, pickle length 3 abstract bytes, <=3 crashes in the design model.",
   technique="TLA+/TLC exhaustive design model + trace validation of recorded real executions + model-state realisation (every prefix)"),
}

NOT_YET = "check not implemented yet in this round (planned, see DESIGN.md section 4); not claimed"
NOT_APPLICABLE = {}

def main():
    props = [json.loads(l)['id'] for l in open(os.path.join(HERE, 'properties.jsonl'))]
    checks = []
    for pid in props:
        if pid in CHECKS:
            c = CHECKS[pid]
            checks.append({
                'property_id': pid,
                'quick_cmd': './check {} --tier quick'.format(pid),
                'thorough_cmd': './check {} --tier thorough'.format(pid),
                'evidence_file': '/verif/evidence/{}.json'.format(pid),
                'replay_cmd_template': './check {} --replay {{path}}'.format(pid),
                'engine': 'tlc',
                'level_claimed': {'category': c['category'], 'text': c['text'], 'design_ref': 'DESIGN.md section 4 ' + pid},
                'level_note': c['note'],
                'technique': c['technique'],
            })
    na = [{'property_id': pid, 'reason': NOT_APPLICABLE.get(pid, NOT_YET)} for pid in props if pid not in CHECKS]
    m = {
     'version': 1,
     'setup_cmd': 'sh ./setup.sh',
     'hooks': {
      'guard': 'NUTILS_VERIF_TRACE',
      'enable': 'checks run /venv/bin/python with PYTHONPATH=/repo/src (pure Python, nothing to build); the hook is enabled per check by setting NUTILS_VERIF_TRACE=<event file>',
      'baseline_off_cmd': 'cd /repo && env -u NUTILS_VERIF_TRACE /venv/bin/python -m pytest -ra -q -p no:cacheprovider --timeout=900 --continue-on-collection-errors',
      'source_commits': HOOK_COMMITS,
      'add_only': True,
     },
     'engines': [{'name': 'tlc', 'path': '/opt/veriftools/tla/tla2tools.jar', 'serves_properties': sorted(CHECKS),
                  'kind_free_text': 'TLA+ explicit-state model checker (TLC 1.8); design specs spec/*.tla are checked exhaustively/by simulation, Trace*.tla validate executions recorded from the real code, and TLC-generated behaviours are replayed into the real code by harness/vf'}],
     'checks': checks,
     'not_applicable': na,
     'notes': 'Entry point ./check <ID> --tier quick|thorough; known findings in known_findings.jsonl; see DESIGN.md.',
    }
    with open(os.path.join(HERE, 'MANIFEST.json'), 'w') as f:
        json.dump(m, f, indent=1)
    print('MANIFEST.json: {} checks, {} not claimed'.format(len(checks), len(na)))

HOOK_COMMITS = ['6e6c6ff']

if __name__ == '__main__':
    main()
