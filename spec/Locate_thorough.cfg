\* thorough, exhaustive: every history of 3 locate calls on every topology (2 target sequences x own/common map)
SPECIFICATION Spec
CONSTANTS
  MaxCalls = 3
  MemoAlways = FALSE
  TopoIds = {"line3", "line4r", "line2s", "line4m", "rect32", "rect32r", "rect33m"}
  NTargetSets = 2
INVARIANT ImageOK
INVARIANT Containment
INVARIANT MemoSound
INVARIANT EmitMemoRelevant
CHECK_DEADLOCK FALSE
