#!/bin/sh
# offline setup: optional scipy into /verif/.deps (for matrix backends); nothing else to build
cd "$(dirname "$0")"
mkdir -p .work evidence replays
if [ ! -d .deps/scipy ]; then
  /venv/bin/pip install --quiet --no-index --find-links /opt/veriftools/wheels --no-deps --target .deps scipy >/dev/null 2>&1 || echo "scipy not installed (backend will be reported as not covered)"
fi
tlc -h >/dev/null 2>&1 || true
exit 0
