---------------------------- MODULE MCSampleAlg ----------------------------
(***************************************************************************)
(* C09: constants of SampleAlg.  The leaves are exported by the harness    *)
(* from the live base samples (T binding, env VF_TABLE, JSON):             *)
(*   bases     [sp, np, items, ps]: space and number of points of every    *)
(*             element of every real base sample (len(points.get(e).coords)),*)
(*             the sizes of the primitive point sets and the container     *)
(*             expression that built its PointsSequence                    *)
(*   atoms     [name, kind, b, p, s]: "plain" base b; "custom" base b with *)
(*             index p (Sample.new(..., index)); "located" base b =        *)
(*             Topology._sample(ielems = p, coords, weights);              *)
(*             "empty" Sample.empty(s)                                     *)
(*   start, operands   names of atoms                                      *)
(***************************************************************************)
EXTENDS SampleAlg, IOUtils

Table == JsonDeserialize(IOEnv.VF_TABLE)
MCBases == Table.bases
MCAtomDefs == Table.atoms
MCStartAtoms == SaRange(Table.start)
MCOperands == SaRange(Table.operands)
\* the slices of the located leaves, for the harness (printed once)
ASSUME Emit([atomtable |-> AtomTable, basetable |-> BaseTable])
=============================================================================
