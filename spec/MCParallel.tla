---------------------------- MODULE MCParallel ----------------------------
(* Model-checking instances of Parallel: canonical loop bodies shaped like  *)
(* the scripts evaluable.compile generates and like topology._locate.       *)
EXTENDS Parallel

St(op, arr, locks) == [op |-> op, arr |-> arr, locks |-> locks]
C(id, np, niter, shared, nlocks, body) ==
    [id |-> id, np |-> np, niter |-> niter, shared |-> shared, nlocks |-> nlocks, body |-> body]

\* LoopSum into one shared accumulator: `with lock0: numpy.add.at(v0, ...)`
BodySum1 == <<St("nop", 0, <<>>), St("rmw", 1, <<1>>)>>
\* LoopSum + LoopConcatenate: two shared arrays with their own locks
BodySum2 == <<St("rmw", 1, <<1>>), St("slot", 2, <<2>>)>>
\* two accumulators
BodyAcc2 == <<St("rmw", 1, <<1>>), St("rmw", 2, <<2>>)>>
\* a statement that reads one shared array while accumulating into another
BodyTwoLocks == <<St("rmw", 1, <<1, 2>>), St("read", 2, <<2>>)>>
\* topology._locate: ielems[ipoint] = ..., points[ipoint] = ... without locks
BodyLocate == <<St("slot", 1, <<>>), St("slot", 2, <<>>)>>
\* mutants of the generated code
BodyNoLock == <<St("rmw", 1, <<>>)>>
BodyWrongLock == <<St("rmw", 1, <<2>>), St("rmw", 1, <<1>>)>>
BodyABBA == <<St("rmw", 1, <<1, 2>>), St("rmw", 2, <<2, 1>>)>>
BodyTwice == <<St("rmw", 1, <<1, 1>>)>>

\* quick: every body with 2 processes x 2-3 iterations and 3 x 3 for the plain sum
ConfigsQuick == {C(1, 1, 2, <<TRUE>>, 1, BodySum1),
                 C(2, 2, 3, <<TRUE>>, 1, BodySum1),
                 C(3, 3, 3, <<TRUE>>, 1, BodySum1),
                 C(4, 2, 2, <<TRUE, TRUE>>, 2, BodySum2),
                 C(5, 2, 2, <<TRUE, TRUE>>, 2, BodyAcc2),
                 C(6, 2, 2, <<TRUE, TRUE>>, 2, BodyTwoLocks),
                 C(7, 3, 3, <<TRUE, TRUE>>, 0, BodyLocate)}
ConfigsThorough == ConfigsQuick \cup
                {C(11, 3, 3, <<TRUE, TRUE>>, 2, BodyAcc2),
                 C(12, 3, 4, <<TRUE>>, 1, BodySum1),
                 C(13, 3, 3, <<TRUE, TRUE>>, 2, BodyTwoLocks),
                 C(14, 4, 4, <<TRUE, TRUE>>, 0, BodyLocate)}
ConfigsLive == {C(2, 2, 2, <<TRUE>>, 1, BodySum1), C(4, 2, 2, <<TRUE, TRUE>>, 2, BodySum2), C(7, 3, 2, <<TRUE, TRUE>>, 0, BodyLocate)}

\* S->C replay into the real code (forking is slow: mostly two processes)
ConfigsReplay == {C(31, 2, 3, <<TRUE>>, 1, BodySum1),
                  C(32, 2, 2, <<TRUE, TRUE>>, 2, BodySum2),
                  C(33, 2, 2, <<TRUE, TRUE>>, 2, BodyTwoLocks),
                  C(34, 2, 3, <<TRUE, TRUE>>, 0, BodyLocate),
                  C(35, 3, 3, <<TRUE, TRUE>>, 2, BodyAcc2),
                  C(37, 1, 2, <<TRUE>>, 1, BodySum1)}

\* controls for the replay: bodies that are wrong on purpose (a private result array, an
\* unlocked accumulation).  The model predicts the lost updates, the real memory must show them.
ConfigsReplayBad == {C(41, 2, 2, <<FALSE, TRUE>>, 1, <<St("rmw", 1, <<>>), St("rmw", 2, <<1>>)>>),
                     C(42, 2, 3, <<TRUE>>, 0, BodyNoLock)}

\* mutants (each must violate the named property)
ConfigsNoLock == {C(21, 2, 2, <<TRUE>>, 1, BodyNoLock)}
ConfigsWrongLock == {C(22, 2, 2, <<TRUE>>, 2, BodyWrongLock)}
ConfigsPrivate == {C(23, 2, 2, <<FALSE>>, 1, BodySum1)}
ConfigsABBA == {C(24, 2, 2, <<TRUE, TRUE>>, 2, BodyABBA)}
ConfigsTwice == {C(25, 2, 2, <<TRUE>>, 1, BodyTwice)}
ConfigsSmall == {C(2, 2, 3, <<TRUE>>, 1, BodySum1), C(3, 3, 3, <<TRUE>>, 1, BodySum1)}

\* fault plans
PlansAny == {{}}
\* ({1000}, {1001}, ...: no fault at all in behaviours shorter than that)
PlansSim == {{1000}, {1001}, {1002}, {}, 2..5, 6..9, 10..14, 15..20, 21..27, 28..36, 37..50, 51..70, {4, 5, 6, 30, 31, 32}, {12, 13, 14, 44, 45, 46}}
=============================================================================
