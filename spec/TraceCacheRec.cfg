SPECIFICATION TraceSpec
CONSTRAINT Progress
INVARIANT Transparent
INVARIANT Complete
INVARIANT StoredIsTrue
INVARIANT MutexItem
INVARIANT LockHeld
INVARIANT GenGood
POSTCONDITION TraceAccepted
CHECK_DEADLOCK FALSE
