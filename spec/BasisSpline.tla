---------------------------- MODULE BasisSpline ----------------------------
(***************************************************************************)
(* C12 -- one dimension of StructuredTopology.basis_spline.                *)
(*                                                                         *)
(* Two layers.  The reference layer is the textbook definition: the knot   *)
(* vector T (knot i, i = 0..n, repeated according to its multiplicity;     *)
(* open at both ends, or repeated periodically), function q is the         *)
(* B-spline on the knots T[q..q+p+1], it is non-zero on the elements       *)
(* between its first and last knot and is C^(p-k) at a knot that occurs k  *)
(* times among its knots.  The implementation layer transcribes the        *)
(* arithmetic of topology.py (cumsum offsets, start/stop dofs, mod ndofs)  *)
(* and function.StructuredBasis.get_support.  SplImplRefines states that   *)
(* both give the same tables; SplAdvertised that the continuity at knot i  *)
(* is p - multiplicity; SplCount the dimension formula.                    *)
(***************************************************************************)
EXTENDS Basis, TLC

(* ---- parameter expansion: knotmultiplicities / continuity as the code reads them ------------------- *)
(* prm = [p, n, per, form, ms, k]:  form "full": ms = knotmultiplicities (n+1 entries);                *)
(* form "none": knotmultiplicities=None, continuity=k; form "coarse": ms has n/2+1 entries and is      *)
(* refined once, the inserted knots get multiplicity p-c.                                              *)
SplC(prm) == IF prm.k < 0 THEN prm.k + prm.p ELSE prm.k          \* c = continuity; if c < 0: c += p
SplMs(prm) ==
    CASE prm.form = "full" -> prm.ms
      [] prm.form = "none" -> [i \in 1..prm.n+1 |-> prm.p - SplC(prm)]
      [] prm.form = "coarse" -> [i \in 1..prm.n+1 |-> IF i % 2 = 1 THEN prm.ms[(i+1) \div 2] ELSE prm.p - SplC(prm)]
SplValid(prm) ==
    /\ prm.p >= 0 /\ prm.n >= 1
    /\ -1 <= SplC(prm) /\ SplC(prm) < prm.p                  \* assert -1 <= c < p
    /\ prm.form = "full" => Len(prm.ms) = prm.n + 1
    /\ prm.form = "coarse" => (prm.n % 2 = 0 /\ Len(prm.ms) = prm.n \div 2 + 1)
    /\ LET ms == SplMs(prm) IN
         /\ \A i \in 1..prm.n+1 : ms[i] >= 1 /\ ms[i] <= prm.p + 1
         /\ prm.per => ms[1] = ms[prm.n+1]          \* 'periodic spline multiplicity expected'

(* a periodic topology with full multiplicity at the end knot carries an open (discontinuous) spline *)
SplIsPer(prm) == LET ms == SplMs(prm) IN prm.per /\ ~(ms[1] = prm.p+1 /\ ms[prm.n+1] = prm.p+1)

(* ---- reference layer ------------------------------------------------------------------------------ *)
Spline1D(prm) ==
    LET p == prm.p
        n == prm.n
        ms == SplMs(prm)
        isper == SplIsPer(prm)
        K == IF isper THEN (2*p+5)*n ELSE n                       \* last knot of the (unrolled) knot vector
        mu(i) == IF isper THEN ms[(i % n) + 1] ELSE IF i = 0 \/ i = n THEN p+1 ELSE ms[i+1]
        Cr[i \in 0..K+1] == IF i = 0 THEN 0 ELSE Cr[i-1] + mu(i-1) \* number of knot copies before knot i
        C == TLCEval([i \in 0..K+1 |-> IF i <= n THEN Cr[i] ELSE IF isper THEN (i \div n) * Cr[n] + Cr[i % n] ELSE Cr[n] + p + 1])
        NT == C[K+1]
        T == TLCEval([k \in 1..NT |-> CHOOSE i \in 0..K : C[i] < k /\ k <= C[i+1]])
        nd == IF isper THEN C[n] ELSE NT - p - 1
        e0 == IF isper THEN (p+1)*n ELSE 0                        \* the copy of element 0 that anchors the numbering
        on(q, e) == T[q] <= e /\ e+1 <= T[q+p+1]                  \* B-spline q is non-zero on (e, e+1)
        q0 == BMin({q \in 1..NT-p-1 : on(q, e0)})                 \* dof 0 = the first function on element 0
        lab(q) == (q - q0) % nd
        elfun(e) == {q \in 1..NT-p-1 : on(q, e0 + e)}
        ed == TLCEval([e \in 1..n |-> LET qs == BSorted(elfun(e-1)) IN [i \in 1..Len(qs) |-> lab(qs[i])]])
        su == TLCEval([d \in 1..nd |-> {IF isper THEN x % n ELSE x : x \in {e \in 0..K-1 : on(q0 + d - 1, e)}}])
        smooth(q, i) == p - Cardinality({k \in q..q+p+1 : T[k] = i}) + (IF Mutant = "cont-off" THEN 1 ELSE 0)
        cont(I) == BMin(UNION {{smooth(q0+d, i) : i \in {j \in T[q0+d]..T[q0+d+p+1] : IF isper THEN j % n = I ELSE j = I}} : d \in 0..nd-1})
        faces == IF prm.per THEN 0..n-1 ELSE 1..n-1
    IN [ne |-> n, nd |-> nd, ed |-> ed, su |-> su,
        mid |-> [e \in 1..n |-> <<2*e-1>>],
        ifc |-> {[key |-> <<2*I>>, a |-> (I+n-1) % n, b |-> I % n, c |-> cont(I)] : I \in faces},
        un |-> 0..n-1]

(* ---- implementation layer ------------------------------------------------------------------------- *)
SplImplM(prm) == LET ms == SplMs(prm) IN
    IF SplIsPer(prm) THEN ms ELSE [i \in 1..prm.n+1 |-> IF i = 1 \/ i = prm.n+1 THEN prm.p ELSE ms[i]]   \* m[0] = m[-1] = p
SplImplStart(prm) == LET m == SplImplM(prm)
                         S[e \in 0..prm.n-1] == IF e = 0 THEN 0 ELSE S[e-1] + m[IF Mutant = "impl-start" THEN e ELSE e+1]    \* cumsum(m[:n]) - m[0]
                     IN S
SplImplNd(prm) == LET m == SplImplM(prm)
                      S[i \in 0..prm.n] == IF i = 0 THEN 0 ELSE S[i-1] + m[i]
                  IN IF SplIsPer(prm) THEN S[prm.n] ELSE S[prm.n] + 1
SplImplDofs(prm, e) == [k \in 1..prm.p+1 |-> (SplImplStart(prm)[e] + k - 1) % SplImplNd(prm)]
SplImplSupp(prm, d) ==    \* StructuredBasis.get_support: while dof_i < stop_dofs[-1]: ...; dof_i += ndofs_i
    LET st == SplImplStart(prm)
        nd == SplImplNd(prm)
        last == st[prm.n-1] + prm.p + 1 IN
    {e \in 0..prm.n-1 : \E r \in 0..(last \div nd) : d + r*nd < last /\ st[e] <= d + r*nd /\ d + r*nd < st[e] + prm.p + 1}

SplImplRefines(prm, s) ==
    /\ SplImplNd(prm) = s.nd
    /\ \A e \in 0..prm.n-1 : SplImplDofs(prm, e) = s.ed[e+1]
    /\ \A d \in 0..s.nd-1 : SplImplSupp(prm, d) = s.su[d+1]

(* ---- what the type promises ----------------------------------------------------------------------- *)
SplCount(prm, s) ==      \* dimension of the spline space
    LET ms == SplMs(prm)
        S[i \in 0..prm.n] == IF i = 0 THEN 0 ELSE S[i-1] + ms[i+1]      \* sum of ms over knots 1..i
    IN s.nd = IF SplIsPer(prm) THEN S[prm.n] ELSE prm.p + 1 + S[prm.n-1]
SplLocal(prm, s) == \A e \in 1..prm.n : Len(s.ed[e]) = prm.p + 1        \* p+1 functions on every element
SplAdvertised(prm, s) ==                                                \* C^(p-m) at a knot of multiplicity m
    LET ms == SplMs(prm) IN
    \A i \in s.ifc : i.c = prm.p - ms[(i.key[1] \div 2) + 1]
SplContinuityArg(prm, s) ==                                             \* continuity=c gives C^c everywhere inside
    prm.form = "none" => \A i \in s.ifc : i.c = SplC(prm)

=============================================================================
