------------------------------ MODULE Parallel ------------------------------
(***************************************************************************)
(* Design specification of nutils' fork based loop parallelism (C16).      *)
(*                                                                         *)
(* Modelled code (one action per step of the code):                        *)
(*   parallel._fork        src/nutils/parallel.py:49-87   Fork, ForkFail,  *)
(*                          ChildExit, Exc (child: os._exit(1); parent:    *)
(*                          SIGKILL all children, re-raise), Wait, Finish  *)
(*   parallel._wait        src/nutils/parallel.py:165-184 Wait             *)
(*   parallel.range        src/nutils/parallel.py:128-145 ClaimAcq,        *)
(*                          ClaimRead (read + test), ClaimWrite, ClaimRel, *)
(*                          ClaimExh (StopIteration leaves the with block) *)
(*   generated loop body   src/nutils/evaluable.py:6985-7014, 7109-7201    *)
(*                          per statement: AcqA (with lock<n>:), the       *)
(*                          statement (UpdRead/UpdWrite for += on an       *)
(*                          array, Slot for a write to the element(s)      *)
(*                          owned by the iteration, Nop for anything       *)
(*                          else), RelA                                    *)
(*   topology._locate      src/nutils/topology.py:848-909  body of Slot    *)
(*                          statements on ielems/points, no locks          *)
(*   SIGKILL of a child at any point: Kill                                 *)
(*                                                                         *)
(* A configuration cfg (chosen in Init from the constant set Configs,      *)
(* constant afterwards) describes one parallel loop:                       *)
(*   [id, np, niter, shared, nlocks, body]                                 *)
(*   np      number of processes (0 = parent, 1..np-1 forked children)     *)
(*   niter   loop length                                                   *)
(*   shared  sequence of BOOLEAN: array a lives in an anonymous shared     *)
(*           mmap (parallel.shempty) or in private, copy-on-write memory   *)
(*   nlocks  number of multiprocessing.Lock objects created before the     *)
(*           fork                                                          *)
(*   body    sequence of statements [op, arr, locks]: op "rmw" (in place   *)
(*           accumulation into arr: read-modify-write of the whole array), *)
(*           "slot" (assignment to the part of arr owned by the current    *)
(*           iteration), "read" (fetches arr), "nop"; locks = sequence of  *)
(*           lock numbers acquired around the statement, outermost first.  *)
(* The harness exports these records from the scripts that the real        *)
(* evaluable.compile generates (binding T) and replays behaviours of this  *)
(* spec, with the state predicted here, into the real parallel.ctxrange /  *)
(* fork / range / shzeros (binding S->C).                                  *)
(*                                                                         *)
(* An array value is a bag of contributions: element i counts how often    *)
(* the contribution of iteration i-1 has been applied.                     *)
(***************************************************************************)
EXTENDS Naturals, Sequences, FiniteSets, TLC

CONSTANTS MaxProcs,     \* bound on cfg.np
          Configs,      \* set of configurations
          MaxFaults,    \* fault budget (Exc, Kill, ForkFail)
          LockedClaim,  \* TRUE: range.__next__ holds _lock (FALSE = spec mutant)
          CheckExit,    \* TRUE: _fork raises if a child did not exit 0 (FALSE = spec mutant)
          KillChildren, \* TRUE: a failing parent kills its children (FALSE = variant, see ParentKills)
          KillInCS,     \* TRUE: SIGKILL may hit a process that holds a lock
          Record,       \* TRUE: keep the history of actions for replay
          FaultPlans    \* set of sets of step numbers; {{}} = faults at any time.  Used with
                        \* Record to spread the faults of simulated behaviours over the run.

VARIABLES cfg, plan, pc, index, rlock, loc, step, nheld, alock, tmp, shm, priv,
          claimed, done, exit, nfork, nwait, nfails, faults, bad, hist

vars == <<cfg, plan, pc, index, rlock, loc, step, nheld, alock, tmp, shm, priv,
          claimed, done, exit, nfork, nwait, nfails, faults, bad, hist>>

Procs == 0..(MaxProcs - 1)
Free == MaxProcs                 \* lock holder value "nobody"
NP == cfg.np
NI == cfg.niter
Children == 1..(NP - 1)
Arrs == 1..Len(cfg.shared)
Locks == 1..cfg.nlocks
Body == cfg.body
Z == [i \in 1..NI |-> 0]
Cur(p) == Body[step[p]]
Writes == {"rmw", "slot"}

\* the memory process p sees for array a
Mem(p, a) == IF cfg.shared[a] THEN shm[a] ELSE priv[p][a]

Init == /\ cfg \in Configs
        /\ plan \in FaultPlans
        /\ pc = [p \in Procs |-> IF p = 0 THEN (IF cfg.np > 1 THEN "forking" ELSE "acq") ELSE "unborn"]
        /\ index = 0
        /\ rlock = Free
        /\ loc = [p \in Procs |-> 0]
        /\ step = [p \in Procs |-> 0]
        /\ nheld = [p \in Procs |-> 0]
        /\ alock = [l \in 1..cfg.nlocks |-> Free]
        /\ tmp = [p \in Procs |-> <<>>]
        /\ shm = [a \in 1..Len(cfg.shared) |-> [i \in 1..cfg.niter |-> 0]]
        /\ priv = [p \in Procs |-> [a \in 1..Len(cfg.shared) |-> [i \in 1..cfg.niter |-> 0]]]
        /\ claimed = [i \in 1..cfg.niter |-> 0]
        /\ done = [i \in 1..cfg.niter |-> 0]
        /\ exit = [p \in Procs |-> "none"]
        /\ nfork = 0 /\ nwait = 0 /\ nfails = 0 /\ faults = 0
        /\ bad = {}
        /\ hist = <<>>

\* history record: who, what, observed value, and the shared state after the step
Log(p, a, v) == hist' = IF Record
                        THEN Append(hist, [p |-> p, a |-> a, v |-> v, idx |-> index', shm |-> shm',
                                           mine |-> priv'[p]])
                        ELSE hist

\* ------------------------------------------------------------------ _fork
\* os.fork() in the loop of _fork; the child starts with a copy of the
\* parent's private memory (nothing has been written yet) and enters the
\* body of the with statement, i.e. the shared range.
Fork == /\ pc[0] = "forking" /\ nfork < NP - 1
        /\ LET c == nfork + 1 IN
             /\ pc' = [pc EXCEPT ![c] = "acq", ![0] = IF c = NP - 1 THEN "acq" ELSE "forking"]
             /\ nfork' = c
             /\ UNCHANGED <<cfg, plan, index, rlock, loc, step, nheld, alock, tmp, shm, priv, claimed, done, exit, nwait, nfails, faults, bad>>
             /\ Log(0, "Fork", c)

\* all living children of the parent receive SIGKILL (parallel.py:75-76)
Killed(c) == KillChildren /\ c \in 1..nfork /\ pc[c] # "dead"
ParentKills == /\ exit' = [c \in Procs |-> IF Killed(c) THEN "sig" ELSE exit[c]]
               /\ pc' = [c \in Procs |-> IF c = 0 THEN "raised" ELSE IF Killed(c) THEN "dead" ELSE pc[c]]

\* fault: os.fork raises in the parent
ForkFail == /\ pc[0] = "forking" /\ faults < MaxFaults /\ (plan = {} \/ Len(hist) \in plan)
            /\ faults' = faults + 1
            /\ ParentKills
            /\ UNCHANGED <<cfg, plan, index, rlock, loc, step, nheld, alock, tmp, shm, priv, claimed, done, nfork, nwait, nfails, bad>>
            /\ Log(0, "ForkFail", nfork)

\* ------------------------------------------------------------------ range.__next__
ClaimAcq(p) == /\ pc[p] = "acq"
               /\ IF LockedClaim THEN rlock = Free /\ rlock' = p ELSE UNCHANGED rlock
               /\ pc' = [pc EXCEPT ![p] = "read"]
               /\ UNCHANGED <<cfg, plan, index, loc, step, nheld, alock, tmp, shm, priv, claimed, done, exit, nfork, nwait, nfails, faults, bad>>
               /\ Log(p, "ClaimAcq", 0)

\* iiter = self._index.value; if iiter >= self._stop (the test is local)
ClaimRead(p) == /\ pc[p] = "read"
                /\ loc' = [loc EXCEPT ![p] = index]
                /\ pc' = [pc EXCEPT ![p] = IF index >= NI THEN "relx" ELSE "write"]
                /\ UNCHANGED <<cfg, plan, index, rlock, step, nheld, alock, tmp, shm, priv, claimed, done, exit, nfork, nwait, nfails, faults, bad>>
                /\ Log(p, "ClaimRead", index)

\* self._index.value = iiter + 1
ClaimWrite(p) == /\ pc[p] = "write"
                 /\ index' = loc[p] + 1
                 /\ pc' = [pc EXCEPT ![p] = "rel"]
                 /\ UNCHANGED <<cfg, plan, rlock, loc, step, nheld, alock, tmp, shm, priv, claimed, done, exit, nfork, nwait, nfails, faults, bad>>
                 /\ Log(p, "ClaimWrite", loc[p] + 1)

\* leaving `with self._lock` and returning iiter: the loop body starts
ClaimRel(p) == /\ pc[p] = "rel"
               /\ rlock' = IF LockedClaim THEN Free ELSE rlock
               /\ claimed' = [claimed EXCEPT ![loc[p] + 1] = @ + 1]
               /\ IF Len(Body) = 0
                  THEN /\ pc' = [pc EXCEPT ![p] = "acq"]
                       /\ done' = [done EXCEPT ![loc[p] + 1] = @ + 1]
                       /\ UNCHANGED step
                  ELSE /\ pc' = [pc EXCEPT ![p] = "body"]
                       /\ step' = [step EXCEPT ![p] = 1]
                       /\ UNCHANGED done
               /\ UNCHANGED <<cfg, plan, index, loc, nheld, alock, tmp, shm, priv, exit, nfork, nwait, nfails, faults, bad>>
               /\ Log(p, "ClaimRel", loc[p])

\* StopIteration leaves the with block: the loop is exhausted for p.  A
\* child leaves the with statement of _fork (-> os._exit(0)), the parent
\* starts waiting.
ClaimExh(p) == /\ pc[p] = "relx"
               /\ rlock' = IF LockedClaim THEN Free ELSE rlock
               /\ pc' = [pc EXCEPT ![p] = IF p = 0 THEN "wait" ELSE "exiting"]
               /\ UNCHANGED <<cfg, plan, index, loc, step, nheld, alock, tmp, shm, priv, claimed, done, exit, nfork, nwait, nfails, faults, bad>>
               /\ Log(p, "ClaimExh", 0)

\* ------------------------------------------------------------------ loop body
\* control state after p completed its current statement
AdvPc(p) == IF step[p] < Len(Body) THEN "body" ELSE "acq"
AdvStep(p) == IF step[p] < Len(Body) THEN step[p] + 1 ELSE 0
AdvDone(p) == IF step[p] < Len(Body) THEN done ELSE [done EXCEPT ![loc[p] + 1] = @ + 1]
\* ... after the statement proper: release the locks first, if any
OpDone(p) == IF Len(Cur(p).locks) = 0
             THEN /\ pc' = [pc EXCEPT ![p] = AdvPc(p)]
                  /\ step' = [step EXCEPT ![p] = AdvStep(p)]
                  /\ done' = AdvDone(p)
             ELSE /\ pc' = [pc EXCEPT ![p] = "unl"]
                  /\ UNCHANGED <<step, done>>

\* `with lock<n>:` -- multiprocessing.Lock is not reentrant: a process that
\* holds the lock already blocks forever
AcqA(p) == /\ pc[p] = "body" /\ nheld[p] < Len(Cur(p).locks)
           /\ LET l == Cur(p).locks[nheld[p] + 1] IN
                /\ alock[l] = Free
                /\ alock' = [alock EXCEPT ![l] = p]
                /\ nheld' = [nheld EXCEPT ![p] = @ + 1]
                /\ UNCHANGED <<cfg, plan, pc, index, rlock, loc, step, tmp, shm, priv, claimed, done, exit, nfork, nwait, nfails, faults, bad>>
                /\ Log(p, "AcqA", l)

Ready(p) == pc[p] = "body" /\ nheld[p] = Len(Cur(p).locks)

\* numpy.add(acc, inc, out=acc) / numpy.add.at(acc, idx, inc): fetch ...
UpdRead(p) == /\ Ready(p) /\ Cur(p).op \in {"rmw", "read"}
              /\ tmp' = [tmp EXCEPT ![p] = Mem(p, Cur(p).arr)]
              /\ pc' = [pc EXCEPT ![p] = "upd"]
              /\ UNCHANGED <<cfg, plan, index, rlock, loc, step, nheld, alock, shm, priv, claimed, done, exit, nfork, nwait, nfails, faults, bad>>
              /\ Log(p, "UpdRead", Cur(p).arr)

Store(p, a, val) == IF cfg.shared[a]
                    THEN shm' = [shm EXCEPT ![a] = val] /\ UNCHANGED priv
                    ELSE priv' = [priv EXCEPT ![p][a] = val] /\ UNCHANGED shm

\* ... add the contribution of this iteration and store
UpdWrite(p) == /\ pc[p] = "upd" /\ Cur(p).op = "rmw"
               /\ Store(p, Cur(p).arr, [tmp[p] EXCEPT ![loc[p] + 1] = @ + 1])
               /\ tmp' = [tmp EXCEPT ![p] = <<>>]
               /\ OpDone(p)
               /\ UNCHANGED <<cfg, plan, index, rlock, loc, nheld, alock, claimed, exit, nfork, nwait, nfails, faults, bad>>
               /\ Log(p, "UpdWrite", Cur(p).arr)

\* assignment to the elements owned by the current iteration (atomic with
\* respect to the elements of other iterations)
Slot(p) == /\ Ready(p) /\ Cur(p).op = "slot"
           /\ Store(p, Cur(p).arr, [Mem(p, Cur(p).arr) EXCEPT ![loc[p] + 1] = @ + 1])
           /\ OpDone(p)
           /\ UNCHANGED <<cfg, plan, index, rlock, loc, nheld, alock, tmp, claimed, exit, nfork, nwait, nfails, faults, bad>>
           /\ Log(p, "Slot", Cur(p).arr)

\* a statement that only reads the array: the fetch is complete
RdEnd(p) == /\ pc[p] = "upd" /\ Cur(p).op = "read"
            /\ tmp' = [tmp EXCEPT ![p] = <<>>]
            /\ OpDone(p)
            /\ UNCHANGED <<cfg, plan, index, rlock, loc, nheld, alock, shm, priv, claimed, exit, nfork, nwait, nfails, faults, bad>>
            /\ Log(p, "RdEnd", Cur(p).arr)

Nop(p) == /\ Ready(p) /\ Cur(p).op \notin {"rmw", "read", "slot"}
          /\ OpDone(p)
          /\ UNCHANGED <<cfg, plan, index, rlock, loc, nheld, alock, tmp, shm, priv, claimed, exit, nfork, nwait, nfails, faults, bad>>
          /\ Log(p, "Nop", Cur(p).arr)

\* leaving `with lock<n>:`, innermost first
RelA(p) == /\ pc[p] = "unl"
           /\ LET l == Cur(p).locks[nheld[p]] IN
                /\ alock' = [alock EXCEPT ![l] = Free]
                /\ nheld' = [nheld EXCEPT ![p] = @ - 1]
                /\ IF nheld[p] = 1
                   THEN /\ pc' = [pc EXCEPT ![p] = AdvPc(p)]
                        /\ step' = [step EXCEPT ![p] = AdvStep(p)]
                        /\ done' = AdvDone(p)
                   ELSE UNCHANGED <<pc, step, done>>
                /\ UNCHANGED <<cfg, plan, index, rlock, loc, tmp, shm, priv, claimed, exit, nfork, nwait, nfails, faults, bad>>
                /\ Log(p, "RelA", l)

\* ------------------------------------------------------------------ faults
\* fault: the statement p is about to execute raises.  The with statements
\* release the array locks p holds.  A child reports failure with
\* os._exit(1) (parallel.py:70-74); the parent kills all children and
\* re-raises (parallel.py:75-77).
Exc(p) == /\ Ready(p) /\ faults < MaxFaults /\ (plan = {} \/ Len(hist) \in plan)
          /\ faults' = faults + 1
          /\ alock' = [l \in Locks |-> IF alock[l] = p THEN Free ELSE alock[l]]
          /\ nheld' = [nheld EXCEPT ![p] = 0]
          /\ bad' = bad \cup {p}
          /\ IF p = 0
             THEN ParentKills
             ELSE /\ exit' = [exit EXCEPT ![p] = "err"]
                  /\ pc' = [pc EXCEPT ![p] = "dead"]
          /\ UNCHANGED <<cfg, plan, index, rlock, loc, step, tmp, shm, priv, claimed, done, nfork, nwait, nfails>>
          /\ Log(p, "Exc", step[p])

FaultOK == faults < MaxFaults /\ (plan = {} \/ Len(hist) \in plan)

Holds(p) == rlock = p \/ \E l \in Locks : alock[l] = p

\* fault: a child receives SIGKILL.  Locks it holds stay locked forever
\* (POSIX semaphores are not released at process death).
Kill(c) == /\ c \in Children /\ pc[c] \notin {"unborn", "dead"} /\ FaultOK
           /\ KillInCS \/ ~Holds(c)
           /\ faults' = faults + 1
           /\ bad' = bad \cup {c}
           /\ exit' = [exit EXCEPT ![c] = "sig"]
           /\ pc' = [pc EXCEPT ![c] = "dead"]
           /\ UNCHANGED <<cfg, plan, index, rlock, loc, step, nheld, alock, tmp, shm, priv, claimed, done, nfork, nwait, nfails>>
           /\ Log(c, "Kill", pc[c])

\* ------------------------------------------------------------------ exit, wait
ChildExit(c) == /\ c \in Children /\ pc[c] = "exiting"
                /\ exit' = [exit EXCEPT ![c] = "ok"]
                /\ pc' = [pc EXCEPT ![c] = "dead"]
                /\ UNCHANGED <<cfg, plan, index, rlock, loc, step, nheld, alock, tmp, shm, priv, claimed, done, nfork, nwait, nfails, faults, bad>>
                /\ Log(c, "ChildExit", 0)

\* os.waitpid(pid, 0) for the children in the order of creation
Wait == /\ pc[0] = "wait" /\ nwait < NP - 1
        /\ LET c == nwait + 1 IN
             /\ exit[c] # "none"
             /\ nwait' = c
             /\ nfails' = nfails + (IF exit[c] = "ok" THEN 0 ELSE 1)
             /\ UNCHANGED <<cfg, plan, pc, index, rlock, loc, step, nheld, alock, tmp, shm, priv, claimed, done, exit, nfork, faults, bad>>
             /\ Log(0, "Wait", [c |-> c, st |-> exit[c]])

Finish == /\ pc[0] = "wait" /\ nwait = NP - 1
          /\ pc' = [pc EXCEPT ![0] = IF CheckExit /\ nfails > 0 THEN "raised" ELSE "returned"]
          /\ UNCHANGED <<cfg, plan, index, rlock, loc, step, nheld, alock, tmp, shm, priv, claimed, done, exit, nfork, nwait, nfails, faults, bad>>
          /\ Log(0, "Finish", nfails)

Step(p) == \/ ClaimAcq(p) \/ ClaimRead(p) \/ ClaimWrite(p) \/ ClaimRel(p) \/ ClaimExh(p)
           \/ AcqA(p) \/ UpdRead(p) \/ UpdWrite(p) \/ RdEnd(p) \/ Slot(p) \/ Nop(p) \/ RelA(p)
\* (processes p >= NP stay "unborn" forever: no action is enabled for them)
Progress == \/ Fork \/ Wait \/ Finish
            \/ \E p \in Procs : Step(p) \/ ChildExit(p)
Fault == \/ ForkFail
         \/ \E p \in Procs : Exc(p) \/ Kill(p)
Next == Progress \/ Fault

Terminal == pc[0] \in {"returned", "raised"}
Terminated == Terminal /\ UNCHANGED vars

Spec == Init /\ [][Next]_vars
\* with explicit stuttering in terminal states: TLC's deadlock check then
\* reports exactly the states in which the call hangs
SpecT == Init /\ [][Next \/ Terminated]_vars
LiveSpec == Init /\ [][Next]_vars /\ WF_vars(Progress)

\* ------------------------------------------------------------------ properties
Returned == pc[0] = "returned"
\* the value of array a the caller gets
Result(a) == IF cfg.shared[a] THEN shm[a] ELSE priv[0][a]
NWrites(a) == Cardinality({k \in 1..Len(Body) : Body[k].arr = a /\ Body[k].op \in Writes})
Expected(a) == [i \in 1..NI |-> NWrites(a)]

TypeOK == /\ pc \in [Procs -> {"unborn", "forking", "acq", "read", "write", "rel", "relx", "body", "upd", "unl",
                               "exiting", "dead", "wait", "returned", "raised"}]
          /\ index \in 0..NI
          /\ rlock \in Procs \cup {Free}
          /\ \A p \in Procs : loc[p] \in 0..NI /\ step[p] \in 0..Len(Body) /\ nheld[p] \in 0..cfg.nlocks
          /\ \A l \in Locks : alock[l] \in Procs \cup {Free}
          /\ exit \in [Procs -> {"none", "ok", "err", "sig"}]
          /\ faults \in 0..MaxFaults

\* every iteration is claimed at most once, at any time
AtMostOnce == \A i \in 1..NI : claimed[i] <= 1
\* ... and executed exactly once when the call returns
ExactlyOnce == Returned => \A i \in 1..NI : claimed[i] = 1 /\ done[i] = 1
\* critical sections: the counter of the shared range, the in place updates
InRangeCS(p) == pc[p] \in {"read", "write", "rel", "relx"}
MutexRange == \A p, q \in Procs : p # q => ~(InRangeCS(p) /\ InRangeCS(q))
\* (two statements that only read the same array do not conflict)
MutexArrays == \A p, q \in Procs : (p # q /\ pc[p] = "upd" /\ pc[q] = "upd" /\ Cur(p).op = "rmw")
                                   => ~(Cur(p).arr = Cur(q).arr /\ cfg.shared[Cur(p).arr])
\* the caller sees every contribution exactly once
NoLostUpdate == Returned => \A a \in Arrs : Result(a) = Expected(a)
\* a worker that raised or was killed makes the call raise
NoPartialResult == Returned => (bad = {} /\ \A c \in Children : exit[c] = "ok")
\* without a fault the call returns
RaiseOnlyOnFault == pc[0] = "raised" => faults > 0
\* a failing call leaves no running worker behind
NoOrphans == pc[0] = "raised" => \A c \in 1..nfork : pc[c] = "dead"

\* the call comes to an end (checked with KillInCS = FALSE)
Terminates == <>Terminal

\* the call hangs
Stuck == ~Terminal /\ ~ENABLED Next
=============================================================================
