"""C08 -- Differential-geometric operators obey their defining identities.

Deciding method: the TLA+ model spec/Geometry.tla (exact rational arithmetic) is checked by TLC: a machine that builds a
mesh (rectilinear / simplex / product, refined or not), a polynomial geometry map and a polynomial field and lowers the
operators the way nutils does (root derivative R = DG B, inverse / Gram pseudo inverse, Orthonormal of the pushed edge
exterior vector, Gram determinant, exact Newton-Cotes / Duffy quadrature).  Its invariants are the defining identities of
the property (gradient of p(X) is p'(X), surface gradient is the projection, normals orthogonal / outward / opposite on
interfaces, divergence theorem per element and per mesh, refinement preserves integrals; fields that live on the boundary
topology -- Gram pseudo inverse of the linear part of the boundary chain -- have the tangential derivative of p; on product
topologies the root derivative is the concatenation of one block per space).

Binding to the code:
 S->C  every evaluation state of the model (mesh, level, geometry, field, interior | boundary | interfaces | integrals)
       is replayed on real nutils objects: the same mesh is built with nutils.mesh, the geometry and field with
       nutils.function, and grad / div / curl / laplace / symgrad / surfgrad / J / normal / exterior normal / per-space
       gradients / the integrals of the divergence theorem are evaluated on the corresponding samples and compared with
       the state that the model predicts, point by point (points are identified by the vertex sets of their element /
       facet and their base coordinate, so the element and edge numbering of nutils plays no role).  Boundary-field states
       are replayed with fields built from topo.boundary.f_coords / f_index (and a topo.boundary.basis on simplex meshes);
       product states on products of two / three topologies in different spaces; on refined meshes the geometry is
       additionally represented in a basis of the unrefined topology (independence of refinement).
 T     the edge transforms of every reference element and the transform chains of all boundary / interface elements of
       the real topologies (TransformBasis: linear part + Updim.ext) are exported and TLC decides (spec/MCGeometry.tla)
       that the tangent columns span the facet and that ext points out of the element.
"""

import json
import os
import random
import warnings
from fractions import Fraction

from .. import exprs, tlc

LEVEL = 'model_checking'

NGEOMS = 23
NFIELDS = 15
GEOM_DIMS = {i: (1, 1) for i in (1, 2, 3, 4)}
GEOM_DIMS.update({i: (2, 2) for i in (5, 6, 7, 8, 9, 10)})
GEOM_DIMS.update({i: (3, 3) for i in (11, 12, 13, 14, 15, 22, 23)})
GEOM_DIMS.update({i: (1, 2) for i in (16, 17, 18)})
GEOM_DIMS.update({i: (2, 3) for i in (19, 20, 21)})
FIELD_N = {1: 1, 2: 1, 3: 1, 4: 2, 5: 2, 6: 2, 7: 2, 8: 2, 9: 2, 10: 2, 11: 3, 12: 3, 13: 3, 14: 3, 15: 3}
VECTOR_FIELDS = {2, 3, 7, 8, 9, 10, 13, 14, 15}
MESH_DIM = dict(line=1, rect=2, prod=2, tri=2, box=3, tet=3, prod3=3, prodm=3)
# (the names of the spaces are deliberately not in alphabetical order: the order of the spaces is the order of the factors)
PRODUCTS = {'prod': (('X', 1), ('T', 1)), 'prod3': (('Z', 1), ('Y', 1), ('X', 1)), 'prodm': (('X', 2), ('T', 1))}
STRUCTURED = {'line', 'rect', 'box', 'prod', 'prod3', 'prodm'}
ACTIONS = ['Refine', 'SetGeom', 'SetField', 'EvalInterior', 'EvalBoundary', 'EvalInterfaces', 'EvalBoundaryField', 'Integrate', 'RefineIntegrals']
INVARIANTS = ['TypeOK', 'GradIsDerivative', 'SurfGradProjects', 'SurfGradBoundary', 'MeasureIsGram', 'NormalOrthogonal', 'NormalOutward',
              'NormalRoutes', 'ExteriorOrthogonal', 'InterfaceOpposite', 'DivTheoremElem', 'DivTheoremMesh', 'VolumePositive', 'PerSpace',
              'ProductGradient', 'BoundaryFieldTangential', 'BoundarySurfGrad', 'CoarseMeasure']

RTOL = 2e-10
# several TLC processes run side by side: do not let every JVM start one GC / JIT thread per core
JAVA_OPTS = '-XX:ParallelGCThreads=2 -XX:CICompilerCount=2'


# ---------------------------------------------------------------------------
# the real objects the model meshes are bound to

def build_mesh(name, level):
    """returns (topo, x0, spaces): x0 the base geometry (m,), spaces the space names (per-space operators)"""
    import numpy
    from nutils import mesh
    if name == 'line':
        topo, x0 = mesh.rectilinear([[0, 1, 3]])
    elif name == 'rect':
        topo, x0 = mesh.rectilinear([[0, 1, 3], [0, 2]])
    elif name == 'box':
        topo, x0 = mesh.rectilinear([[0, 1], [0, 2], [0, 1, 3]])
    elif name == 'prod':
        tx, gx = mesh.rectilinear([[0, 1, 2]], space='X')
        ty, gy = mesh.rectilinear([[0, 1, 3]], space='T')
        topo = tx * ty
        x0 = numpy.stack([gx[0], gy[0]])
    elif name == 'prod3':
        tx, gx = mesh.rectilinear([[0, 1]], space='Z')
        ty, gy = mesh.rectilinear([[0, 2]], space='Y')
        tz, gz = mesh.rectilinear([[0, 1, 3]], space='X')
        topo = tx * ty * tz
        x0 = numpy.stack([gx[0], gy[0], gz[0]])
    elif name == 'prodm':
        tx, gx = mesh.rectilinear([[0, 1, 3], [0, 2]], space='X')
        tz, gz = mesh.rectilinear([[0, 1]], space='T')
        topo = tx * tz
        x0 = numpy.concatenate([gx, gz])
    elif name == 'tri':
        nodes = numpy.array([[0, 1, 2], [1, 2, 3], [2, 3, 4]])
        coords = numpy.array([[0., 0], [2, 0], [0, 1], [2, 2], [0, 3]])
        topo, x0 = mesh.simplex(nodes=nodes, cnodes=nodes, coords=coords, tags={}, btags={}, ptags={})
    elif name == 'tet':
        nodes = numpy.array([[0, 1, 2, 3], [1, 2, 3, 4]])
        coords = numpy.array([[0., 0, 0], [1, 0, 0], [0, 2, 0], [0, 0, 1], [1, 2, 1]])
        topo, x0 = mesh.simplex(nodes=nodes, cnodes=nodes, coords=coords, tags={}, btags={}, ptags={})
    else:
        raise ValueError(name)
    for _ in range(level):
        topo = topo.refined
    return topo, x0, (tuple(sp for sp, d in PRODUCTS[name]) if name in PRODUCTS else None)


def poly(P, x):
    """the polynomial with terms [c, e1, e2, e3] in the components of x, as a nutils function"""
    from nutils import function
    out = None
    for c, *e in P:
        term = function.Array.cast(float(c))
        for i, k in enumerate(e[:len(x)]):
            if k:
                term = term * x[i] ** k
        out = term if out is None else out + term
    return out if out is not None else function.Array.cast(0.)


def fr(q):
    return Fraction(q[0], q[1])


def vec(v):
    return tuple(fr(q) for q in v)


def fl(v):
    import numpy
    return numpy.array([float(fr(q)) for q in v])


def flm(m):
    import numpy
    return numpy.array([[float(fr(q)) for q in row] for row in m])


def key_of(x):
    """a point evaluated by nutils -> exact key on the model lattice (None if it is not on it)"""
    out = []
    for v in x:
        f = Fraction(float(v)).limit_denominator(96)
        if abs(float(f) - float(v)) > 1e-11:
            return None
        out.append(f)
    return tuple(out)


def close(got, want, scale=1.):
    import numpy
    got = numpy.asarray(got, dtype=float)
    want = numpy.asarray(want, dtype=float)
    if got.shape != want.shape:
        return False
    tol = RTOL * max(1., scale, float(numpy.abs(want).max(initial=0.)))
    return bool(numpy.all(numpy.abs(got - want) <= tol))


class Fail(Exception):
    def __init__(self, op, what, data=None):
        self.op, self.what, self.data = op, what, data or {}


# ---------------------------------------------------------------------------
# S->C: replay of the evaluation states of one (mesh, level, geometry, stage) group

def replay_group(item):
    """item = (mesh, level, stage, [snapshots that differ in the field only]); returns dict(fails=[(key, what, data)], points=n, ...)"""
    warnings.simplefilter('ignore')
    name, level, stage, snaps = item
    import time
    out = dict(fails=[], points=0, values=0, states=len(snaps))
    s0 = snaps[0]
    t0 = time.process_time()

    def fail(op, what, **data):
        key = '{}:{}:{}'.format(op, stage, name)
        if op.startswith('coarse-geometry'):
            # one root cause whatever the sample: a function of a coarser topology differentiated on a finer one
            key = '{}:{}'.format(op, 'structured' if name in STRUCTURED else 'simplex')
        if not any(k == key for k, _, _ in out['fails']):
            out['fails'].append((key, 'mesh {} level {} geometry {} field {}: {}'.format(name, level, s0['geom'], data.get('field', '-'), what),
                                 dict(mesh=name, level=level, geom=s0['geom'], G=s0['G'], stage=stage, **data)))

    try:
        _replay(name, level, stage, snaps, out, fail)
    except Fail as e:
        fail(e.op, e.what, **e.data)
    except exprs.Timeout:
        fail('timeout', 'evaluation did not finish')
    except Exception as e:
        import traceback
        tb = traceback.extract_tb(e.__traceback__)
        inner = tb[-1]
        if '/nutils/' in inner.filename and not isinstance(e, (MemoryError,)):
            # an exception raised by the code under test where the property demands a value
            fail('raises-' + type(e).__name__, 'nutils raised {!r} at {}:{}'.format(e, os.path.basename(inner.filename), inner.lineno))
        else:
            raise
    out['cpu'] = time.process_time() - t0
    return out


def _replay(name, level, stage, snaps, out, fail):
    import numpy
    from nutils import function
    s0 = snaps[0]
    m, n = s0['m'], s0['n']
    K = s0['lattice']
    topo, x0, spaces = build_mesh(name, level)
    spcols = []
    for d in s0['sp']:
        start = spcols[-1].stop if spcols else 0
        spcols.append(slice(start, start + d))
    if spaces and [d for sp, d in PRODUCTS[name]] != list(s0['sp']):
        raise RuntimeError('space dimensions of the model and of the harness mesh differ')
    G = numpy.stack([poly(P, x0) for P in s0['G']])
    fields = [numpy.stack([poly(P, G) for P in s['P']]) for s in snaps]
    isvec = [s['kind'] == 'v' and len(s['P']) == n for s in snaps]

    # ---- binding of the mesh: the elements of the real topology are the elements of the model
    vsmp = topo.sample('bezier', 2)
    vx0 = vsmp.eval(x0)
    evs = []
    for i in range(vsmp.nelems):
        ks = [key_of(p) for p in vx0[vsmp.getindex(i)]]
        if None in ks:
            raise Fail('mesh-binding', 'vertex of element {} is not on the model lattice'.format(i))
        evs.append(frozenset(ks))
    model_elems = {frozenset(vec(v) for v in el) for el in s0['elems']}
    if set(evs) != model_elems or len(evs) != len(model_elems):
        raise Fail('mesh-binding', 'the elements of the real topology ({}) differ from the elements of the model mesh ({})'.format(len(evs), len(model_elems)),
                   dict(only_code=sorted(map(sorted, set(evs) - model_elems))[:3], only_model=sorted(map(sorted, model_elems - set(evs)))[:3]))

    # ---- independence of refinement: on a refined mesh the same geometry is also represented in a basis of the topology of
    # the previous level (a discrete geometry that lives on the coarser mesh, evaluated / integrated on the finer one)
    Gh = None
    if level > 0 and n == m and name not in PRODUCTS and stage != 'bfield':
        topo0 = build_mesh(name, level - 1)[0]
        basis0 = topo0.basis('std', degree=2)
        with _quiet():
            Gh = numpy.stack([basis0 @ topo0.project(Gi, onto=basis0, geometry=x0, degree=4) for Gi in G])

    if stage == 'integrals':
        _replay_integrals(name, topo, x0, G, fields, isvec, snaps, evs, out, fail, n, Gh)
        return

    if stage == 'interior':
        dom = topo
    elif stage in ('boundary', 'bfield'):
        dom = topo.boundary
    else:
        dom = topo.interfaces
    smp = dom.sample('bezier', K + 1)
    fsmp = dom.sample('bezier', 2) if stage != 'interior' else vsmp
    if fsmp.nelems != smp.nelems:
        raise RuntimeError('sample mismatch')

    # ---- what is evaluated
    funcs = dict(x0=x0, X=G)
    if stage == 'bfield':
        _replay_bfield(name, level, dom, smp, fsmp, x0, G, fields, snaps, evs, out, fail, m, n)
        return
    if Gh is not None:
        funcs['Xh'] = Gh
        funcs['Jh'] = function.J(Gh)
        if stage == 'interior':
            funcs['gh'] = function.grad(poly(s0['P'][0], Gh), Gh)
        else:
            funcs['nrmh'] = function.normal(Gh)
    if n == m or stage != 'interior':
        funcs['J'] = function.J(G)
    else:
        funcs['J'] = function.J(G)
        funcs['nx'] = function.normal(G, x0)
    if stage != 'interior':
        funcs['nrm'] = function.normal(G)
    if stage == 'interfaces':
        funcs['eidx'] = topo.f_index
        funcs['oidx'] = function.opposite(topo.f_index)
        funcs['onrmJ'] = function.opposite(function.normal(G) * function.J(G))
    nd = 0 if n == m else -1
    # (the surface gradient cannot be lowered on the boundary of a manifold: the sample has no surface coordinates)
    dograd = n == m or stage == 'interior'
    for k, f in enumerate(fields):
        funcs['f', k] = f
        if not dograd:
            continue
        funcs['g', k] = function.grad(f, G, nd)
        if n == m and stage == 'interior':
            funcs['lap', k] = function.laplace(f, G)
            funcs['d', k] = function.d(f, G)
        if isvec[k]:
            funcs['dv', k] = function.div(f, G, nd)
            if n == m:
                funcs['sym', k] = function.symgrad(f, G)
            if n == 3 and m == 3:
                funcs['cu', k] = function.curl(f, G)
            if stage != 'interior' and n == m:
                funcs['ngrad', k] = function.ngrad(f, G)
                funcs['tan', k] = function.tangent(G, f)
                funcs['dotn', k] = function.dotnorm(f, G)
        if s0['sepon'] and stage == 'interior':
            for a, (sp, sl) in enumerate(zip(spaces, spcols)):
                funcs['gs', k, a] = function.grad(f, G[sl], spaces=[sp])
    if s0['sepon'] and stage == 'interior':
        for a, (sp, sl) in enumerate(zip(spaces, spcols)):
            funcs['js', a] = function.J(G[sl], spaces=[sp])
    names = list(funcs)
    vals = dict(zip(names, exprs.with_timeout(600 if name in PRODUCTS else 240, smp.eval, [funcs[k] for k in names])))
    fx0 = fsmp.eval(x0)

    # ---- model rows by key
    def rowkey(r):
        if stage == 'interior':
            return (frozenset(vec(v) for v in r['ev']), vec(r['x0']))
        return (frozenset(vec(v) for v in r['fv']), frozenset(vec(v) for v in r['ev']), vec(r['x0']))
    tables = []
    for s in snaps:
        t = {}
        for r in s['rows']:
            k = rowkey(r)
            if k in t:
                raise RuntimeError('duplicate model row key')
            t[k] = r
        tables.append(t)
    seen = set()
    ext_signs = set()
    for ie in range(smp.nelems):
        idx = smp.getindex(ie)
        if stage == 'interior':
            ev = evs[ie]
            fv = None
        else:
            ks = [key_of(p) for p in fx0[fsmp.getindex(ie)]]
            if None in ks:
                raise Fail('x0', 'vertex of {} element {} is not on the model lattice'.format(stage, ie))
            fv = frozenset(ks)
            if stage == 'interfaces':
                ev = evs[int(vals['eidx'][idx[0]])]
                oev = evs[int(vals['oidx'][idx[0]])]
            else:
                owners = [e for e in evs if fv <= e] if m > 1 else None
                ev = None
        for ip in idx:
            xk = key_of(vals['x0'][ip])
            if xk is None:
                raise Fail('x0', 'sample point {} of {} element {} is not on the model lattice'.format(vals['x0'][ip], stage, ie))
            for k, (s, t) in enumerate(zip(snaps, tables)):
                if stage == 'interior':
                    key = (ev, xk)
                elif stage == 'interfaces':
                    key = (fv, ev, xk)
                else:
                    cands = [kk for kk in t if kk[0] == fv and kk[2] == xk]
                    key = cands[0] if len(cands) == 1 else None
                r = t.get(key) if key is not None else None
                if r is None:
                    raise Fail('x0', 'the model has no {} point at x0={} of the element/facet nutils evaluates (facet {})'.format(
                        stage, [str(q) for q in xk], sorted(map(lambda v: [str(q) for q in v], fv)) if fv else '-'), dict(field=s['field']))
                seen.add((k, key))
                out['points'] += 1
                fid = s['field']

                def cmp(op, got, want, scale=1.):
                    out['values'] += 1
                    if not close(got, want, scale):
                        fail(op, '{} at x0={} is {} but the model says {}'.format(op, [str(q) for q in xk], numpy.asarray(got).tolist(), numpy.asarray(want).tolist()),
                             field=fid, P=s['P'], x0=[str(q) for q in xk], got=numpy.asarray(got).tolist(), want=numpy.asarray(want).tolist())
                if k == 0:
                    cmp('geom', vals['X'][ip], fl(r['X']))
                fval = fl(r['f'])
                cmp('field', vals['f', k][ip], fval)
                g = flm(r['g'])
                gop = 'grad' if n == m else 'surfgrad'
                if ('g', k) in vals:
                    cmp(gop, vals['g', k][ip], g)
                if ('d', k) in vals:
                    cmp('d', vals['d', k][ip], g)
                if ('lap', k) in vals:
                    cmp('laplace', vals['lap', k][ip], fl(r['lap']), scale=float(numpy.abs(g).max(initial=0.)))
                if ('dv', k) in vals:
                    cmp('div' if n == m else 'surfdiv', vals['dv', k][ip], fl(r['dv'])[0] if 'dv' in r else numpy.trace(g))
                if ('sym', k) in vals:
                    cmp('symgrad', vals['sym', k][ip], .5 * (g + g.T))
                if ('cu', k) in vals:
                    cmp('curl', vals['cu', k][ip], fl(r['cu']) if 'cu' in r else numpy.array([g[2, 1] - g[1, 2], g[0, 2] - g[2, 0], g[1, 0] - g[0, 1]]))
                for a, sl in enumerate(spcols):
                    if ('gs', k, a) in vals:
                        cmp('grad-per-space', vals['gs', k, a][ip], flm(r['gs'])[:, sl])
                j2 = float(fr(r['j2']))
                if k == 0:
                    cmp('J', vals['J'][ip] ** 2, j2, scale=j2)
                    for a in range(len(spcols)):
                        if ('js', a) in vals:
                            cmp('J-per-space', vals['js', a][ip] ** 2, float(fr(r['js'][a])))
                    if Gh is not None:
                        cmp('coarse-geometry', vals['Xh'][ip], fl(r['X']))
                        jc2 = float(fr(r['jc2'])) if 'jc2' in r else j2
                        cmp('coarse-geometry-J', vals['Jh'][ip] ** 2, jc2, scale=jc2)
                        if 'gh' in vals:
                            cmp('coarse-geometry-grad', vals['gh'][ip], g[0])
                if stage == 'interior' and n == m + 1 and k == 0:
                    nv = fl(r['nx'])
                    nx = vals['nx'][ip]
                    cmp('exterior-normal-unit', numpy.linalg.norm(nx), 1.)
                    dot = float(nx @ nv) / numpy.linalg.norm(nv)
                    cmp('exterior-normal', abs(dot), 1.)
                    ext_signs.add(1 if dot > 0 else -1)
                if stage != 'interior':
                    nv = fl(r['nv'])
                    nrm = vals['nrm'][ip]
                    unit = nv / numpy.linalg.norm(nv)
                    if k == 0:
                        cmp('normal-unit', numpy.linalg.norm(nrm), 1.)
                        cmp('normal', nrm, unit)
                        if 'nrmh' in vals:
                            cmp('coarse-geometry-normal', vals['nrmh'][ip], unit)
                        if n == m:
                            cmp('normal*J', nrm * vals['J'][ip], nv, scale=float(numpy.abs(nv).max()))
                        if stage == 'interfaces':
                            ro = t.get((fv, oev, xk))
                            if ro is None:
                                raise Fail('x0', 'the model has no opposite row')
                            if n == m:
                                cmp('opposite-normal*J', vals['onrmJ'][ip], fl(ro['nv']))
                            else:
                                onv = fl(ro['nv'])
                                cmp('opposite-normal', vals['onrmJ'][ip] / numpy.linalg.norm(vals['onrmJ'][ip]), onv / numpy.linalg.norm(onv))
                    if ('ngrad', k) in vals:
                        cmp('ngrad', vals['ngrad', k][ip], g @ unit)
                        cmp('tangent', vals['tan', k][ip], fval - (fval @ unit) * unit)
                        cmp('dotnorm', vals['dotn', k][ip], fval @ unit)
    if len(ext_signs) > 1:
        fail('exterior-normal', 'the exterior normal of the manifold changes side between points')
    for k, t in enumerate(tables):
        missing = [key for key in t if (k, key) not in seen]
        if missing and stage != 'interfaces':
            raise Fail('x0', '{} points of the model are not evaluated by the {} sample of nutils'.format(len(missing), stage), dict(field=snaps[k]['field']))
        if stage == 'interfaces' and len(missing) * 2 != len(t):
            raise Fail('x0', 'nutils evaluates {} of the {} interface rows of the model (expected one side of each)'.format(len(t) - len(missing), len(t)), dict(field=snaps[k]['field']))


def _quiet():
    import treelog
    return treelog.set(treelog.NullLog())


def _replay_bfield(name, level, bnd, smp, fsmp, x0, G, fields, snaps, evs, out, fail, m, n):
    """fields that live on the boundary topology: functions of bnd.f_coords / bnd.f_index (and bnd.basis on simplex meshes)"""
    import numpy
    from nutils import function
    s0 = snaps[0]
    # the base coordinates as a function of the boundary topology: x0 = a[ielem] + A[ielem] eta (fitted per boundary element)
    eta, idx = bnd.f_coords, bnd.f_index
    vx, ve, vi = fsmp.eval([x0, eta, idx])
    a = numpy.zeros((len(bnd), m))
    A = numpy.zeros((len(bnd), m, m - 1))
    hit = set()
    for ie in range(fsmp.nelems):
        ii = fsmp.getindex(ie)
        M = numpy.concatenate([numpy.ones((len(ii), 1)), ve[ii]], axis=1)
        sol = numpy.linalg.lstsq(M, vx[ii], rcond=None)[0]
        if not numpy.allclose(M @ sol, vx[ii], atol=1e-12):
            raise Fail('x0', 'the base geometry is not affine on boundary element {}'.format(ie))
        k = int(vi[ii[0]])
        if k in hit or any(int(j) != k for j in vi[ii]):
            raise Fail('f_index', 'boundary.f_index is not a numbering of the boundary elements')
        hit.add(k)
        a[k] = sol[0]
        A[k] = sol[1:].T
    if hit != set(range(len(bnd))):
        raise Fail('f_index', 'boundary.f_index is not a numbering of the boundary elements')
    x0b = function.get(a, 0, idx) + function.get(A, 0, idx) @ eta
    Gb = numpy.stack([poly(P, x0b) for P in s0['G']])
    bfields = [numpy.stack([poly(P, Gb) for P in s['P']]) for s in snaps]
    nrm = function.normal(G)
    funcs = dict(x0=x0, X=G, x0b=x0b, nrm=nrm, J=function.J(G))
    simplex_basis = None
    if name in ('tri', 'tet') and max(s['degfg'] for s in snaps) <= 2:
        simplex_basis = bnd.basis('std', degree=2)
    for k, (f, fb) in enumerate(zip(fields, bfields)):
        funcs['f', k] = fb
        funcs['g', k] = function.grad(fb, G)
        funcs['sg', k] = function.surfgrad(fb, G)
        funcs['sgv', k] = function.surfgrad(f, G)
        if simplex_basis is not None:
            with _quiet():
                fh = numpy.stack([simplex_basis @ bnd.project(fi, onto=simplex_basis, geometry=G, degree=4) for fi in f])
            funcs['fh', k] = fh
            funcs['gh', k] = function.grad(fh, G)
    names = list(funcs)
    vals = dict(zip(names, exprs.with_timeout(240, smp.eval, [funcs[k] for k in names])))
    fx0 = fsmp.eval(x0)
    tables = []
    for s in snaps:
        t = {}
        for r in s['rows']:
            t.setdefault((frozenset(vec(v) for v in r['fv']), vec(r['x0'])), []).append(r)
        tables.append(t)
    seen = set()
    for ie in range(smp.nelems):
        ks = [key_of(p) for p in fx0[fsmp.getindex(ie)]]
        if None in ks:
            raise Fail('x0', 'vertex of boundary element {} is not on the model lattice'.format(ie))
        fv = frozenset(ks)
        for ip in smp.getindex(ie):
            xk = key_of(vals['x0'][ip])
            if xk is None:
                raise Fail('x0', 'sample point {} of boundary element {} is not on the model lattice'.format(vals['x0'][ip], ie))
            for k, (s, t) in enumerate(zip(snaps, tables)):
                rs = t.get((fv, xk), [])
                if len(rs) != 1:
                    raise Fail('x0', 'the model has {} boundary-field points at x0={} of the facet nutils evaluates'.format(len(rs), [str(q) for q in xk]), dict(field=s['field']))
                r = rs[0]
                seen.add((k, fv, xk))
                out['points'] += 1
                fid = s['field']

                def cmp(op, got, want, scale=1.):
                    out['values'] += 1
                    if not close(got, want, scale):
                        fail(op, '{} at x0={} is {} but the model says {}'.format(op, [str(q) for q in xk], numpy.asarray(got).tolist(), numpy.asarray(want).tolist()),
                             field=fid, P=s['P'], x0=[str(q) for q in xk], got=numpy.asarray(got).tolist(), want=numpy.asarray(want).tolist())
                if k == 0:
                    cmp('geom', vals['X'][ip], fl(r['X']))
                    cmp('boundary-coords', vals['x0b'][ip], fl(r['x0']))
                    nv = fl(r['nv'])
                    cmp('normal*J', vals['nrm'][ip] * vals['J'][ip], nv, scale=float(numpy.abs(nv).max()))
                fval = fl(r['f'])
                tp = flm(r['tp'])          # tangents (rows)
                gt = flm(r['gt'])          # per tangent: (grad f) t
                sg = flm(r['sg'])
                scale = float(max(1., numpy.abs(sg).max(initial=0.), numpy.abs(gt).max(initial=0.)))
                cmp('boundary-field', vals['f', k][ip], fval)
                cmp('boundary-field-grad-tangential', vals['g', k][ip] @ tp.T, gt.T, scale)
                cmp('boundary-field-surfgrad', vals['sg', k][ip], sg, scale)
                cmp('boundary-surfgrad', vals['sgv', k][ip], sg, scale)
                if ('fh', k) in vals:
                    cmp('boundary-basis-field', vals['fh', k][ip], fval)
                    cmp('boundary-basis-grad-tangential', vals['gh', k][ip] @ tp.T, gt.T, scale)
    for k, t in enumerate(tables):
        if any((k, fv, xk) not in seen for fv, xk in t):
            raise Fail('x0', 'points of the model are not evaluated by the boundary sample of nutils', dict(field=snaps[k]['field']))


def _replay_integrals(name, topo, x0, G, fields, isvec, snaps, evs, out, fail, n, Gh=None):
    import numpy
    from nutils import function
    deg = 7
    J = function.J(G)
    nrm = function.normal(G)
    ints = dict(vol=J)
    if Gh is not None:
        ints['volh'] = function.J(Gh)
    for k, f in enumerate(fields):
        ints['int', k] = (function.div(f, G) if isvec[k] else f[0]) * J
    names = list(ints)
    tot = dict(zip(names, exprs.with_timeout(600 if name in PRODUCTS else 240, topo.integrate, [ints[k] for k in names], degree=deg)))
    elw = dict(zip(names, exprs.with_timeout(600 if name in PRODUCTS else 240, topo.integrate_elementwise, [ints[k] for k in names], degree=deg)))
    bfl = {}
    ifl = {}
    vecs = [k for k in range(len(fields)) if isvec[k]]
    if vecs:
        bfl = dict(zip(vecs, topo.boundary.integrate([(fields[k] @ nrm) * J for k in vecs], degree=deg)))
        ifl = dict(zip(vecs, topo.interfaces.integrate([(fields[k] @ nrm) * J + function.opposite((fields[k] @ nrm) * J) for k in vecs], degree=deg)))
    for k, s in enumerate(snaps):
        fid = s['field']
        t = s['tot']

        def cmp(op, got, want, scale=1.):
            out['values'] += 1
            if not close(got, want, scale):
                fail(op, '{} is {!r} but the model says {!r}'.format(op, float(got), float(want)), field=fid, P=s['P'], got=float(got), want=float(want))
        big = max(1., abs(float(fr(t['vol']))), abs(float(fr(t['int']))))
        if k == 0:
            cmp('integral-J', tot['vol'], float(fr(t['vol'])), big)
            if Gh is not None:
                cmp('coarse-geometry-J', tot['volh'], float(fr(t['vol'])), big)
        cmp('integral-divJ' if isvec[k] else 'integral-fJ', tot['int', k], float(fr(t['int'])), big)
        if isvec[k]:
            cmp('boundary-flux', bfl[k], float(fr(t['flux'])), big)
            cmp('interface-flux', ifl[k], float(fr(t['iflux'])), big)
        rows = {frozenset(vec(v) for v in r['ev']): r for r in s['rows']}
        for ie, ev in enumerate(evs):
            r = rows[ev]
            out['points'] += 1
            if k == 0:
                cmp('integral-J', elw['vol'][ie], float(fr(r['vol'])), big)
            cmp('integral-divJ' if isvec[k] else 'integral-fJ', elw['int', k][ie], float(fr(r['int'])), big)


# ---------------------------------------------------------------------------
# T: export of the edge transforms / boundary chains of the live code

def _int_rows(arrs):
    """common power-of-two denominator that makes all numbers integers"""
    import numpy
    for e in range(0, 12):
        den = 2 ** e
        if all(numpy.all(numpy.asarray(a, dtype=float) * den == numpy.round(numpy.asarray(a, dtype=float) * den)) for a in arrs):
            return den, [numpy.round(numpy.asarray(a, dtype=float) * den).astype(int).tolist() for a in arrs]
    raise RuntimeError('edge table: numbers are not dyadic')


def export_edge_table(meshes, levels):
    """levels: name -> highest refinement level of that mesh in the model"""
    import numpy
    from nutils import element, evaluable, transform
    rows = []

    def add(at, kind, n, ev, fv, basis):
        den, (ev_, fv_, b_) = _int_rows([ev, fv, basis])
        rows.append(dict(at=at, kind=kind, den=den, n=n, ev=ev_, fv=fv_, basis=b_))

    # the edges of the reference elements
    line, tri, tet = element.getsimplex(1), element.getsimplex(2), element.getsimplex(3)
    refs = [('line', line), ('tri', tri), ('rect', line * line), ('tet', tet), ('box', line * line * line), ('box', tri * line), ('box', line * tri)]
    for at, ref in refs:
        if at not in meshes:
            at = sorted(meshes)[0]
        for etrans, eref in zip(ref.edge_transforms, ref.edge_refs):
            chain = (etrans,)
            basis = evaluable.TransformBasis._transform_basis(chain, ref.ndims - 1, ref.ndims)
            add(at, type(etrans).__name__, ref.ndims, numpy.asarray(ref.vertices), numpy.asarray(etrans.apply(eref.vertices)), basis)
        # the edges of the children, as chains (child, edge) and in canonical / uppermost order
        for ctrans, cref in ref.children:
            for etrans, eref in zip(cref.edge_transforms, cref.edge_refs):
                for chain in {(ctrans, etrans), transform.canonical((ctrans, etrans)), transform.uppermost((ctrans, etrans))}:
                    basis = evaluable.TransformBasis._transform_basis(chain, ref.ndims - 1, ref.ndims)
                    add(at, 'child:' + '/'.join(type(t).__name__ for t in chain), ref.ndims, numpy.asarray(ctrans.apply(cref.vertices)),
                        numpy.asarray(transform.apply(chain, eref.vertices)), basis)
    # boundary and interface elements of the real topologies
    for name in sorted(meshes):
        if name in PRODUCTS:
            continue
        for level in range(levels.get(name, 0) + 1):
            topo, x0, _ = build_mesh(name, level)
            n = topo.ndims
            doms = [('boundary', topo.boundary.transforms, topo.boundary.references)]
            ifaces = topo.interfaces
            doms.append(('interfaces', ifaces.transforms, ifaces.references))
            doms.append(('opposites', ifaces.opposites, ifaces.references))
            for dname, chains, erefs in doms:
                for chain, eref in zip(chains, erefs):
                    ielem, tail = topo.transforms.index_with_tail(chain)
                    # everything in the root coordinates of the element the facet belongs to; the basis is the one that
                    # function._Normal asks for: TransformBasis of the chain of the sample (whatever order its items are in)
                    ev = numpy.asarray(transform.apply(topo.transforms[ielem], topo.references[ielem].vertices))
                    fv = numpy.asarray(transform.apply(chain, eref.vertices))
                    basis = evaluable.TransformBasis._transform_basis(chain, n - 1, n)
                    add(name, 'chain:{}:{}:L{}'.format(name, dname, level), n, ev, fv, basis)
    return rows


# ---------------------------------------------------------------------------

def make_cfg(c, mutant='none', invariants=INVARIANTS, emit=True, table=True):
    def sset(xs):
        return '{' + ', '.join(json.dumps(x) for x in sorted(xs)) + '}'

    def iset(xs):
        return '{' + ', '.join(str(x) for x in sorted(xs)) + '}'
    lines = ['SPECIFICATION Spec', 'CONSTANTS',
             '  MeshNames = ' + sset(c['MeshNames']), '  RefineOn = ' + sset(c['RefineOn']), '  MaxLevel = {}'.format(c['MaxLevel']), '  Refine2On = ' + sset(c['Refine2On']),
             '  GeomIds = ' + iset(c['GeomIds']), '  FieldIds = ' + iset(c['FieldIds']),
             '  Lattice = {}'.format(c['Lattice']), '  Lattice3 = {}'.format(c['Lattice3']),
             '  IntegrateOn = ' + sset(c['IntegrateOn']), '  BFieldOn = ' + sset(c['BFieldOn']), '  RefineOnB = ' + sset(c['RefineOnB']),
             '  ProdGeomIds = ' + iset(c['ProdGeomIds']), '  ProdFieldIds = ' + iset(c['ProdFieldIds']), '  GmMutant = "{}"'.format(mutant)]
    lines += ['INVARIANT ' + i for i in invariants]
    if emit:
        lines.append('INVARIANT EmitEval')
    if table:
        lines.append('INVARIANT EdgeTable')
    lines.append('PROPERTY RefinePreserves')
    return '\n'.join(lines) + '\n'


def choose_constants(tier, rng):
    """core configuration plus seed-dependent extras"""
    if tier == 'quick':
        # one affine orientation-reversing and one curved map per dimension, a separable one for the product mesh, a curve and a
        # surface are always there; the seed adds two more maps and picks the vector field of every dimension
        core = {2, 3, 6, 8, 10, 12, 14, 16, 20}
        extra = set(rng.sample([g for g in range(1, 22) if g not in core], 2))
        fields = {rng.choice([2, 3]), rng.choice([7, 8, 10]), rng.choice([13, 14])}
        # a product of three one-dimensional spaces with a separable map for the per-space operators (the product of a two-
        # and a one-dimensional space: thorough tier)
        prod3d, sepgeom = 'prod3', 22
        return dict(MeshNames=['line', 'rect', 'tri', 'prod', 'box', 'tet', prod3d], RefineOn=['line', 'tri'], MaxLevel=1, Refine2On=['line'], GeomIds=sorted(core | extra),
                    FieldIds=sorted(fields), Lattice=2, Lattice3=1, IntegrateOn=['line', 'rect', 'tri', 'tet'],
                    BFieldOn=['rect', 'tri', 'box', 'tet'], RefineOnB=['tet'], ProdGeomIds=[rng.choice([12, 14]), sepgeom], ProdFieldIds=sorted(fields))
    return dict(MeshNames=['line', 'rect', 'tri', 'prod', 'box', 'tet', 'prod3', 'prodm'], RefineOn=['line', 'rect', 'tri', 'tet', 'box'], MaxLevel=1, Refine2On=['line'],
                GeomIds=list(range(1, NGEOMS + 1)), FieldIds=list(range(1, NFIELDS + 1)), Lattice=2, Lattice3=2, IntegrateOn=['line', 'rect', 'tri', 'box', 'tet', 'prod'],
                BFieldOn=['rect', 'tri', 'box', 'tet'], RefineOnB=[], ProdGeomIds=[12, 14, 22, 23], ProdFieldIds=[11, 13])


def _groups(meshes, quick):
    """the state graphs of different base meshes are disjoint: they are explored by concurrent TLC runs"""
    parts = [['line', 'rect', 'prod', 'box'], ['tri'], ['tet', 'prod3', 'prodm']] if quick else [['line', 'rect', 'prod'], ['tri', 'prodm'], ['box', 'prod3'], ['tet']]
    return [g for g in ([m for m in part if m in meshes] for part in parts) if g]


# spec mutants: (name, constants, the invariants that must catch it)
def _mutants(consts, quick):
    tetb = dict(consts, MeshNames=['tet'], RefineOn=[], Refine2On=[], RefineOnB=['tet'], GeomIds=[12], FieldIds=[13], IntegrateOn=[], BFieldOn=['tet'], ProdGeomIds=[], ProdFieldIds=[])
    prod = dict(consts, MeshNames=['prod', 'prod3'], RefineOn=[], Refine2On=[], RefineOnB=[], GeomIds=[6], FieldIds=[7], IntegrateOn=[], BFieldOn=[], ProdGeomIds=[12], ProdFieldIds=[13])
    line2 = dict(consts, MeshNames=['line'], RefineOn=['line'], Refine2On=['line'], RefineOnB=[], GeomIds=[3], FieldIds=[2], IntegrateOn=[], BFieldOn=[], ProdGeomIds=[], ProdFieldIds=[])
    out = [('diag-gram', tetb, ['BoundaryFieldTangential'], {'BoundaryFieldTangential'}),
           ('same-block', prod, ['ProductGradient'], {'ProductGradient'}),
           ('whole-chain', line2, ['CoarseMeasure'], {'CoarseMeasure'})]
    if not quick:
        small = dict(consts, MeshNames=['rect', 'tri'], RefineOn=['tri'], Refine2On=[], RefineOnB=[], GeomIds=[6, 8], FieldIds=[7], IntegrateOn=['rect', 'tri'], BFieldOn=['tri'], ProdGeomIds=[], ProdFieldIds=[])
        out += [('inv-transpose', small, INVARIANTS, {'GradIsDerivative', 'SurfGradProjects', 'NormalRoutes', 'PerSpace'}),
                ('normal-inward', small, INVARIANTS, {'NormalOutward', 'NormalRoutes'}),
                ('no-measure', small, INVARIANTS, {'DivTheoremElem', 'DivTheoremMesh'}),
                ('no-chain', small, INVARIANTS, {'GradIsDerivative', 'DivTheoremElem', 'InterfaceOpposite', 'NormalRoutes', 'MeasureIsGram', 'DivTheoremMesh', 'BoundaryFieldTangential', 'BoundarySurfGrad'})]
    return out


def run(rep):
    from concurrent.futures import ThreadPoolExecutor
    rng = random.Random(rep.seed)
    quick = rep.tier == 'quick'
    consts = choose_constants(rep.tier, rng)
    rep.constants['Geometry'] = consts

    # ---- T: export the edge transforms and boundary chains of the live code
    wd = tlc.workdir('c08-table')
    try:
        levels = {name: (consts['MaxLevel'] + (1 if name in consts['Refine2On'] else 0) if name in set(consts['RefineOn']) | set(consts['RefineOnB']) else 0) for name in consts['MeshNames']}
        table = export_edge_table(set(consts['MeshNames']), levels)
    except RuntimeError:
        raise
    except Exception as e:
        rep.violation('edge-table:raises-' + type(e).__name__, 'exporting the edge transforms / boundary chains raised {!r}'.format(e))
        table = []
    path = os.path.join(wd, 'edges.json')
    with open(path, 'w') as f:
        json.dump(table, f)
    rep.extra['edge_table_rows'] = len(table)
    rep.lap('edge table exported')

    # ---- design spec + table verdicts: exhaustive TLC runs (one per group of base meshes, concurrently), and the spec mutants
    groups = _groups(consts['MeshNames'], quick)
    mutants = _mutants(consts, quick)

    def design(ig):
        return tlc.run('MCGeometry', cfg_text=make_cfg(dict(consts, MeshNames=groups[ig])), tag='c08-design-{}'.format(ig), workers=4, deadlock=False,
                       env=dict(VF_TABLE=path, JAVA_TOOL_OPTIONS=JAVA_OPTS), timeout=900 if quick else 3000, heap='3g' if quick else '6g')

    def mutant(im):
        mut, c, invs, expect = mutants[im]
        return tlc.run('MCGeometry', cfg_text=make_cfg(c, mutant=mut, invariants=invs, emit=False, table=False), tag='c08-mutant-' + mut, workers=2, deadlock=False,
                       env=dict(VF_TABLE=path, JAVA_TOOL_OPTIONS=JAVA_OPTS), timeout=900, heap='2g')
    import resource
    ru0 = resource.getrusage(resource.RUSAGE_CHILDREN)
    with ThreadPoolExecutor(len(groups) + len(mutants)) as pool:
        dfut = [pool.submit(design, ig) for ig in range(len(groups))]
        mfut = [pool.submit(mutant, im) for im in range(len(mutants))]
        results = [f.result() for f in dfut]
        mresults = [f.result() for f in mfut]
    emitted = []
    for res in results:
        rep.add_tlc(res, exhaustive=True)
        if res.violated:
            raise RuntimeError('design spec Geometry violates {}:\n{}'.format(res.violated, '\n'.join(res.error_trace[:40])))
        emitted += res.emitted
    for (mut, c, invs, expect), r in zip(mutants, mresults):
        if r.violated not in expect:
            raise RuntimeError('spec mutant {} is not caught by the expected invariants (TLC reports {})'.format(mut, r.violated))
        rep.extra.setdefault('spec_mutants_caught', {})[mut] = r.violated
    ru1 = resource.getrusage(resource.RUSAGE_CHILDREN)
    rep.extra['tlc_cpu_s'] = round(ru1.ru_utime + ru1.ru_stime - ru0.ru_utime - ru0.ru_stime, 1)   # all TLC processes together
    rep.lap('TLC design runs + spec mutants')
    snaps = [e for e in emitted if 'stage' in e]
    # vacuity guard: action coverage counted from the emitted states (TLC -coverage runs out of memory on recursive operators)
    cover = dict(SetGeom=len(snaps), SetField=len(snaps),
                 Refine=sum(1 for s in snaps if s['level'] > 0 and s['stage'] != 'integrals'),
                 EvalInterior=sum(1 for s in snaps if s['stage'] == 'interior'), EvalBoundary=sum(1 for s in snaps if s['stage'] == 'boundary'),
                 EvalInterfaces=sum(1 for s in snaps if s['stage'] == 'interfaces'), EvalBoundaryField=sum(1 for s in snaps if s['stage'] == 'bfield'),
                 Integrate=sum(1 for s in snaps if s['stage'] == 'integrals' and s['level'] == 0),
                 RefineIntegrals=sum(1 for e in emitted if e.get('tab') == 'refine-preserved'))
    for a, cnt in cover.items():
        rep.actions[a] = rep.actions.get(a, 0) + cnt
    zero = [a for a in ACTIONS if rep.actions.get(a, 0) == 0]
    if zero:
        raise RuntimeError('vacuity: actions never taken: {}'.format(zero))
    # ... and the cases the new identities are about are there: facets whose chain has non-orthogonal columns, products of 2 and 3 spaces
    oblique = sum(1 for s in snaps if s['stage'] == 'bfield' for r in s['rows'] if not r['orth'])
    nspaces = {len(s['sp']) for s in snaps if s['n'] == s['m']}
    if not oblique or not {2, 3} & nspaces or 2 not in nspaces:
        raise RuntimeError('vacuity: boundary-field points on facets with a non-diagonal Gram matrix: {}, numbers of spaces: {}'.format(oblique, sorted(nspaces)))
    rep.extra['bfield_points_nonorthogonal_chain'] = oblique
    rep.extra['product_states'] = {str(k): sum(1 for s in snaps if len(s['sp']) == k) for k in sorted(nspaces) if k > 1}
    verdicts = [e for e in emitted if e.get('tab') == 'edge']
    counts = {e['at']: e['n'] for e in emitted if e.get('tab') == 'edge-count'}
    if sum(counts.values()) != len(table):
        raise RuntimeError('edge table: TLC judged {} of {} rows'.format(sum(counts.values()), len(table)))
    for v in verdicts:
        row = table[v['row'] - 1]
        rep.violation('edge-table:{}:{}'.format(v['verdict'], row['kind'].split(':L')[0]),
                      'TransformBasis of {} violates "{}" (tangent columns span the facet, ext points out of the element)'.format(row['kind'], v['verdict']), row)
    rep.traces += len(table) - len(verdicts)
    for row in table:
        rep.case(('edge', row['kind'], json.dumps(row['basis'])), nontrivial=row['n'] > 1)

    # ---- S->C: replay all evaluation states, grouped by (mesh, level, geometry, stage)
    groups = {}
    for s in snaps:
        groups.setdefault((s['mesh'], s['level'], s['geom'], s['stage']), []).append(s)
    items = [(k[0], k[1], k[3], sorted(v, key=lambda s: s['field'])) for k, v in sorted(groups.items())]
    # heavy groups first
    items.sort(key=lambda it: -sum(len(s['rows']) for s in it[3]) * (MESH_DIM[it[0]] ** 2))
    outs = exprs.pmap(replay_group, items, nproc=8 if quick else 12, chunksize=1)
    rep.lap('replayed')
    for it, o in zip(items, outs):
        if 'harness_error' in o:
            raise RuntimeError(o['harness_error'])
        name, level, stage, ss = it
        for s in ss:
            rep.case((name, level, s['geom'], s['field'], stage), nontrivial=s['geom'] not in (1, 5, 11))
        for key, what, data in o['fails']:
            rep.violation(key, what, data)
        if not o['fails']:
            rep.traces += o['states']
    rep.extra['states_replayed'] = len(snaps)
    # cost accounting that does not depend on the load of the machine
    rep.extra['replay_cpu_s'] = round(sum(o.get('cpu', 0.) for o in outs), 1)
    rep.extra['replay_cpu_by_mesh'] = {m: round(sum(o.get('cpu', 0.) for it, o in zip(items, outs) if it[0] == m), 1) for m in sorted({it[0] for it in items})}
    rep.extra['tlc_wall_s'] = [round(r.wall, 1) for r in results]
    rep.extra['points_compared'] = sum(o.get('points', 0) for o in outs)
    rep.extra['values_compared'] = sum(o.get('values', 0) for o in outs)
    rep.extra['by_stage'] = {st: sum(1 for s in snaps if s['stage'] == st) for st in ('interior', 'boundary', 'interfaces', 'bfield', 'integrals')}
    if snaps:
        s = snaps[0]
        rep.sample(dict(mesh=s['mesh'], level=s['level'], geom=s['G'], field=s['P'], stage=s['stage'], first_row=sorted(s['rows'], key=json.dumps)[0] if s['rows'] else None))
        b = [s for s in snaps if s['stage'] == 'bfield' and any(not r['orth'] for r in s['rows'])]
        if b:
            s = b[0]
            rep.sample(dict(mesh=s['mesh'], level=s['level'], geom=s['G'], field=s['P'], stage=s['stage'], first_row=sorted((r for r in s['rows'] if not r['orth']), key=json.dumps)[0]))
    if not snaps:
        raise RuntimeError('TLC emitted no evaluation states')
    rep.rule = ('cases = evaluation states of the Geometry machine (mesh, level, geometry map, field, interior|boundary|interfaces|bfield|integrals) replayed on nutils '
                '+ exported edge-transform / boundary-chain rows judged by TLC; non-trivial = geometry is not the identity / element dimension > 1')
    rep.assumptions += ['geometry maps and fields are polynomials with small integer coefficients (23 maps of degree <= 2: affine, triangular, orientation reversing, '
                        'non-constant Jacobian, separable; curves in 2D, surfaces in 3D); points are the bezier lattice k/K of every element / facet',
                        'unit normals and J are compared through n J = N dS (rational) and |n| = 1; J of manifolds through J^2',
                        'integrals: the model integrates exactly (Newton-Cotes / Duffy) where the integrand degree is <= 5; nutils integrates with Gauss degree 7',
                        'the base geometry x0 returned by nutils.mesh (piecewise affine) is trusted to identify points; a wrong x0 is reported as mesh-binding / x0 violation',
                        'fields on the boundary topology are p(G(a_e + A_e eta)) with eta = boundary.f_coords, e = boundary.f_index and the affine facet maps (a_e, A_e) fitted to x0 '
                        '(plus an L2 projection on boundary.basis(std, 2) of simplex meshes where it is exact); only the tangential components of their gradient are compared '
                        '(the normal component of the gradient of a function that is defined on the surface only is not defined by the property)',
                        'on refined meshes (level L >= 1, one space) the geometry map is additionally represented in the std degree 2 basis of the topology of level L - 1 '
                        '(L2 projection, exact for the maps of degree <= 2) and J / grad / normal / the volume are compared with the same model values (independence of refinement)']
