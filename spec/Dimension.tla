----------------------------- MODULE Dimension -----------------------------
(***************************************************************************)
(* C20 -- pure (state free) part of the model of nutils.SI / nutils.unit.  *)
(*                                                                         *)
(* Two levels are defined side by side:                                    *)
(*                                                                         *)
(*  level A (what physics dictates): a dimension is a TOTAL function from  *)
(*    the base symbols to the rationals (an exponent vector); the algebra  *)
(*    is the free abelian group Q^Bases; every dispatched function f has   *)
(*    a rule class RuleOf[f] and Physics(rule, ...) gives the dimension    *)
(*    of the result or "reject".                                           *)
(*                                                                         *)
(*  level I (shaped like src/nutils/SI.py): a dimension is a `powers`      *)
(*    dict with the zero entries stripped (Dimension.from_powers), its     *)
(*    identity is its canonical NAME (the key of Dimension.__cache, also   *)
(*    type(q).__name__ without the brackets), names are character          *)
(*    sequences built exactly like from_powers builds them and parsed      *)
(*    back exactly like _split_factors / Dimension.__getattr__ do.         *)
(*                                                                         *)
(* Characters are one-character strings; a Python str is a sequence of     *)
(* them.  Non-ASCII symbols are transliterated (the harness maps them      *)
(* back): "Q" = theta (temperature base symbol), "U" = mu (micro prefix),  *)
(* "O" = Omega (ohm).  None of these letters occurs in the SI tables.      *)
(***************************************************************************)
EXTENDS Integers, Sequences, FiniteSets, TLC

CONSTANT BaseOrd     \* the base symbols in Python string order, e.g. <<"L", "M", "T">>

\* ------------------------------------------------------------- rationals
\* a rational is <<n, d>> with d > 0 and gcd(|n|, d) = 1
Abs(x) == IF x < 0 THEN -x ELSE x
Max2(a, b) == IF a >= b THEN a ELSE b
Min2(a, b) == IF a <= b THEN a ELSE b
RECURSIVE GCD(_, _)
GCD(a, b) == IF b = 0 THEN a ELSE GCD(b, a % b)
Rat(n, d) == LET s == IF d < 0 THEN -1 ELSE 1
                 g == GCD(Abs(n), Abs(d))
             IN <<(s * n) \div g, (s * d) \div g>>
Zero == <<0, 1>>
One == <<1, 1>>
Half == <<1, 2>>
RInt(k) == <<k, 1>>
RAdd(a, b) == Rat(a[1] * b[2] + b[1] * a[2], a[2] * b[2])
RNeg(a) == <<-a[1], a[2]>>
RSub(a, b) == RAdd(a, RNeg(b))
RMul(a, b) == Rat(a[1] * b[1], a[2] * b[2])
RInv(a) == Rat(a[2], a[1])            \* a # Zero
RDiv(a, b) == RMul(a, RInv(b))        \* b # Zero
RLt(a, b) == a[1] * b[2] < b[1] * a[2]
RLe(a, b) == a[1] * b[2] <= b[1] * a[2]
RAbs(a) == <<Abs(a[1]), a[2]>>
RMax(a, b) == IF RLt(a, b) THEN b ELSE a
RMin(a, b) == IF RLt(b, a) THEN b ELSE a
RFloor(a) == a[1] \div a[2]           \* TLC's \div rounds towards minus infinity
RMod(a, b) == RSub(a, RMul(RInt(RFloor(RDiv(a, b))), b))   \* Python/NumPy float modulo (sign of divisor)
RECURSIVE RPowNat(_, _)
RPowNat(a, k) == IF k = 0 THEN One ELSE RMul(a, RPowNat(a, k - 1))
RPowInt(a, k) == IF k >= 0 THEN RPowNat(a, k) ELSE RInv(RPowNat(a, -k))   \* k < 0 needs a # Zero
\* integer square root by bisection (n >= 0)
RECURSIVE ISqrtB(_, _, _)
ISqrtB(n, lo, hi) == IF lo >= hi THEN lo
                     ELSE LET mid == (lo + hi + 1) \div 2
                          IN IF mid * mid <= n THEN ISqrtB(n, mid, hi) ELSE ISqrtB(n, lo, mid - 1)
ISqrt(n) == ISqrtB(n, 0, Min2(n, 46340))
IsSquare(n) == n >= 0 /\ ISqrt(n) * ISqrt(n) = n
RIsSquare(a) == IsSquare(a[1]) /\ IsSquare(a[2])
RSqrt(a) == <<ISqrt(a[1]), ISqrt(a[2])>>     \* exact when RIsSquare(a)

\* ------------------------------------------------------------- characters
DigitChars == <<"0", "1", "2", "3", "4", "5", "6", "7", "8", "9">>
DigitSet == {DigitChars[i] : i \in 1..10}
DigitVal(c) == (CHOOSE i \in 1..10 : DigitChars[i] = c) - 1
RECURSIVE Digits(_)
Digits(n) == IF n < 10 THEN <<DigitChars[n + 1]>> ELSE Digits(n \div 10) \o <<DigitChars[(n % 10) + 1]>>
RECURSIVE NatOf(_)
NatOf(s) == IF s = <<>> THEN 0 ELSE 10 * NatOf(SubSeq(s, 1, Len(s) - 1)) + DigitVal(s[Len(s)])
AllIn(s, S) == \A i \in 1..Len(s) : s[i] \in S
\* str.lstrip(chars) / str.rstrip(chars)
RECURSIVE LStrip(_, _)
LStrip(s, S) == IF s # <<>> /\ s[1] \in S THEN LStrip(Tail(s), S) ELSE s
RECURSIVE RStrip(_, _)
RStrip(s, S) == IF s # <<>> /\ s[Len(s)] \in S THEN RStrip(SubSeq(s, 1, Len(s) - 1), S) ELSE s
\* str.split(sep): always at least one (possibly empty) piece
RECURSIVE SplitAcc(_, _, _)
SplitAcc(s, sep, cur) == IF s = <<>> THEN <<cur>>
                         ELSE IF s[1] = sep THEN <<cur>> \o SplitAcc(Tail(s), sep, <<>>)
                         ELSE SplitAcc(Tail(s), sep, Append(cur, s[1]))
Split(s, sep) == SplitAcc(s, sep, <<>>)
\* index of the first occurrence of c in s, or 0
FirstIdx(s, c) == IF \E i \in 1..Len(s) : s[i] = c THEN CHOOSE i \in 1..Len(s) : s[i] = c /\ \A j \in 1..(i - 1) : s[j] # c ELSE 0
RECURSIVE Flatten(_)
Flatten(ss) == IF ss = <<>> THEN <<>> ELSE Head(ss) \o Flatten(Tail(ss))

\* ------------------------------------------------------------- level I: powers, names
\* `powers`: function from a subset of the base symbols to NONZERO rationals
NoPowers == [x \in {} |-> Zero]
Strip(f) == [b \in {x \in DOMAIN f : f[x] # Zero} |-> f[b]]          \* from_powers: {base: power ... if power}
Get(p, b) == IF b \in DOMAIN p THEN p[b] ELSE Zero
PBinOp(Op(_, _), a, b) == Strip([x \in (DOMAIN a) \cup (DOMAIN b) |-> Op(Get(a, x), Get(b, x))])   \* Dimension._binop
PMul(a, b) == PBinOp(RAdd, a, b)       \* Dimension.__mul__
PDiv(a, b) == PBinOp(RSub, a, b)       \* Dimension.__truediv__
PPow(a, k) == Strip([x \in DOMAIN a |-> RMul(a[x], k)])   \* Dimension.__pow__

\* from_powers: name = ''.join(('*' if power > 0 else '/') + base + numer + '_denom'
\*   for base, power in sorted(powers.items(), key=lambda item: item[::-1], reverse=True)).lstrip('*')
\* Ord(b) is the rank of the base symbol in Python's string order.
NameOf(p, Ord(_)) ==
  LET Greater(x, y) == RLt(p[y], p[x]) \/ (p[x] = p[y] /\ Ord(x) > Ord(y))
      RECURSIVE Sorted(_)
      Sorted(S) == IF S = {} THEN <<>>
                   ELSE LET m == CHOOSE x \in S : \A y \in S \ {x} : Greater(x, y)
                        IN <<m>> \o Sorted(S \ {m})
      Item(b) == <<IF p[b][1] > 0 THEN "*" ELSE "/", b>>
                 \o (IF Abs(p[b][1]) # 1 THEN Digits(Abs(p[b][1])) ELSE <<>>)
                 \o (IF p[b][2] # 1 THEN <<"_">> \o Digits(p[b][2]) ELSE <<>>)
      order == Sorted(DOMAIN p)
  IN LStrip(Flatten([i \in 1..Len(order) |-> Item(order[i])]), {"*"})

\* _split_factors(s): sequence of [base, power, isnumer]; an exception inside the
\* generator is modelled by the one-element sequence ErrFactors
\* (int('') cannot happen because of `or 1`; a tail that is not digits[_digits]
\* makes int() raise ValueError; a zero denominator raises ZeroDivisionError)
ErrFactor == [base |-> <<"!">>, power |-> Zero, isnumer |-> FALSE]
ErrFactors == <<ErrFactor>>
IsErrFactors(fs) == Len(fs) = 1 /\ fs[1].base = <<"!">>
PowerTail == DigitSet \cup {"_"}
FactorOf(factor, isnumer) ==
  LET base == RStrip(factor, PowerTail)
      tail == SubSeq(factor, Len(base) + 1, Len(factor))
      k == FirstIdx(tail, "_")
      numer == IF k = 0 THEN tail ELSE SubSeq(tail, 1, k - 1)
      denom == IF k = 0 THEN <<>> ELSE SubSeq(tail, k + 1, Len(tail))
  IN IF ~AllIn(numer, DigitSet) \/ ~AllIn(denom, DigitSet) \/ (k # 0 /\ denom = <<>>) \/ (denom # <<>> /\ NatOf(denom) = 0)
     THEN ErrFactor
     ELSE [base |-> base,
           power |-> Rat(IF numer = <<>> THEN 1 ELSE NatOf(numer), IF denom = <<>> THEN 1 ELSE NatOf(denom)),
           isnumer |-> isnumer]
RECURSIVE PartFactors(_, _)
\* the inner loop over parts.split('/'): empty factors are skipped, everything after the first is a denominator
PartFactors(fs, first) == IF fs = <<>> THEN <<>>
                          ELSE (IF Head(fs) = <<>> THEN <<>> ELSE <<FactorOf(Head(fs), first)>>) \o PartFactors(Tail(fs), FALSE)
SplitFactors(s) ==
  LET parts == Split(s, "*")
      all == Flatten([i \in 1..Len(parts) |-> PartFactors(Split(parts[i], "/"), TRUE)])
  IN IF \E i \in 1..Len(all) : all[i].base = <<"!">> THEN ErrFactors ELSE all

\* Dimension.__getattr__('[name]'): {base: power if isnumer else -power for ... if power}
\* (a dict comprehension: a repeated base keeps the LAST entry); bases must be single symbols here
ErrPowers == [x \in {"!"} |-> Zero]     \* never a legal powers dict (it has a zero entry)
NameToPowers(name) ==
  LET fs == SplitFactors(name)
  IN IF IsErrFactors(fs) THEN ErrPowers
     ELSE IF \E i \in 1..Len(fs) : Len(fs[i].base) # 1 THEN ErrPowers
     ELSE LET bases == {fs[i].base[1] : i \in 1..Len(fs)}
              lastof(b) == CHOOSE i \in 1..Len(fs) : fs[i].base[1] = b /\ \A j \in (i + 1)..Len(fs) : fs[j].base[1] # b
          IN Strip([b \in bases |-> IF fs[lastof(b)].isnumer THEN fs[lastof(b)].power ELSE RNeg(fs[lastof(b)].power)])

\* ------------------------------------------------------------- level I: classes and the cache
Bases == {BaseOrd[i] : i \in DOMAIN BaseOrd}
Ord(b) == CHOOSE i \in DOMAIN BaseOrd : BaseOrd[i] = b
Name(p) == NameOf(p, Ord)
Dimless == <<>>                       \* Name(NoPowers): the class `[]` (SI.Dimensionless)
\* A class is identified by its name; c is Dimension.__cache: name -> powers.
\* Dimension.from_powers(arg) against cache c: [name, cache]
FromPowers(c, arg) == LET p == Strip(arg)
                          n == Name(p)
                      IN [name |-> n, cache |-> IF n \in DOMAIN c THEN c ELSE (n :> p) @@ c]
\* Dimension.__mul__ / __truediv__ / __pow__ on classes: _binop builds the dict over the union of bases
ClsMul(c, n1, n2) == FromPowers(c, [x \in (DOMAIN c[n1]) \cup (DOMAIN c[n2]) |-> RAdd(Get(c[n1], x), Get(c[n2], x))])
ClsDiv(c, n1, n2) == FromPowers(c, [x \in (DOMAIN c[n1]) \cup (DOMAIN c[n2]) |-> RSub(Get(c[n1], x), Get(c[n2], x))])
ClsPow(c, n, k) == FromPowers(c, [x \in DOMAIN c[n] |-> RMul(c[n][x], k)])

\* ------------------------------------------------------------- level I: the dispatchers of Quantity.__DISPATCH_TABLE
\* The dimension part of every dispatcher, written like the code.  ds is the sequence of
\* classes __unpack yields for the operands the dispatcher looks at (a non-Quantity
\* unpacks as Dimensionless), k the exponent handed to __pow_like.  Result:
\*   [res |-> "wrap", name, cache]  -- `return <class>.wrap(op(...))`  (a dimensionless class falls away)
\*   [res |-> "raw",  ...]          -- `return op(...)`: the plain result of the operation
\*   [res |-> "rej",  ...]          -- `raise DimensionError`
DWrap(r) == [res |-> "wrap", name |-> r.name, cache |-> r.cache]
DKeep(n, c) == [res |-> "wrap", name |-> n, cache |-> c]
DRaw(c) == [res |-> "raw", name |-> Dimless, cache |-> c]
DRej(c) == [res |-> "rej", name |-> Dimless, cache |-> c]
RECURSIVE FoldMul(_, _, _)
FoldMul(c, n, ds) == IF ds = <<>> THEN [name |-> n, cache |-> c]
                     ELSE LET r == ClsMul(c, n, Head(ds)) IN FoldMul(r.cache, r.name, Tail(ds))
Dispatch(c, disp, ds, k) ==
  CASE disp = "__unary" -> DKeep(ds[1], c)
    [] disp = "__add_like" -> IF ds[1] # ds[2] THEN DRej(c) ELSE DKeep(ds[1], c)
    [] disp = "__mul_like" -> DWrap(ClsMul(c, ds[1], ds[2]))
    [] disp = "__div_like" -> DWrap(ClsDiv(c, ds[1], ds[2]))
    [] disp = "__laplace" -> LET sq == ClsPow(c, ds[2], RInt(2)) IN DWrap(ClsDiv(sq.cache, ds[1], sq.name))
    [] disp = "__sqrt" -> DWrap(ClsPow(c, ds[1], Half))
    [] disp = "__setitem" -> IF ds[1] # ds[2] THEN DRej(c) ELSE DKeep(ds[1], c)
    [] disp = "__pow_like" -> DWrap(ClsPow(c, ds[1], k))
    [] disp = "__unary_op" -> DRaw(c)
    [] disp = "__binary_op" -> IF ds[1] # ds[2] THEN DRej(c) ELSE DRaw(c)
    [] disp = "__stack_like" -> IF \E i \in 2..Len(ds) : ds[i] # ds[1] THEN DRej(c) ELSE DKeep(ds[1], c)
    [] disp = "__curvature" -> DWrap(ClsPow(c, ds[1], RInt(-1)))
    [] disp = "__evaluate" -> DKeep(ds[1], c)                 \* applied to every argument separately
    [] disp = "__field" -> DWrap(FoldMul(c, ds[1], Tail(ds)))
    [] disp = "__attribute" -> DRaw(c)
    [] disp = "__interp" -> IF ds[1] # ds[2] THEN DRej(c) ELSE DKeep(ds[3], c)
    \* ds = <<geom, coords, tol, maxdist>>; an absent tol/maxdist is the number 0 / None and unpacks as Dimensionless;
    \* k = <<a, b>>: a = 1 iff tol is None, b = 1 iff maxdist is None
    [] disp = "__locate" -> IF ds[1] # ds[2] THEN DRej(c)
                            ELSE IF ~((ds[3] = Dimless /\ k[1] = 1) \/ ds[3] = ds[1]) THEN DRej(c)
                            ELSE IF ~((ds[4] = Dimless /\ k[2] = 1) \/ ds[4] = ds[1]) THEN DRej(c)
                            ELSE DRaw(c)
    [] disp = "__sample" -> DKeep(ds[1], c)

\* how the code populates the table (the @register decorators of SI.py, transcribed)
ImplFuncs == [
  __unary |-> {"function.derivative", "function.factor", "function.jump", "function.kronecker", "function.linearize",
               "function.swap_spaces", "function.opposite", "function.replace_arguments", "function.scatter",
               "numpy.absolute", "numpy.amax", "numpy.amin", "numpy.broadcast_to", "numpy.conjugate", "numpy.imag",
               "numpy.linalg.norm", "numpy.max", "numpy.mean", "numpy.min", "numpy.negative", "numpy.positive",
               "numpy.ptp", "numpy.real", "numpy.reshape", "numpy.sum", "numpy.take", "numpy.trace", "numpy.transpose",
               "operator.abs", "operator.getitem", "operator.neg", "operator.pos"},
  __add_like |-> {"numpy.add", "numpy.hypot", "numpy.maximum", "numpy.minimum", "numpy.subtract",
                  "operator.add", "operator.mod", "operator.sub"},
  __mul_like |-> {"numpy.matmul", "numpy.multiply", "operator.matmul", "operator.mul"},
  __div_like |-> {"function.curl", "function.div", "function.grad", "function.surfgrad", "numpy.divide", "operator.truediv"},
  __laplace |-> {"function.laplace"},
  __sqrt |-> {"numpy.sqrt"},
  __setitem |-> {"operator.setitem"},
  __pow_like |-> {"function.jacobian", "numpy.power", "operator.pow"},
  __unary_op |-> {"function.normal", "function.normalized", "numpy.isfinite", "numpy.isnan", "numpy.ndim", "numpy.shape", "numpy.size"},
  __binary_op |-> {"numpy.equal", "numpy.greater", "numpy.greater_equal", "numpy.less", "numpy.less_equal", "numpy.not_equal",
                   "operator.eq", "operator.ge", "operator.gt", "operator.le", "operator.lt", "operator.ne"},
  __stack_like |-> {"numpy.stack", "numpy.concatenate"},
  __curvature |-> {"function.curvature"},
  __evaluate |-> {"function.evaluate"},
  __field |-> {"function.field"},
  __attribute |-> {"function.arguments_for"},
  __interp |-> {"numpy.interp"},
  __locate |-> {"Topology.locate"},
  __sample |-> {"Sample.bind", "Sample.integral"}]
Dispatchers == DOMAIN ImplFuncs
ImplTable == [f \in UNION {ImplFuncs[d] : d \in Dispatchers} |-> CHOOSE d \in Dispatchers : f \in ImplFuncs[d]]
DispOf(f) == CHOOSE d \in Dispatchers : f \in ImplFuncs[d]      \* = ImplTable[f]

\* ------------------------------------------------------------- level A: exponent vectors
Vec(p) == [b \in Bases |-> Get(p, b)]
VZero == [b \in Bases |-> Zero]
VMul(a, b) == [x \in DOMAIN a |-> RAdd(a[x], b[x])]
VDiv(a, b) == [x \in DOMAIN a |-> RSub(a[x], b[x])]
VPow(a, k) == [x \in DOMAIN a |-> RMul(a[x], k)]

\* ------------------------------------------------------------- the dispatch table
\* RuleOf: what physics dictates for every dispatched function (level A).
RuleFuncs == [
  unary |-> {"function.derivative", "function.factor", "function.jump", "function.kronecker", "function.linearize",
             "function.swap_spaces", "function.opposite", "function.replace_arguments", "function.scatter",
             "numpy.absolute", "numpy.amax", "numpy.amin", "numpy.broadcast_to", "numpy.conjugate", "numpy.imag",
             "numpy.linalg.norm", "numpy.max", "numpy.mean", "numpy.min", "numpy.negative", "numpy.positive",
             "numpy.ptp", "numpy.real", "numpy.reshape", "numpy.sum", "numpy.take", "numpy.trace", "numpy.transpose",
             "operator.abs", "operator.getitem", "operator.neg", "operator.pos",
             "Sample.bind", "Sample.integral"},
  add_like |-> {"numpy.add", "numpy.hypot", "numpy.maximum", "numpy.minimum", "numpy.subtract",
                "operator.add", "operator.mod", "operator.sub"},
  mul_like |-> {"numpy.matmul", "numpy.multiply", "operator.matmul", "operator.mul"},
  div_like |-> {"function.curl", "function.div", "function.grad", "function.surfgrad", "numpy.divide", "operator.truediv"},
  laplace |-> {"function.laplace"},
  sqrt |-> {"numpy.sqrt"},
  setitem |-> {"operator.setitem"},
  pow_like |-> {"function.jacobian", "numpy.power", "operator.pow"},
  strip |-> {"function.normal", "function.normalized", "numpy.isfinite", "numpy.isnan", "numpy.ndim", "numpy.shape",
             "numpy.size", "function.arguments_for"},
  compare |-> {"numpy.equal", "numpy.greater", "numpy.greater_equal", "numpy.less", "numpy.less_equal", "numpy.not_equal",
               "operator.eq", "operator.ge", "operator.gt", "operator.le", "operator.lt", "operator.ne"},
  stack_like |-> {"numpy.stack", "numpy.concatenate"},
  inverse |-> {"function.curvature"},
  each |-> {"function.evaluate"},
  product |-> {"function.field"},
  interp |-> {"numpy.interp"},
  locate |-> {"Topology.locate"}]
Rules == DOMAIN RuleFuncs
AllFuncs == UNION {RuleFuncs[r] : r \in Rules}
RuleOf == [f \in AllFuncs |-> CHOOSE r \in Rules : f \in RuleFuncs[r]]
RuleOfF(f) == CHOOSE r \in Rules : f \in RuleFuncs[r]            \* = RuleOf[f]
RulesDisjoint == \A r1, r2 \in Rules : r1 # r2 => RuleFuncs[r1] \cap RuleFuncs[r2] = {}

\* Physics(rule, a, b, k): what the algebra of dimensions dictates for a function of
\* the given rule class, given the exponent vectors a, b of the two dimensional
\* operands the rule looks at (b is ignored by one-operand rules) and the rational
\* parameter k (the exponent of pow_like).  Result: [k |-> "dim", v |-> vector] (the
\* result has exactly this dimension), [k |-> "reject"] (no physical meaning: must be
\* refused), [k |-> "plain"] (the result carries no dimension by construction).
PDim(v) == [k |-> "dim", v |-> v]
PReject(a) == [k |-> "reject", v |-> a]
PPlain(a) == [k |-> "plain", v |-> a]
Physics(rule, a, b, k) ==
  CASE rule = "unary" -> PDim(a)
    [] rule = "add_like" -> IF a = b THEN PDim(a) ELSE PReject(a)
    [] rule = "mul_like" -> PDim(VMul(a, b))
    [] rule = "div_like" -> PDim(VDiv(a, b))
    [] rule = "laplace" -> PDim(VDiv(a, VPow(b, RInt(2))))
    [] rule = "sqrt" -> PDim(VPow(a, Half))
    [] rule = "setitem" -> IF a = b THEN PDim(a) ELSE PReject(a)
    [] rule = "pow_like" -> PDim(VPow(a, k))
    [] rule = "strip" -> PPlain(a)
    [] rule = "compare" -> IF a = b THEN PPlain(a) ELSE PReject(a)
    [] rule = "stack_like" -> IF a = b THEN PDim(a) ELSE PReject(a)
    [] rule = "inverse" -> PDim(VPow(a, RInt(-1)))
    [] rule = "each" -> PDim(a)
    [] rule = "product" -> PDim(VMul(a, b))
    [] rule = "interp" -> IF a = b THEN PPlain(a) ELSE PReject(a)    \* a, b: dimensions of x and xp; an accepted result has the dimension of fp
    [] rule = "locate" -> IF a = b THEN PPlain(a) ELSE PReject(a)    \* a, b: dimensions of geom and coords (tol, maxdist likewise)
=============================================================================
