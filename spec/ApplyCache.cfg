\* quick, exhaustive: every behaviour of at most MaxOps operations over 2 allocations (2 addresses: a freed address is
\* re-used, two buffers can be alive together), 3 arrays, 2 items; one route per distinct (state, last call) is emitted
SPECIFICATION Spec
CONSTANTS
  MaxBufs = 2
  Addrs = {1, 2}
  Items = {1, 2}
  MaxViews = 3
  MaxOps = 5
  MaxVer = 1
  UseKinds = {"even", "head", "headT", "odd", "mid"}
  FirstFit = TRUE
  KeyStrides = TRUE
  Finalizer = TRUE
  CheckBases = TRUE
VIEW StateView
INVARIANT TypeOK
INVARIANT Transparent
INVARIANT EntriesFresh
INVARIANT KeysDistinct
INVARIANT NoLeak
INVARIANT EmitCall
CHECK_DEADLOCK FALSE
