\* quick, exhaustive: one base per mesh kind, every denotation reachable by one operation; emits each behaviour
\* with the predicted observations of its last state
SPECIFICATION Spec
CONSTANTS
  Bases <- Bases_quick
  MaxOps = 1
  MaxSub = 2
  NPat = 2
  OpSet <- Ops_all
  TrimRef <- Ref_012
  Mutant = "none"
VIEW View
INVARIANT TypeOK
INVARIANT Disjoint
INVARIANT WithinHull
INVARIANT BoundaryClosed
INVARIANT InterfacesOnce
INVARIANT FacetPartition
INVARIANT CutShared
INVARIANT EmitState
PROPERTY StepProp
CHECK_DEADLOCK FALSE
