---- MODULE MCExprBuilder ----
EXTENDS ExprBuilder
AllOps == {"Negative", "Absolute", "Sign", "Reciprocal", "LogicalNot", "Multiply", "Add", "Minimum", "Maximum",
           "FloorDivide", "Mod", "Equal", "Less", "Greater", "Power", "BoolToInt", "IntToFloat", "InsertAxis",
           "Transpose", "Sum", "Product", "Take", "TakeDiag", "Diagonalize", "Inflate", "Ravel", "Unravel",
           "RavelIndex", "Choose", "InRange", "Determinant", "Inverse", "Polyval", "LoopSum", "LoopConcat"}
\* the structural constructors that carry the swap rules of the simplifier
CoreOps == {"InsertAxis", "Transpose", "Sum", "Multiply", "Add", "Take", "TakeDiag", "Diagonalize", "Inflate",
            "Ravel", "Unravel", "Power", "Sign", "LoopSum", "Absolute", "Negative", "Choose"}
\* AllOps / AllLeaves: the base vocabulary (bool/int/float) that the standard corpus enumerates; the extended
\* vocabulary (complex dtype, ...) lives in dedicated families built from the sets below
AllLeaves == 1..40
CxOps == {"FloatToComplex", "Real", "Imag", "Conjugate"}
CxLeaves == 41..52
PolyOps == {"Polyval", "PolyMul", "PolyGrad", "PolyDegree", "PolyNCoeffs", "Legendre"}
SearchOps == {"SearchSorted", "ArgSort", "UniqueMask", "UniqueInverse", "SizesToOffsets", "CompressIndices", "Find"}
DynOps == {"RangeN", "InsertAxisN"}
ArgLoopOps == {"LoopIndexN", "LoopSumN"}
FullOps == AllOps \cup CxOps \cup {"Einsum"} \cup PolyOps \cup SearchOps \cup DynOps \cup ArgLoopOps \cup {"Monomial"}
FullLeaves == 1..Len(LeafPool)
CoreLeaves == {1, 2, 7, 8, 9, 10, 12, 13, 14, 15, 20, 22, 25}
Fam(ops, leaves, maxnodes, maxops, maxleaves) == [ops |-> ops, leaves |-> leaves, maxnodes |-> maxnodes, maxops |-> maxops, maxleaves |-> maxleaves]
\* vocabularies of the stand-alone configurations ExprBuilder_d2.cfg / ExprBuilder_sim.cfg
D2Families == << Fam(AllOps, AllLeaves, 5, 2, 3) >>
SimFamilies == << Fam(FullOps, FullLeaves, 12, 7, 5) >>
====
