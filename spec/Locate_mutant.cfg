\* spec mutant: the affine fit is memoised also when it was computed for specific argument values; ImageOK must be violated
SPECIFICATION Spec
CONSTANTS
  MaxCalls = 2
  MemoAlways = TRUE
  TopoIds = {"line3", "rect32"}
  NTargetSets = 2
INVARIANT ImageOK
CHECK_DEADLOCK FALSE
