\* stand-alone -simulate run of the builder over the full (extended) vocabulary:
\*   java -cp ... tlc2.TLC -deadlock -simulate num=100 -depth 13 -config ExprBuilder_sim.cfg MCExprBuilder.tla
SPECIFICATION Spec
CONSTANTS
  Families <- SimFamilies
  EmitMin = 3
INVARIANT ShapeSound
INVARIANT IxSound
CONSTRAINT EmitComplete
CHECK_DEADLOCK FALSE
