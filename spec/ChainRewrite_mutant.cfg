\* spec mutant: one corrupted entry in the swapdown rule; MapPreserved must be violated
SPECIFICATION Spec
CONSTANTS
  MaxDim = 2
  MaxLen = 2
  LongDim = 0
  LongLen = 0
  MaxRounds = 0
  WrongSwap = TRUE
INVARIANT MapPreserved
CHECK_DEADLOCK FALSE
