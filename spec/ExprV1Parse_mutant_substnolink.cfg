\* spec mutant of the version 1 bookkeeping model (C19): a substitution does not link the lengths of the argument with those of its value: ?u_i(u_i = r_i)
\* expected: TLC reports an invariant (VerdictAgree / FreeAgree / GroupsAgree) as violated.  Stand-alone:
\*   java -cp tla2tools.jar:CommunityModules-deps.jar tlc2.TLC -deadlock -config ExprV1Parse_mutant_substnolink.cfg MCExprV1Parse.tla
SPECIFICATION Spec
CONSTANTS
  Fams <- OnlyT3
  EmitMin = 0
  Bug = "subst-nolink"
  Lazy = FALSE
INVARIANT VerdictAgree
INVARIANT FreeAgree
INVARIANT GroupsAgree
INVARIANT InferenceSound
CHECK_DEADLOCK FALSE
