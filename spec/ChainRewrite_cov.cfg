\* small configuration run with -coverage (vacuity guard: every action taken) and with the
\* bookkeeping invariant Map0IsInputMap (map0 really is the map of the input chain)
SPECIFICATION Spec
CONSTANTS
  MaxDim = 1
  MaxLen = 2
  MaxRounds = 1
  WrongSwap = FALSE
INVARIANT MapPreserved
INVARIANT Map0IsInputMap
INVARIANT WellFormed
INVARIANT InRange
INVARIANT Terminates
INVARIANT CanonicalDone
INVARIANT OperatorAgrees
INVARIANT DimsKept
CHECK_DEADLOCK FALSE
