----------------------------- MODULE MatrixADT -----------------------------
(***************************************************************************)
(* Design specification for property C15: nutils.matrix objects are        *)
(* faithful to the data they were assembled from.                          *)
(*                                                                         *)
(* Shaped like src/nutils/matrix/__init__.py and _base.py, one action per  *)
(* step of the code:                                                       *)
(*   ChooseInput      the caller's data: CSR / COO (arbitrary, possibly    *)
(*                    ill-formed: the "wild" forms), generated well-formed *)
(*                    CSR / COO, empty / diag / eye, a block layout        *)
(*   ChoosePattern    (generated CSR / COO) the sparsity pattern            *)
(*   GenBlock         (block form) the caller supplies the next block      *)
(*   Compress         assemble_coo: numeric.compress_indices(rowidx,nrows) *)
(*   BlockRow         assemble_block_csr: merge one block row (skipping    *)
(*                    empty blocks, single-block shortcut, row interleave) *)
(*   BlockFinish      assemble_block_csr: empty() shortcut or concatenate  *)
(*   CheckRowptr      assemble_csr: rowptr[0]==0, monotone, ends at nnz    *)
(*   CheckColidx      assemble_csr: len(colidx), column range              *)
(*   CheckOrder       assemble_csr: colidx_is_increasing flag array        *)
(*   BackendAssemble  backend.assemble: scatter of the stored entries      *)
(*   Return           the matrix object is handed to the caller            *)
(*   DoNeg DoT DoScale DoDiv DoAdd DoSub DoSubmatrix DoPickle              *)
(*                    the Matrix operations; DoSubmatrix carries the       *)
(*                    one-entry submatrix cache of Matrix.submatrix,       *)
(*                    DoPickle re-enters the assemble_csr pipeline with    *)
(*                    the CSR export (Matrix.__reduce__)                   *)
(*                                                                         *)
(* The specification is the CORRECT design: StrictOrder and LowerBound are *)
(* TRUE.  Setting one of them to FALSE gives the behaviour of the pinned   *)
(* implementation (numpy.greater_equal in the ordering test, no test for   *)
(* negative column indices) and TLC then reports AcceptIffValid violated.  *)
(*                                                                         *)
(* Every complete behaviour (input, verdict, and for every matrix created  *)
(* the predicted denotation and observations) is emitted as JSON and       *)
(* replayed against the real objects for every backend (S->C binding).     *)
(***************************************************************************)
EXTENDS MatrixOps

CONSTANTS Forms,        \* subset of {"csrwild","coowild","csr","coo","empty","diag","eye","block"}
          Shapes,       \* set of <<m, n>> for generated well-formed input
          MinNnz, MaxNnz,   \* stored entries of generated well-formed input
          WildM, WildN, WildNnz,   \* bounds of arbitrary input
          WildCooN,     \* column bound of arbitrary COO input (the column tests are those of the CSR path)
          BlockHeights, BlockWidths, MaxBlockRows, MaxBlockCols, MaxBlockNnz,
          Dtypes,       \* subset of {"f", "c"}: data types of generated well-formed input
          WildDtypes,   \* data types of arbitrary input
          Ops,          \* subset of {"neg","T","scale","div","add","sub","submatrix","pickle"}
          MaxSteps,     \* operations after assembly ...
          OpForms,      \* ... for input of these forms (no operations for the other forms)
          MaxE,         \* bound on the binary exponent (number of nested divisions)
          StrictOrder,  \* design: TRUE  (FALSE = numpy.greater_equal, the pinned code)
          LowerBound,   \* design: TRUE  (FALSE = no colidx >= 0 test, the pinned code)
          CacheCopies   \* design: TRUE = the submatrix cache keeps its own copy of the selection masks (FALSE = it keeps the
                        \* caller's mask objects, the pinned code: a caller that reuses and overwrites its mask buffer gets a stale hit)

VARIABLES pc, inp, csr, pend, regs, cache, acc, brow, hist, verdict
vars == <<pc, inp, csr, pend, regs, cache, acc, brow, hist, verdict>>

CsrForms == {"csrwild", "csr", "empty", "diag", "eye"}
CooForms == {"coowild", "coo"}

DummyCSR == [v |-> <<>>, rp |-> <<>>, ci |-> <<>>, n |-> 0, e |-> 0]
DummyCOO == [v |-> <<>>, ri |-> <<>>, m |-> 0, ci |-> <<>>, n |-> 0]
DummyAux == [m |-> 0, n |-> 0, hs |-> <<>>, ws |-> <<>>, nv |-> 0]
\* buf: the cached key objects are the caller's reusable mask buffer; brows/bcols: what that buffer holds now
NoCache == [valid |-> FALSE, rows |-> <<>>, cols |-> <<>>, res |-> Mat(0, 0, 0, <<>>), buf |-> FALSE, brows |-> <<>>, bcols |-> <<>>]
EmptyAcc == [v |-> <<>>, rp |-> <<0>>, ci |-> <<>>]

\* distinct nonzero values; complex ones have a nonzero (odd) imaginary part
ValOf(k, dt) == IF dt = "f" THEN <<k, 0>> ELSE <<k, 5 - 2 * k>>
\* k values, the z-th an explicit zero (z = 0: none)
Vals(k, z, dt, base) == Tab(k, LAMBDA q : IF q = z THEN Z0 ELSE ValOf(base + q, dt))
ISum(s) == LET F[k \in 0..Len(s)] == IF k = 0 THEN 0 ELSE F[k - 1] + s[k] IN F[Len(s)]

\* ------------------------------------------------------------------ caller's input
\* (the validation does not look at the values: arbitrary input carries no explicit zeros,
\* well-formed generated input does)
WildCSRs == {[v |-> Vals(k, 0, dt, 0), rp |-> rp, ci |-> ci, n |-> n, e |-> 0] :
               k \in 0..WildNnz, dt \in WildDtypes,
               rp \in SeqsUpTo(0..WildNnz, WildM + 1), ci \in SeqsUpTo((0 - 1)..WildN, WildNnz), n \in 0..WildN}
WildCOOs == {[v |-> Vals(k, 0, dt, 0), ri |-> ri, m |-> m, ci |-> ci, n |-> n] :
               k \in 0..WildNnz, dt \in WildDtypes,
               ri \in SeqsUpTo((0 - 1)..WildM, WildNnz), m \in 0..WildM, ci \in SeqsUpTo((0 - 1)..WildCooN, WildNnz), n \in 0..WildCooN}
DtOf(v) == IF \E q \in 1..Len(v) : v[q][2] # 0 THEN "c" ELSE "f"

\* well-formed input from a sparsity pattern P (set of 1-based positions)
Patterns(m, n, K) == {P \in SUBSET ((1..m) \X (1..n)) : Cardinality(P) <= K}
Rank(P, p) == Cardinality({q \in P : q[1] < p[1] \/ (q[1] = p[1] /\ q[2] <= p[2])})
Ordered(P) == Tab(Cardinality(P), LAMBDA q : CHOOSE p \in P : Rank(P, p) = q)
ZChoices(P) == IF P = {} THEN {0} ELSE {0, 1, Cardinality(P)}
PatCSR(m, n, P, z, dt, base) ==
    LET ord == Ordered(P)
    IN [v |-> Vals(Len(ord), z, dt, base),
        rp |-> Tab(m + 1, LAMBDA i : Cardinality({p \in P : p[1] < i})),
        ci |-> Tab(Len(ord), LAMBDA q : ord[q][2] - 1), n |-> n, e |-> 0]
PatCOO(m, n, P, z, dt) ==
    LET ord == Ordered(P)
    IN [v |-> Vals(Len(ord), z, dt, 0), ri |-> Tab(Len(ord), LAMBDA q : ord[q][1] - 1), m |-> m,
        ci |-> Tab(Len(ord), LAMBDA q : ord[q][2] - 1), n |-> n]
EmptyCSR(m, n) == [v |-> <<>>, rp |-> Tab(m + 1, LAMBDA i : 0), ci |-> <<>>, n |-> n, e |-> 0]
DiagCSR(d) == [v |-> d, rp |-> Tab(Len(d) + 1, LAMBDA i : i - 1), ci |-> Tab(Len(d), LAMBDA i : i - 1), n |-> Len(d), e |-> 0]

\* block layouts: heights per block row, widths per block (number of blocks may differ per
\* row), all rows adding up to the same number of columns
Layouts == {[hs |-> hs, ws |-> ws] : hs \in SeqsBetween(BlockHeights, 1, MaxBlockRows),
                                     ws \in SeqsBetween(SeqsBetween(BlockWidths, 1, MaxBlockCols), 1, MaxBlockRows)}
GoodLayouts == {l \in Layouts : Len(l.hs) = Len(l.ws) /\ \A r \in 1..Len(l.ws) : ISum(l.ws[r]) = ISum(l.ws[1])}

Input(f, dt, c, o, aux) == [form |-> f, dt |-> dt, csr |-> c, coo |-> o, blk |-> <<>>, aux |-> aux]

Init == /\ pc = "start"
        /\ inp = Input("none", "f", DummyCSR, DummyCOO, DummyAux)
        /\ csr = DummyCSR
        /\ pend = 0
        /\ regs = <<>>
        /\ cache = <<>>
        /\ acc = EmptyAcc
        /\ brow = 0
        /\ hist = <<>>
        /\ verdict = "pending"

ToCSR(i) == /\ inp' = i /\ csr' = i.csr /\ pc' = "csr_rowptr"
ToCOO(i) == /\ inp' = i /\ csr' = DummyCSR /\ pc' = "coo_compress"

ChooseInput ==
    /\ pc = "start"
    /\ \/ /\ "csrwild" \in Forms
          /\ \E c \in WildCSRs : ToCSR(Input("csrwild", DtOf(c.v), c, DummyCOO, DummyAux))
       \/ /\ "coowild" \in Forms
          /\ \E o \in WildCOOs : ToCOO(Input("coowild", DtOf(o.v), DummyCSR, o, DummyAux))
       \/ /\ \E f \in {"csr", "coo"} \cap Forms : \E sh \in Shapes, dt \in Dtypes :
                inp' = Input(f, dt, DummyCSR, DummyCOO, [DummyAux EXCEPT !.m = sh[1], !.n = sh[2]])
          /\ csr' = DummyCSR
          /\ pc' = "pattern"
       \/ /\ "empty" \in Forms
          /\ \E s \in Shapes, dt \in Dtypes :
                ToCSR(Input("empty", dt, EmptyCSR(s[1], s[2]), DummyCOO, [DummyAux EXCEPT !.m = s[1], !.n = s[2]]))
       \/ /\ "diag" \in Forms
          /\ \E s \in Shapes, dt \in Dtypes, z \in 0..1 : /\ s[1] = s[2] /\ z <= s[1]
                                                         /\ ToCSR(Input("diag", dt, DiagCSR(Vals(s[1], z, dt, 0)), DummyCOO, [DummyAux EXCEPT !.n = s[1]]))
       \/ /\ "eye" \in Forms
          /\ \E s \in Shapes : /\ s[1] = s[2]
                               /\ ToCSR(Input("eye", "f", DiagCSR(Tab(s[1], LAMBDA i : <<1, 0>>)), DummyCOO, [DummyAux EXCEPT !.n = s[1]]))
       \/ /\ "block" \in Forms
          /\ \E l \in GoodLayouts, dt \in Dtypes :
                /\ inp' = [Input("block", dt, DummyCSR, DummyCOO, [DummyAux EXCEPT !.hs = l.hs, !.ws = l.ws]) EXCEPT !.blk = <<<<>>>>]
                /\ csr' = DummyCSR
                /\ pc' = "block_gen"
    /\ UNCHANGED <<pend, regs, cache, acc, brow, hist, verdict>>

\* the caller's sparsity pattern and which stored entry (if any) is an explicit zero
ChoosePattern ==
    /\ pc = "pattern"
    /\ \E P \in Patterns(inp.aux.m, inp.aux.n, MaxNnz) : \E z \in ZChoices(P) :
          /\ Cardinality(P) >= MinNnz
          /\ IF inp.form = "csr"
             THEN ToCSR([inp EXCEPT !.csr = PatCSR(inp.aux.m, inp.aux.n, P, z, inp.dt, 0)])
             ELSE ToCOO([inp EXCEPT !.coo = PatCOO(inp.aux.m, inp.aux.n, P, z, inp.dt)])
    /\ UNCHANGED <<pend, regs, cache, acc, brow, hist, verdict>>

\* ------------------------------------------------------------------ block input
\* inp.blk is the sequence of block rows supplied so far, the last one possibly incomplete
CurRow == Len(inp.blk)
CurCol == Len(inp.blk[CurRow]) + 1
GenBlock ==
    /\ pc = "block_gen"
    /\ LET r == CurRow
           c == CurCol
           h == inp.aux.hs[r]
           w == inp.aux.ws[r][c]
       IN \E P \in Patterns(h, w, MaxBlockNnz) : \E z \in (IF P = {} THEN {0} ELSE {0, 1}) :
            LET b == PatCSR(h, w, P, z, inp.dt, inp.aux.nv)
                row == Append(inp.blk[r], [v |-> b.v, rp |-> b.rp, ci |-> b.ci, n |-> b.n])
                rowdone == Len(row) = Len(inp.aux.ws[r])
                alldone == rowdone /\ r = Len(inp.aux.hs)
                blk1 == [inp.blk EXCEPT ![r] = row]
            IN /\ inp' = [inp EXCEPT !.blk = IF rowdone /\ ~alldone THEN Append(blk1, <<>>) ELSE blk1,
                                     !.aux.nv = @ + Cardinality(P)]
               /\ pc' = IF alldone THEN "block_rows" ELSE "block_gen"
               /\ brow' = IF alldone THEN 1 ELSE brow
    /\ acc' = EmptyAcc
    /\ UNCHANGED <<csr, pend, regs, cache, hist, verdict>>

\* one iteration of "for row in blocks" of assemble_block_csr
RowMerge(row, a) ==
    LET nrows == Len(row[1].rp) - 1
        offs == Tab(Len(row), LAMBDA c : ISum(Tab(c - 1, LAMBDA d : row[d].n)))
        data == TrueIdx(Tab(Len(row), LAMBDA c : Len(row[c].v) > 0))      \* "if len(block_values)"
        ptr0 == a.rp[Len(a.rp)]
    IN IF Len(data) = 1
       THEN LET b == row[data[1]]
            IN [v |-> a.v \o b.v,
                rp |-> a.rp \o Tab(nrows, LAMBDA i : b.rp[i + 1] + ptr0),
                ci |-> a.ci \o Tab(Len(b.ci), LAMBDA k : b.ci[k] + offs[data[1]])]
       ELSE LET F[irow \in 0..nrows] ==
                   IF irow = 0 THEN a
                   ELSE LET G[q \in 0..Len(data)] ==
                                IF q = 0 THEN F[irow - 1]
                                ELSE LET b == row[data[q]]
                                         i == b.rp[irow]
                                         j == b.rp[irow + 1]
                                     IN [v |-> G[q - 1].v \o SubSeq(b.v, i + 1, j),
                                         rp |-> G[q - 1].rp,
                                         ci |-> G[q - 1].ci \o Tab(j - i, LAMBDA k : b.ci[i + k] + offs[data[q]])]
                            g == G[Len(data)]
                        IN [g EXCEPT !.rp = Append(g.rp, Len(g.v))]
            IN F[nrows]

BlockRow ==
    /\ pc = "block_rows" /\ brow <= Len(inp.blk)
    /\ acc' = RowMerge(inp.blk[brow], acc)
    /\ brow' = brow + 1
    /\ UNCHANGED <<pc, inp, csr, pend, regs, cache, hist, verdict>>

BlockFinish ==
    /\ pc = "block_rows" /\ brow > Len(inp.blk)
    /\ LET ncols == ISum(Tab(Len(inp.blk[1]), LAMBDA c : inp.blk[1][c].n))
       IN csr' = IF acc.v = <<>> THEN EmptyCSR(Len(acc.rp) - 1, ncols)        \* "if not values: return empty(...)"
                 ELSE [v |-> acc.v, rp |-> acc.rp, ci |-> acc.ci, n |-> ncols, e |-> 0]
    /\ pc' = "csr_rowptr"
    /\ UNCHANGED <<inp, pend, regs, cache, acc, brow, hist, verdict>>

\* ------------------------------------------------------------------ assemble_coo
\* numeric.compress_indices(indices, length), statement by statement
CompressRejects(ri, m) == /\ Len(ri) > 0
                          /\ \/ ri[1] < 0 \/ ri[Len(ri)] >= m                          \* out of bounds
                             \/ \E k \in 1..(Len(ri) - 1) : ri[k + 1] - ri[k] < 0      \* numpy.repeat fails on a negative step
CompressSteps(ri, m) == Tab(Len(ri) + 1, LAMBDA p : IF p = 1 THEN ri[1] + 1
                                                    ELSE IF p = Len(ri) + 1 THEN m - ri[Len(ri)]
                                                    ELSE ri[p] - ri[p - 1])
\* numpy.repeat(nz, step[nz]) with nz the (0-based) positions of the nonzero steps
RepeatNz(step) == LET F[p \in 0..Len(step)] == IF p = 0 THEN <<>> ELSE F[p - 1] \o Tab(step[p], LAMBDA q : p - 1)
                  IN F[Len(step)]
CompressResult(ri, m) == IF Len(ri) = 0 THEN Tab(m + 1, LAMBDA i : 0) ELSE RepeatNz(CompressSteps(ri, m))

Compress ==
    /\ pc = "coo_compress"
    /\ IF CompressRejects(inp.coo.ri, inp.coo.m)
       THEN /\ pc' = "rejected" /\ verdict' = "compress_indices" /\ UNCHANGED csr
       ELSE /\ csr' = [v |-> inp.coo.v, rp |-> CompressResult(inp.coo.ri, inp.coo.m), ci |-> inp.coo.ci, n |-> inp.coo.n, e |-> 0]
            /\ pc' = "csr_rowptr" /\ UNCHANGED verdict
    /\ UNCHANGED <<inp, pend, regs, cache, acc, brow, hist>>

\* ------------------------------------------------------------------ assemble_csr
Pass(next) == pc' = next /\ UNCHANGED verdict
Fail(why) == pc' = "rejected" /\ verdict' = why

CheckRowptr ==
    /\ pc = "csr_rowptr"
    /\ IF /\ Len(csr.rp) >= 1                                    \* rowptr[0] raises IndexError otherwise
          /\ csr.rp[1] = 0
          /\ \A i \in 1..(Len(csr.rp) - 1) : csr.rp[i + 1] >= csr.rp[i]
          /\ csr.rp[Len(csr.rp)] = Len(csr.v)
       THEN Pass("csr_colidx") ELSE Fail("rowptr")
    /\ UNCHANGED <<inp, csr, pend, regs, cache, acc, brow, hist>>

CheckColidx ==
    /\ pc = "csr_colidx"
    /\ IF /\ Len(csr.ci) = csr.rp[Len(csr.rp)]
          /\ \A k \in 1..Len(csr.ci) : csr.ci[k] < csr.n
          /\ LowerBound => \A k \in 1..Len(csr.ci) : csr.ci[k] >= 0
       THEN Pass("csr_order") ELSE Fail("colidx")
    /\ UNCHANGED <<inp, csr, pend, regs, cache, acc, brow, hist>>

\* colidx_is_increasing: flag k (0-based, 0..len) is set by a row start/end in rowptr or by
\* the comparison of colidx[k] with colidx[k-1]
IncFlag(c, k) == \/ \E i \in 1..Len(c.rp) : c.rp[i] = k
                 \/ /\ k >= 1 /\ k <= Len(c.ci) - 1
                    /\ IF StrictOrder THEN c.ci[k + 1] > c.ci[k] ELSE c.ci[k + 1] >= c.ci[k]
CheckOrder ==
    /\ pc = "csr_order"
    /\ IF \A k \in 0..Len(csr.ci) : IncFlag(csr, k) THEN Pass("csr_backend") ELSE Fail("order")
    /\ UNCHANGED <<inp, csr, pend, regs, cache, acc, brow, hist>>

\* backend.assemble: the stored entries are written one after the other (last one wins)
RowOfEntry(c, k) == CHOOSE i \in 1..NRows(c) : c.rp[i] < k /\ k <= c.rp[i + 1]
Scatter(c) == LET F[k \in 0..Len(c.v)] == IF k = 0 THEN ZeroCells(NRows(c), c.n)
                                          ELSE [F[k - 1] EXCEPT ![RowOfEntry(c, k)][c.ci[k] + 1] = c.v[k]]
              IN F[Len(c.v)]
BackendAssemble ==
    /\ pc = "csr_backend"
    /\ regs' = Append(regs, Norm(Mat(NRows(csr), csr.n, csr.e, Scatter(csr))))
    /\ cache' = Append(cache, NoCache)
    /\ pc' = "csr_done"
    /\ UNCHANGED <<inp, csr, pend, acc, brow, hist, verdict>>

OpRec(op, a, b, s, rows, cols, r) == [op |-> op, a |-> a, b |-> b, s |-> s, rows |-> rows, cols |-> cols, r |-> r]
Return ==
    /\ pc = "csr_done"
    /\ hist' = Append(hist, OpRec(IF pend = 0 THEN "assemble" ELSE "pickle", pend, 0, Z0, <<>>, <<>>, Len(regs)))
    /\ verdict' = "accepted"
    /\ pend' = 0
    /\ pc' = "ready"
    /\ UNCHANGED <<inp, csr, regs, cache, acc, brow>>

\* ------------------------------------------------------------------ operations
StepsOf(f) == IF f \in OpForms THEN MaxSteps ELSE 0
CanOp(k) == pc = "ready" /\ Len(hist) <= StepsOf(inp.form) /\ k \in Ops
Small(M) == \A i \in 1..M.m : \A j \in 1..M.n : Abs2(M.c[i][j]) <= 10000
Push(M, h) == /\ regs' = Append(regs, M)
              /\ hist' = Append(hist, h)
              /\ UNCHANGED <<pc, inp, csr, pend, acc, brow, verdict>>
New == Len(regs) + 1
Scalars == {<<2, 0>>, <<0 - 1, 0>>, <<0, 0>>, <<3, 0>>} \cup (IF inp.dt = "c" THEN {<<0, 1>>, <<1, 0 - 1>>} ELSE {})

DoNeg(a) == CanOp("neg") /\ Push(MNeg(regs[a]), OpRec("neg", a, 0, Z0, <<>>, <<>>, New)) /\ cache' = Append(cache, NoCache)
DoT(a) == CanOp("T") /\ Push(MT(regs[a]), OpRec("T", a, 0, Z0, <<>>, <<>>, New)) /\ cache' = Append(cache, NoCache)
DoScale(a, s) == /\ CanOp("scale") /\ Small(regs[a])
                 /\ Push(MScale(regs[a], s), OpRec("scale", a, 0, s, <<>>, <<>>, New)) /\ cache' = Append(cache, NoCache)
DoDiv(a) == /\ CanOp("div") /\ regs[a].e < MaxE
            /\ Push(MDiv2(regs[a]), OpRec("div", a, 0, <<2, 0>>, <<>>, <<>>, New)) /\ cache' = Append(cache, NoCache)
SameShape(a, b) == regs[a].m = regs[b].m /\ regs[a].n = regs[b].n
DoAdd(a, b) == /\ CanOp("add") /\ SameShape(a, b) /\ Small(regs[a]) /\ Small(regs[b])
               /\ Push(MAdd(regs[a], regs[b]), OpRec("add", a, b, Z0, <<>>, <<>>, New)) /\ cache' = Append(cache, NoCache)
DoSub(a, b) == /\ CanOp("sub") /\ SameShape(a, b) /\ Small(regs[a]) /\ Small(regs[b])
               /\ Push(MSub(regs[a], regs[b]), OpRec("sub", a, b, Z0, <<>>, <<>>, New)) /\ cache' = Append(cache, NoCache)

\* Matrix.submatrix with its one-entry cache
AllTrue(b) == \A k \in 1..Len(b) : b[k]
\* reuse: the caller passes its own persistent mask buffer (one per matrix object), overwritten in place with this selection
DoSubmatrix(a, rows, cols, reuse) ==
    /\ CanOp("submatrix")
    /\ LET M == regs[a]
           c == cache[a]
           \* the cached key as the comparison sees it: its own copy, or the caller's buffer with whatever that holds now
           keyrows == IF ~CacheCopies /\ c.buf THEN (IF reuse THEN rows ELSE c.brows) ELSE c.rows
           keycols == IF ~CacheCopies /\ c.buf THEN (IF reuse THEN cols ELSE c.bcols) ELSE c.cols
           hit == c.valid /\ keyrows = rows /\ keycols = cols
           res == IF AllTrue(rows) /\ AllTrue(cols) THEN M                      \* return self
                  ELSE IF hit THEN c.res                                        \* return self._cached_submatrix
                  ELSE MSelect(M, rows, cols)                                   \* self._submatrix(rows, cols)
           nb == IF reuse THEN [brows |-> rows, bcols |-> cols] ELSE [brows |-> c.brows, bcols |-> c.bcols]
           entry == IF (AllTrue(rows) /\ AllTrue(cols)) \/ hit THEN [c EXCEPT !.brows = nb.brows, !.bcols = nb.bcols]
                    ELSE [valid |-> TRUE, rows |-> rows, cols |-> cols, res |-> res, buf |-> reuse, brows |-> nb.brows, bcols |-> nb.bcols]
       IN /\ Push(res, OpRec(IF reuse THEN "submatrix_reuse" ELSE "submatrix", a, 0, Z0, rows, cols, New))
          /\ cache' = Append([cache EXCEPT ![a] = entry], NoCache)

\* pickle: __reduce__ exports CSR and the unpickler calls assemble_csr on it
DoPickle(a) ==
    /\ CanOp("pickle")
    /\ csr' = CanonCSR(regs[a])
    /\ pend' = a
    /\ pc' = "csr_rowptr"
    /\ UNCHANGED <<inp, regs, cache, acc, brow, hist, verdict>>

OpNeg == \E a \in 1..Len(regs) : DoNeg(a)
OpT == \E a \in 1..Len(regs) : DoT(a)
OpScale == \E a \in 1..Len(regs) : \E s \in Scalars : DoScale(a, s)
OpDiv == \E a \in 1..Len(regs) : DoDiv(a)
OpAdd == \E a \in 1..Len(regs) : \E b \in 1..Len(regs) : DoAdd(a, b)
OpSub == \E a \in 1..Len(regs) : \E b \in 1..Len(regs) : DoSub(a, b)
OpSubmatrix == \E a \in 1..Len(regs) : \E rows \in [1..regs[a].m -> BOOLEAN], cols \in [1..regs[a].n -> BOOLEAN], reuse \in BOOLEAN : DoSubmatrix(a, rows, cols, reuse)
OpPickle == \E a \in 1..Len(regs) : DoPickle(a)

Next == \/ ChooseInput \/ ChoosePattern \/ GenBlock \/ BlockRow \/ BlockFinish \/ Compress
        \/ CheckRowptr \/ CheckColidx \/ CheckOrder \/ BackendAssemble \/ Return
        \/ OpNeg \/ OpT \/ OpScale \/ OpDiv \/ OpAdd \/ OpSub \/ OpSubmatrix \/ OpPickle
Spec == Init /\ [][Next]_vars

\* ------------------------------------------------------------------ the property
InputValid == CASE inp.form \in {"csrwild", "csr"} -> ValidCSR(inp.csr)
                [] inp.form \in CooForms -> ValidCOO(inp.coo)
                [] OTHER -> TRUE
InputReasons == CASE inp.form \in {"csrwild", "csr"} -> CSRReasons(inp.csr)
                  [] inp.form \in CooForms -> COOReasons(inp.coo)
                  [] OTHER -> {}

\* exactly the input that defines a matrix unambiguously is accepted; constructors, block
\* assembly and unpickling never reject
AcceptIffValid == /\ (pend = 0 /\ pc \in {"csr_backend", "csr_done", "ready"}) => InputValid
                  /\ pc = "rejected" => (pend = 0 /\ ~InputValid)
ReasonsIffInvalid == pc \notin {"start", "pattern", "block_gen"} => (InputValid <=> InputReasons = {})

\* whatever reaches the backend is unambiguous CSR data
BackendGetsValid == pc \in {"csr_backend", "csr_done"} => ValidCSR(csr)

\* the assembled object denotes the data it was assembled from
Last(s) == s[Len(s)]
Faithful == pc = "csr_done" => DenotesCSR(csr, Last(regs).c)
FaithfulInput == (pc = "csr_done" /\ pend = 0) =>
                    CASE inp.form \in CsrForms -> DenotesCSR(inp.csr, regs[1].c)
                      [] inp.form \in CooForms -> DenotesCOO(inp.coo, regs[1].c)
                      [] OTHER -> TRUE
\* compress_indices equals searchsorted(arange(length+1))
CompressCorrect == (pc = "csr_rowptr" /\ pend = 0 /\ inp.form \in CooForms) =>
                      /\ Len(csr.rp) = inp.coo.m + 1
                      /\ \A i \in 0..inp.coo.m : csr.rp[i + 1] = Cardinality({k \in 1..Len(inp.coo.ri) : inp.coo.ri[k] < i})

\* block assembly: the merged CSR denotes the block matrix
BlockVal(b, i, j) == LET K == CSRCell(b, i, j) IN IF K = {} THEN Z0 ELSE b.v[CHOOSE k \in K : TRUE]
BlockDense(blk) ==
    LET hs == Tab(Len(blk), LAMBDA r : Len(blk[r][1].rp) - 1)
        m == ISum(hs)
        n == ISum(Tab(Len(blk[1]), LAMBDA c : blk[1][c].n))
        RowBlk(I) == CHOOSE r \in 1..Len(blk) : ISum(SubSeq(hs, 1, r - 1)) < I /\ I <= ISum(SubSeq(hs, 1, r))
        Off(r, c) == ISum(Tab(c - 1, LAMBDA d : blk[r][d].n))
        ColBlk(r, J) == CHOOSE c \in 1..Len(blk[r]) : Off(r, c) < J /\ J <= Off(r, c) + blk[r][c].n
    IN Cells(m, n, LAMBDA I, J : LET r == RowBlk(I)
                                     c == ColBlk(r, J)
                                 IN BlockVal(blk[r][c], I - ISum(SubSeq(hs, 1, r - 1)), J - Off(r, c)))
BlockFaithful == (pc = "csr_done" /\ pend = 0 /\ inp.form = "block") => regs[1].c = BlockDense(inp.blk)

\* unpickling gives back the same matrix
PickleFaithful == (pc = "csr_done" /\ pend > 0) => Last(regs) = regs[pend]

\* the submatrix cache is transparent
CacheTransparent == \A a \in 1..Len(cache) : cache[a].valid => cache[a].res = MSelect(regs[a], cache[a].rows, cache[a].cols)
\* (registers and history entries are never modified, so it suffices to look at the newest
\* one: every prefix of a behaviour is itself a reachable state)
StepsFaithful == \A q \in {Len(hist)} \ {0} :
                    LET h == hist[q] IN
                    CASE h.op \in {"submatrix", "submatrix_reuse"} -> regs[h.r] = (IF AllTrue(h.rows) /\ AllTrue(h.cols) THEN regs[h.a] ELSE MSelect(regs[h.a], h.rows, h.cols))
                      [] h.op = "pickle" -> regs[h.r] = regs[h.a]
                      [] h.op = "sub" -> IsZero(MAdd(regs[h.r], MSub(regs[h.b], regs[h.a])))
                      [] OTHER -> TRUE

\* sanity of the algebra the predictions are computed with (the model is the oracle)
Dot(u, w) == CSum(Tab(Len(u), LAMBDA i : CMul(u[i], w[i])))
Algebra == \A a \in {Len(regs)} \ {0} :
              LET M == regs[a]
                  x == Tab(M.n, LAMBDA j : <<j, 1>>)
                  y == Tab(M.m, LAMBDA i : <<2 - i, i>>)
                  X == Tab(M.n, LAMBDA j : <<x[j], <<1, 0 - j>>>>)
              IN /\ MT(MT(M)) = M
                 /\ IsZero(MAdd(M, MNeg(M)))
                 /\ Norm(M) = M
                 /\ MDiv2(MScale(M, <<2, 0>>)) = M
                 /\ ExportCSROK(CanonCSR(M), M.c)
                 /\ M.m = M.n => Diag(MT(M)) = Diag(M)
                 /\ Dot(y, MatVec(M, x)) = Dot(MatVec(MT(M), y), x)                     \* adjoint identity
                 /\ \A i \in 1..M.m : MatArr(M, X, 2)[i][1] = MatVec(M, x)[i]
                 /\ RowSupp(M, 0) = Tab(M.m, LAMBDA i : CanonCSR(M).rp[i + 1] > CanonCSR(M).rp[i])
TypeOK == /\ Len(cache) = Len(regs)
          /\ \A a \in {Len(regs)} \ {0} : Len(regs[a].c) = regs[a].m /\ \A i \in 1..regs[a].m : Len(regs[a].c[i]) = regs[a].n

\* ------------------------------------------------------------------ emission of behaviours (S->C)
XVec(n, dt) == Tab(n, LAMBDA j : IF dt = "f" THEN <<j, 0>> ELSE <<j, 2 - j>>)
XArr(n, dt) == Tab(n, LAMBDA j : IF dt = "f" THEN <<<<j + 1, 0>>, <<1 - j, 0>>>> ELSE <<<<j + 1, j>>, <<1 - j, 1>>>>)
StepOut(q) == LET h == hist[q]
                  M == regs[h.r]
              IN [op |-> h.op, a |-> h.a, b |-> h.b, s |-> h.s, rows |-> h.rows, cols |-> h.cols, r |-> h.r,
                  asint |-> (q % 2 = 1),
                  pred |-> M,
                  rs0 |-> RowSupp(M, 0), rs1 |-> RowSupp(M, 1),
                  diag |-> IF M.m = M.n THEN Diag(M) ELSE <<>>,
                  x |-> XVec(M.n, inp.dt), mv |-> MatVec(M, XVec(M.n, inp.dt)),
                  xx |-> XArr(M.n, inp.dt), mm |-> MatArr(M, XArr(M.n, inp.dt), 2)]
Common == [form |-> inp.form, dt |-> inp.dt, verdict |-> verdict, reasons |-> InputReasons, steps |-> Tab(Len(hist), StepOut)]
Behaviour == IF inp.form \in CooForms THEN Common @@ [coo |-> inp.coo]
             ELSE IF inp.form = "block" THEN Common @@ [blk |-> inp.blk]
             ELSE Common @@ [csr |-> inp.csr]
Complete == pc = "rejected" \/ (pc = "ready" /\ Len(hist) = StepsOf(inp.form) + 1)
Emit(x) == PrintT(<<"VF", ToJson(x)>>)
EmitBehaviours == Complete => Emit(Behaviour)
=============================================================================
