SPECIFICATION Spec
CONSTANTS
  Args <- ArrayArgs
  CanonOf <- ArrayCanon
  PyOf <- ArrayPy
  KeyMode = "exact"
  MaxOps = 8
  MaxPickles = 1
  Label = "array"
INVARIANT UniqueLive
INVARIANT ExactArgs
INVARIANT SameWhileAlive
INVARIANT TableSound
CONSTRAINT EmitBehaviour
CHECK_DEADLOCK FALSE
