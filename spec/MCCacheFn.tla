---- MODULE MCCacheFn ----
EXTENDS CacheFn
\* initial contents: empty, each strict prefix, complete, complete + trailing junk,
\* short garbage, long garbage (longer than a pickle)
MCInitFiles == {<<>>} \cup {SubSeq(Good(0), 1, k) : k \in 1..PLen}
               \cup {Good(0) \o <<Garbage>>, <<Garbage>>, [i \in 1..(PLen + 1) |-> Garbage]}
MCInitFilesNoGarbage == {<<>>} \cup {SubSeq(Good(0), 1, k) : k \in 1..PLen} \cup {Good(0) \o <<Garbage>>}
====
