\* design mutant: Certify skipped for the named 'direct' solver; Certified must be violated
\* exhaustive: every 2x2 input over the entry sets, every constraint configuration
SPECIFICATION Spec
CONSTANTS
  N = 2
  Ent = {0, 1, 2}
  RhsVals = {0, 1}
  DropTols = {0, 1}
  Kinds = {"solve", "droptol", "project"}
  CertifyDirect = FALSE
  Given = FALSE
  Emitting = FALSE
INVARIANT ConsExact
INVARIANT FreeResidual
INVARIANT IndepOfGuess
INVARIANT SingularRaises
INVARIANT NaNExact
INVARIANT Certified
INVARIANT NoSpuriousFailure
INVARIANT NoSilent
INVARIANT DenNonZero
CHECK_DEADLOCK FALSE
