\* quick, exhaustive: every mesh of <= 3 segments / triangles on 5 vertices; std, lagrange, bernstein, bubble, discont
SPECIFICATION Spec
CONSTANTS
  MaxV = 5
  MaxSimp = 3
  DimSet <- Dims_12
  BuildSet <- Builds_quick
  AnyOrder = FALSE
  Mutant = "none"
INVARIANT TypeOK
INVARIANT InvInverse
INVARIANT InvNoDead
INVARIANT InvSupportShares
INVARIANT InvVertexCount
INVARIANT EmitState
CHECK_DEADLOCK FALSE
