\* quick, exhaustive, one TLC run = asm + ops1 + block:
\*  - every CSR/COO input within the Wild bounds (well-formed or not), every small well-formed CSR/COO
\*    input, the constructors empty/diag/eye, all block layouts of at most 2x2 blocks of at most 1x1
\*  - every single operation on every well-formed CSR-assembled matrix (OpForms)
SPECIFICATION Spec
CONSTANTS
  Forms = {"csrwild", "coowild", "csr", "coo", "empty", "diag", "eye", "block"}
  Shapes <- Shapes2
  MinNnz = 0
  MaxNnz = 4
  WildM = 2
  WildN = 2
  WildCooN = 1
  WildNnz = 2
  BlockHeights = {0, 1}
  BlockWidths = {0, 1}
  MaxBlockRows = 2
  MaxBlockCols = 2
  MaxBlockNnz = 1
  Dtypes = {"f", "c"}
  WildDtypes = {"f"}
  Ops = {"neg", "T", "scale", "div", "add", "sub", "submatrix", "pickle"}
  OpForms = {"csr"}
  MaxSteps = 1
  MaxE = 2
  StrictOrder = TRUE
  LowerBound = TRUE
  CacheCopies = TRUE
INVARIANT TypeOK
INVARIANT AcceptIffValid
INVARIANT ReasonsIffInvalid
INVARIANT BackendGetsValid
INVARIANT Faithful
INVARIANT FaithfulInput
INVARIANT CompressCorrect
INVARIANT BlockFaithful
INVARIANT PickleFaithful
INVARIANT CacheTransparent
INVARIANT StepsFaithful
INVARIANT Algebra
INVARIANT EmitBehaviours
CHECK_DEADLOCK FALSE
