----------------------------- MODULE TopoEval -----------------------------
(***************************************************************************)
(* C10, S->C binding: the behaviours of Topo that the harness selected for  *)
(* replay (env VF_TRACE = JSON list of [base, L, hist]) are stepped through *)
(* the SAME actions of the design spec (Topo!Step) and after every step the *)
(* model's prediction of everything the property observes is emitted:      *)
(*   cells   per element: key <<lv, ix, hf>>, twice the measure, 6 x the    *)
(*           first moments (atom units)                                    *)
(*   bd      whether the implementation offers boundary / interfaces here  *)
(*   B       boundary facet atoms [p, n]                                   *)
(*   I       interior facet atoms [p, n, a, b] (a: cell the normal leaves)  *)
(*   after a trim also the complement (ccells, cB, cI) and the shared cut   *)
(*   (cut: facets of the trimmed part with its outward normal)             *)
(* The design invariants are checked again in every state of the replayed  *)
(* behaviours.  The harness rebuilds each behaviour with real nutils        *)
(* topologies and compares after every step; the model decides.            *)
(***************************************************************************)
EXTENDS Topo, Json, IOUtils

Cases == JsonDeserialize(IOEnv.VF_TRACE)
VARIABLES cid, k
evars == <<base, cells, comp, st, sg, hist, cid, k>>

SeqSet(s) == {s[i] : i \in 1..Len(s)}
FixOp(o) == [op |-> o.op, a |-> o.a, S |-> SeqSet(o.S), T |-> SeqSet(o.T)]

\* o is an operation the design spec can take in the current state (OpsFor without the size bounds)
OpValid(o) ==
    CASE o.op = "refine" -> KeysRef = KeysAll /\ st # "MX"
      [] o.op = "refspace" -> st = "M" /\ \A c \in cells : CanRefine(c, {o.a[1]})
      [] o.op = "refby" -> ~IsMul /\ o.S # {} /\ o.S \subseteq KeysRef
      [] o.op = "hierand" -> ~IsMul /\ o.S # {} /\ o.T # {} /\ o.S # o.T /\ (o.S \cup o.T) \subseteq KeysRef
      [] o.op = "take" -> o.S # {} /\ o.S \subseteq KeysAll /\ o.S # KeysAll
      [] o.op \in {"select", "remove"} -> ~IsMul /\ o.S # {} /\ o.S \subseteq KeysAll /\ o.S # KeysAll
      [] o.op = "union" -> ~IsMul /\ o.S # {} /\ o.T # {} /\ o.S # o.T /\ (o.S \cup o.T) \subseteq KeysAll /\ o.a[1] \in {0, 1}
      [] o.op = "slice" -> /\ st \in {"S", "H", "M"} /\ o.a[1] \in Dirs
                           /\ 0 <= o.a[2] /\ o.a[2] < o.a[3] /\ o.a[3] <= sg.n[o.a[1]]
                           /\ ~(o.a[2] = 0 /\ o.a[3] = sg.n[o.a[1]])
                           /\ \E c \in cells : SliceKeeps(c, o.a[1], o.a[2], o.a[3])
      [] o.op = "trim" -> /\ ~IsMul /\ o.a[1] \in Dirs /\ o.a[2] \in 1..(NAtoms(o.a[1]) - 1) /\ o.a[3] \in {1, -1}
                          /\ o.a[4] \in 0..3
                          /\ TrimCells(cells, o.a[1], o.a[2], o.a[3], o.a[4]) # {}
                          /\ \A z \in cells : TrimOK(z, o.a[1], o.a[2], o.a[4])
      [] o.op = "trim2" -> /\ ~IsMul /\ Dim = 2 /\ ~base.tri /\ Len(o.a) = 6
                           /\ o.a[1] \in 1..(NAtoms(1) - 1) /\ o.a[3] \in 1..(NAtoms(2) - 1)
                           /\ o.a[2] \in {1, -1} /\ o.a[4] \in {1, -1} /\ o.a[5] \in 0..3 /\ o.a[6] \in {0, 1}
                           /\ \A z \in cells : Trim2OK(z, o.a)
                           /\ Trim2Cells(cells, o.a) # {} /\ Trim2Comp(cells, o.a) # {}
      [] OTHER -> FALSE

EInit == /\ cid \in 1..Len(Cases)
         /\ k = 0
         /\ base = BaseRec(Cases[cid].base, Cases[cid].L)
         /\ cells = BaseCells
         /\ comp = {}
         /\ st = base.st
         /\ sg = [lv |-> Zeros, o |-> Zeros, n |-> base.n]
         /\ hist = <<>>
ENext == /\ k < Len(Cases[cid].hist)
         /\ LET o == FixOp(Cases[cid].hist[k + 1])
            IN /\ OpValid(o)                   \* the behaviour must be one of the design spec
               /\ Step(o)
         /\ k' = k + 1
         /\ cid' = cid
ESpec == EInit /\ [][ENext]_evars

Emit(x) == PrintT(<<"VF", ToJson(x)>>)
EmitPrediction == Emit([cid |-> cid, k |-> k, pred |-> Prediction])
EvalOps == OpNames
EvalRef == 0..3
=============================================================================
