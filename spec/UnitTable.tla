----------------------------- MODULE UnitTable -----------------------------
(***************************************************************************)
(* C20 (T): the LIVE SI.units dict, exported by the harness as JSON (one   *)
(* row per key: characters of the key, powers of the class of the value,   *)
(* value in reference units as decimal digits * 10^e), checked against the *)
(* dict the model builds by replaying the definitions (level I, which      *)
(* UnitMachine!TableSound ties to the physical table, level A): same keys, *)
(* same dimension, same value; hence every prefixed key is the unit scaled *)
(* by its prefix and no key has two readings.                              *)
(***************************************************************************)
EXTENDS SITables, Json, IOUtils

VARIABLE bad
T == JsonDeserialize(IOEnv.VF_TABLE)
ValDigits(v) == IF v.big # <<>> THEN <<v.big, v.e>> ELSE <<Digits(v.n), v.e>>
Why(U, r) == IF r.key \notin DOMAIN U THEN "not-in-model"
             ELSE IF U[r.key].pw # r.pw THEN "wrong-dimension"
             ELSE IF IsBad(U[r.key].val) \/ U[r.key].val.d # 1 \/ U[r.key].val.n < 0 \/ ValDigits(U[r.key].val) # <<r.mant, r.e>> THEN "wrong-value"
             ELSE "ok"
\* (the file is read once, the dict built once)
Check(U, R) == LET why == [i \in 1..Len(R) |-> Why(U, R[i])]
               IN [rows |-> {[key |-> R[i].key, why |-> why[i]] : i \in {j \in 1..Len(R) : why[j] # "ok"}},
                   missing |-> DOMAIN U \ {R[i].key : i \in 1..Len(R)}, n |-> Len(R)]
TInit == bad = Check(TLCEval(Build(EmptyUnits, 1)), TLCEval(T))
TNext == UNCHANGED bad
TSpec == TInit /\ [][TNext]_bad
TEmit == PrintT(<<"VF", ToJson(bad)>>)
TableOK == bad.rows = {} /\ bad.missing = {}
=============================================================================
