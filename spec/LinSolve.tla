------------------------------ MODULE LinSolve ------------------------------
(***************************************************************************)
(* Design specification of constraint handling in linear solves (C14):     *)
(*   Matrix.solve          src/nutils/matrix/_base.py:100-176              *)
(*   System.solve_constraints (droptol)   src/nutils/solver.py:560-612     *)
(* in EXACT arithmetic: matrices and vectors have small integer entries,   *)
(* the solution of the reduced system is the rational vector num / den     *)
(* obtained by Cramer's rule (den = det of the free block).                *)
(*                                                                         *)
(* One action per step of Matrix.solve:                                    *)
(*   Start     lhs0 is constrain is rconstrain is None -> straight _solver *)
(*   InitLhs   lhs = zeros or lhs0                                         *)
(*   ColCons   J = free columns; float constrain: lhs[~J] = constrain[~J]  *)
(*   RowCons   I = J, or ~rconstrain                                       *)
(*   Reduce    B = A[I,J], r = (rhs - A lhs)[I]; B must be square          *)
(*   SubSolve  _solver entry: |r| <= atol -> zeros (no factorisation)       *)
(*   Method    the named solver with the named preconditioner:             *)
(*             precon "direct" (LU): det B = 0 -> MatrixError, else the    *)
(*             exact dx = B^-1 r (solver "direct" applies it once, solver  *)
(*             "arnoldi" converges in its first Krylov step);              *)
(*             precon "diag": zero diagonal entry -> MatrixError; solver   *)
(*             "direct" returns the INEXACT dx = D^-1 r; "arnoldi" returns *)
(*             the exact answer or stalls at any iterate (nondeterministic)*)
(*   Certify   resnorm = |r - B dx|; atol > 0 and not resnorm <= atol ->   *)
(*             ToleranceNotReached                                         *)
(*   Update    lhs[J] += dx; return                                        *)
(* and for solve_constraints (kind "droptol") and the lsqr branch of        *)
(* Topology.project (kind "project", src/nutils/topology.py:466-495):      *)
(* DropPattern (the free set from the drop tolerance) in front, and the    *)
(* NaN marking of the dropped entries in Update.                           *)
(*                                                                         *)
(* Properties (invariants): constrained entries are exactly the prescribed *)
(* values, the free equations hold exactly, the result does not depend on  *)
(* the initial guess lhs0, a singular free block with a nonzero reduced    *)
(* right hand side raises, and solve_constraints leaves NaN exactly in the *)
(* entries whose column influence is at most droptol.                      *)
(***************************************************************************)
EXTENDS Integers, Sequences, FiniteSets, TLC, Json, IOUtils

CONSTANTS N,         \* dimension (1..3)
          Ent,       \* matrix entries
          RhsVals,   \* right hand side entries
          DropTols,  \* drop tolerances (entries with |a| <= droptol are "no influence")
          Kinds,     \* subset of {"solve", "droptol", "project"}
          CertifyDirect, \* TRUE: as the code is; FALSE: design mutant that trusts the "direct" solver and skips Certify for it
          Given,     \* TRUE: the inputs are the records of the JSON file IOEnv.VF_TABLE (chosen by the harness,
                     \*       any lhs0 / constraint values), FALSE: all inputs over Ent / RhsVals
          Emitting

VARIABLES inp, pc, lhs, J, I, red, sol, outcome, out

vars == <<inp, pc, lhs, J, I, red, sol, outcome, out>>

Idx == 1..N
Vec(S) == [Idx -> S]
Masks == [Idx -> BOOLEAN]
CVfix == [j \in Idx |-> IF j = 1 THEN 3 ELSE IF j = 2 THEN -2 ELSE 1]    \* values of a float constrain vector (exhaustive inputs)
L0 == [j \in Idx |-> IF j = 1 THEN 2 ELSE IF j = 2 THEN -1 ELSE 4]    \* the initial guess of the exhaustive inputs
Zero == [j \in Idx |-> 0]
AllFree == [j \in Idx |-> FALSE]
Abs(x) == IF x < 0 THEN -x ELSE x
Count(m) == Cardinality({j \in Idx : m[j]})
IdxSeq(m) == SelectSeq([i \in Idx |-> i], LAMBDA i : m[i])
Dot(a, b) == LET S[k \in 0..N] == IF k = 0 THEN 0 ELSE S[k - 1] + a[k] * b[k] IN S[N]

Det(M, k) == CASE k = 0 -> 1
               [] k = 1 -> M[1][1]
               [] k = 2 -> M[1][1] * M[2][2] - M[1][2] * M[2][1]
               [] k = 3 -> M[1][1] * (M[2][2] * M[3][3] - M[2][3] * M[3][2])
                         - M[1][2] * (M[2][1] * M[3][3] - M[2][3] * M[3][1])
                         + M[1][3] * (M[2][1] * M[3][2] - M[2][2] * M[3][1])
ReplaceCol(M, k, j, r) == [i \in 1..k |-> [c \in 1..k |-> IF c = j THEN r[i] ELSE M[i][c]]]
\* B x = r  =>  x[j] = Cramer(B, k, r)[j] / Det(B, k)
Cramer(B, k, r) == [j \in 1..k |-> Det(ReplaceCol(B, k, j, r), k)]

\* reduced system for free rows rows / free columns cols around the vector v
Block(A, rows, cols) == LET ri == IdxSeq(rows) ci == IdxSeq(cols)
                        IN [i \in 1..Len(ri) |-> [j \in 1..Len(ci) |-> A[ri[i]][ci[j]]]]
RedRhs(A, b, v, rows) == LET ri == IdxSeq(rows) IN [i \in 1..Len(ri) |-> b[ri[i]] - Dot(A[ri[i]], v)]

\* ------------------------------------------------------------------ inputs
\* constraint configurations of Matrix.solve, canonical forms only (unused fields are all-FALSE;
\* rconstrain requires a boolean constrain)
SolveCons == {c \in [ck : {"none", "bool", "float"}, cm : Masks, rk : BOOLEAN, rm : Masks] :
                 /\ (c.ck = "none" => c.cm = AllFree) /\ (c.rk => c.ck = "bool") /\ (~c.rk => c.rm = AllFree)}
Methods == {<<"direct", "direct", 0>>, <<"direct", "diag", 0>>, <<"direct", "diag", 1>>, <<"direct", "diag", 2>>,
            <<"arnoldi", "direct", 1>>, <<"arnoldi", "diag", 1>>, <<"direct", "direct", 2>>}
SolveInput(a, b, h, c, m) == [kind |-> "solve", A |-> a, b |-> b, hasl0 |-> h, l0 |-> IF h THEN L0 ELSE Zero,
                           ck |-> c.ck, cm |-> c.cm, rk |-> c.rk, rm |-> c.rm, dtol |-> 0, solver |-> m[1], precon |-> m[2], atol |-> m[3]]
\* solve_constraints: symmetric matrix, prior float constraints cm (values CV), no initial guess
Sym(a) == [i \in Idx |-> [j \in Idx |-> IF i <= j THEN a[i][j] ELSE a[j][i]]]
DropInput(kind, a, b, cm, d) == [kind |-> kind, A |-> Sym(a), b |-> b, hasl0 |-> FALSE, l0 |-> Zero, ck |-> "float", cm |-> cm,
                           rk |-> FALSE, rm |-> AllFree, dtol |-> d, solver |-> "direct", precon |-> "direct", atol |-> 0]
\* inputs handed in by the harness (JSON via the environment): same record shape
GivenInputs == IF Given THEN JsonDeserialize(IOEnv.VF_TABLE) ELSE <<>>

CV == IF Given THEN inp.cv ELSE CVfix
NoRed == [k |-> 0, B |-> <<>>, r |-> <<>>, square |-> TRUE]
NoSol == [num |-> <<>>, den |-> 1, short |-> FALSE, exact |-> TRUE]
NoOut == [num |-> Zero, den |-> 1, nan |-> AllFree]

Init == /\ pc = "enter"
        /\ IF Given
           THEN \E n \in 1..Len(GivenInputs) : inp = GivenInputs[n]
           ELSE \/ "solve" \in Kinds /\ \E a \in [Idx -> Vec(Ent)], b \in Vec(RhsVals), h \in BOOLEAN, c \in SolveCons, m \in Methods : inp = SolveInput(a, b, h, c, m)
                \/ \E kind \in Kinds \ {"solve"}, a \in [Idx -> Vec(Ent)], b \in Vec(RhsVals), cm \in Masks, d \in DropTols :
                      a = Sym(a) /\ inp = DropInput(kind, a, b, cm, d)
        /\ lhs = Zero /\ J = AllFree /\ I = AllFree /\ red = NoRed /\ sol = NoSol
        /\ outcome = "none" /\ out = NoOut

\* prescribed value of a constrained column
Prescribed(j) == IF inp.ck = "float" THEN CV[j] ELSE IF inp.hasl0 THEN inp.l0[j] ELSE 0
\* free columns before solve_constraints applies the drop tolerance
PriorFree == [j \in Idx |-> ~inp.cm[j]]
\* solve_constraints: column j of the free block has an entry above droptol
\* Topology.project: N = A.rowsupp(droptol) looks at the whole (symmetric) matrix, not only at the free block
Influence(j) == \E i \in Idx : (inp.kind = "project" \/ PriorFree[i]) /\ Abs(inp.A[i][j]) > inp.dtol

Enter == /\ pc = "enter"
         /\ pc' = IF inp.kind = "solve" THEN "start" ELSE "droppattern"
         /\ UNCHANGED <<inp, lhs, J, I, red, sol, outcome, out>>

\* mycons = ones; mycons[colidx[abs(data) > droptol]] = False   (on the free block of the prior constraints);
\* here expressed on full vectors: an entry stays free iff it was free and has influence
DropPattern == /\ pc = "droppattern"
               /\ lhs' = [j \in Idx |-> IF inp.cm[j] THEN CV[j] ELSE 0]     \* deconstruct: prescribed values, free x = 0
               /\ J' = [j \in Idx |-> PriorFree[j] /\ Influence(j)]
               /\ pc' = "rowcons"
               /\ UNCHANGED <<inp, I, red, sol, outcome, out>>

Start == /\ pc = "start"
         /\ IF ~inp.hasl0 /\ inp.ck = "none" /\ ~inp.rk
            THEN lhs' = Zero /\ J' = [j \in Idx |-> TRUE] /\ I' = [j \in Idx |-> TRUE] /\ pc' = "reduce"
            ELSE pc' = "initlhs" /\ UNCHANGED <<lhs, J, I>>
         /\ UNCHANGED <<inp, red, sol, outcome, out>>

InitLhs == /\ pc = "initlhs"
           /\ lhs' = IF inp.hasl0 THEN inp.l0 ELSE Zero
           /\ pc' = "colcons"
           /\ UNCHANGED <<inp, J, I, red, sol, outcome, out>>

ColCons == /\ pc = "colcons"
           /\ J' = [j \in Idx |-> ~inp.cm[j]]
           /\ lhs' = IF inp.ck = "float" THEN [j \in Idx |-> IF inp.cm[j] THEN CV[j] ELSE lhs[j]] ELSE lhs
           /\ pc' = "rowcons"
           /\ UNCHANGED <<inp, I, red, sol, outcome, out>>

RowCons == /\ pc = "rowcons"
           /\ I' = IF inp.rk THEN [i \in Idx |-> ~inp.rm[i]] ELSE J
           /\ pc' = "reduce"
           /\ UNCHANGED <<inp, lhs, J, red, sol, outcome, out>>

Reduce == /\ pc = "reduce"
          /\ IF Count(I) # Count(J)
             THEN outcome' = "MatrixError" /\ pc' = "done" /\ UNCHANGED red       \* constrained matrix is not square
             ELSE /\ red' = [k |-> Count(J), B |-> Block(inp.A, I, J), r |-> RedRhs(inp.A, inp.b, lhs, I), square |-> TRUE]
                  /\ pc' = "subsolve" /\ UNCHANGED outcome
          /\ UNCHANGED <<inp, lhs, J, I, sol, out>>

\* squared Euclidean norm of an integer vector of length k
Norm2(v, k) == LET S[i \in 0..k] == IF i = 0 THEN 0 ELSE S[i - 1] + v[i] * v[i] IN S[k]
\* numerator of the residual r - B (num / den) over the common denominator den
ResNum(B, k, r, num, den) == [i \in 1..k |-> r[i] * den - (LET S[c \in 0..k] == IF c = 0 THEN 0 ELSE S[c - 1] + B[i][c] * num[c] IN S[k])]
DiagProd(B, k, skip) == LET P[i \in 0..k] == IF i = 0 THEN 1 ELSE P[i - 1] * (IF i = skip THEN 1 ELSE B[i][i]) IN P[k]

\* _solver entry: rhsnorm <= atol -> zeros without touching the solver (for atol = 0: only the zero right hand side)
SubSolve == /\ pc = "subsolve"
            /\ IF Norm2(red.r, red.k) <= inp.atol * inp.atol
               THEN sol' = [num |-> [i \in 1..red.k |-> 0], den |-> 1, short |-> TRUE, exact |-> \A i \in 1..red.k : red.r[i] = 0]
                    /\ pc' = "update"
               ELSE pc' = "method" /\ UNCHANGED sol
            /\ UNCHANGED <<inp, lhs, J, I, red, outcome, out>>

ExactSol == [num |-> Cramer(red.B, red.k, red.r), den |-> Det(red.B, red.k), short |-> FALSE, exact |-> TRUE]
DiagSol == [num |-> [i \in 1..red.k |-> red.r[i] * DiagProd(red.B, red.k, i)], den |-> DiagProd(red.B, red.k, 0), short |-> FALSE,
            exact |-> \A i, j \in 1..red.k : i # j => red.B[i][j] = 0]
StallSol == [num |-> [i \in 1..red.k |-> 0], den |-> 1, short |-> FALSE, exact |-> FALSE]

\* the named solver method with the named preconditioner
Method == /\ pc = "method"
          /\ IF inp.precon = "direct"
             THEN IF Det(red.B, red.k) = 0
                  THEN outcome' = "MatrixError" /\ pc' = "done" /\ UNCHANGED sol
                  ELSE sol' = ExactSol /\ pc' = "certify" /\ UNCHANGED outcome
             ELSE IF \E i \in 1..red.k : red.B[i][i] = 0
                  THEN outcome' = "MatrixError" /\ pc' = "done" /\ UNCHANGED sol           \* 'diag' preconditioner: diagonal has zero entries
                  ELSE /\ \/ inp.solver = "direct" /\ sol' = DiagSol
                          \/ inp.solver = "arnoldi" /\ Det(red.B, red.k) # 0 /\ sol' = ExactSol
                          \/ inp.solver = "arnoldi" /\ sol' = StallSol                      \* Krylov iteration broke down / stalled
                       /\ pc' = "certify" /\ UNCHANGED outcome
          /\ UNCHANGED <<inp, lhs, J, I, red, out>>

\* a-posteriori certification of whatever the method returned
Certify == /\ pc = "certify"
           /\ LET res == ResNum(red.B, red.k, red.r, sol.num, sol.den)
                  toobig == Norm2(res, red.k) > inp.atol * inp.atol * sol.den * sol.den
              IN IF inp.atol > 0 /\ toobig /\ (CertifyDirect \/ inp.solver # "direct")
                 THEN outcome' = "ToleranceNotReached" /\ pc' = "done"
                 ELSE pc' = "update" /\ UNCHANGED outcome
           /\ UNCHANGED <<inp, lhs, J, I, red, sol, out>>

\* position of free column j among the free columns
Pos(j) == Cardinality({c \in Idx : J[c] /\ c <= j})

Update == /\ pc = "update"
          /\ LET num == [j \in Idx |-> IF J[j] THEN lhs[j] * sol.den + sol.num[Pos(j)] ELSE lhs[j] * sol.den]
             IN IF inp.kind # "solve"
                \* dx = -jac.solve(res, constrain=mycons) with res = A x - b; x += dx; x[mycons] = nan
                \* (the reduced rhs above is b - A lhs = -res, so lhs + solve(-res) is x + dx)
                THEN out' = [num |-> num, den |-> sol.den, nan |-> [j \in Idx |-> PriorFree[j] /\ ~J[j]]]
                ELSE out' = [num |-> num, den |-> sol.den, nan |-> AllFree]
          /\ outcome' = "return" /\ pc' = "done"
          /\ UNCHANGED <<inp, lhs, J, I, red, sol>>

Next == Enter \/ DropPattern \/ Start \/ InitLhs \/ ColCons \/ RowCons \/ Reduce \/ SubSolve \/ Method \/ Certify \/ Update
Spec == Init /\ [][Next]_vars

\* ------------------------------------------------------------------ properties
Returned == pc = "done" /\ outcome = "return"
\* constrained entries exactly equal to their prescribed values
ConsExact == Returned => \A j \in Idx : (inp.ck # "none" /\ inp.cm[j]) => out.num[j] = Prescribed(j) * out.den
\* the free equations hold exactly (rows I; entries left NaN by solve_constraints count as 0 = not participating)
FreeResidual == (Returned /\ sol.exact) => \A i \in Idx : I[i] =>
                   Dot(inp.A[i], [j \in Idx |-> IF out.nan[j] THEN 0 ELSE out.num[j]]) = inp.b[i] * out.den
\* whatever the method: with a requested tolerance the returned free residual is within it (this is what Certify is for)
OutRes == [i \in Idx |-> IF I[i] THEN inp.b[i] * out.den - Dot(inp.A[i], [j \in Idx |-> IF out.nan[j] THEN 0 ELSE out.num[j]]) ELSE 0]
Certified == (Returned /\ inp.atol > 0) => Norm2(OutRes, N) <= inp.atol * inp.atol * out.den * out.den
\* an exact method on a regular block never fails the tolerance
NoSpuriousFailure == outcome = "ToleranceNotReached" => ~sol.exact
\* for a regular free block the answer is the one obtained without any initial guess
RefVec == [j \in Idx |-> IF inp.ck # "none" /\ inp.cm[j] THEN Prescribed(j) ELSE 0]
IndepOfGuess == (Returned /\ inp.kind = "solve" /\ sol.exact) =>
                   LET k == Count(J) B == Block(inp.A, I, J) d == Det(B, k)
                       x == Cramer(B, k, RedRhs(inp.A, inp.b, RefVec, I))
                   IN d # 0 => \A j \in Idx : J[j] => out.num[j] * d = x[Pos(j)] * out.den
\* a singular free block with a nonzero reduced right hand side never returns
SingularRaises == (Returned /\ sol.exact) => (sol.short \/ Det(red.B, red.k) # 0)
\* solve_constraints: NaN exactly where the influence on the functional is at most droptol
NaNExact == (Returned /\ inp.kind # "solve") =>
               \A j \in Idx : out.nan[j] <=> (PriorFree[j] /\ \A i \in Idx : (inp.kind = "project" \/ PriorFree[i]) => Abs(inp.A[i][j]) <= inp.dtol)
NoSilent == outcome \in {"none", "return", "MatrixError", "ToleranceNotReached"}
DenNonZero == out.den # 0 /\ sol.den # 0

Emit(x) == PrintT(<<"VF", ToJson(x)>>)
Rows(a) == [i \in Idx |-> [j \in Idx |-> a[i][j]]]
EmitTerminal == (Emitting /\ pc = "done") =>
                   Emit([inp |-> [inp EXCEPT !.A = Rows(inp.A)], outcome |-> outcome, num |-> out.num, den |-> out.den, nan |-> out.nan,
                         cv |-> CV, short |-> sol.short, exact |-> sol.exact,
                         \* squared residual norm of the method's answer and the squared tolerance over the same denominator (an exact tie is
                         \* decided by floating-point rounding in the code: the harness does not judge it)
                         res2 |-> IF red.k > 0 /\ Len(sol.num) = red.k THEN Norm2(ResNum(red.B, red.k, red.r, sol.num, sol.den), red.k) ELSE 0,
                         bound2 |-> inp.atol * inp.atol * sol.den * sol.den, k |-> red.k, detB |-> IF red.k > 0 /\ red.B # <<>> THEN Det(red.B, red.k) ELSE 1,
                         free |-> J, rows |-> I])
=============================================================================
