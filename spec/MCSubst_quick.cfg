\* quick, exhaustive: the families of MCSubst!QuickFamilies
SPECIFICATION Spec
CONSTANTS
  Families <- QuickFamilies
  Mutant = "none"
INVARIANT ShapeSound
INVARIANT FvSound
INVARIANT ReplaceIdNoop
INVARIANT SubstLemma
INVARIANT ChainTwoStep
INVARIANT SwapTwice
INVARIANT LinLinear
INVARIANT LinIsDerivContracted
INVARIANT FactorIdentity
INVARIANT FactorIdempotent
INVARIANT RejectSound
CONSTRAINT EmitDone
CONSTRAINT EmitTables
CHECK_DEADLOCK FALSE
