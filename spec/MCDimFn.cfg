SPECIFICATION Spec
CONSTANTS
  BaseOrd <- MCBaseOrd4
  Inits <- MCInitsQuick
  InitCache <- MCInitCache
  OtherDims <- MCOtherDims
  MaxSteps = 2
CONSTRAINT Emit
INVARIANT TypeOK
INVARIANT CacheSound
INVARIANT Sound
CHECK_DEADLOCK FALSE
