---------------------------- MODULE MCExprParse ----------------------------
(* model-checking vocabularies for ExprParse (C19); the harness selects families by name through a
   generated module that defines VFFams *)
EXTENDS ExprParse
None == {}
AllWraps == {"scope", "jump", "mean"}
AllMuts == {"unknown", "index-count", "index-symbol", "number-position", "repeated-power", "repeated-fraction", "misplaced-minus"}
AllCors == {"del-bracket", "swap-close", "del-op-space", "pow-space-before", "pow-space-after", "call-space", "index-space", "trailing-op"}
IJ == {"i", "j"}
IJK == {"i", "j", "k"}
W2 == {"scope", "jump"}
\* two leaves, two productions: scalars, a vector, a 2x3 matrix, a pointwise and a generating function
FamCore == [Fam(2, 2, 2, {"c", "a", "B"}, {"2"}, {"g"}, IJ, IJ, {"2", "-1"}, W2, None, None, None) EXCEPT !.PK = TRUE]
FamCore0 == [Fam(2, 2, 2, {"c", "a", "B"}, {"2"}, {"sqr", "g"}, {"i", "j", "0"}, IJ, {"2", "-1"}, AllWraps, None, None, None) EXCEPT !.PK = TRUE]
\* every rule-breaking constructor / every token corruption and the whitespace style, small vocabulary
FamMut == Fam(2, 1, 2, {"c", "a"}, {"2"}, {"g"}, {"i"}, {"i"}, {"2"}, {"scope"}, AllMuts, None, None)
FamMut2 == Fam(2, 2, 2, {"c", "a"}, {"2"}, {"g"}, {"i"}, {"i"}, {"2"}, {"scope"}, AllMuts, None, None)
FamMut3 == Fam(3, 2, 3, {"c"}, {"2"}, None, None, None, {"2"}, None, {"number-position", "repeated-power", "repeated-fraction", "misplaced-minus"}, None, None)
FamCor == [Fam(2, 1, 2, {"c", "a"}, {"2"}, {"g"}, {"i"}, {"i"}, {"2"}, {"mean"}, None, AllCors, {1}) EXCEPT !.PK = TRUE]
FamCor2 == [Fam(2, 2, 2, {"c", "a"}, {"2"}, {"g"}, {"i"}, {"i"}, {"2"}, {"mean"}, None, AllCors, {1}) EXCEPT !.PK = TRUE]
\* one leaf: numerals, traces, selections on arrays of rank 1..3
FamRank3 == [Fam(1, 2, 1, {"A", "B", "T", "u"}, None, None, {"i", "j", "k", "0", "2"}, None, {"2"}, W2, None, None, None) EXCEPT !.PK = TRUE]
\* one leaf, one call: generated axes with numerals, traced with the argument's axes
FamGen == [Fam(1, 1, 1, {"A", "B", "T", "u"}, None, {"g", "h", "G"}, IJK, {"i", "j", "k", "0", "1"}, None, None, None, None, None) EXCEPT !.PK = TRUE]
\* two leaves of rank 3 (and 2): transposition to the first term's order, products with several common indices
FamPerm == [Fam(2, 1, 2, {"T"}, None, None, IJK, None, None, None, None, None, None) EXCEPT !.PK = TRUE]
FamPerm2 == [Fam(2, 1, 2, {"T", "A"}, None, {"G"}, IJK, IJK, None, None, None, None, None) EXCEPT !.PK = TRUE]
\* three leaves, only trees that follow the rules
FamThreeV == [Fam(3, 3, 3, {"a", "B"}, None, {"g"}, IJ, {"j"}, {"2"}, {"jump"}, None, None, None) EXCEPT !.VO = TRUE]
\* three leaves over a vector and a square matrix with one letter: summed-index bookkeeping across sums, fractions, powers
FamSummed == [Fam(3, 2, 3, {"c", "a", "A"}, None, None, {"i"}, None, None, {"scope"}, None, None, None) EXCEPT !.PK = TRUE]
FamSummed3 == [Fam(3, 3, 3, {"c", "a", "A"}, None, None, {"i"}, None, None, {"scope"}, None, None, None) EXCEPT !.PK = TRUE]
\* three leaves
FamThree == [Fam(3, 3, 3, {"c", "a"}, None, {"g"}, IJ, {"i"}, {"2"}, {"scope"}, None, None, None) EXCEPT !.PK = TRUE]
\* random walks: a narrow index alphabet (many valid trees), the wide one, rule breakers, corruptions
SimNums == {"2", "3", "10", "0.5", ".5", "1.5", "0"}
SimExps == {"2", "3", "-1", "-2", "0"}
SimFuncs == {"sqr", "abs", "opposite", "g", "h", "G"}
FamSimV == Fam(4, 6, 3, {"c", "e", "a", "b", "A", "B", "u"}, SimNums, SimFuncs, {"i", "j", "0"}, {"i", "j", "1"}, SimExps, AllWraps, None, None, {1})
FamSimW == Fam(4, 6, 3, {"c", "e", "a", "b", "u", "A", "B", "T"}, SimNums, SimFuncs, {"i", "j", "k", "0", "1", "2"}, {"i", "j", "k", "0", "1"}, SimExps, AllWraps, None, None, {1})
FamSimVO == [FamSimV EXCEPT !.VO = TRUE]
FamSimWO == [FamSimW EXCEPT !.VO = TRUE]
FamSimM == Fam(4, 6, 3, {"c", "a", "b", "A"}, {"2", "0.5"}, {"sqr", "g", "h"}, {"i", "j", "0"}, {"i", "j"}, {"2", "-1"}, AllWraps, AllMuts, None, None)
FamSimC == Fam(4, 6, 3, {"c", "a", "b", "A"}, {"2", "0.5"}, {"sqr", "g", "h"}, {"i", "j", "0"}, {"i", "j"}, {"2", "-1"}, AllWraps, None, AllCors, None)
\* version 1 only: dirac and indexed numbers, lengths deduced through terms, sums, traces
FamV1 == [Fam(2, 2, 2, {"a", "u", "A"}, {"2"}, None, IJ, None, {"2"}, {"scope"}, None, None, None) EXCEPT !.X = {"DELTA", "cix"}, !.PK = TRUE]
FamV1b == [Fam(3, 2, 3, {"a"}, {"2"}, None, IJ, None, None, None, None, None, None) EXCEPT !.X = {"$", "cix"}, !.PK = TRUE]
FamV1q == [Fam(2, 2, 2, {"a", "u"}, {"2"}, None, IJ, None, None, None, None, None, None) EXCEPT !.X = {"$", "cix"}, !.PK = TRUE]
\* every action enabled, tiny: the per-action coverage (vacuity guard) of the bare machine
FamCov == [Fam(2, 1, 2, {"a"}, {"2"}, {"g"}, {"i"}, {"i"}, {"2"}, {"scope"}, AllMuts, AllCors, {1}) EXCEPT !.X = {"$", "cix"}]
\* tiny vocabularies for the spec mutants
FamT1 == Fam(1, 0, 1, {"T"}, None, None, IJK, None, None, None, None, None, None)
FamSmall == Fam(2, 2, 2, {"c", "a", "A"}, None, None, {"i"}, None, None, {"scope"}, None, None, None)
=============================================================================
