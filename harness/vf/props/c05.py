"""C05 -- Sparse extraction denotes exactly the dense array.

Programs come from the ExprBuilder TLA+ machine; the real code evaluates the
sparse COO (Array.assparse of the simplified expression) and CSR
(evaluable.as_csr) data; the recorded indices/values are handed to TLC which
computes the dense reference from the ArraySem semantics of the same program
and decides every clause of the property (spec/SparseCheck.tla).
"""

import random
from fractions import Fraction

from .. import dag, exprs

LEVEL = 'model_checking'

SPARSE_OPS = '{"Inflate","Diagonalize","Multiply","Add","Ravel","Unravel","LoopSum","InsertAxis","Transpose","Take","Sum","IntToFloat","Negative","TakeDiag","LoopConcat"}'


def tofrac(x):
    x = float(x)
    if x != x or x in (float('inf'), float('-inf')):
        return None
    fr = Fraction(x).limit_denominator(20000)
    if abs(float(fr) - x) > 1e-9 * max(1.0, abs(x)) or abs(fr.numerator) > 2 ** 30:
        return None
    return [fr.numerator, fr.denominator]


def extract_one(item):
    import numpy
    import warnings
    warnings.simplefilter('ignore')
    from nutils import evaluable as ev
    nodes, envid = item
    out = dict(status='ok')
    root = dag.build(nodes)[-1]
    args = dag.env_arrays(dag.ENVS[envid])
    try:
        values, indices, shape = exprs.with_timeout(30, lambda: root.simplified.assparse)
        res = exprs.with_timeout(30, lambda: ev.eval_once((values, tuple(indices), tuple(shape)), arguments=args))
        v, idx, sh = res
    except exprs.Timeout:
        out.update(status='timeout')
        return out
    except Exception as ex:
        out.update(status='exception', exc='{}: {}'.format(type(ex).__name__, str(ex)[:200]))
        return out
    v = numpy.asarray(v)
    cx = nodes[-1]['dt'] == 'c'
    if cx != (v.dtype.kind == 'c'):
        out.update(status='exception', exc='dtype: sparse values have dtype {} for a root of dtype {}'.format(v.dtype, nodes[-1]['dt']))
        return out
    # a complex root is handed to TLC as two real observations (real parts / imaginary parts of the recorded values),
    # each judged against the model value of Real(root) / Imag(root): 'coo', 'csr' and 'coo_im', 'csr_im'
    parts = [('', numpy.real), ('_im', numpy.imag)] if cx else [('', lambda a: a)]
    csr = None
    if root.ndim == 2:
        try:
            csr = ev.eval_once(ev.as_csr(root), arguments=args)
        except Exception as ex:
            out.update(status='exception', exc='as_csr {}: {}'.format(type(ex).__name__, str(ex)[:200]))
    for sfx, part in parts:
        vals = [tofrac(x) for x in part(v).ravel()] if v.dtype.kind in 'fiubc' else None
        if vals is None or any(x is None for x in vals):
            out.update(status='inexact')
            return out
        out['coo' + sfx] = dict(values=vals, indices=[[int(i) for i in numpy.asarray(ix).ravel()] for ix in idx], shape=[int(n) for n in sh])
        out['csr' + sfx] = dict(values=[], rowptr=[0], colidx=[], ncols=0, has=False)
        if csr is not None:
            cv, rowptr, colidx, ncols = csr
            cvals = [tofrac(x) for x in part(numpy.asarray(cv)).ravel()]
            if all(x is not None for x in cvals):
                out['csr' + sfx] = dict(values=cvals, rowptr=[int(i) for i in rowptr], colidx=[int(i) for i in colidx], ncols=int(ncols), has=True)
    out['coo_value_ndim'] = v.ndim
    return out


def part_program(p, op):
    'the program Real(p) / Imag(p) (model side of a complex observation)'
    return [dict(op=n['op'], d=n['d'], p=n['p'], sh=n['sh'], dt=n['dt']) for n in p] + [dict(op=op, d=[len(p)], p=[], sh=p[-1]['sh'], dt='f')]


def run(rep):
    rng = random.Random(rep.seed)
    quick = rep.tier == 'quick'
    k = 300 if quick else 4000
    fam = dict(Ops=SPARSE_OPS, LeafSet='{1, 2, 4, 8, 13, 14, 15, 20, 22, 23, 25}', MaxOps=5, MaxNodes=10, MaxLeaves=4)
    cxfam = dict(Ops='{"Inflate","Diagonalize","Multiply","Add","Ravel","Unravel","LoopSum","InsertAxis","Transpose","Take","Sum","FloatToComplex","Conjugate","Negative","TakeDiag","LoopConcat","Real","Imag"}',
                 LeafSet='{1, 2, 13, 14, 15, 20, 22, 41, 43, 44, 48, 49, 50}', MaxOps=5, MaxNodes=10, MaxLeaves=4)
    # element dependent block sizes: Inflate / Take / InsertAxis with loop dependent lengths under LoopSum / LoopConcat
    dynfam = dict(Ops='{"MacroLenTab","RangeN","InsertAxisN","LoopConcat","LoopSum","Take","Inflate","Multiply","Add","IntToFloat","Sum","InsertAxis","Diagonalize","Transpose"}',
                  LeafSet='{1, 2, 4, 8, 13, 20}', MaxOps=5, MaxNodes=9, MaxLeaves=4)
    sel = exprs.corpus(rep, rng, 'c05', k, quick=quick, need_arg=False, extra=[('sparse', fam, 200 if quick else 3000)])
    for ps in exprs.extended(rep, rng, 'c05-ext', ['cxsparse', 'dynsparse', 'einsum', 'inflate3', 'uvc'], k // 15, quick=quick, families=dict(cxsparse=cxfam, dynsparse=dynfam)).values():
        sel += ps
    rep.lap('generated')
    items = [(p, i % len(dag.ENVS)) for i, p in enumerate(sel)]
    outs = exprs.pmap(extract_one, items)
    rep.lap('extracted')
    jobs = []
    owners = []
    real = []     # the TLC jobs (one per real-valued observation; two for a complex root)
    for (p, e), o in zip(items, outs):
        if 'harness_error' in o:
            raise RuntimeError(o['harness_error'])
        rep.case((exprs.canon(p), e), nontrivial=any(n['op'] in ('Inflate', 'Diagonalize', 'LoopSum', 'Ravel', 'Unravel', 'Take') for n in p))
        if o['status'] == 'inexact':
            rep.skip('values not exactly representable for TLC')
            continue
        if o['status'] in ('exception', 'timeout'):
            owners.append((p, e, o))
            jobs.append(None)
            continue
        cx = p[-1]['dt'] == 'c'
        job = []
        for sfx, op in ((('', 'Real'), ('_im', 'Imag')) if cx else (('', None),)):
            N = part_program(p, op) if cx else [dict(op=n['op'], d=n['d'], p=n['p'], sh=n['sh'], dt=n['dt']) for n in p]
            job.append(dict(id=len(real), N=N, argsh=[dag.ARGSH[a] for a in sorted(dag.ARGSH)], args=[dag.ENVS[e][a] for a in sorted(dag.ARGSH)], node=len(N),
                            coo=o['coo' + sfx], csr=o['csr' + sfx]))
            real.append(job[-1])
        jobs.append(job)
        owners.append((p, e, o))
    results, stats = dag.run_jobs('SparseCheck', real, 'c05-check')
    for st in stats:
        rep.add_tlc(st)
    rep.lap('checked by TLC')
    ri = iter(results)
    # model-definedness for failed extractions: only judge exceptions where the model value is defined
    exc_items = [(p, e, o) for (p, e, o), j in zip(owners, jobs) if j is None]
    exc_defined = {}
    if exc_items:
        ev_res, st2 = dag.evaluate([(p, [dict(env=dag.ENVS[e], node=len(p))], []) for p, e, o in exc_items], tag='c05-exc')
        for st in st2:
            rep.add_tlc(st)
        for (p, e, o), r in zip(exc_items, ev_res):
            exc_defined[exprs.canon(p), e] = r is not None and not dag.arr_value(r['vals'][0])[1]
    for (p, e, o), j in zip(owners, jobs):
        if j is None:
            if exc_defined.get((exprs.canon(p), e)):
                if o['status'] == 'timeout' or 'caught in a loop' in o.get('exc', ''):
                    rep.skip('simplification did not terminate (judged by C01)')
                else:
                    rep.violation('extract-exception:{}:{}'.format(o['exc'].split(':')[0], p[-1]['op']), 'sparse extraction raised ' + o['exc'], dict(program=p, env=e))
            else:
                rep.skip('extraction raised on a model-undefined program')
            continue
        rs = [next(ri) for _ in j]
        if any(r is None for r in rs):
            rep.skip('TLC could not evaluate')
            continue
        bad = False
        for r, sfx in zip(rs, ('', '_im')):
            for kind in ('coo', 'csr'):
                v = r[kind]
                if v in ('ok', 'absent'):
                    continue
                if v == 'undef':
                    rep.skip('model value undefined')
                    continue
                if bad:
                    continue    # one violation per program (real and imaginary observation share the root cause)
                bad = True
                rep.violation('{}:{}:{}'.format(kind, v, p[-1]['op']), '{} data{} violates clause "{}"'.format(kind.upper(), ' (imaginary parts)' if sfx else '', v),
                              dict(program=p, env=e, data=o.get(kind + sfx)))
        if not bad:
            rep.traces += 1
    for (p, e, o) in owners[:2]:
        rep.sample(dict(program=[[n['op'], n['d'], n['p'], n['sh'], n['dt']] for n in p], env=e, coo=o.get('coo')))
    rep.rule = 'cases = (program, argument assignment); non-trivial = program contains a sparsity-inducing constructor (Inflate, Diagonalize, LoopSum, Ravel, Unravel, Take)'
    rep.assumptions += ['values are passed to TLC as exact rationals (denominator <= 20000); others are skipped and counted',
                        'dense reference = ArraySem.tla semantics of the same program']
