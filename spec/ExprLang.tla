------------------------------ MODULE ExprLang ------------------------------
(***************************************************************************)
(* C19 -- the expression language of nutils.expression_v2 / expression_v1  *)
(* as abstract syntax with its DOCUMENTED reading:                         *)
(*                                                                         *)
(*   Render(e, style)  the character string of a syntax tree (token list), *)
(*   Chk(e)            the documented rules, stated declaratively by       *)
(*                     COUNTING index occurrences (no array bookkeeping):  *)
(*                     every letter may be used at most twice in a term    *)
(*                     (fraction, power and call included, summands of a   *)
(*                     compound count once), a letter used once is free, a *)
(*                     letter used twice is summed; terms of a sum have    *)
(*                     the same free letters with the same lengths;        *)
(*                     denominators and exponents have no free letter;     *)
(*                     numbers only at the start of a term; numerals in    *)
(*                     range; names known; one index per axis,             *)
(*   Val(n, env)       the meaning: the value at one assignment of the     *)
(*                     free letters, by reading the tree as index notation *)
(*                     (explicit sums over the letters that are used       *)
(*                     twice at a node).                                   *)
(*                                                                         *)
(* Scalars are two-sided: <<value seen from this side of an interface,     *)
(* value seen from the opposite side>> of exact rationals (ArraySem), so   *)
(* that jump [ ], mean { } and opposite( ) have a meaning.                 *)
(*                                                                         *)
(* A syntax tree node is the uniform record                                *)
(*   [op, nm, ix, kids, sg]                                                *)
(*   op = "num"   nm = literal text                                        *)
(*        "var"   nm = name, ix = index tokens (letters / numerals)        *)
(*        "call"  nm = function name, ix = tokens of the generated axes,   *)
(*                kids = <<argument>>                                      *)
(*        "scope" "jump" "mean"   kids = <<expression>>     ( ) [ ] { }    *)
(*        "pow"   kids = <<base, exponent>>, nm = "int" (signed integer    *)
(*                literal) or "scoped" (parenthesised expression)          *)
(*        "term"  kids = juxtaposed items                                  *)
(*        "frac"  kids = <<numerator, denominator>>                        *)
(*        "eye"   (v1 only) the dirac: nm = "$" or "DELTA" (rendered as    *)
(*                the Greek letter by the harness), ix = two letters,      *)
(*        "cix"   (v1 only) a number with one index, e.g. 2_i; both have   *)
(*                axes whose length is deduced from the expression;        *)
(*                sg = <<leaf id>> names the unknown length                *)
(*        "sum"   kids = terms, sg = one sign per term: "+" "-" (first:    *)
(*                "+" = none, "-" = leading minus); "+-" "--" denote the   *)
(*                forbidden negation of a later term (a + -b)              *)
(***************************************************************************)
EXTENDS ArraySem, Json

\* ------------------------------------------------------------------ the namespace
\* variables: shape and integer data as seen from this side / the opposite side (C order)
VarTab == [ c |-> [sh |-> <<>>,        v |-> << <<2>>, <<3>> >>],
            e |-> [sh |-> <<>>,        v |-> << <<-1>>, <<4>> >>],
            a |-> [sh |-> <<2>>,       v |-> << <<1, 2>>, <<3, -1>> >>],
            b |-> [sh |-> <<2>>,       v |-> << <<-2, 3>>, <<1, 1>> >>],
            u |-> [sh |-> <<3>>,       v |-> << <<1, -1, 2>>, <<2, 0, 1>> >>],
            A |-> [sh |-> <<2, 2>>,    v |-> << <<1, 2, 3, 4>>, <<0, 1, -1, 2>> >>],
            B |-> [sh |-> <<2, 3>>,    v |-> << <<1, 0, 2, -1, 3, 1>>, <<2, 1, 0, 1, -2, 1>> >>],
            T |-> [sh |-> <<2, 2, 2>>, v |-> << <<1, 2, 0, -1, 3, 1, -2, 2>>, <<0, 1, 1, 2, -1, 0, 2, 1>> >>] ]
\* functions: generated axes and meaning; "lin": f(x)[.., k] = x[..] * w[k]
FuncTab == [ sqr      |-> [gen |-> <<>>,     kind |-> "sqr", w |-> <<>>],
             abs      |-> [gen |-> <<>>,     kind |-> "abs", w |-> <<>>],
             opposite |-> [gen |-> <<>>,     kind |-> "opp", w |-> <<>>],
             g        |-> [gen |-> <<3>>,    kind |-> "lin", w |-> <<1, 2, -1>>],
             h        |-> [gen |-> <<2>>,    kind |-> "lin", w |-> <<2, -1>>],
             G        |-> [gen |-> <<2, 3>>, kind |-> "lin", w |-> <<1, -1, 2, 0, 3, 1>>] ]
\* number literals
NumTab == ("0" :> <<0, 1>>) @@ ("1" :> <<1, 1>>) @@ ("2" :> <<2, 1>>) @@ ("3" :> <<3, 1>>) @@ ("10" :> <<10, 1>>)
          @@ ("0.5" :> <<1, 2>>) @@ (".5" :> <<1, 2>>) @@ ("1.5" :> <<3, 2>>) @@ ("2.0" :> <<2, 1>>)
          @@ ("-1" :> <<-1, 1>>) @@ ("-2" :> <<-2, 1>>) @@ ("-3" :> <<-3, 1>>)
FloatLits == {"0.5", ".5", "1.5", "2.0"}
LetterOrder == <<"i", "j", "k", "l">>
AllLetters == {"i", "j", "k", "l"}
DigitVal == ("0" :> 0) @@ ("1" :> 1) @@ ("2" :> 2) @@ ("3" :> 3)
IsDigit(t) == t \in DOMAIN DigitVal

\* ------------------------------------------------------------------ two-sided exact scalars
T2(r) == <<r, r>>
T2Bad(x) == IsBad(x[1]) \/ IsBad(x[2])
T2Add(x, y) == <<RAdd(x[1], y[1]), RAdd(x[2], y[2])>>
T2Sub(x, y) == <<RSub(x[1], y[1]), RSub(x[2], y[2])>>
T2Mul(x, y) == <<RMul(x[1], y[1]), RMul(x[2], y[2])>>
T2Div(x, y) == <<RDiv(x[1], y[1]), RDiv(x[2], y[2])>>
T2Pow(x, y) == <<RPow(x[1], y[1]), RPow(x[2], y[2])>>
T2Neg(x) == <<RNeg(x[1]), RNeg(x[2])>>
T2Opp(x) == <<x[2], x[1]>>                          \* opposite(f): f seen from the other side
T2Jump(x) == T2Sub(T2Opp(x), x)                     \* [f] = opposite(f) - f
T2Mean(x) == T2Mul(T2(<<1, 2>>), T2Add(x, T2Opp(x)))  \* {f} = (f + opposite(f)) / 2
T2Zero == T2(RZero)
T2One == T2(ROne)
ApplyF(f, x, gpos) ==
  LET ft == FuncTab[f] IN
  CASE ft.kind = "sqr" -> T2Mul(x, x)
    [] ft.kind = "abs" -> <<RAbs(x[1]), RAbs(x[2])>>
    [] ft.kind = "opp" -> T2Opp(x)
    [] ft.kind = "lin" -> T2Mul(x, T2(RInt(ft.w[Flat(gpos, ft.gen) + 1])))
VarAt(nm, pos) == LET t == VarTab[nm]
                      k == Flat(pos, t.sh) + 1
                  IN <<RInt(t.v[1][k]), RInt(t.v[2][k])>>

\* ------------------------------------------------------------------ syntax trees
Nd(op, nm, ix, kids, sg) == [op |-> op, nm |-> nm, ix |-> ix, kids |-> kids, sg |-> sg]
NumNd(t) == Nd("num", t, <<>>, <<>>, <<>>)
VarNd(nm, ix) == Nd("var", nm, ix, <<>>, <<>>)
IsNumItem(e) == e.op \in {"num", "cix"} \/ (e.op = "pow" /\ e.kids[1].op \in {"num", "cix"})
V1Leaf(op, nm, ix, id) == Nd(op, nm, ix, <<>>, <<id>>)

RECURSIVE JoinSeqs(_, _)
JoinSeqs(ss, sep) == IF Len(ss) = 0 THEN <<>> ELSE IF Len(ss) = 1 THEN ss[1] ELSE ss[1] \o sep \o JoinSeqs(Tail(ss), sep)
SignTok(s) == IF s \in {"+", "+-"} THEN "+" ELSE "-"
\* style 0: canonical; style 1: the documented whitespace freedom (several spaces between the
\* items of a term, spaces inside brackets)
RECURSIVE Render(_, _)
Render(e, st) ==
  LET pad == IF st = 0 THEN <<>> ELSE <<" ">>
      ixs == IF e.ix = <<>> THEN <<>> ELSE <<"_">> \o e.ix
      K(p) == Render(e.kids[p], st)
  IN CASE e.op = "num" -> <<e.nm>>
       [] e.op \in {"var", "eye", "cix"} -> <<e.nm>> \o ixs
       [] e.op = "call" -> <<e.nm>> \o ixs \o <<"(">> \o pad \o K(1) \o pad \o <<")">>
       [] e.op = "scope" -> <<"(">> \o pad \o K(1) \o pad \o <<")">>
       [] e.op = "jump" -> <<"[">> \o pad \o K(1) \o pad \o <<"]">>
       [] e.op = "mean" -> <<"{">> \o pad \o K(1) \o pad \o <<"}">>
       [] e.op = "pow" -> K(1) \o <<"^">> \o (IF e.nm = "int" THEN <<e.kids[2].nm>> ELSE <<"(">> \o pad \o K(2) \o pad \o <<")">>)
       [] e.op = "term" -> JoinSeqs([p \in 1..Len(e.kids) |-> K(p)], IF st = 0 THEN <<" ">> ELSE <<"  ">>)
       [] e.op = "frac" -> K(1) \o <<" ", "/", " ">> \o K(2)
       [] e.op = "sum" -> (IF e.sg[1] = "-" THEN <<"-">> ELSE <<>>) \o K(1)
                          \o JoinSeqs([p \in 1..(Len(e.kids) - 1) |->
                                 <<" ", SignTok(e.sg[p + 1]), " ">> \o (IF e.sg[p + 1] \in {"+-", "--"} THEN <<"-">> ELSE <<>>) \o K(p + 1)], <<>>)
RenderTop(e, st) == IF st = 0 THEN Render(e, 0) ELSE <<" ">> \o Render(e, st) \o <<" ">>

\* ------------------------------------------------------------------ the documented rules (declarative)
\* annotated node: the node plus  why  (first violated rule, "" = none),  cnt  (letter -> number of
\* uses, a summand-wise maximum for compounds),  ln  (letter -> axis length, for used letters),
\* dt  ("i": built from integer literals only, "f": real)
ZeroCnt == [l \in AllLetters |-> 0]
An(e, kids, why, cnt, ln, dt) == [op |-> e.op, nm |-> e.nm, ix |-> e.ix, sg |-> e.sg, kids |-> kids,
                                  why |-> why, cnt |-> TLCEval(cnt), ln |-> TLCEval(ln), dt |-> dt]
IxCnt(ix) == [l \in AllLetters |-> Cardinality({p \in 1..Len(ix) : ix[p] = l})]
IxLen(ix, sh) == [l \in AllLetters |-> IF \E p \in 1..Len(ix) : ix[p] = l THEN sh[CHOOSE p \in 1..Len(ix) : ix[p] = l] ELSE 0]
\* rules for a list of tokens labelling axes of lengths sh (Len(ix) = Len(sh))
IxWhy(ix, sh) ==
  IF \E p \in 1..Len(ix) : ~IsDigit(ix[p]) /\ ix[p] \notin AllLetters THEN "index-symbol"
  ELSE IF \E p \in 1..Len(ix) : IsDigit(ix[p]) /\ DigitVal[ix[p]] >= sh[p] THEN "numeral-range"
  ELSE IF \E l \in AllLetters : IxCnt(ix)[l] >= 3 THEN "index-thrice"
  ELSE IF \E p, q \in 1..Len(ix) : p < q /\ ix[p] = ix[q] /\ ix[p] \in AllLetters /\ sh[p] # sh[q] THEN "trace-length"
  ELSE ""
Thrice(cnt) == \E l \in AllLetters : cnt[l] >= 3
FreeSeq(cnt) == SelectSeq(LetterOrder, LAMBDA l : cnt[l] = 1)
FreeSet(cnt) == {l \in AllLetters : cnt[l] = 1}
RECURSIVE FirstWhy(_, _)
FirstWhy(ks, p) == IF p > Len(ks) THEN "" ELSE IF ks[p].why # "" THEN ks[p].why ELSE FirstWhy(ks, p + 1)
IMax(x, y) == IF x > y THEN x ELSE y
RECURSIVE SeqMax(_, _)
SeqMax(f, n) == IF n = 0 THEN 0 ELSE IMax(f[n], SeqMax(f, n - 1))
RECURSIVE SeqSum(_, _)
SeqSum(f, n) == IF n = 0 THEN 0 ELSE f[n] + SeqSum(f, n - 1)
\* length of letter l among annotated kids (the first kid that uses it)
KidLen(ks, l) == IF \E p \in 1..Len(ks) : ks[p].cnt[l] >= 1 THEN ks[CHOOSE p \in 1..Len(ks) : ks[p].cnt[l] >= 1].ln[l] ELSE 0

\* ChkG(e, U, v1): v1 = FALSE: the reading shared by both versions (eye / cix are no syntax);
\* v1 = TRUE: the version 1 reading, U gives the lengths of the axes of eye / cix leaves (leaf id -> length)
RECURSIVE ChkG(_, _, _)
ChkG(e, U, v1) ==
  LET ks == TLCEval([p \in 1..Len(e.kids) |-> ChkG(e.kids[p], U, v1)])   \* (TLCEval: evaluate once, not at every use)
      kw == FirstWhy(ks, 1)
      n == Len(ks)
      sumcnt == TLCEval([l \in AllLetters |-> SeqSum([p \in 1..n |-> ks[p].cnt[l]], n)])
      kidln == TLCEval([l \in AllLetters |-> KidLen(ks, l)])
      alli == IF \A p \in 1..n : ks[p].dt = "i" THEN "i" ELSE "f"
      Fail(w) == An(e, ks, w, ZeroCnt, ZeroCnt, "f")
  IN
  IF kw # "" THEN Fail(kw)
  ELSE CASE e.op = "num" -> An(e, ks, "", ZeroCnt, ZeroCnt, IF e.nm \in FloatLits THEN "f" ELSE "i")
    [] e.op = "var" ->
         IF e.nm \notin DOMAIN VarTab THEN Fail("unknown-name")
         ELSE LET sh == VarTab[e.nm].sh IN
              IF Len(e.ix) # Len(sh) THEN Fail("index-count")
              ELSE IF IxWhy(e.ix, sh) # "" THEN Fail(IxWhy(e.ix, sh))
              ELSE An(e, ks, "", IxCnt(e.ix), IxLen(e.ix, sh), "f")
    [] e.op \in {"eye", "cix"} ->
         IF ~v1 THEN Fail("v1-syntax")
         ELSE LET un == U[e.sg[1]]
                  sh == IF e.op = "eye" THEN <<un, un>> ELSE <<un>>
              IN IF Len(e.ix) # Len(sh) THEN Fail("index-count")
                 ELSE IF \E p \in 1..Len(e.ix) : IsDigit(e.ix[p]) THEN Fail("numeral-on-inferred-axis")
                 ELSE IF IxWhy(e.ix, sh) # "" THEN Fail(IxWhy(e.ix, sh))
                 ELSE An(e, ks, "", IxCnt(e.ix), IxLen(e.ix, sh), IF e.op = "cix" /\ e.nm \notin FloatLits THEN "i" ELSE "f")
    [] e.op = "call" ->
         IF e.nm \notin DOMAIN FuncTab THEN Fail("unknown-function")
         ELSE LET ft == FuncTab[e.nm]
                  af == FreeSeq(ks[1].cnt)                          \* free letters of the argument ...
                  cix == af \o e.ix                                 \* ... followed by the generated axes
                  csh == [p \in 1..Len(af) |-> ks[1].ln[af[p]]] \o ft.gen
                  cnt == [l \in AllLetters |-> ks[1].cnt[l] + IxCnt(e.ix)[l]]
              IN IF Len(e.ix) # Len(ft.gen) THEN Fail("generated-count")
                 ELSE IF IxWhy(cix, csh) # "" THEN Fail(IxWhy(cix, csh))
                 ELSE IF Thrice(cnt) THEN Fail("index-thrice")
                 ELSE An(e, ks, "", cnt, [l \in AllLetters |-> IF ks[1].cnt[l] >= 1 THEN ks[1].ln[l] ELSE IxLen(cix, csh)[l]],
                         IF ft.kind = "lin" THEN "f" ELSE ks[1].dt)
    [] e.op \in {"scope", "jump", "mean"} -> An(e, ks, "", ks[1].cnt, ks[1].ln, IF e.op = "mean" THEN "f" ELSE ks[1].dt)
    [] e.op = "pow" ->
         IF e.kids[1].op = "pow" THEN Fail("repeated-power")
         ELSE IF FreeSet(ks[2].cnt) # {} THEN Fail("exponent-dim")
         ELSE IF Thrice(sumcnt) THEN Fail("index-thrice")
         ELSE An(e, ks, "", sumcnt, kidln, IF ks[1].dt = "i" /\ ks[2].dt = "i" THEN "i" ELSE "f")
    [] e.op = "term" ->
         IF \E p \in 2..n : IsNumItem(e.kids[p]) THEN Fail("number-position")
         ELSE IF Thrice(sumcnt) THEN Fail("index-thrice")
         ELSE IF \E l \in AllLetters : \E p, q \in 1..n : p < q /\ ks[p].cnt[l] = 1 /\ ks[q].cnt[l] = 1 /\ ks[p].ln[l] # ks[q].ln[l]
              THEN Fail("sum-length")
         ELSE An(e, ks, "", sumcnt, kidln, alli)
    [] e.op = "frac" ->
         IF e.kids[1].op = "frac" \/ e.kids[2].op = "frac" THEN Fail("repeated-fraction")
         ELSE IF FreeSet(ks[2].cnt) # {} THEN Fail("denominator-dim")
         ELSE IF Thrice(sumcnt) THEN Fail("index-thrice")
         ELSE An(e, ks, "", sumcnt, kidln, "f")
    [] e.op = "sum" ->
         IF \E p \in 1..n : e.sg[p] \in {"+-", "--"} THEN Fail("misplaced-minus")
         ELSE IF \E p \in 2..n : FreeSet(ks[p].cnt) # FreeSet(ks[1].cnt) THEN Fail("term-indices")
         ELSE IF \E p \in 2..n : \E l \in FreeSet(ks[1].cnt) : ks[p].ln[l] # ks[1].ln[l] THEN Fail("term-length")
         ELSE An(e, ks, "", [l \in AllLetters |-> SeqMax([p \in 1..n |-> ks[p].cnt[l]], n)], kidln, alli)

NoU == <<>>
Chk(e) == ChkG(e, NoU, FALSE)
\* the leaves with inferred lengths
RECURSIVE Unk(_)
Unk(e) == (IF e.op \in {"eye", "cix"} THEN {e.sg[1]} ELSE {}) \cup UNION {Unk(e.kids[p]) : p \in 1..Len(e.kids)}
\* version 1: the lengths must be deducible: exactly one assignment (of lengths 1..4; the namespace has 2 and 3) satisfies the rules
Consistent(e) == {U \in [Unk(e) -> 1..4] : ChkG(e, U, TRUE).why = ""}

\* integer ** negative integer is refused by nutils' array layer (as by NumPy): not judged
RECURSIVE IntNegPow(_)
IntNegPow(n) == \/ \E p \in 1..Len(n.kids) : IntNegPow(n.kids[p])
                \/ /\ n.op = "pow" /\ n.why = "" /\ n.kids[1].dt = "i" /\ n.kids[2].dt = "i"
                   /\ ~(n.nm = "int" /\ NumTab[n.kids[2].nm][1] >= 0)

\* ------------------------------------------------------------------ the meaning (index notation)
\* G(1) + ... + G(n),  G(1) * ... * G(n)   (no sequences: TLC would re-evaluate a lazy sequence at every Len)
RECURSIVE SumTo(_, _)
SumTo(G(_), n) == IF n = 0 THEN T2Zero ELSE T2Add(SumTo(G, n - 1), G(n))
RECURSIVE ProdTo(_, _)
ProdTo(G(_), n) == IF n = 0 THEN T2One ELSE T2Mul(ProdTo(G, n - 1), G(n))
\* sum of F(env') over all assignments of the letters in L (lengths ln)
RECURSIVE SumOver(_, _, _, _)
SumOver(F(_), L, ln, env) ==
  IF L = {} THEN F(env)
  ELSE LET l == CHOOSE x \in L : TRUE IN
       SumTo(LAMBDA m : SumOver(F, L \ {l}, ln, [env EXCEPT ![l] = m - 1]), ln[l])
TokPos(t, env) == IF IsDigit(t) THEN DigitVal[t] ELSE env[t]
RECURSIVE Val(_, _)
Val(n, env) ==
  CASE n.op = "num" -> T2(Norm(NumTab[n.nm][1], NumTab[n.nm][2]))
    [] n.op = "var" ->
         SumOver(LAMBDA en : VarAt(n.nm, [p \in 1..Len(n.ix) |-> TokPos(n.ix[p], en)]),
                 {l \in AllLetters : n.cnt[l] = 2}, n.ln, env)
    [] n.op = "eye" ->
         SumOver(LAMBDA en : IF en[n.ix[1]] = en[n.ix[2]] THEN T2One ELSE T2Zero, {l \in AllLetters : n.cnt[l] = 2}, n.ln, env)
    [] n.op = "cix" -> T2(Norm(NumTab[n.nm][1], NumTab[n.nm][2]))
    [] n.op = "call" ->
         SumOver(LAMBDA en : ApplyF(n.nm, Val(n.kids[1], en), [p \in 1..Len(n.ix) |-> TokPos(n.ix[p], en)]),
                 {l \in AllLetters : n.cnt[l] = 2 /\ n.kids[1].cnt[l] < 2}, n.ln, env)
    [] n.op = "scope" -> Val(n.kids[1], env)
    [] n.op = "jump" -> T2Jump(Val(n.kids[1], env))
    [] n.op = "mean" -> T2Mean(Val(n.kids[1], env))
    [] n.op = "pow" -> T2Pow(Val(n.kids[1], env), Val(n.kids[2], env))
    [] n.op = "frac" -> T2Div(Val(n.kids[1], env), Val(n.kids[2], env))
    [] n.op = "term" ->
         SumOver(LAMBDA en : ProdTo(LAMBDA p : Val(n.kids[p], en), Len(n.kids)),
                 {l \in AllLetters : n.cnt[l] = 2 /\ \A p \in 1..Len(n.kids) : n.kids[p].cnt[l] < 2}, n.ln, env)
    [] n.op = "sum" ->
         SumTo(LAMBDA p : IF n.sg[p] = "-" THEN T2Neg(Val(n.kids[p], env)) ELSE Val(n.kids[p], env), Len(n.kids))

EnvOf(order, idx) == [l \in AllLetters |-> IF \E p \in 1..Len(order) : order[p] = l THEN idx[CHOOSE p \in 1..Len(order) : order[p] = l] ELSE 0]
\* the array denoted by a valid annotated tree, axes in the given order of its free letters
XMk(sh, F(_)) == [sh |-> sh, v |-> TLCEval([k \in 1..Prod(sh) |-> F(Unflat(k - 1, sh))])]   \* an explicit (evaluated) array
ArrOf(n, order) == XMk([p \in 1..Len(order) |-> n.ln[order[p]]], LAMBDA idx : Val(n, EnvOf(order, idx)))
Reverse(s) == [p \in 1..Len(s) |-> s[Len(s) + 1 - p]]
=============================================================================
