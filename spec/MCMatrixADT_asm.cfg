\* quick/thorough, exhaustive: every CSR/COO input within the Wild bounds (well-formed or not),
\* every small well-formed CSR/COO input, the constructors empty/diag/eye; all observations on
\* the assembled matrix, no further operations
SPECIFICATION Spec
CONSTANTS
  Forms = {"csrwild", "coowild", "csr", "coo", "empty", "diag", "eye"}
  Shapes <- Shapes2
  MinNnz = 0
  MaxNnz = 4
  WildM = 2
  WildN = 2
  WildCooN = 1
  WildNnz = 2
  BlockHeights = {0, 1}
  BlockWidths = {0, 1}
  MaxBlockRows = 1
  MaxBlockCols = 1
  MaxBlockNnz = 1
  Dtypes = {"f", "c"}
  WildDtypes = {"f"}
  Ops = {}
  OpForms = {"csrwild", "coowild", "csr", "coo", "empty", "diag", "eye"}
  MaxSteps = 0
  MaxE = 2
  StrictOrder = TRUE
  LowerBound = TRUE
  CacheCopies = TRUE
INVARIANT TypeOK
INVARIANT AcceptIffValid
INVARIANT ReasonsIffInvalid
INVARIANT BackendGetsValid
INVARIANT Faithful
INVARIANT FaithfulInput
INVARIANT CompressCorrect
INVARIANT BlockFaithful
INVARIANT PickleFaithful
INVARIANT CacheTransparent
INVARIANT StepsFaithful
INVARIANT Algebra
INVARIANT EmitBehaviours
CHECK_DEADLOCK FALSE
