SPECIFICATION Spec
CONSTANTS
  Procs = {p1, p2}
  PLen = 3
  MaxCrash = 2
  MaxCalls = 4
  CanRaise = FALSE
  DetPickle = FALSE
  InitFiles <- MCInitFilesNoGarbage
INVARIANT TypeOK
INVARIANT MutexCompute
INVARIANT LockHeld
INVARIANT Transparent
INVARIANT LoadableIsGenuine
CHECK_DEADLOCK FALSE
