\* design-level finding: "every sample can be evaluated and integrated" (Total) is violated, because _Add implements no
\* element-wise access; TLC's breadth-first search yields a shortest nesting (take_elements or zip around a sum)
SPECIFICATION Spec
CONSTANTS
  Bases <- MCBases
  AtomDefs <- MCAtomDefs
  StartAtoms <- MCStartAtoms
  Operands <- MCOperands
  MaxOps = 3
  MaxPoints = 24
  MaxElems = 12
  TakeAll = FALSE
  Mutant = "none"
INVARIANT ContainerInv
INVARIANT LocatedInv
INVARIANT Sizes
INVARIANT IndexPartition
INVARIANT EvalOrder
INVARIANT Quadrature
INVARIANT OpLaw
INVARIANT EmitAll
INVARIANT Total
CHECK_DEADLOCK FALSE
