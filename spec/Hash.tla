-------------------------------- MODULE Hash --------------------------------
(***************************************************************************)
(* C17, design level: nutils_hash is injective and stable on a bounded,    *)
(* adversarially chosen universe of values.                                *)
(*                                                                         *)
(* The state machine is a VALUE BUILDER: a behaviour starts from one of    *)
(* the base values (scalars, numpy scalars, classes, one level containers, *)
(* arrays in several dtypes / layouts, array data of several source        *)
(* widths, instances of sample Immutable / Singleton / DataClass classes   *)
(* built by several routes, ...) and every action applies one python       *)
(* constructor around the current value (tuple, list, dict key / value,    *)
(* set, frozenset, frozendict, frozenmultiset, argument of an interned     *)
(* instance, hashable_function identifier, ...).  The reachable values are *)
(* exactly Universe.  In every state the invariants compare the current    *)
(* value with EVERY value of the universe:                                 *)
(*                                                                         *)
(*   Injective:  Enc(v) = Enc(w)      =>  Canon(v) = Canon(w)              *)
(*   Stable:     Canon(v) = Canon(w)  =>  Enc(v) = Enc(w)                  *)
(*                                                                         *)
(* With TagMode = "name" Enc is the code as written; TLC then reports the  *)
(* model-level collisions (each one is re-checked against the real digests *)
(* by HashTable).  With TagMode = "qualified" (proposed repair) both       *)
(* invariants hold on the whole universe, which shows that they are        *)
(* satisfiable and that Canon / the universe are not themselves at fault.  *)
(*                                                                         *)
(* Every state emits its value; the harness materialises it in python.     *)
(***************************************************************************)
EXTENDS HashSem, Json

CONSTANTS Level          \* 1: quick universe, 2: thorough universe

VARIABLES v, d, adv
vars == <<v, d, adv>>

(* ------------------------------------------------------------------ base values *)
I0 == I("0")
I1 == I("1")
I2 == I("2")
I3 == I("3")
S1 == S("1")
B1 == B("1")
F1 == F("1.0")
T0 == Tup(<<>>)

Scalars ==
  { NoneV, T("ellipsis", <<>>, <<>>), TrueV, FalseV,
    I0, I1, I2, I("-1"), I("10"),
    F("0.0"), F("-0.0"), F1, F("2.0"), F("nan"), F("inf"), F("-inf"), F("0.5"),
    Sc("complex", "0j"), Sc("complex", "(1+0j)"), Sc("complex", "1j"),
    S(""), S1, S("a"), S("True"), S("None"), S("1.0"), S("int"), S("ab"), S("a~b"),
    B(""), B1, B("a"), B("ab"), B("a~b") }

NpScalars ==
  { Np("int64", "int", "1"), Np("int32", "int", "1"), Np("int8", "int", "-1"), Np("bool_", "bool", "True"),
    Np("float64", "float", "1.0"), Np("float32", "float", "0.5"), Np("float16", "float", "1.0"),
    Np("complex128", "complex", "(1+0j)"), Np("complex64", "complex", "1j") }

Types == { Ty(key) : key \in {"int", "bool", "float", "complex", "str", "bytes", "tuple", "list", "dict", "frozenset",
                              "A1@m1", "A1@m2", "A2@m1", "P@m1", "P@m2", "Q@m1"} }

\* pairwise python-unequal hashable values: keys of dicts, elements of sets
K == { I1, I2, S1, B1, NoneV, Tup(<<I1>>), S("a") }
K3 == { I1, S1, B1 }
\* values that python's == / hash conflate (1 == True == 1.0) plus look-alikes
V == { I1, I2, TrueV, F1, S1, NoneV }
P == K \cup V \cup {T0}

Tuples == {T0} \cup {Tup(<<x>>) : x \in P} \cup {Tup(<<x, y>>) : x \in P, y \in P}
Lists == {Lst(<<>>)} \cup {Lst(<<x>>) : x \in V} \cup {Lst(<<x, y>>) : x \in V, y \in V}
Nesting ==
  { Tup(<<Tup(<<I1, I2>>), I3>>), Tup(<<I1, Tup(<<I2, I3>>)>>), Tup(<<I1, I2, I3>>), Tup(<<Tup(<<I1, I2, I3>>)>>),
    Tup(<<Tup(<<I1>>), Tup(<<I2, I3>>)>>), Tup(<<Tup(<<I1, I2>>), Tup(<<I3>>)>>), Tup(<<T0>>), Tup(<<T0, T0>>),
    Tup(<<Tup(<<T0>>)>>), Tup(<<Lst(<<>>)>>), Lst(<<T0>>), Lst(<<Lst(<<>>)>>), Tup(<<Lst(<<I1>>), I2>>),
    Tup(<<I1, Lst(<<I2>>)>>), Lst(<<Tup(<<I1>>), I2>>), Tup(<<S("a"), S("b")>>), Tup(<<S("ab")>>), Tup(<<S("a"), S(""), S("b")>>),
    Tup(<<S("hashable_function"), S("a")>>), Tup(<<S("hashable_function"), I1>>) }

Dicts == {T("dict", <<>>, <<>>)}
         \cup {T("dict", <<>>, <<Pair(k, x)>>) : k \in K, x \in V}
         \cup {T("dict", <<>>, <<Pair(k1, x1), Pair(k2, x2)>>) : k1 \in K3, k2 \in K3, x1 \in {I1, I2}, x2 \in {I1, I2}}
DictsOK == {x \in Dicts : Len(Kids(x)) < 2 \/ Kids(Kids(x)[1])[1] # Kids(Kids(x)[2])[1]}

SetsOf(kind) == {T(kind, <<>>, <<>>)} \cup {T(kind, <<>>, <<x>>) : x \in K}
                \cup {T(kind, <<>>, <<x, y>>) : x \in K, y \in K}
SetsOK == {x \in SetsOf("set") \cup SetsOf("frozenset") : Len(Kids(x)) < 2 \/ Kids(x)[1] # Kids(x)[2]}

A3 == {I1, I2, TrueV}
NamedTuples == {T("nt", <<key>>, <<x, y>>) : key \in {"P@m1", "P@m2", "Q@m1", "tuple@m1"}, x \in A3, y \in A3}
DataClasses == {T("dc", <<key>>, <<x, y>>) : key \in {"R@m1", "R@m2", "R2@m1"}, x \in A3, y \in A3}

\* numpy arrays: payload <<dtype.str, values in logical C order, route>>, kids = shape
Arr(dt, vals, route, shape) == T("ndarray", <<dt, vals, route>>, shape)
DTypes == {"<i8", "<i4", ">i8", "<f8", "|b1", "|u1"}
Vals2 == {"1,0", "0,1", "1,1"}
NdArrays ==
     {Arr(dt, x, r, <<I2>>) : dt \in DTypes, x \in Vals2, r \in {"C", "view"}}
  \cup {Arr(dt, x, r, sh) : dt \in DTypes, x \in Vals2, r \in {"C", "F"}, sh \in {<<I1, I2>>, <<I2, I1>>}}
  \cup {Arr(dt, "1", "C", <<>>) : dt \in DTypes} \cup {Arr(dt, "", "C", <<I0>>) : dt \in DTypes}
  \cup {Arr(dt, x, r, <<I2, I2>>) : dt \in {"<i8", "<f8", ">i8"}, x \in {"1,2,3,4", "1,3,2,4"}, r \in {"C", "F", "T"}}

\* nutils.types.arraydata: payload <<native kind, values, route>>, kids = shape
AD(knd, vals, route, shape) == T("arraydata", <<knd, vals, route>>, shape)
Shapes2 == {<<I2>>, <<I1, I2>>, <<I2, I1>>}
ArrayData ==
     {AD("int", x, r, sh) : x \in Vals2, r \in {"native", "i32", "i16", "u8", "list", "be", "F", "wrap"}, sh \in Shapes2}
  \cup {AD("bool", x, r, sh) : x \in Vals2, r \in {"native", "list"}, sh \in Shapes2}
  \cup {AD("float", x, r, sh) : x \in Vals2, r \in {"native", "f32", "list"}, sh \in Shapes2}
  \cup {AD("complex", x, r, <<I2>>) : x \in Vals2, r \in {"native", "c64"}}
  \cup {AD("int", x, "reshape", sh) : x \in Vals2, sh \in {<<I1, I2>>, <<I2, I1>>, <<Np("int64", "int", "2"), I1>>}}
  \cup {AD(knd, "1", r, <<>>) : knd \in {"int", "bool", "float", "complex"}, r \in {"native", "list"}}
  \cup {AD("int", "1", r, <<>>) : r \in {"i32", "u8"}} \cup {AD("float", "1", "f32", <<>>)}
  \cup {AD("float", "", "list", <<I0>>), AD("int", "", "native", <<I0>>), AD("bool", "", "native", <<I0>>)}

\* instances: payload <<class key, route>>; kids = _args of Immutable/Singleton (positional arguments followed
\* by the tuple of keyword-only items, always empty here) or the parameter values of a DataClass
Inst(key, route, a, b) == T("inst", <<key, route>>, IF Classes[key].base = "DataClass" THEN <<a, b>> ELSE <<a, b, T0>>)
InstKeys == {"I1@m1", "I1@m2", "I1v1@m1", "I2@m1", "S1@m1", "S1@m2", "S2@m1", "D1@m1", "D1@m2", "D2@m1"}
ArgA == {I1, TrueV, F1, S1, Tup(<<I1>>)}
Instances ==
     {Inst(key, "pos", a, b) : key \in InstKeys, a \in ArgA, b \in {I2, I1}}
  \cup {Inst(key, r, I1, b) : key \in InstKeys, r \in {"kw", "mixed"}, b \in {I2, I1}}
  \cup {Inst(key, "pickle", I1, b) : key \in InstKeys \ {"I1v1@m1"}, b \in {I2, I1}}     \* (two classes share the name vfm1.I1: only one pickles)
  \cup {Inst(key, "default", a, I2) : key \in InstKeys, a \in {I1, TrueV}}

\* calls of memoised functions: payload <<function key, route>>, kids = canonical positional arguments;
\* the "hash" observed on the code is the name of the cache file
Call(key, route, a, b) == T("call", <<key, route>>, <<a, b>>)
FuncKeys == {"f1@m1", "f1@m2", "f1v1@m1", "f2@m1"}
Calls ==
     {Call(key, "pos", a, b) : key \in FuncKeys, a \in ArgA, b \in {I2, I1}}
  \cup {Call(key, r, I1, b) : key \in FuncKeys, r \in {"kw", "mixed"}, b \in {I2, I1}}
  \cup {Call(key, "default", a, I2) : key \in FuncKeys, a \in {I1, TrueV}}

FDicts == {T("fdict", <<>>, Kids(x)) : x \in {y \in DictsOK : \A i \in DOMAIN Kids(y) : Kids(Kids(y)[i])[1] \in K3 /\ Kids(Kids(y)[i])[2] \in {I1, I2}}}
FMS(c) == T("fms", <<>>, c)
FMSets == {FMS(<<>>)} \cup UNION {{FMS(<<x>>), FMS(<<x, x>>), FMS(<<x, y>>), FMS(<<y, x>>), FMS(<<x, x, y>>), FMS(<<x, y, x>>),
                                   FMS(<<y, x, x>>), FMS(<<x, y, y>>), FMS(<<y, y, x>>), FMS(<<x, x, x>>)} : x \in {I1}, y \in {I2, S1}}
HFuncs == {T("hfunc", <<>>, <<x>>) : x \in {S("a"), S("b"), I1, Tup(<<I1>>)}}
Methods == {T("method", <<n>>, <<Inst(key, "pos", a, I2)>>) : n \in {"meth", "other"}, key \in {"I1@m1", "I2@m1", "I1@m2"}, a \in {I1, I2}}
Bufs == {T("buf", <<x[1], x[2]>>, <<>>) : x \in {<<"AB", "0">>, <<"AB", "1">>, <<"B", "0">>, <<"", "0">>, <<"AB", "2">>,
                                                 <<"0ABCDEFGHIJ", "1">>, <<"ABCDEFGHIJ", "10">>}}

Base == Scalars \cup NpScalars \cup Types \cup Tuples \cup Lists \cup Nesting \cup DictsOK \cup SetsOK \cup NamedTuples
        \cup DataClasses \cup NdArrays \cup ArrayData \cup Instances \cup FDicts \cup FMSets \cup HFuncs \cup Methods \cup Bufs \cup Calls

\* the values that get wrapped at Level 1: the ones with a look-alike
WrapBase ==
  { NoneV, TrueV, I1, F1, S1, B1, S(""), Np("int32", "int", "1"), Ty("int"), Ty("A1@m1"), Ty("A1@m2"),
    T0, Tup(<<I1>>), Tup(<<I1, I2>>), Lst(<<I1>>), Lst(<<I1, I2>>),
    T("dict", <<>>, <<Pair(I1, I2)>>), T("dict", <<>>, <<Pair(I1, I2), Pair(S1, I1)>>), T("dict", <<>>, <<Pair(S1, I1), Pair(I1, I2)>>),
    T("set", <<>>, <<I1, S1>>), T("set", <<>>, <<S1, I1>>), T("frozenset", <<>>, <<I1, S1>>), T("frozenset", <<>>, <<S1, I1>>),
    T("nt", <<"P@m1">>, <<I1, I2>>), T("nt", <<"P@m2">>, <<I1, I2>>), T("nt", <<"tuple@m1">>, <<I1, I2>>),
    T("dc", <<"R@m1">>, <<I1, I2>>), T("dc", <<"R@m2">>, <<I1, I2>>),
    Arr("<i8", "1,0", "C", <<I2>>), Arr("<i4", "1,0", "C", <<I2>>), Arr("<i8", "1,0", "view", <<I2>>),
    AD("int", "1,0", "native", <<I2>>), AD("int", "1,0", "i32", <<I2>>), AD("bool", "1,0", "native", <<I2>>), AD("float", "1,0", "native", <<I2>>),
    Inst("I1@m1", "pos", I1, I2), Inst("I1@m1", "kw", I1, I2), Inst("I1@m2", "pos", I1, I2), Inst("I1v1@m1", "pos", I1, I2),
    Inst("I1@m1", "pos", TrueV, I2), Inst("D1@m1", "pos", I1, I2), Inst("D1@m1", "kw", I1, I2), Inst("D1@m2", "pos", I1, I2),
    Inst("S1@m1", "pos", I1, I2), Inst("S1@m1", "default", I1, I2),
    T("fdict", <<>>, <<Pair(I1, I2)>>), FMS(<<I1, I2>>), FMS(<<I2, I1>>), T("hfunc", <<>>, <<S("a")>>) }

(* ------------------------------------------------------------------ wrappers = actions *)
W_Tuple(x) == Tup(<<x>>)
W_TupleL(x) == Tup(<<x, I1>>)
W_TupleR(x) == Tup(<<I1, x>>)
W_List(x) == Lst(<<x>>)
W_DictVal(x) == T("dict", <<>>, <<Pair(S("k"), x)>>)
W_DictKey(x) == T("dict", <<>>, <<Pair(x, I1)>>)
W_Set(x) == T("set", <<>>, <<x>>)
W_FrozenSet(x) == T("frozenset", <<>>, <<x>>)
W_FDict(x) == T("fdict", <<>>, <<Pair(S("k"), x)>>)
W_FMS(x) == FMS(<<x, x>>)
W_Imm(x) == Inst("I2@m1", "pos", x, I2)
W_Data(x) == Inst("D2@m1", "kw", x, I2)
W_HFunc(x) == T("hfunc", <<>>, <<x>>)
W_NT(x) == T("nt", <<"Q@m1">>, <<x, I1>>)

Wrappable(x, dd, a) == IF Level = 1 THEN dd = 0 /\ a ELSE (dd = 0 \/ (dd = 1 /\ a))

WrapsAny(x) == {W_Tuple(x), W_TupleL(x), W_TupleR(x), W_List(x), W_DictVal(x), W_NT(x)}
WrapsHashable(x) == {W_DictKey(x), W_Set(x), W_FrozenSet(x), W_FDict(x), W_FMS(x), W_Imm(x), W_Data(x)}
\* hashable_function(identifier) treats a callable identifier as the function to decorate
Identifier(x) == Hashable(x) /\ Kind(x) \notin {"type", "hfunc", "method"}
Wraps(x) == IF Kind(x) = "call" THEN {}      \* a call is not a value
            ELSE WrapsAny(x) \cup (IF Hashable(x) THEN WrapsHashable(x) \ (IF Reflexive(x) THEN {} ELSE {W_FMS(x)}) ELSE {})
                 \cup (IF Identifier(x) THEN {W_HFunc(x)} ELSE {})

Level1 == UNION {Wraps(x) : x \in (IF Level = 1 THEN WrapBase ELSE Base)}
\* wrapped twice (Level 2 only): the sharpest look-alikes
WrapBase2 ==
  { TrueV, I1, S1, Np("int32", "int", "1"), Ty("A1@m1"), Ty("A1@m2"), Tup(<<I1, I2>>), Lst(<<I1, I2>>),
    T("dict", <<>>, <<Pair(I1, I2), Pair(S1, I1)>>), T("dict", <<>>, <<Pair(S1, I1), Pair(I1, I2)>>),
    T("frozenset", <<>>, <<I1, S1>>), T("frozenset", <<>>, <<S1, I1>>),
    T("nt", <<"P@m1">>, <<I1, I2>>), T("nt", <<"P@m2">>, <<I1, I2>>), T("dc", <<"R@m1">>, <<I1, I2>>),
    Arr("<i8", "1,0", "C", <<I2>>), Arr("<i8", "1,0", "view", <<I2>>),
    AD("int", "1,0", "native", <<I2>>), AD("int", "1,0", "i32", <<I2>>),
    Inst("I1@m1", "pos", I1, I2), Inst("I1@m1", "kw", I1, I2), Inst("I1@m2", "pos", I1, I2),
    Inst("D1@m1", "pos", I1, I2), Inst("D1@m1", "kw", I1, I2), FMS(<<I1, I2>>), FMS(<<I2, I1>>) }
Level2 == IF Level = 1 THEN {} ELSE UNION {Wraps(y) : y \in UNION {Wraps(x) : x \in WrapBase2}}
Universe == Base \cup Level1 \cup Level2

\* TLC does not cache constant definitions that depend on RECURSIVE operators, so the tables are computed once
\* (in the ASSUME below, by the main thread, which sets the registers of all workers) and read back with TLCGet
ASSUME LET us == SetToSeq(Universe)
       IN /\ TLCSet(10, Universe)
          /\ TLCSet(11, us)
          /\ TLCSet(12, [i \in DOMAIN us |-> Enc(us[i])] \o <<>>)
          /\ TLCSet(13, [i \in DOMAIN us |-> Canon(us[i])] \o <<>>)
USet == TLCGet(10)
USeq == TLCGet(11)
EncS == TLCGet(12)
CanS == TLCGet(13)
N == Len(USeq)

\* d = 0: nothing built yet (v is a placeholder); d = 1: a base value; d = 2, 3: wrapped once, twice
Init == v = NoneV /\ d = 0 /\ adv = FALSE

Make(Fam) == /\ d = 0
           /\ v' \in Fam
           /\ d' = 1
           /\ adv' = (v' \in (IF Level = 1 THEN WrapBase ELSE WrapBase2))
\* one action per family of base constructors
AScalar == d = 0 /\ Make(Scalars)
ANumpyScalar == d = 0 /\ Make(NpScalars)
AClass == d = 0 /\ Make(Types)
ATupleOf == d = 0 /\ Make(Tuples \cup Nesting)
AListOf == d = 0 /\ Make(Lists)
ADictOf == d = 0 /\ Make(DictsOK)
ASetOf == d = 0 /\ Make(SetsOK)
ANamedTupleOf == d = 0 /\ Make(NamedTuples)
ADataclassOf == d = 0 /\ Make(DataClasses)
ANdArray == d = 0 /\ Make(NdArrays)
AArrayData == d = 0 /\ Make(ArrayData)
AInstance == d = 0 /\ Make(Instances)
AFrozenDictOf == d = 0 /\ Make(FDicts)
AFrozenMultisetOf == d = 0 /\ Make(FMSets)
AHashableFunctionOf == d = 0 /\ Make(HFuncs)
ABoundMethod == d = 0 /\ Make(Methods)
ABuffer == d = 0 /\ Make(Bufs)
ACachedCall == d = 0 /\ Make(Calls)

Step(w) == /\ d >= 1
           /\ Kind(v) # "call"
           /\ Wrappable(v, d - 1, adv)
           /\ v' = w
           /\ d' = d + 1
           /\ adv' = adv
ATuple == d >= 1 /\ Step(W_Tuple(v))
ATupleL == d >= 1 /\ Step(W_TupleL(v))
ATupleR == d >= 1 /\ Step(W_TupleR(v))
AList == d >= 1 /\ Step(W_List(v))
ADictVal == d >= 1 /\ Step(W_DictVal(v))
ANamedTuple == d >= 1 /\ Step(W_NT(v))
ADictKey == Hashable(v) /\ Step(W_DictKey(v))
ASet == Hashable(v) /\ Step(W_Set(v))
AFrozenSet == Hashable(v) /\ Step(W_FrozenSet(v))
AFrozenDict == Hashable(v) /\ Step(W_FDict(v))
AFrozenMultiset == Hashable(v) /\ Reflexive(v) /\ Step(W_FMS(v))
AImmutableArg == Hashable(v) /\ Step(W_Imm(v))
ADataClassArg == Hashable(v) /\ Step(W_Data(v))
AHashableFunction == Identifier(v) /\ Step(W_HFunc(v))

Next == \/ AScalar \/ ANumpyScalar \/ AClass \/ ATupleOf \/ AListOf \/ ADictOf \/ ASetOf \/ ANamedTupleOf \/ ADataclassOf
        \/ ANdArray \/ AArrayData \/ AInstance \/ AFrozenDictOf \/ AFrozenMultisetOf \/ AHashableFunctionOf \/ ABoundMethod \/ ABuffer \/ ACachedCall
        \/ ATuple \/ ATupleL \/ ATupleR \/ AList \/ ADictVal \/ ANamedTuple \/ ADictKey \/ ASet \/ AFrozenSet
        \/ AFrozenDict \/ AFrozenMultiset \/ AImmutableArg \/ ADataClassArg \/ AHashableFunction

Spec == Init /\ [][Next]_vars

(* ------------------------------------------------------------------ properties *)
EmitVF(x) == PrintT(<<"VF", ToJson(x)>>)

InUniverse == d = 0 \/ v \in USet

\* candidates: the values that share the encoding or the identity of v (one pass over the universe)
Partners(e, c) == {j \in 1..N : EncS[j] = e \/ CanS[j] = c}

Injective(e, c, PS) ==
  LET bad == {j \in PS : EncS[j] = e /\ CanS[j] # c /\ ~Grey(v, USeq[j])}
  IN IF bad = {} THEN TRUE
     ELSE EmitVF([inv |-> "Injective", t |-> v, others |-> SetToSeq({USeq[j] : j \in bad})]) /\ FALSE

Stable(e, c, PS) ==
  LET bad == {j \in PS : CanS[j] = c /\ EncS[j] # e}
  IN IF bad = {} THEN TRUE
     ELSE EmitVF([inv |-> "Stable", t |-> v, others |-> SetToSeq({USeq[j] : j \in bad})]) /\ FALSE

\* observations outside the property's domain (never judged)
GreyCollisions(e, c, PS) ==
  LET bad == {j \in PS : EncS[j] = e /\ CanS[j] # c /\ Grey(v, USeq[j])}
  IN bad = {} \/ EmitVF([inv |-> "Grey", t |-> v, others |-> SetToSeq({USeq[j] : j \in bad})])

\* TLC stops evaluating the invariants of a state at the first one that fails; Judge evaluates all clauses
\* (a tuple constructor is strict) so that with -continue every violation of every state is emitted
Judge == d = 0 \/
  LET e == Enc(v)
      c == Canon(v)
      ps == Partners(e, c)
      r == <<Injective(e, c, ps), Stable(e, c, ps), GreyCollisions(e, c, ps)>>
  IN r[1] /\ r[2] /\ r[3]

\* the class table goes to the harness, which builds the classes from it
ASSUME EmitVF([inv |-> "classtab", tab |-> ClassTab])

\* every state hands its value to the harness
EmitValue == d = 0 \/ EmitVF([inv |-> "value", t |-> v])
=============================================================================
