------------------------------ MODULE StepRetry ------------------------------
(***************************************************************************)
(* Design specification of System.step (src/nutils/solver.py:503-558): one *)
(* time step with recovery from solver / matrix errors by recursive        *)
(* bisection of the time step, at most maxretry levels deep.               *)
(*                                                                         *)
(* Time is counted in units of timestep / 2^MaxRetry, the step starts at   *)
(* time 0 and has length U.  The outcome of every self.solve call is drawn *)
(* by an oracle: 1 = returns, 0 = SolverError, 2 = MatrixError, 3 = some   *)
(* other exception (not caught by step).  A frame is one activation of     *)
(* step: tin = time in the arguments it was given, t0 / lt = the           *)
(* arguments[timearg+suffix] / arguments[timearg] of its local copy.       *)
(*                                                                         *)
(* conf.rep = FALSE models the code as written: the except branch passes   *)
(* the LOCAL arguments (time already advanced by timestep) to the first    *)
(* half step.  conf.rep = TRUE passes the arguments the frame was given.   *)
(* Advance / Tiling are the "meets what was requested" part of C14 for     *)
(* time steps: a step that returns has advanced time by exactly timestep   *)
(* and the successful solves tile [0, timestep].                           *)
(***************************************************************************)
EXTENDS Integers, Sequences, TLC, Json

CONSTANTS MaxRetrySet,  \* values of maxretry explored
          TimeDeps,     \* subset of BOOLEAN: does timearg/timesteparg occur in the system
          MaxCalls,     \* bound on the number of solve calls
          Variants,     \* subset of BOOLEAN, values of conf.rep
          Emitting

VARIABLES conf,     \* [maxretry, timedep, rep]
          stack,    \* sequence of frames, last = active
          ret,      \* -1 or the time of the arguments being returned to the caller
          calls,    \* history of solve calls <<t0, lt, dt, code>>
          outcome,  \* "none" | "return" | "SolverError" | "MatrixError" | "Other"
          time      \* time of the returned arguments

vars == <<conf, stack, ret, calls, outcome, time>>

Pow2(n) == IF n = 0 THEN 1 ELSE IF n = 1 THEN 2 ELSE IF n = 2 THEN 4 ELSE 8
U == Pow2(conf.maxretry)
Frame(tin, dt, lvl) == [tin |-> tin, t0 |-> tin, lt |-> tin, dt |-> dt, lvl |-> lvl, ph |-> "enter"]
Top == stack[Len(stack)]
SetTop(f) == [stack EXCEPT ![Len(stack)] = f]
Exc(code) == IF code = 0 THEN "SolverError" ELSE IF code = 2 THEN "MatrixError" ELSE "Other"

Init == /\ conf \in [maxretry : MaxRetrySet, timedep : TimeDeps, rep : Variants]
        /\ stack = <<Frame(0, Pow2(conf.maxretry), conf.maxretry)>>
        /\ ret = -1 /\ calls = <<>> /\ outcome = "none" /\ time = 0

\* arguments = arguments.copy(); arguments[timearg+suffix] = time; arguments[timearg] = time + timestep
Enter == /\ outcome = "none" /\ ret = -1 /\ Len(stack) > 0 /\ Top.ph = "enter"
         /\ stack' = SetTop([Top EXCEPT !.t0 = Top.tin, !.lt = Top.tin + Top.dt, !.ph = "solve"])
         /\ UNCHANGED <<conf, ret, calls, outcome, time>>

\* return self.solve(arguments=arguments, **solveargs)
SolveOk == /\ outcome = "none" /\ ret = -1 /\ Len(stack) > 0 /\ Top.ph = "solve" /\ Len(calls) < MaxCalls
           /\ calls' = Append(calls, <<Top.t0, Top.lt, Top.dt, 1>>)
           /\ ret' = Top.lt
           /\ stack' = SubSeq(stack, 1, Len(stack) - 1)
           /\ UNCHANGED <<conf, outcome, time>>

\* except (SolverError, MatrixError): raise if the system does not depend on time or maxretry <= 0,
\* else retry 1/2 with half the time step
SolveFail == /\ outcome = "none" /\ ret = -1 /\ Len(stack) > 0 /\ Top.ph = "solve" /\ Len(calls) < MaxCalls
             /\ \E code \in {0, 2, 3} :
                  /\ calls' = Append(calls, <<Top.t0, Top.lt, Top.dt, code>>)
                  /\ IF code = 3 \/ ~conf.timedep \/ Top.lvl <= 0
                     THEN outcome' = Exc(code) /\ stack' = <<>>
                     ELSE /\ outcome' = outcome
                          /\ stack' = Append(SetTop([Top EXCEPT !.ph = "h1"]),
                                             Frame(IF conf.rep THEN Top.tin ELSE Top.lt, Top.dt \div 2, Top.lvl - 1))
             /\ UNCHANGED <<conf, ret, time>>

\* a callee returned its arguments: retry 2/2 from the halfway arguments, or hand the result up
Resume == /\ outcome = "none" /\ ret # -1
          /\ IF Len(stack) = 0
             THEN outcome' = "return" /\ time' = ret /\ ret' = -1 /\ UNCHANGED stack
             ELSE /\ UNCHANGED <<outcome, time>>
                  /\ IF Top.ph = "h1"
                     THEN /\ stack' = Append(SetTop([Top EXCEPT !.ph = "h2"]), Frame(ret, Top.dt \div 2, Top.lvl - 1))
                          /\ ret' = -1
                     ELSE /\ stack' = SubSeq(stack, 1, Len(stack) - 1)     \* "h2": return self.step(..)
                          /\ UNCHANGED ret
          /\ UNCHANGED <<conf, calls>>

Next == Enter \/ SolveOk \/ SolveFail \/ Resume
Spec == Init /\ [][Next]_vars

\* ------------------------------------------------------------------ properties
OkCalls == SelectSeq(calls, LAMBDA c : c[4] = 1)
AdvanceAsWritten == outcome = "return" => time = U
Advance == conf.rep => AdvanceAsWritten
Tiling == (conf.rep /\ outcome = "return") =>
             /\ Len(OkCalls) > 0
             /\ OkCalls[1][1] = 0 /\ OkCalls[Len(OkCalls)][2] = U
             /\ \A i \in 1..(Len(OkCalls) - 1) : OkCalls[i][2] = OkCalls[i + 1][1]
EachSolve == \A i \in 1..Len(calls) : calls[i][2] = calls[i][1] + calls[i][3] /\ calls[i][3] >= 1
Depth == Len(stack) <= conf.maxretry + 1
NoRetryWithoutTime == ~conf.timedep => Len(calls) <= 1
CertNow == time = U /\ Len(OkCalls) > 0 /\ OkCalls[1][1] = 0 /\ OkCalls[Len(OkCalls)][2] = U
           /\ \A i \in 1..(Len(OkCalls) - 1) : OkCalls[i][2] = OkCalls[i + 1][1]

Emit(x) == PrintT(<<"VF", ToJson(x)>>)
EmitTerminal == (Emitting /\ outcome # "none") =>
                   Emit([conf |-> conf, calls |-> calls, outcome |-> outcome, time |-> time, unit |-> U,
                         cert |-> (outcome # "return" \/ CertNow)])
=============================================================================
