SPECIFICATION TraceSpec
CONSTRAINT Progress
INVARIANT MutexCompute
INVARIANT LockHeld
INVARIANT Transparent
INVARIANT LoadableIsGenuine
POSTCONDITION TraceAccepted
CHECK_DEADLOCK FALSE
