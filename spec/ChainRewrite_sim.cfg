\* thorough, simulation: long mixed chains (up to 6 child/edge items), results rewritten once more
SPECIFICATION Spec
CONSTANTS
  MaxDim = 3
  MaxLen = 6
  LongDim = 0
  LongLen = 0
  MaxRounds = 1
  WrongSwap = FALSE
INVARIANT MapPreserved
INVARIANT WellFormed
INVARIANT InRange
INVARIANT Terminates
INVARIANT CanonicalDone
INVARIANT OperatorAgrees
INVARIANT DimsKept
INVARIANT EmitDone
CHECK_DEADLOCK FALSE
