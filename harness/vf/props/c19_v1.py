"""C19, the language only expression_v1 has: arguments with deduced axis lengths, dirac and
indexed numbers, gradients / surface gradients / normal, substitution, calls with several
arguments (among which d(f, x_i) and d(f, ?u_i)).

Deciding method.  spec/ExprV1Lang.tla states the documented reading: the rules as a counting
of index occurrences, the length deduction as the equivalence classes of the links the rules
impose between axis lengths (known / undetermined / conflicting), the meaning as exact
two-sided rationals with derivatives by the sum / product / quotient / chain rules on
quadratic data.  spec/ExprV1Parse.tla models the bookkeeping of expression_v1._Array (groups
of linked lengths merged through a cache, one operator per method) and a derivation machine;
TLC checks over every derivable tree that the bookkeeping accepts exactly the trees the
reading accepts, with the same free indices, lengths and argument shapes, for a namespace
without and with a fallback length.  Every complete state is emitted and replayed here on the
real expression_v1.Namespace (eval_..., attribute assignment, `expr @ ns`): exception class,
shape, axis order, argument shapes and values on both sides of an interface.
"""

import collections
import fractions
import os
import warnings

import numpy

from .. import tlc
from . import c19_ns
from .c19_ns import Outcome, text

JVM = {'JAVA_TOOL_OPTIONS': '-XX:ParallelGCThreads=2 -XX:CICompilerCount=2'}

CFG = '''SPECIFICATION {SPEC}
CONSTANTS
  Fams <- VFFams
  EmitMin = {EM}
  Bug = "{BUG}"
  Lazy = {LAZY}
'''
CHECKS = '''INVARIANT VerdictAgree
INVARIANT FreeAgree
INVARIANT GroupsAgree
INVARIANT InferenceSound
CONSTRAINT EmitComplete
CONSTRAINT EmitTables
'''

# seeded defect of the bookkeeping model -> the configuration (spec/ExprV1Parse_mutant_*.cfg: a tiny family and Bug = ...) that must expose it
SPEC_MUTANTS = {
    'update-nontransitive': 'ExprV1Parse_mutant_update.cfg',     # _update_lengths re-points only the two linked lengths, not the merged group: (?u_i + ?v_i)_,i
    'call-raw-union': 'ExprV1Parse_mutant_callunion.cfg',        # the groups of the arguments of a call are united, not joined: mul(?u_i r_i, ?u_j)
    'subst-nolink': 'ExprV1Parse_mutant_substnolink.cfg',        # a substitution does not link the argument with its value: ?u_i(u_i = r_i)
    'grad-len-from-arg': 'ExprV1Parse_mutant_gradlen.cfg',       # the gradient axis takes the length of the last axis instead of the geometry: s_i,j
    'mul-nosummed': 'ExprV1Parse_mutant_mulsummed.cfg',          # __mul__ forgets that the common indices are summed: r_i r_i r_i
}

ACTIONS = ['ANum', 'AVar', 'AArg', 'AV1Leaf', 'ABadLeaf', 'AWrap', 'AGrad', 'ACall1', 'ACall2', 'ASubst', 'APowInt', 'APowScoped', 'ATerm', 'AFrac', 'ANeg',
           'ASum', 'AFinish']


def run_tlc(tag, fams, *, bare=False, bug='', emitmin=0, simulate=None, depth=None, seed=0, coverage=False, timeout=900):
    """one TLC run of MCExprV1Parse over the named families (the family is chosen in the initial state)"""
    wd = tlc.workdir(tag + '-defs')
    path = os.path.join(wd, 'MCExprV1ParseX.tla')
    with open(path, 'w') as f:
        f.write('---- MODULE MCExprV1ParseX ----\nEXTENDS MCExprV1Parse\nVFFams == << {} >>\n====\n'.format(', '.join(fams)))
    cfg = CFG.format(SPEC='BareSpec' if bare else 'Spec', EM=emitmin, BUG=bug, LAZY='TRUE' if simulate else 'FALSE') + ('' if bare else CHECKS) + 'CHECK_DEADLOCK FALSE\n'
    kw = {}
    if simulate:
        kw = dict(simulate=dict(num=simulate), depth=depth, seed=seed)
    return tlc.run('MCExprV1ParseX', cfg_text=cfg, tag=tag, workers=1, deadlock=False, coverage=coverage, timeout=timeout, env=JVM,
                   extra_modules=[path], **kw)


def plan(rep):
    quick = rep.tier == 'quick'
    if quick:
        exh = [['FamLen'], ['FamChainQ'], ['FamLen2Q', 'FamCor1'], ['FamGradQ', 'FamCallQ', 'FamGradB', 'FamCall3Q'], ['FamSubstQ', 'FamMutQ']]
        sim = ['FamSim1', 'FamSim1O', 'FamSimLen', 'FamSim1M']
    else:
        exh = [['FamChain'], ['FamLen4'], ['FamGrad3'], ['FamSubst'], ['FamCall'], ['FamCall2'], ['FamLen', 'FamCor1', 'FamMut1'], ['FamLen2', 'FamGradB'], ['FamGrad', 'FamSubst2']]
        sim = ['FamSim1', 'FamSim1O', 'FamSimLen', 'FamSim1M']
    nsim = 150 if quick else 1500
    mutants = ['update-nontransitive', 'call-raw-union'] if quick else sorted(SPEC_MUTANTS)
    return exh, sim, nsim, mutants


def jobs(rep):
    """the TLC runs of this part as name -> thunk (run by c19.model_phase in its pool)"""
    exh, sim, nsim, mutants = plan(rep)
    tmo = 500 if rep.tier == 'quick' else 2400
    out = {}
    for i, fams in enumerate(exh):
        out['v1:exhaustive%d' % i] = (lambda i, fams: lambda: run_tlc('c19v1-exh%d' % i, fams, timeout=tmo))(i, fams)
    out['v1:simulate'] = lambda: run_tlc('c19v1-sim', sim, emitmin=2, simulate=nsim, depth=26, seed=rep.seed + 191, timeout=tmo)
    out['v1:coverage'] = lambda: run_tlc('c19v1-cover', ['FamCov1'], bare=True, coverage=True, timeout=tmo)
    for bug in mutants:
        out['v1:mutant:' + bug] = (lambda bug: lambda: tlc.run('MCExprV1Parse', SPEC_MUTANTS[bug], tag='c19v1-mutant-' + bug, workers=1, deadlock=False, timeout=tmo, env=JVM))(bug)
    return out


def collect(rep, results):
    """judge the TLC results: returns (tables, cases per family, names of the simulated families)"""
    exh, sim, nsim, mutants = plan(rep)
    runs = [('v1:exhaustive%d' % i, fams) for i, fams in enumerate(exh)] + [('v1:simulate', sim)]
    for k, _ in runs:
        res = results[k]
        if res.violated:
            raise tlc.TLCError('C19 design spec (version 1 language): invariant {} violated ({} run): the documented reading and the bookkeeping model disagree; '
                               'this is a defect of the specification, not of nutils:\n{}'.format(res.violated, k, '\n'.join(l[:300] for l in res.error_trace[:30])))
        rep.add_tlc(res, exhaustive=(k != 'v1:simulate'))
    cov = results['v1:coverage']
    rep.tlc_cmds.append(cov.cmd.split('tlc2.TLC ')[-1])
    for a, v in cov.coverage.items():
        if a in ACTIONS:
            rep.actions['v1.' + a] = v[1]
    dead = [a for a in ACTIONS if not rep.actions.get('v1.' + a)]
    if dead:
        raise tlc.TLCError('C19 vacuity guard (version 1 machine): actions never taken: {}'.format(dead))
    for bug in mutants:
        res = results['v1:mutant:' + bug]
        if not res.violated:
            raise tlc.TLCError('C19: the seeded defect {!r} of the version 1 bookkeeping model violates no invariant over {}: the invariants are vacuous'.format(bug, SPEC_MUTANTS[bug]))
        rep.extra.setdefault('spec_mutants_caught', {})['v1:' + bug] = res.violated
    tables = None
    byfam = collections.defaultdict(dict)
    for k, names in runs:
        for e in results[k].emitted:
            if 'v1vars' in e:
                tables = e
            else:
                byfam[names[e['fam'] - 1]].setdefault((''.join(e['t']), e['ok']), e)
    if tables is None:
        raise tlc.TLCError('C19: the version 1 model did not emit its namespace tables')
    for name, d in byfam.items():
        rep.constants['v1.' + name] = dict(trees=len(d), valid=sum(c['ok'] == 'ok' for c in d.values()), invalid=sum(c['ok'] == 'bad' for c in d.values()),
                                           unknown_lengths=sum(c['nun'] > 0 for c in d.values()))
    return tables, dict(byfam), sim


# ====================================================================== the replay side

def _mul(*args):
    from nutils import function
    out = function.Array.cast(args[0])
    for b in args[1:]:
        b = function.Array.cast(b)
        out = out[(Ellipsis,) + (None,) * b.ndim] * b[(None,) * out.ndim]
    return out


class World1:
    """the namespace of ExprV1Lang.tla as nutils objects: quadratic data on two elements of a 2D mesh, evaluated in the
    midpoint of the interface (both sides)"""

    def __init__(self, tables):
        from nutils import mesh, function
        self.function = function
        self.tables = tables
        topo, geom = mesh.rectilinear([[0, 1, 2], [0, 2]])
        self.geom = geom
        self.sample = topo.interfaces.sample('gauss', 1)
        assert self.sample.npoints == 1
        point = self.sample.eval(geom)[0]
        basis = topo.basis('discont', degree=0)
        this, = self.sample.eval((basis * numpy.array([0., 1.])).sum(0))
        self.this = int(round(float(this)))
        dx = geom - point

        def poly(j):
            f, f0, f1, f00, f01, f11 = j
            return f + f0 * dx[0] + f1 * dx[1] + .5 * f00 * dx[0]**2 + f01 * dx[0] * dx[1] + .5 * f11 * dx[1]**2
        self.vars = {}
        for nm, t in tables['v1vars'].items():
            sh = tuple(t['sh'])
            if nm == 'x':
                self.vars[nm] = geom
            elif t['cst']:
                assert t['j'][0] == t['j'][1] and all(not any(j[1:]) for j in t['j'][0])
                self.vars[nm] = numpy.array([j[0] for j in t['j'][0]], dtype=float).reshape(sh)
            else:
                comps = [basis[self.this] * poly(j0) + basis[1 - self.this] * poly(j1) for j0, j1 in zip(t['j'][0], t['j'][1])]
                self.vars[nm] = numpy.reshape(numpy.stack(comps), sh) if sh else comps[0]
        self.args = tables['args']
        self.gdim = tables['gdim']
        self.setup_failures = {}
        self.selfcheck(point)

    def selfcheck(self, point):
        'the nutils objects have the jets / the normal of the tables (a failure is a defect of this harness, not of nutils)'
        f = self.function
        n0, n1 = self.sample.eval([f.normal(self.geom), f.opposite(f.normal(self.geom))])
        want = numpy.array(self.tables['normal'], dtype=float)
        if not (numpy.allclose(n0[0], want[:, 0]) and numpy.allclose(n1[0], want[:, 1])):
            raise tlc.TLCError('C19 version 1 world: the normal in the evaluation point is {} / {}, the model has {}'.format(n0[0], n1[0], want.tolist()))
        for nm, t in self.tables['v1vars'].items():
            v = f.Array.cast(self.vars[nm])
            g = f.grad(v, self.geom)
            h = f.grad(g, self.geom)
            got = self.sample.eval([v, g, h, f.opposite(v), f.opposite(g), f.opposite(h)])
            for side in 0, 1:
                val, gr, he = (numpy.asarray(a)[0] for a in got[3 * side:3 * side + 3])
                j = numpy.array(t['j'][side], dtype=float).reshape(tuple(t['sh']) + (6,))
                ok = numpy.allclose(val, j[..., 0]) and numpy.allclose(gr, j[..., 1:3]) and numpy.allclose(he[..., 0, 0], j[..., 3]) \
                    and numpy.allclose(he[..., 0, 1], j[..., 4]) and numpy.allclose(he[..., 1, 0], j[..., 4]) and numpy.allclose(he[..., 1, 1], j[..., 5])
                if not ok:
                    raise tlc.TLCError('C19 version 1 world: variable {} (side {}) does not have the jet of the model table'.format(nm, side))

    def namespace(self, fallback=None):
        from nutils import expression_v1
        ns = expression_v1.Namespace(functions=dict(sqr=lambda x: x**2, mul=_mul), fallback_length=fallback)
        for k, v in self.vars.items():
            setattr(ns, k, v)
        # the arguments whose shape the namespace knows (ns.arg_shapes): declared by an earlier assignment
        for nm, a in self.args.items():
            if a['known']:
                sh = tuple(a['decl'])
                idx = 'ijkl'[:len(sh)]
                expr = '?{0}_{1} {2}'.format(nm, idx, ' '.join('{}_{}'.format({2: 'r', 3: 's'}[n], i) for n, i in zip(sh, idx)))
                try:        # (this assignment is itself a valid expression given to the code under test)
                    setattr(ns, 'decl' + nm, expr)
                    got = tuple(ns.arg_shapes[nm])
                    if got != sh:
                        raise ArgShapeMismatch('ns.arg_shapes[{!r}] = {} after the assignment, the expression determines {}'.format(nm, got, sh))
                except Exception as ex:
                    self.setup_failures[fallback] = 'ns.decl{} = {!r} (Namespace(fallback_length={})) raised {}: {}'.format(nm, expr, fallback, type(ex).__name__, str(ex).split('\n')[0][:160])
                    return None
        return ns

    def argval(self, nm, shape):
        a = self.args[nm]
        out = numpy.full(tuple(shape), float(a['base']))
        for p, idx in enumerate(numpy.indices(tuple(shape))):
            out = out + a['step'][p] * idx
        return out


STRUCT1 = ('subst', 'grad', 'call', 'sum', 'frac', 'term', 'pow', 'scope', 'jump', 'mean', 'arg', 'eye', 'cix', 'normal')


def opsig(case):
    return '+'.join(o for o in STRUCT1 if o in case['ops']) or 'leaf'


def msgclass(msg):
    for key, pat in (('length-undetermined', 'Length of axis cannot be determined'), ('lengths-differ', 'different lengths'), ('shapes-differ', 'Shapes at index'),
                     ('axis-lengths', 'axis lengths do not match')):
        if pat in msg:
            return key
    return 'other'


class Pending:
    __slots__ = 'engine', 'case', 'label', 'order', 'proj', 'arr', 'args'

    def __init__(self, engine, case, label, order, proj, arr, args):
        self.engine, self.case, self.label, self.order, self.proj, self.arr, self.args = engine, case, label, order, proj, arr, args


class Replayer1:

    def __init__(self, tables):
        from nutils import expression_v1
        self.e1 = expression_v1
        self.world = World1(tables)
        self.ns = {None: self.world.namespace()}
        self.allrev = True

    def namespace(self, fb):
        if fb not in self.ns:
            self.ns[fb] = self.world.namespace(fb)
        return self.ns[fb]

    def pick(self, s):
        'the values in the reversed axis order: every case (thorough), one in three (quick)'
        return self.allrev or sum(map(ord, s)) % 3 == 0

    def variants(self, case):
        """the namespaces a case is replayed on: (label, fallback, verdict, axes, arrays, argument shapes)"""
        axes = case['fr'] if case['ok'] == 'ok' else case['guess']
        out = [('plain', None, case['ok'], axes, case['arr'], case['rev'], case['args'])]
        if case['nun'] > 0 and case['fb']:
            if case['okF'] == 'same':
                out.append(('fallback', case['fb'], case['ok'], axes, case['arr'], case['rev'], case['args']))
            else:
                out.append(('fallback', case['fb'], case['okF'], case['guess'], case['arrF'], case['revF'], case['argsF']))
        return out

    def key(self, kind, case, detail):
        # the cases the known defect of the call path (groups of linked lengths united, not joined) decides differently
        # (case['kf']: the root cause the model names for a tree the implementation is known to decide differently)
        if case.get('kf'):
            return 'v1:' + case['kf']
        return 'v1:{}:{}'.format(kind, detail)

    def replay(self, case, full=True):
        """-> (list of final Outcomes, list of Pending arrays).  One Outcome per (variant, engine).
        full: every way to hand the string to the namespace and the values of the result; otherwise eval_... only, judged on
        exception class, shape and argument shapes (no evaluation)."""
        s = text(case)
        outs, pend = [], []
        ESE = self.e1.ExpressionSyntaxError
        function = self.world.function
        for vlabel, fb, ok, axes, arr, rev, args in self.variants(case):
            if ok == 'skip':
                outs.append(('v1x:' + vlabel, Outcome('skip')))
                continue
            ns = self.namespace(fb)
            if ns is None:      # the namespace could not be set up: reported once (replay_phase)
                continue
            want_args = {nm: tuple(sh) for nm, sh in args}
            idx = ''.join(axes)
            calls = [('eval', 'ns.eval_{}(expr)'.format(idx), axes, arr, lambda: getattr(ns, 'eval_' + idx)(s))]
            light = vlabel == 'fallback' and not want_args       # same verdict and lengths as on the plain namespace, no argument: no second evaluation
            if not full:
                light = True
            if full and ok == 'ok' and len(axes) >= 2:
                ridx = idx[::-1]
                calls.append(('eval-rev', 'ns.eval_{}(expr)'.format(ridx), list(reversed(axes)), rev, (lambda ridx: lambda: getattr(ns, 'eval_' + ridx)(s))(ridx)))
            # (`expr @ ns` and an assignment without indices first try to read the string with all indices omitted, where other
            # rules hold: strings that must be refused are only given to eval_...)
            if full and ok == 'ok' and len(axes) <= 1:
                calls.append(('matmul', 'expr @ ns', axes, arr, lambda: s @ ns))

            def assign():
                saved = dict(ns._arg_shapes)          # the assignment records the shapes of the arguments: undone afterwards
                try:
                    setattr(ns, 'zz' + ('_' + idx if idx else ''), s)
                    got = {nm: tuple(sh) for nm, sh in ns.arg_shapes.items()}
                    for nm, sh in want_args.items():
                        if got.get(nm) != sh:
                            raise ArgShapeMismatch('ns.arg_shapes[{!r}] = {} after the assignment, the expression determines {}'.format(nm, got.get(nm), sh))
                    return ns.zz
                finally:
                    ns._arg_shapes.clear()
                    ns._arg_shapes.update(saved)
                    ns._attributes.pop('zz', None)
            if full and ok == 'ok':
                calls.append(('setattr', 'ns.zz_{} = expr'.format(idx), axes, arr, assign))
            for eng, label, order, proj, call in calls:
                engine = 'v1x:{}:{}'.format(vlabel, eng)
                try:
                    with warnings.catch_warnings():
                        warnings.simplefilter('ignore')
                        a = call()
                    how, msg = 'value', ''
                except Exception as ex:
                    a = None
                    how = 'rejected' if isinstance(ex, ESE) else 'raised-' + type(ex).__name__
                    msg = str(ex).split('\n')[0][:160]
                where = '{} [{} namespace{}]'.format(label, vlabel, ', fallback_length={}'.format(fb) if fb else '')
                if ok == 'bad':
                    if how == 'value':
                        outs.append((engine, Outcome('violation', self.key('accepted', case, case['why']),
                                                     '{} evaluated {!r} (shape {}) although it violates the documented rule {!r}'.format(where, s, numpy.shape(a), case['why']))))
                    elif how != 'rejected':
                        outs.append((engine, Outcome('violation', self.key(how, case, case['why']),
                                                     '{} refused {!r} (rule {!r}) with {} instead of ExpressionSyntaxError: {}'.format(where, s, case['why'], how[7:], msg))))
                    else:
                        outs.append((engine, Outcome('ok', checked=1)))
                    continue
                if how != 'value':
                    kind = 'valid-rejected' if how == 'rejected' else 'valid-' + how
                    outs.append((engine, Outcome('violation', self.key(kind, case, msgclass(msg) if how == 'rejected' or 'ArgShape' in how or how == 'raised-ValueError' else opsig(case)),
                                                 '{} {} the valid expression {!r}: {}'.format(where, 'rejected' if how == 'rejected' else 'raised ' + how[7:] + ' on', s, msg))))
                    continue
                sh = tuple(proj['sh'])
                if tuple(numpy.shape(a)) != sh:
                    outs.append((engine, Outcome('violation', self.key('shape', case, opsig(case)),
                                                 '{} {!r}: shape {} instead of {} for axes {}'.format(where, s, numpy.shape(a), sh, ''.join(order)))))
                    continue
                got_args = {nm: tuple(arg.shape) for nm, arg in function.arguments_for(a).items()}
                wrong = {nm: sh_ for nm, sh_ in got_args.items() if want_args.get(nm) != sh_}
                if wrong:
                    outs.append((engine, Outcome('violation', self.key('argument-shape', case, 'deduced-length'),
                                                 '{} {!r}: the arguments of the result have shapes {}, the expression determines {}'.format(where, s, got_args, want_args))))
                    continue
                if (eng == 'eval' and not light) or (eng == 'eval-rev' and not light and self.pick(s)):
                    pend.append(Pending(engine, case, where, order, proj, a, got_args))
                else:
                    outs.append((engine, Outcome('ok', checked=0 if eng == 'eval' and not full else 1)))
        return outs, pend

    # -- evaluation of the produced arrays: batched per signature of argument shapes
    def evaluate(self, pendings):
        W = self.world
        groups = collections.defaultdict(list)
        for i, p in enumerate(pendings):
            groups[tuple(sorted(p.args.items()))].append(i)
        out = [None] * len(pendings)
        for sig, members in groups.items():
            arguments = {nm: W.argval(nm, sh) for nm, sh in sig}
            for i, o in zip(members, self._evaluate([pendings[i] for i in members], arguments)):
                out[i] = o
        return out

    def _evaluate(self, pendings, arguments):
        W = self.world
        flat = []
        for p in pendings:
            flat += [p.arr, W.function.opposite(p.arr)]
        try:
            with warnings.catch_warnings(), numpy.errstate(all='ignore'):
                warnings.simplefilter('ignore')
                vals = W.sample.eval(flat, arguments=arguments)
            vals = [numpy.asarray(v)[0] for v in vals]
            return [self.compare(p, vals[2 * i], vals[2 * i + 1]) for i, p in enumerate(pendings)]
        except Exception as ex:
            if len(pendings) > 1:
                return [self._evaluate([p], arguments)[0] for p in pendings]
            p, = pendings
            mask = c19_ns.model_array(p.proj)[3]
            if mask.all():
                return [Outcome('violation', self.key('eval-raised-' + type(ex).__name__, p.case, msgclass(str(ex))),
                                '{} {!r}: the evaluation of the result raised {!r}'.format(p.label, text(p.case), ex))]
            return [Outcome('skip')]

    def compare(self, p, got0, got1):
        sh, want0, want1, mask = c19_ns.model_array(p.proj)
        if not c19_ns.close(got0, want0, mask) or not c19_ns.close(got1, want1, mask):
            return Outcome('violation', self.key('value', p.case, opsig(p.case)),
                           '{} {!r} (axes {}): got {} / opposite {}, the index-notation reading is {} / {}'.format(
                               p.label, text(p.case), ''.join(p.order), numpy.asarray(got0).tolist(), numpy.asarray(got1).tolist(), want0.tolist(), want1.tolist()))
        return Outcome('ok' if mask.any() else 'skip', checked=int(mask.any()))


class ArgShapeMismatch(Exception):
    pass


def stratify(cases, per_bad, per_ok, rng):
    'at most per_bad / per_ok cases of every (verdicts, rule, operations, number of unknown lengths) class'
    groups = collections.defaultdict(list)
    for c in cases:
        groups[c['ok'], c['why'], c['okF'], opsig(c), min(c['nun'], 3)].append(c)
    out = []
    for key in sorted(groups):
        g = groups[key]
        g.sort(key=text)
        n = per_ok if 'ok' in (key[0], key[2]) else per_bad
        if len(g) > n:
            g = rng.sample(g, n)
        out.extend(g)
    return out


def replay_phase(rep, tables, byfam, sim, rng):
    """S->C: the selected cases on the real expression_v1 namespaces"""
    quick = rep.tier == 'quick'
    R = Replayer1(tables)
    R.allrev = not quick
    per_bad = 12 if quick else 150           # per (family, verdicts, rule, operations, unknown lengths) class: strings that must be refused
    per_ok = 5 if quick else 12              # ... valid strings replayed in every way, with their values
    nlight = 0
    worst = {}
    seen = set()
    status = {}
    pending = []

    def record(c, name, eng, o):
        st = status[text(c), c['ok']]
        if o.kind == 'skip':
            st[3] += 1
            return
        st[2] += 1
        if o.kind == 'violation':
            s = text(c)
            w = worst.get(o.key)
            rank = (c['no'], len(s), s)
            data = dict(expression=s, model=dict(verdict=c['ok'], rule=c['why'], axes=c['fr'], array=c['arr'], arguments=c['args'],
                                                 with_fallback=dict(length=c['fb'], verdict=c['okF'], arguments=c['argsF'])), family=name)
            if w is None or rank < w[0]:
                worst[o.key] = (rank, o.what, data, (w[3] if w else 0) + 1)
            else:
                worst[o.key] = (w[0], w[1], w[2], w[3] + 1)

    def flush():
        outs = R.evaluate([p for p, _ in pending])
        for (p, name), o in zip(pending, outs):
            record(p.case, name, p.engine, o)
        del pending[:]

    for name in sorted(byfam):
        cases = list(byfam[name].values())
        sel = stratify(cases, per_bad, 100000 if name in sim else per_ok, rng)
        chosen = set(id(c) for c in sel)
        # every other valid string: is it accepted, with the shape and the argument shapes the model deduces (cheap: no evaluation)
        rest = [c for c in cases if id(c) not in chosen and 'ok' in (c['ok'], c['okF'])]
        for full, group in (True, sel), (False, sorted(rest, key=text)):
            for c in group:
                s = text(c)
                if (s, c['ok']) in seen:
                    continue
                seen.add((s, c['ok']))
                status[s, c['ok']] = [c, name, 0, 0]
                nlight += not full
                outs, pend = R.replay(c, full)
                for eng, o in outs:
                    if o.kind != 'ok' or o.checked:
                        record(c, name, eng, o)
                    elif not full:
                        status[s, c['ok']][2] += 1
                pending.extend((p, name) for p in pend)
                if len(pending) >= 40:
                    flush()
    flush()
    nvalid = 0
    for (s, ok), (c, name, judged, skipped) in status.items():
        if judged:
            rep.traces += 1
            nvalid += ok == 'ok'
            rep.case(('v1', s, ok), nontrivial=c['no'] >= 2)
            if c['no'] >= 3 and name in sim and c['nun'] >= 2:
                rep.sample(dict(expression=s, verdict=ok, rule=c['why'], axes=c['fr'], arguments=c['args'], array=c['arr'] if len(c['arr']['v']) <= 4 else '...'))
    rep.lap('replay-v1')
    for fb, what in sorted(R.world.setup_failures.items(), key=repr):
        rep.violation('v1:namespace-setup:declared-argument', 'the valid assignment that declares the shape of an argument failed: ' + what, dict(fallback_length=fb))
    for key, (rank, what, data, count) in sorted(worst.items()):
        for _ in range(count):
            rep.violation(key, what, data)
    rep.extra['v1_valid_expressions_compared'] = nvalid
    rep.extra['v1_valid_expressions_judged_without_values'] = nlight
    rep.extra['v1_expressions_with_deduced_lengths'] = sum(1 for (c, name, judged, skipped) in status.values() if judged and c['nun'] > 0)
    rep.extra['v1_expressions_with_three_or_more_unknown_lengths'] = sum(1 for (c, name, judged, skipped) in status.values() if judged and c['nun'] >= 3)
