--------------------------- MODULE TransformChain ---------------------------
(***************************************************************************)
(* C11, vocabulary: transform items, their exact affine maps, the swap     *)
(* rules and the chain rewritings canonical / uppermost / promote of       *)
(* src/nutils/transform.py.                                                *)
(*                                                                         *)
(* References.  A reference element is a product of simplices and is       *)
(* written as the sequence d of its simplex dimensions (all >= 1); <<>> is *)
(* the point, <<1>> the line, <<2>> the triangle, <<1,1>> the square,      *)
(* <<2,1>> the prism ... (nutils nests TensorReference to the right and    *)
(* drops 0-dimensional factors, element.py:100-107,606-616, so the flat    *)
(* sequence is a faithful name of the nested object).                      *)
(*                                                                         *)
(* Items are records [t, c, s] (all three fields always present so that    *)
(* TLC can compare any two items), nested exactly like the nutils objects: *)
(*   t = "X"   Index(ndims = c[1], index = c[2])        identity map       *)
(*   t = "I"   Identity(ndims = c[1])                                      *)
(*   t = "SC"  SimplexChild(ndims = c[1], ichild = c[2])                   *)
(*   t = "SE"  SimplexEdge(ndims = c[1], iedge = c[2])                     *)
(*   t = "TC"  TensorChild(s[1], s[2])                                     *)
(*   t = "T1"  TensorEdge1(s[1], ndims2 = c[1])                            *)
(*   t = "T2"  TensorEdge2(ndims1 = c[1], s[1])                            *)
(*   t = "SU"  ScaledUpdim(s[1], s[2])                                     *)
(* swapup / swapdown below are transcribed method by method from           *)
(* transform.py:260-430.                                                   *)
(*                                                                         *)
(* Affine maps are exact dyadic: [m, n, e, A, b] denotes                   *)
(*   x in Q^n |-> (A x + b) / 2^e in Q^m   (A = m rows of n integers),     *)
(* always normalised (e minimal).                                          *)
(***************************************************************************)
EXTENDS Integers, Sequences, FiniteSets, TLC

\* ------------------------------------------------------------------ integers
RECURSIVE TcPow2(_)
TcPow2(k) == IF k <= 0 THEN 1 ELSE 2 * TcPow2(k - 1)
RECURSIVE TcSum(_)
TcSum(s) == IF Len(s) = 0 THEN 0 ELSE s[1] + TcSum(Tail(s))
TcPre(s, k) == SubSeq(s, 1, k)                    \* first k entries
TcPost(s, k) == SubSeq(s, k + 1, Len(s))          \* all but the first k entries
TcDrop(s, k) == TcPre(s, k - 1) \o TcPost(s, k)   \* s without entry k
TcSet(s, k, v) == [s EXCEPT ![k] = v]
TcIns(s, k, v) == TcPre(s, k - 1) \o <<v>> \o TcPost(s, k - 1)   \* insert v so that it becomes entry k

\* ------------------------------------------------------------------ affine maps
RECURSIVE TcDot(_, _, _, _)
\* sum_{t <= k} row[t] * B[t][c]
TcDot(row, B, c, k) == IF k = 0 THEN 0 ELSE row[k] * B[k][c] + TcDot(row, B, c, k - 1)
RECURSIVE TcDotV(_, _, _)
TcDotV(row, v, k) == IF k = 0 THEN 0 ELSE row[k] * v[k] + TcDotV(row, v, k - 1)

AllEven(F) == /\ \A r \in 1..F.m : F.b[r] % 2 = 0
              /\ \A r \in 1..F.m : \A c \in 1..F.n : F.A[r][c] % 2 = 0
RECURSIVE MapNorm(_)
MapNorm(F) == IF F.e > 0 /\ AllEven(F)
              THEN MapNorm(TLCEval([m |-> F.m, n |-> F.n, e |-> F.e - 1,
                            A |-> [r \in 1..F.m |-> [c \in 1..F.n |-> F.A[r][c] \div 2]],
                            b |-> [r \in 1..F.m |-> F.b[r] \div 2]]))
              ELSE F
IdMap(n) == TLCEval([m |-> n, n |-> n, e |-> 0,
             A |-> [r \in 1..n |-> [c \in 1..n |-> IF r = c THEN 1 ELSE 0]],
             b |-> [r \in 1..n |-> 0]])
\* F after G
Compose(F, G) == MapNorm(TLCEval([m |-> F.m, n |-> G.n, e |-> F.e + G.e,
                          A |-> [r \in 1..F.m |-> [c \in 1..G.n |-> TcDot(F.A[r], G.A, c, F.n)]],
                          b |-> [r \in 1..F.m |-> TcDotV(F.A[r], G.b, F.n) + F.b[r] * TcPow2(G.e)]]))
\* the same map at a larger exponent (not normalised; only used inside BlockDiag)
Rescale(F, e) == LET k == TcPow2(e - F.e)
                 IN TLCEval([m |-> F.m, n |-> F.n, e |-> e,
                     A |-> [r \in 1..F.m |-> [c \in 1..F.n |-> F.A[r][c] * k]],
                     b |-> [r \in 1..F.m |-> F.b[r] * k]])
BlockDiag(F0, G0) ==
    LET e == IF F0.e > G0.e THEN F0.e ELSE G0.e
        F == Rescale(F0, e)
        G == Rescale(G0, e)
    IN MapNorm(TLCEval([m |-> F.m + G.m, n |-> F.n + G.n, e |-> e,
                A |-> [r \in 1..(F.m + G.m) |-> [c \in 1..(F.n + G.n) |->
                         IF r <= F.m THEN (IF c <= F.n THEN F.A[r][c] ELSE 0)
                         ELSE (IF c > F.n THEN G.A[r - F.m][c - F.n] ELSE 0)]],
                b |-> [r \in 1..(F.m + G.m) |-> IF r <= F.m THEN F.b[r] ELSE G.b[r - F.m]]]))

\* ------------------------------------------------------------------ simplex tables
\* SimplexChild(n, c), transform.py:309-335, entries times 2
SimplexChildMap(n, c) ==
    LET std == [m |-> n, n |-> n, e |-> 1,
                A |-> [r \in 1..n |-> [k \in 1..n |-> IF r = k THEN 1 ELSE 0]],
                b |-> [r \in 1..n |-> IF c > 0 /\ r = c THEN 1 ELSE 0]]
        mk(A, b) == [m |-> n, n |-> n, e |-> 1, A |-> A, b |-> b]
    IN IF n = 0 THEN IdMap(0)
       ELSE IF c <= n THEN std
       ELSE IF n = 2 /\ c = 3 THEN mk(<< <<-1, 0>>, <<1, 1>> >>, <<1, 0>>)
       ELSE IF n = 3 /\ c = 4 THEN mk(<< <<-1, 0, -1>>, <<1, 1, 0>>, <<0, 0, 1>> >>, <<1, 0, 0>>)
       ELSE IF n = 3 /\ c = 5 THEN mk(<< <<0, -1, 0>>, <<1, 0, 0>>, <<0, 1, 1>> >>, <<1, 0, 0>>)
       ELSE IF n = 3 /\ c = 6 THEN mk(<< <<1, 0, 0>>, <<0, -1, 0>>, <<0, 1, 1>> >>, <<0, 1, 0>>)
       ELSE mk(<< <<-1, 0, -1>>, <<-1, -1, 0>>, <<1, 1, 1>> >>, <<1, 1, 0>>)   \* n = 3, c = 7
\* SimplexEdge(n, e): the facet opposite to vertex e; vertex 0 is the origin, vertex k the k-th unit vector
SimplexVertex(n, k) == [r \in 1..n |-> IF r = k THEN 1 ELSE 0]
EdgeKept(e, idx) == IF idx - 1 < e THEN idx - 1 ELSE idx      \* idx-th (1-based) vertex number that is not e
SimplexEdgeMap(n, e) ==
    [m |-> n, n |-> n - 1, e |-> 0,
     A |-> [r \in 1..n |-> [c \in 1..(n - 1) |-> SimplexVertex(n, EdgeKept(e, c + 1))[r] - SimplexVertex(n, EdgeKept(e, 1))[r]]],
     b |-> [r \in 1..n |-> SimplexVertex(n, EdgeKept(e, 1))[r]]]
\* SimplexEdge.swap, transform.py:267-272: SwapTab[e + 1][c + 1] = <<ichild, iedge>> such that
\* edge(e) o child(c)  =  child(ichild) o edge(iedge)
SwapTab == << << <<1, 0>>, <<2, 0>>, <<3, 0>>, <<7, 1>> >>,
              << <<0, 1>>, <<2, 1>>, <<3, 1>>, <<6, 1>> >>,
              << <<0, 2>>, <<1, 2>>, <<3, 2>>, <<5, 1>> >>,
              << <<0, 3>>, <<1, 3>>, <<2, 3>>, <<4, 3>> >> >>

\* ------------------------------------------------------------------ items
MkX(n, i) == [t |-> "X", c |-> <<n, i>>, s |-> <<>>]
MkI(n) == [t |-> "I", c |-> <<n>>, s |-> <<>>]
MkSC(n, k) == [t |-> "SC", c |-> <<n, k>>, s |-> <<>>]
MkSE(n, e) == [t |-> "SE", c |-> <<n, e>>, s |-> <<>>]
MkTC(a, b) == [t |-> "TC", c |-> <<>>, s |-> <<a, b>>]
MkT1(a, n2) == [t |-> "T1", c |-> <<n2>>, s |-> <<a>>]
MkT2(n1, b) == [t |-> "T2", c |-> <<n1>>, s |-> <<b>>]
MkSU(a, b) == [t |-> "SU", c |-> <<>>, s |-> <<a, b>>]
NoSwap == <<>>

RECURSIVE ToDims(_)
RECURSIVE FromDims(_)
ToDims(it) == IF it.t \in {"X", "I", "SC", "SE"} THEN it.c[1]
              ELSE IF it.t = "TC" THEN ToDims(it.s[1]) + ToDims(it.s[2])
              ELSE IF it.t = "T1" THEN ToDims(it.s[1]) + it.c[1]
              ELSE IF it.t = "T2" THEN it.c[1] + ToDims(it.s[1])
              ELSE ToDims(it.s[1])                                  \* SU
FromDims(it) == IF it.t \in {"X", "I", "SC"} THEN it.c[1]
                ELSE IF it.t = "SE" THEN it.c[1] - 1
                ELSE IF it.t = "TC" THEN FromDims(it.s[1]) + FromDims(it.s[2])
                ELSE IF it.t = "T1" THEN FromDims(it.s[1]) + it.c[1]
                ELSE IF it.t = "T2" THEN it.c[1] + FromDims(it.s[1])
                ELSE FromDims(it.s[2])                              \* SU
IsChild(it) == it.t \in {"SC", "TC"}

RECURSIVE ItemMap(_)
ItemMap(it) ==
    IF it.t \in {"X", "I"} THEN IdMap(it.c[1])
    ELSE IF it.t = "SC" THEN SimplexChildMap(it.c[1], it.c[2])
    ELSE IF it.t = "SE" THEN SimplexEdgeMap(it.c[1], it.c[2])
    ELSE IF it.t = "TC" THEN BlockDiag(ItemMap(it.s[1]), ItemMap(it.s[2]))
    ELSE IF it.t = "T1" THEN BlockDiag(ItemMap(it.s[1]), IdMap(it.c[1]))
    ELSE IF it.t = "T2" THEN BlockDiag(IdMap(it.c[1]), ItemMap(it.s[1]))
    ELSE Compose(ItemMap(it.s[1]), ItemMap(it.s[2]))
RECURSIVE ChainMap(_, _)
\* map of a chain (first item outermost); n0 = dimension of the empty chain
ChainMap(chain, n0) == IF Len(chain) = 0 THEN IdMap(n0)
                       ELSE IF Len(chain) = 1 THEN ItemMap(chain[1])
                       ELSE Compose(ItemMap(chain[1]), ChainMap(Tail(chain), n0))
ChainFromDims(chain, n0) == IF Len(chain) = 0 THEN n0 ELSE FromDims(chain[Len(chain)])
ChainToDims(chain, n0) == IF Len(chain) = 0 THEN n0 ELSE ToDims(chain[1])
\* consecutive items fit
WellFormedChain(chain) == \A k \in 1..(Len(chain) - 1) : FromDims(chain[k]) = ToDims(chain[k + 1])

\* ------------------------------------------------------------------ references (flat: sequence of simplex dimensions)
\* children and edges of a reference in the order of Reference.child_transforms / edge_transforms
\* (element.py:429-440, 700-720); the point has the single child SimplexChild(0, 0) and no edges
RECURSIVE ChildSeq(_)
ChildSeq(d) == IF Len(d) = 0 THEN <<MkSC(0, 0)>>
               ELSE IF Len(d) = 1 THEN [k \in 1..TcPow2(d[1]) |-> MkSC(d[1], k - 1)]
               ELSE LET rest == ChildSeq(Tail(d))
                        nr == Len(rest)
                    IN [k \in 1..(TcPow2(d[1]) * nr) |-> MkTC(MkSC(d[1], (k - 1) \div nr), rest[((k - 1) % nr) + 1])]
RECURSIVE EdgeSeq(_)
EdgeSeq(d) == IF Len(d) = 0 THEN <<>>
              ELSE IF Len(d) = 1 THEN [k \in 1..(d[1] + 1) |-> MkSE(d[1], k - 1)]
              ELSE LET rest == EdgeSeq(Tail(d))
                       n2 == TcSum(Tail(d))
                   IN [k \in 1..(d[1] + 1 + Len(rest)) |->
                         IF k <= d[1] + 1 THEN MkT1(MkSE(d[1], k - 1), n2) ELSE MkT2(d[1], rest[k - d[1] - 1])]
SeqRange(q) == {q[k] : k \in 1..Len(q)}
ChildItems(d) == SeqRange(ChildSeq(d))
EdgeItems(d) == SeqRange(EdgeSeq(d))
NChildren(d) == TcPow2(TcSum(d))
NEdges(d) == TcSum(d) + Len(d)
\* factor (1-based) an edge item of reference d acts on, and the reference it maps from
RECURSIVE EdgeFactor(_)
EdgeFactor(it) == IF it.t = "T2" THEN 1 + EdgeFactor(it.s[1]) ELSE 1
EdgeFromRef(d, j) == IF d[j] = 1 THEN TcDrop(d, j) ELSE TcSet(d, j, d[j] - 1)
\* position (0-based) of an item in a sequence of items, -1 if absent
PosIn(q, it) == IF \E k \in 1..Len(q) : q[k] = it THEN (CHOOSE k \in 1..Len(q) : q[k] = it) - 1 ELSE -1

RECURSIVE TailsOf(_, _)
\* all chains of at most n child / edge items that start at reference d
TailsOf(d, n) ==
    IF n = 0 THEN {<<>>}
    ELSE {<<>>}
         \cup UNION {{<<c>> \o t : t \in TailsOf(d, n - 1)} : c \in ChildItems(d)}
         \cup UNION {{<<e>> \o t : t \in TailsOf(EdgeFromRef(d, EdgeFactor(e)), n - 1)} : e \in EdgeItems(d)}

\* ------------------------------------------------------------------ swap rules
RECURSIVE SwapUp(_, _)
\* self.swapup(other): (self, other) -> (child, edge') with the same composition, or NoSwap
SwapUp(self, other) ==
    IF self.t = "SE" THEN                                            \* SimplexEdge.swapup, 290-294
        IF other.t = "SC" THEN
            LET p == SwapTab[self.c[2] + 1][other.c[2] + 1]
            IN <<MkSC(self.c[1], p[1]), MkSE(self.c[1], p[2])>>
        ELSE NoSwap
    ELSE IF self.t = "T1" THEN                                       \* TensorEdge1.swapup, 366-378
        LET a == self.s[1]
            first == other.t = "TC" /\ FromDims(a) = ToDims(other.s[1])
            second == ~first /\ other.t \in {"TC", "SC"} /\ FromDims(a) = 0
            swapped == IF first THEN SwapUp(a, other.s[1])
                       ELSE IF second THEN SwapUp(a, MkSC(0, 0)) ELSE NoSwap
            trans2 == IF first THEN other.s[2] ELSE other
        IN IF swapped # NoSwap THEN <<MkTC(swapped[1], trans2), MkT1(swapped[2], FromDims(trans2))>> ELSE NoSwap
    ELSE IF self.t = "T2" THEN                                       \* TensorEdge2.swapup, 403-415
        LET b == self.s[1]
            first == other.t = "TC" /\ FromDims(b) = ToDims(other.s[2])
            second == ~first /\ other.t \in {"TC", "SC"} /\ FromDims(b) = 0
            swapped == IF first THEN SwapUp(b, other.s[2])
                       ELSE IF second THEN SwapUp(b, MkSC(0, 0)) ELSE NoSwap
            trans1 == IF first THEN other.s[1] ELSE other
        IN IF swapped # NoSwap THEN <<MkTC(trans1, swapped[1]), MkT2(FromDims(trans1), swapped[2])>> ELSE NoSwap
    ELSE IF self.t = "SU" THEN                                       \* ScaledUpdim.swapup, 348-350
        IF other.t = "I" THEN <<self.s[1], self.s[2]>> ELSE NoSwap
    ELSE NoSwap                                                      \* TransformItem.swapup, 103
\* SimplexEdge.swapdown's search: first edge number, then first child number, whose swap entry is <<c, e>>
SwapDownHits(n, c, e) == {p \in (0..n) \X (0..(TcPow2(n - 1) - 1)) : SwapTab[p[1] + 1][p[2] + 1] = <<c, e>>}
RECURSIVE SwapDown(_, _)
\* self.swapdown(other), written SwapDown(other, self): (other, self) -> (edge', child') or NoSwap
SwapDown(other, self) ==
    IF self.t = "SE" THEN                                            \* SimplexEdge.swapdown, 296-306
        IF other.t = "SC" THEN
            LET hits == SwapDownHits(self.c[1], other.c[2], self.c[2])
            IN IF hits = {} THEN NoSwap
               ELSE LET p == CHOOSE q \in hits : \A r \in hits : q[1] < r[1] \/ (q[1] = r[1] /\ q[2] <= r[2])
                    IN <<MkSE(self.c[1], p[1]), MkSC(self.c[1] - 1, p[2])>>
        ELSE NoSwap
    ELSE IF self.t = "T1" THEN                                       \* TensorEdge1.swapdown, 380-387
        IF other.t = "TC" /\ FromDims(other.s[1]) = ToDims(self.s[1]) THEN
            LET swapped == SwapDown(other.s[1], self.s[1])
            IN IF swapped # NoSwap
               THEN <<MkT1(swapped[1], ToDims(other.s[2])),
                      IF FromDims(swapped[2]) > 0 THEN MkTC(swapped[2], other.s[2]) ELSE other.s[2]>>
               ELSE <<MkSU(other, self), MkI(FromDims(self))>>
        ELSE NoSwap
    ELSE IF self.t = "T2" THEN                                       \* TensorEdge2.swapdown, 417-424
        IF other.t = "TC" /\ FromDims(other.s[2]) = ToDims(self.s[1]) THEN
            LET swapped == SwapDown(other.s[2], self.s[1])
            IN IF swapped # NoSwap
               THEN <<MkT2(ToDims(other.s[1]), swapped[1]),
                      IF FromDims(swapped[2]) > 0 THEN MkTC(other.s[1], swapped[2]) ELSE other.s[1]>>
               ELSE <<MkSU(other, self), MkI(FromDims(self))>>
        ELSE NoSwap
    ELSE IF self.t = "SU" THEN                                       \* Updim.swapdown, 260-262
        IF other.t = "TC" THEN <<MkSU(other, self), MkI(FromDims(self))>> ELSE NoSwap
    ELSE NoSwap                                                      \* TransformItem.swapdown, 106

\* ------------------------------------------------------------------ chain rewriting, one loop iteration each
\* canonical, transform.py:31-45; state <<items, p>> with p the 1-based position of python's items[i]
CanonGo(items, p) == FromDims(items[p]) > FromDims(items[Len(items)])
CanonStep(items, p) ==
    LET sw == SwapDown(items[p], items[p + 1])
    IN IF sw # NoSwap THEN <<[[items EXCEPT ![p] = sw[1]] EXCEPT ![p + 1] = sw[2]], IF p > 1 THEN p - 1 ELSE p>>
       ELSE <<items, p + 1>>
\* uppermost, transform.py:52-66; p = python's i (1-based position of items[i-1])
UpperGo(items, p) == ToDims(items[p]) < ToDims(items[1])
UpperStep(items, p) ==
    LET sw == SwapUp(items[p - 1], items[p])
    IN IF sw # NoSwap THEN <<[[items EXCEPT ![p - 1] = sw[1]] EXCEPT ![p] = sw[2]], IF p < Len(items) THEN p + 1 ELSE p>>
       ELSE <<items, p - 1>>
\* loop budget: a generous bound on the number of iterations; reaching it means "does not terminate"
Fuel(n) == 4 * n * n + 8
Diverged == <<MkX(0, 999)>>
RECURSIVE CanonLoop(_, _, _)
CanonLoop(items, p, fuel) == IF ~CanonGo(items, p) THEN items
                             ELSE IF fuel = 0 THEN Diverged
                             ELSE LET st == CanonStep(items, p) IN CanonLoop(st[1], st[2], fuel - 1)
Canonical(chain) == IF Len(chain) < 2 THEN chain ELSE CanonLoop(chain, 1, Fuel(Len(chain)))
RECURSIVE UpperLoop(_, _, _)
UpperLoop(items, p, fuel) == IF ~UpperGo(items, p) THEN items
                             ELSE IF fuel = 0 THEN Diverged
                             ELSE LET st == UpperStep(items, p) IN UpperLoop(st[1], st[2], fuel - 1)
Uppermost(chain) == IF Len(chain) < 2 THEN chain ELSE UpperLoop(chain, Len(chain), Fuel(Len(chain)))
\* promote, transform.py:69-75
PromoteSplit(chain, ndims) == {k \in 1..Len(chain) : FromDims(chain[k]) = ndims}
Promote(chain, ndims) ==
    LET ks == PromoteSplit(chain, ndims)
    IN IF ks = {} THEN chain
       ELSE LET k == CHOOSE x \in ks : \A y \in ks : x <= y
            IN Canonical(TcPre(chain, k)) \o Uppermost(TcPost(chain, k))
IsCanonical(chain) == \A k \in 1..(Len(chain) - 1) : SwapDown(chain[k], chain[k + 1]) = NoSwap

=============================================================================
