"""C19 -- Expression strings mean their index-notation reading.

Deciding method.  The TLA+ modules ExprLang / ExprParse are the oracle:

* ExprLang states the DOCUMENTED reading of the expression language: syntax trees,
  their rendering as strings, the documented rules as a declarative counting of index
  occurrences (Chk) and the meaning as explicit index-notation sums over exact two-sided
  rationals (Val).
* ExprParse models the ALGORITHM of expression_v2._Parser / _FunctionArrayOps on arrays
  (one operator per parse_* method) and a derivation machine (one action per production,
  rule-breaking constructors, token-level corruptions of the rendered string).  TLC
  checks over every derivable tree that the algorithm accepts exactly the trees that
  follow the documented rules and that its array equals the index-notation reading
  (VerdictAgree / FreeAgree / MeaningAgree), exhaustively for small bounds and by
  simulation beyond.
* S->C: every complete state is emitted with the verdict and the array the model
  predicts; the harness feeds the string to the real `expr @ ns`, `ns.x_ij = expr`
  (expression_v2) and `ns.eval_ij(expr)` (expression_v1) and compares exception class,
  shape, axis order and values on both sides of an interface.
"""

import collections
import os
import random

from .. import tlc

LEVEL = 'model_checking'

JVM = {'JAVA_TOOL_OPTIONS': '-XX:ParallelGCThreads=2 -XX:CICompilerCount=2'}

CFG = '''SPECIFICATION Spec
CONSTANTS
  MaxLeaves = {ML}
  MaxOps = {MO}
  MaxStack = {MS}
  VarSet <- {V}
  NumSet <- {N}
  FuncSet <- {F}
  Toks <- {T}
  GToks <- {G}
  IntExps <- {E}
  Wraps <- {W}
  Muts <- {M}
  Cors <- {C}
  Styles <- {S}
  EmitMin = {EM}
  Bug = "{BUG}"
INVARIANT VerdictAgree
INVARIANT FreeAgree
INVARIANT MeaningAgree
INVARIANT RenderBalanced
INVARIANT Unbalanced
CONSTRAINT EmitComplete
CONSTRAINT EmitTables
CHECK_DEADLOCK FALSE
'''

BASE = dict(ML=2, MO=2, MS=2, V='VarsA', N='NumsA', F='FuncsA', T='ToksA', G='GToksA', E='ExpsA', W='AllWraps',
            M='NoStrings', C='NoStrings', S='NoStrings', EM=0, BUG='')

# name -> constants; see spec/MCExprParse.tla for the vocabularies
CONFIGS = {
    # two leaves, two productions over scalars, vectors, a 2x3 matrix, a pointwise and a generating function
    'core': dict(T='ToksIJ'),
    'core0': dict(),                                                      # ... with numerals (thorough)
    # every rule-breaking constructor, small vocabulary
    'mut': dict(V='VarsB', T='ToksB', G='GToksB', F='FuncsB', E='ExpsB', W='WrapsB', M='AllMuts'),
    # every token corruption and the whitespace style
    'cor': dict(V='VarsB', T='ToksB', G='GToksB', F='FuncsB', E='ExpsB', W='WrapsB', C='AllCors', S='OneStyle'),
    # one leaf: numerals, traces, selections on arrays of rank 1..3, generated axes
    'rank3': dict(ML=1, MO=2, MS=1, V='VarsC', T='ToksC', F='FuncsD', G='ToksD', N='NoStrings', E='ExpsB', W='WrapsB'),
    # two leaves of rank 3: transposition to the first term's order, products with two and three common indices
    'perm': dict(ML=2, MO=1, MS=2, V='VarsT', T='ToksD', F='NoStrings', G='NoStrings', N='NoStrings', E='NoStrings', W='NoStrings'),
    'perm2': dict(ML=2, MO=1, MS=2, V='VarsD', T='ToksD', F='FuncsD', G='ToksD', N='NoStrings', E='NoStrings', W='NoStrings'),
    # three leaves (thorough)
    'three': dict(ML=3, MO=3, MS=3, V='VarsB', N='NumsA', T='ToksIJ', G='GToksB', F='FuncsB', E='ExpsB', W='WrapsB'),
    # everything, random walks
    'sim': dict(ML=4, MO=6, MS=3, V='AllVars', N='AllNums', F='AllFuncs', T='AllToks', G='AllGToks', E='AllExps', W='AllWraps',
                M='AllMuts', C='AllCors', S='OneStyle', EM=2),
}

SPEC_MUTANTS = {
    # seeded defect of the algorithm model -> (configuration that must expose it, invariants that may fire)
    'trace-noshift': 'rank3',
    'sum-inverse-perm': 'perm',
    'sum-nosummed': 'core',
    'pow-noverify': 'core',
}


def cfg_text(name, **over):
    d = dict(BASE)
    d.update(CONFIGS[name])
    d.update(over)
    return CFG.format(**d)


def generate(rep, name, *, simulate=None, depth=None, coverage=False, timeout=900, exhaustive=True, bug=''):
    kw = {}
    if simulate:
        kw = dict(simulate=dict(num=simulate), depth=depth, seed=rep.seed + 19)
    res = tlc.run('MCExprParse', cfg_text=cfg_text(name, BUG=bug), tag='c19-' + name + ('-' + bug if bug else ''), workers=1, deadlock=False,
                  coverage=coverage, timeout=timeout, env=JVM, **kw)
    if bug:
        return res
    if res.violated:
        raise tlc.TLCError('C19 design spec: invariant {} violated in configuration {} (the documented reading and the algorithm model '
                           'disagree; this is a defect of the specification, not of nutils):\n{}'.format(res.violated, name, '\n'.join(res.error_trace[:40])))
    rep.add_tlc(res, exhaustive=exhaustive)
    tables = None
    cases = {}
    for e in res.emitted:
        if 'vars' in e:
            tables = e
        else:
            cases.setdefault((''.join(e['t']), e['ok']), e)
    if tables is None:
        raise tlc.TLCError('C19: the model did not emit its namespace tables')
    return res, tables, list(cases.values())


def stratified(cases, per_class, rng):
    'all valid cases first, then at most per_class cases of every (verdict, rule) class'
    groups = collections.defaultdict(list)
    for c in cases:
        groups[c['ok'], c['why']].append(c)
    out = []
    for key in sorted(groups):
        g = groups[key]
        g.sort(key=lambda c: ''.join(c['t']))
        if len(g) > per_class:
            g = rng.sample(g, per_class)
        out.extend(g)
    return out


def run(rep):
    from . import c19_ns
    rng = random.Random(rep.seed)
    quick = rep.tier == 'quick'
    plan = [('core', None), ('mut', None), ('cor', None), ('rank3', None), ('perm', None)]
    if not quick:
        plan += [('core0', None), ('perm2', None), ('three', None)]
    plan.append(('sim', 250 if quick else 6000))
    allcases = []
    tables = None
    covered = collections.Counter()
    for name, sim in plan:
        cov = name in ('mut', 'cor')          # the vacuity guard: per-action coverage on the configurations that enable every action
        res, tb, cases = generate(rep, name, simulate=sim, depth=16 if sim else None, coverage=cov, exhaustive=not sim,
                                  timeout=1500 if not quick else 400)
        if tables is not None and tb != tables:
            raise tlc.TLCError('C19: namespace tables differ between configurations')
        tables = tb
        for k, v in res.coverage.items():
            covered[k] += v[1]
        rep.constants[name] = dict(states=res.distinct or res.generated, trees=len(cases),
                                   valid=sum(c['ok'] == 'ok' for c in cases), invalid=sum(c['ok'] == 'bad' for c in cases))
        allcases.append((name, cases))
        rep.lap('tlc ' + name)
    actions = ['ANum', 'AVar', 'ABadVar', 'AWrap', 'ACall', 'ABadCall', 'APowInt', 'APowScoped', 'ATerm', 'AFrac', 'ANeg', 'ASum', 'AFinish']
    dead = [a for a in actions if not covered.get(a)]
    if dead:
        raise tlc.TLCError('C19 vacuity guard: actions never taken: {}'.format(dead))

    # spec mutants: a seeded defect of the algorithm model must violate an invariant
    for bug, name in SPEC_MUTANTS.items():
        if quick and bug not in ('trace-noshift', 'sum-nosummed'):
            continue
        res = generate(rep, name, bug=bug, timeout=400)
        if not res.violated:
            raise tlc.TLCError('C19: the seeded defect {!r} of the algorithm model violates no invariant in configuration {!r}: invariants are vacuous'.format(bug, name))
        rep.extra.setdefault('spec_mutants_caught', {})[bug] = res.violated
    rep.lap('spec mutants')

    # S->C replay
    R = c19_ns.Replayer(tables)
    per_class = 60 if quick else 100000
    nvalid = 0
    worst = {}
    seen = set()
    for name, cases in allcases:
        sel = stratified(cases, per_class if name != 'sim' else 100000, rng)
        for c in sel:
            s = c19_ns.text(c)
            if (s, c['ok']) in seen:
                continue
            seen.add((s, c['ok']))
            engines = ['v2'] + (['v1'] if R.v1_applicable(c) else [])
            judged = False
            for eng in engines:
                o = getattr(R, eng)(c)
                if o.kind == 'skip':
                    rep.skip('{}: outside the model ({})'.format(eng, 'integer ** negative integer' if c['ok'] == 'skip' else 'undefined value'))
                    continue
                judged = True
                if o.kind == 'violation':
                    w = worst.get(o.key)
                    rank = (c['no'], len(s), s)
                    if w is None or rank < w[0]:
                        worst[o.key] = (rank, o.what, dict(expression=s, model=dict(verdict=c['ok'], rule=c['why'], axes=c['fr'], array=c['arr']), config=name), (w[3] if w else 0) + 1)
                    else:
                        worst[o.key] = (w[0], w[1], w[2], w[3] + 1)
            if judged:
                rep.traces += 1
                nvalid += c['ok'] == 'ok'
                rep.case((s, c['ok']), nontrivial=c['no'] >= 2)
                if c['no'] >= 3:
                    rep.sample(dict(expression=s, verdict=c['ok'], rule=c['why'], axes=c['fr'], array=c['arr'] if len(c['arr']['v']) <= 4 else '...'))
    rep.lap('replay')
    for key, (rank, what, data, count) in sorted(worst.items()):
        for _ in range(count):
            rep.violation(key, what, data)
    rep.extra['valid_expressions_compared'] = nvalid
    rep.rule = ('cases = (expression string, verdict) pairs emitted by the ExprParse TLA+ machine, replayed on expression_v2 (`@`, attribute '
                'assignment) and, where the syntax is shared, expression_v1 (eval_...); non-trivial = at least two productions')
    rep.assumptions += [
        'ExprLang.tla (Chk, Val) is the documented reading; TLC shows the v2 algorithm model (ExprParse.P) equivalent to it within the bounds',
        'variables are piecewise constant on two elements and evaluated in the interface point; functions: sqr, abs, opposite and linear generating functions g, h, G (stand-ins for gradients)',
        'integer ** negative integer (refused by the array layer as by NumPy) and values the exact model leaves undefined (division by zero, roots, capped magnitudes) are not judged',
        'v1-only syntax (arguments, dirac, stack, gradients _,i, normals, substitution) is outside the model; error messages are not compared',
    ]
