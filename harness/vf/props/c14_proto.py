"""C14, S->C binding of spec/Solver.tla.

Every complete behaviour of the as-written model (configuration, oracle draws,
predicted outcome, iteration count, Certified verdict) is replayed on the REAL
``System.solve`` loop, the REAL method classes (Direct, Newton, ReuseNewton,
LinesearchNewton, Arnoldi), the REAL ``System.deconstruct/construct`` and the
REAL ``Matrix.solve/_solver/solve_leniently``.  Only the three places where
the model has an oracle are scripted: the assembled residual (a 1-dof system
``assemble_*`` returning the drawn magnitude), the backend's solver routine
(``solver=<callable>``) and the line search strategy (``strategy=<callable>``).
"""

import numpy

NAN, INF, NOMAX = 1000, 999, 99
KRES, KLIN, KSTRAT = 1, 2, 3
LEXACT, LNOPROG, LNONFIN, LERROR = 0, 1, 2, 3
JAC = 2.0
CONS = 7.25     # prescribed value of the constrained entry
X0 = 0.5        # initial guess of the free entry


class ScriptMismatch(BaseException):
    'the real code asked the oracle for something the model did not predict (BaseException: must not be swallowed by nutils)'


def fval(v):
    return float('nan') if v == NAN else float('inf') if v == INF else float(v)


class Script:
    def __init__(self, draws):
        self.draws = [tuple(d) for d in draws]
        self.pos = 0

    def next(self, kind):
        if self.pos >= len(self.draws):
            raise ScriptMismatch('code draws {} after the {} draws of the model'.format(kind, len(self.draws)))
        k, v = self.draws[self.pos]
        if k != kind:
            raise ScriptMismatch('code draws kind {} where the model draws kind {} (position {})'.format(kind, k, self.pos))
        self.pos += 1
        return v


def make_system(script, linear, conskind):
    from nutils import solver
    from nutils.matrix._numpy import NumpyMatrix

    class Scripted(solver.System):
        'real deconstruct/construct/solve/step; scripted assemble_*'

        def __init__(self):
            self.trials = ('u',)
            self.trial_shapes = ((2,),)
            self.dtype = float
            self.is_symmetric = False
            self.is_linear = linear
            self.is_constant_matrix = False
            self.arguments = frozenset(['u'])
            self._System__trial_slices = (slice(0, 2),)
            self._System__trial_total = 2
            self.resat = {}      # free x (as float) -> drawn residual value; nonlinear case
            self.lin0 = None     # (x0, r0) for the linear case: res(x) = r0 + JAC (x - x0)
            self.nasm = 0

        def _res(self, arguments, x):
            args, free = self.construct(arguments, x, return_free=True)
            if list(free) != [False, True]:
                raise ScriptMismatch('free mask {}'.format(free))
            xf = float(args['u'][1])
            self.nasm += 1
            if linear and self.lin0 is not None:
                r = self.lin0[1] + JAC * (xf - self.lin0[0])
            else:
                r = fval(script.next(KRES))
                if linear:
                    self.lin0 = (xf, r)
            self.resat[xf] = r
            return numpy.array([r])

        def assemble_jacobian_residual(self, arguments, x=None):
            return NumpyMatrix(numpy.array([[JAC]])), self._res(arguments, x)

        def assemble_residual(self, arguments, x=None):
            return self._res(arguments, x)

        def assemble_jacobian(self, arguments, x=None):
            self.construct(arguments, x, return_free=True)
            return NumpyMatrix(numpy.array([[JAC]]))

        def true_residual(self, xf):
            if linear:
                return self.lin0[1] + JAC * (xf - self.lin0[0])
            return self.resat.get(xf)

    return Scripted()


def make_linargs(script, lmode, explicit_rel=False):
    def scripted_solver(mat, rhs, atol, **kw):
        o = script.next(KLIN)
        if o == LEXACT:
            return rhs / JAC
        if o == LNOPROG:
            return numpy.zeros_like(rhs)
        if o == LNONFIN:
            return numpy.full_like(rhs, numpy.nan)
        raise RuntimeError('scripted failure of the solver routine')
    linargs = dict(solver=scripted_solver)
    if lmode == 'abs':
        linargs.update(atol=1.0, rtol=0.)
    elif lmode == 'none':
        linargs.update(atol=0., rtol=0.)
    elif explicit_rel:
        linargs.update(rtol=1e-3)
    return linargs


def make_method(script, conf, variant):
    from nutils import solver
    m = conf['m']
    # Newton-type methods default to rtol=1e-3: lmode "rel" is that default; Direct/Arnoldi need it explicitly
    linargs = make_linargs(script, conf['lmode'], explicit_rel=m in ('direct', 'arnoldi') or variant % 2 == 1)
    if m == 'direct':
        return solver.Direct(**linargs)
    if m == 'newton':
        return solver.Newton(**linargs)
    if m == 'reuse':
        return solver.ReuseNewton(require=.5, **linargs)
    if m == 'arnoldi':
        return solver.Arnoldi(**linargs)
    if m == 'linesearch':
        def strategy(res0, dres0, res1, dres1):
            return (2., True) if script.next(KSTRAT) == 1 else (.5, False)
        return solver.LinesearchNewton(strategy=strategy, failrelax=.3, relax0=1., **linargs)
    raise ValueError(m)


def classify_exc(e):
    from nutils import solver, matrix
    if isinstance(e, matrix.ToleranceNotReached):
        return 'ToleranceNotReached'
    if isinstance(e, matrix.MatrixError):
        return 'MatrixError'
    if isinstance(e, solver.SolverError):
        return 'SolverError'
    return type(e).__name__


def replay(beh, variant=0):
    """run one behaviour of Solver.tla on the real code -> dict(outcome, niter, cert, detail)"""
    import treelog
    import warnings
    conf = beh['conf']
    script = Script(beh['draws'])
    linear = conf['m'] in ('direct', 'arnoldi')
    conskind = ('nanfloat', 'bool', 'nanfloat+guess')[variant % 3]
    system = make_system(script, linear, conskind)
    method = make_method(script, conf, variant)
    if conskind == 'bool':
        arguments = dict(u=numpy.array([CONS, X0]))
        constrain = dict(u=numpy.array([True, False]))
    elif conskind == 'nanfloat':
        arguments = {}
        constrain = dict(u=numpy.array([CONS, numpy.nan]))
    else:
        arguments = dict(u=numpy.array([-3., X0]))   # the guess of a constrained entry must be overruled
        constrain = dict(u=numpy.array([CONS, numpy.nan]))
    kwargs = dict(arguments=arguments, constrain=constrain, tol=float(conf['tol']), miniter=conf['miniter'],
                  maxiter=None if conf['maxiter'] == NOMAX else conf['maxiter'], method=method)
    # count iterations as System.solve sees them: wrap the method's iterator
    count = dict(n=0)
    inner = method

    class Counting:
        'counts the next() calls System.solve makes on the method iterator'

        def __call__(self, system, **kw):
            m = inner(system, **kw)
            if isinstance(m, tuple):
                return m
            return _CountIter(m, count)

        def __str__(self):
            return str(inner)
    kwargs['method'] = Counting()
    out = dict(outcome=None, niter=None, cert=None, detail='')
    with treelog.set(treelog.LoggingLog() if False else _NULL), warnings.catch_warnings(), numpy.errstate(all='ignore'):
        warnings.simplefilter('ignore')
        try:
            ret = system.solve(**kwargs)
        except ScriptMismatch as e:
            out.update(outcome='mismatch', detail=str(e), consumed=script.pos)
            return out
        except Exception as e:
            out.update(outcome=classify_exc(e), detail=repr(e)[:200])
            ret = None
    out['niter'] = max(count['n'] - 1, 0)   # iiter of System.solve
    out['consumed'] = script.pos
    if script.pos != len(script.draws) and out['outcome'] != 'mismatch':
        out['detail'] += ' [code consumed {} of {} draws]'.format(script.pos, len(script.draws))
        out['unconsumed'] = True
    if ret is not None:
        out['outcome'] = 'return'
        u = ret['u']
        consok = u.shape == (2,) and u[0] == CONS
        xf = float(u[1])
        tr = system.true_residual(xf)
        finite = bool(numpy.isfinite(u).all())
        tol = float(conf['tol'])
        within = tr is not None and (not tol > 0 or (tr == tr and abs(tr) <= tol))
        linwithin = True
        if linear and conf['lmode'] != 'none' and tr is not None and (conf['m'] == 'direct' or xf != system.lin0[0]):
            latol = 1.0 if conf['lmode'] == 'abs' else 1e-3 * abs(system.lin0[1])
            linwithin = bool(abs(tr) <= latol)
        out.update(cert=bool(consok and finite and within and linwithin), consok=bool(consok), finite=finite,
                   true_res=None if tr is None else repr(tr), returned=[repr(float(a)) for a in u])
    return out


def tlc_run(*args, **kw):
    """tlc.run with a small heap (all C14 state spaces are small) and one retry: on a loaded machine a JVM
    occasionally dies at start-up; a deterministic spec error fails again and propagates"""
    from .. import tlc
    kw.setdefault('heap', '1500m')
    try:
        return tlc.run(*args, **kw)
    except tlc.TLCError:
        return tlc.run(*args, **kw)


_BACKENDS = []


def backends():
    """matrix backends importable in this environment (numpy always; scipy if installed; mkl if present)"""
    if not _BACKENDS:
        from nutils import matrix
        for name in ('numpy', 'scipy'):
            try:
                with matrix.backend(name):
                    pass
                _BACKENDS.append(name)
            except matrix.BackendNotAvailable:
                pass
    return list(_BACKENDS)


class _CountIter:
    def __init__(self, it, count):
        self.it = it
        self.count = count

    def __iter__(self):
        return self

    def __next__(self):
        self.count['n'] += 1
        return next(self.it)


class _Null:
    def pushcontext(self, title): pass
    def popcontext(self): pass
    def recontext(self, title): pass
    def write(self, msg, level): pass


_NULL = _Null()
