------------------------------ MODULE EvalDag ------------------------------
(***************************************************************************)
(* TLC as the evaluator of the ArraySem reference semantics: reads a list  *)
(* of jobs (env VF_JOBS, JSON), each                                       *)
(*   [N |-> program, argsh |-> <<shape of argument id 1, 2, ...>>,         *)
(*    evals |-> << [args |-> <<flat integer data per argument id>>,        *)
(*                  lenv |-> <<loop index values>>,                        *)
(*                  seed |-> <<argument id, flat position>> (0,0 = none),  *)
(*                  node |-> position of the node to evaluate] ... >>,     *)
(*    pairs |-> << [a |-> node, b |-> node] ... >> ]                       *)
(* and emits for each job the exact value (and tangent) of every requested *)
(* evaluation, plus -- decided inside TLA+ -- for each pair whether the    *)
(* two nodes denote the same array at every listed environment             *)
(* ("same" / "differ" / "undef": undefined model values are never judged). *)
(* One initial state per job; the work happens in the state constraint.    *)
(***************************************************************************)
EXTENDS ArraySem, Json, IOUtils

Jobs == JsonDeserialize(IOEnv.VF_JOBS)
NJ == Len(Jobs)
VARIABLE jid

EnvOf(job, e) == [a \in 1..Len(job.argsh) |->
                    ArgArr(job.argsh[a], e.args[a], IF e.seed[1] = a THEN e.seed[2] ELSE 0)]
Val(job, e) == Ev(job.N, e.node, EnvOf(job, e), e.lenv)

\* element kind of a node: complex nodes (dt = "c") hold pairs of dual numbers
IsCx(job, node) == job.N[node].dt = "c"
AnyBadK(a, c) == \E k \in 1..Len(a.v) : IF c THEN ZIsBad(a.v[k]) ELSE DIsBad(a.v[k])
ValuesOfK(a, c) == [k \in 1..Len(a.v) |-> IF c THEN <<a.v[k][1][1], a.v[k][2][1]>> ELSE a.v[k][1]]
\* verdict for a pair of nodes over all evaluation environments of the job
PairVerdict(job, pr) ==
    LET res == [i \in 1..Len(job.evals) |->
                  LET e == job.evals[i]
                      va == Ev(job.N, pr.a, EnvOf(job, e), e.lenv)
                      vb == Ev(job.N, pr.b, EnvOf(job, e), e.lenv)
                      ca == IsCx(job, pr.a)
                  IN IF va.sh # vb.sh \/ ca # IsCx(job, pr.b) THEN "shape"
                     ELSE IF AnyBadK(va, ca) \/ AnyBadK(vb, ca) THEN "undef"
                     ELSE IF ValuesOfK(va, ca) = ValuesOfK(vb, ca) THEN "same" ELSE "differ"]
    IN IF \E i \in 1..Len(res) : res[i] = "shape" THEN "shape"
       ELSE IF \E i \in 1..Len(res) : res[i] = "differ" THEN "differ"
       ELSE IF \A i \in 1..Len(res) : res[i] = "undef" THEN "undef" ELSE "same"

Emit(x) == PrintT(<<"VF", ToJson(x)>>)
Work == LET job == Jobs[jid] IN
        Emit([id |-> job.id,
              vals |-> [i \in 1..Len(job.evals) |-> IF IsCx(job, job.evals[i].node) THEN ProjCx(Val(job, job.evals[i]))
                                                     ELSE Proj(Val(job, job.evals[i]))],
              verdicts |-> [i \in 1..Len(job.pairs) |-> PairVerdict(job, job.pairs[i])]])

Init == jid \in 1..NJ
Next == FALSE /\ UNCHANGED jid   \* no successors: every job is evaluated exactly once (in the constraint)
Spec == Init /\ [][Next]_jid
=============================================================================
