SPECIFICATION Spec
CONSTANTS
  Args <- ScalarArgsSmall
  CanonOf <- ScalarCanonAll
  PyOf <- ScalarPy
  KeyMode = "pyeq"
  MaxOps = 4
  MaxPickles = 1
  Label = "scalar"
CONSTRAINT EmitBehaviour
CHECK_DEADLOCK FALSE
