----------------------------- MODULE TraceTopo -----------------------------
(***************************************************************************)
(* C11, C->S trace validation: observations recorded from REAL topologies  *)
(* (mesh.unitsquare / rectilinear / simplex meshes and what .boundary,     *)
(* .interfaces, .refined, .take, .refined_by, | produce) are checked       *)
(* against the TransformSeq model.  Env VF_TRACE = JSON list of cases.     *)
(*                                                                         *)
(* kind "seq": the nesting of Transforms classes of the topology, read off *)
(* the real object (expr), with                                            *)
(*   chains   self[i] for every element                                    *)
(*   obs      [i, tail, ridx, rtail]: index_with_tail(self[i] + tail)      *)
(*            returned (ridx, rtail); ridx = -1 records an exception       *)
(*   findex   the distinct values f_index takes on the sample of element i *)
(*   fcoords / points   f_coords and the sample's own points (integers at  *)
(*            scale 2^12) of the first points of element i                 *)
(*   geomtab  exact affine geometry of every root element (when known)     *)
(*   ifaces   [t, o]: the two chains of every interface element            *)
(*   bexpr, bindex, bcoords   the nesting of the BASE topology the         *)
(*            topology was derived from, and its f_index / f_coords        *)
(*            evaluated on this topology's sample                          *)
(* TLC decides: the recorded chains are the model's denotation of expr,    *)
(* every recorded lookup returned the element and the exact remainder (and *)
(* the model's own Lookup agrees), f_index = i, f_coords = points, and the *)
(* two sides of every interface compose with the element geometries to the *)
(* same affine map into physical space.                                    *)
(*                                                                         *)
(* kind "locate": element geometries geomtab (by element number), targets  *)
(* (integers at scale 2^12), tolerance, and what locate() returned, in     *)
(* input order: res[k] = [i, p, x] element number, local point and         *)
(* evaluated geometry.  TLC decides: one point per target, in order, whose *)
(* model image geomtab[i](p) lies within tol of the target, and the        *)
(* evaluated geometry equals the model image; or locate raised.            *)
(***************************************************************************)
EXTENDS TransformSeq, IOUtils

Cases == JsonDeserialize(IOEnv.VF_TRACE)
VARIABLE cid
TInit == cid \in 1..Len(Cases)
TNext == FALSE /\ UNCHANGED cid
TSpec == TInit /\ [][TNext]_cid

Scale == 4096
Slack == 3            \* rounding of recorded floats to integers, in units of 1/Scale

\* ------------------------------------------------------------------ sequences
IAbs(x) == IF x < 0 THEN -x ELSE x
\* 2^e * Scale * (image of local point p under G), exact
ImageNum(G, p) == [r \in 1..G.m |-> TcDotV(G.A[r], p, G.n) + G.b[r] * Scale]
ObsOK(c, d, o) ==
    LET el == d[o.i + 1]
        n0 == TcSum(el.ref)
    IN /\ o.ridx = o.i
       /\ IF o.tail = <<>> THEN o.rtail = <<>> ELSE SameMap(o.rtail, o.tail, n0)
ModelAgrees(c, d, o) == Lookup(c.expr, d[o.i + 1].ch \o o.tail)[1] = o.i
IfaceOK(c, f) ==
    LET gt == c.geomtab[f.t[1].c[2] + 1]
        go == c.geomtab[f.o[1].c[2] + 1]
        n0 == gt.n - 1
    IN /\ f.t # f.o
       /\ Compose(gt, ChainMap(Tail(f.t), n0)) = Compose(go, ChainMap(Tail(f.o), n0))
\* index / coordinate functions of the base topology evaluated on this (derived) topology: the model looks the
\* element's chain up in the base sequence and applies the remainder to the sample points
BaseOK(c, i) ==
    LET r == Lookup(c.bexpr, c.chains[i])
    IN /\ r # Fail
       /\ c.bindex[i] = <<r[1]>>
       /\ LET n0 == ChainFromDims(c.chains[i], 0)
              F == ChainMap(r[2], n0)
              dn == TcPow2(F.e)
          IN \A k \in 1..Len(c.points[i]) :
                LET img == ImageNum(F, c.points[i][k])
                IN \A q \in 1..F.m : IAbs(img[q] - c.bcoords[i][k][q] * dn) <= Slack * dn
SeqVerdict(c) ==
    LET d == Den(c.expr)
    IN IF Len(c.chains) # Len(d) THEN "len-differs-from-model"
       ELSE IF \E i \in 1..Len(d) : c.chains[i] # d[i].ch THEN "getitem-differs-from-model"
       ELSE IF \E k \in 1..Len(c.obs) : c.obs[k].ridx = -1 THEN "lookup-raises"
       ELSE IF \E k \in 1..Len(c.obs) : c.obs[k].ridx # c.obs[k].i THEN "lookup-wrong-index"
       ELSE IF \E k \in 1..Len(c.obs) : ~ObsOK(c, d, c.obs[k]) THEN "lookup-wrong-tail"
       ELSE IF \E k \in 1..Len(c.obs) : ~ModelAgrees(c, d, c.obs[k]) THEN "model-lookup-disagrees"
       ELSE IF \E i \in 1..Len(c.findex) : c.findex[i] # <<i - 1>> THEN "f_index-wrong"
       ELSE IF \E i \in 1..Len(c.fcoords) : c.fcoords[i] # c.points[i] THEN "f_coords-wrong"
       ELSE IF \E k \in 1..Len(c.ifaces) : ~IfaceOK(c, c.ifaces[k]) THEN "interface-sides-differ"
       ELSE IF c.bexpr.k # "none" /\ \E i \in 1..Len(c.bindex) : ~BaseOK(c, i) THEN "base-index-or-coords-wrong"
       ELSE "ok"

\* ------------------------------------------------------------------ locate
PointOK(c, k) ==
    LET r == c.res[k]
        G == c.geomtab[r.i + 1]
        img == ImageNum(G, r.p)
        dn == TcPow2(G.e)
    IN \A q \in 1..G.m : IAbs(img[q] - c.targets[k][q] * dn) <= (c.tol + Slack) * dn
EvalOK(c, k) ==
    LET r == c.res[k]
        G == c.geomtab[r.i + 1]
        img == ImageNum(G, r.p)
        dn == TcPow2(G.e)
    IN \A q \in 1..G.m : IAbs(img[q] - r.x[q] * dn) <= Slack * dn
RECURSIVE InsideRef(_, _, _, _)
\* local point p (scaled) lies in the reference d (product of simplices) up to a margin; pos = first coordinate of the factor
InsideRef(d, p, pos, margin) ==
    IF Len(d) = 0 THEN TRUE
    ELSE /\ \A q \in pos..(pos + d[1] - 1) : p[q] >= -margin
         /\ TcSum([q \in 1..d[1] |-> p[pos + q - 1]]) <= Scale + margin
         /\ InsideRef(Tail(d), p, pos + d[1], margin)
LocateVerdict(c) ==
    IF c.raised THEN (IF c.allinside THEN "ok-raised-though-all-targets-inside" ELSE "ok-raised")
    ELSE IF Len(c.res) # Len(c.targets) THEN "wrong-number-of-points"
    ELSE IF \E k \in 1..Len(c.res) : c.res[k].i < 0 \/ c.res[k].i >= Len(c.geomtab) THEN "element-out-of-range"
    ELSE IF \E k \in 1..Len(c.res) : ~PointOK(c, k) THEN "image-outside-tolerance-or-out-of-order"
    ELSE IF \E k \in 1..Len(c.res) : ~EvalOK(c, k) THEN "evaluated-geometry-differs-from-model-image"
    ELSE IF \E k \in 1..Len(c.res) : ~InsideRef(c.refs[c.res[k].i + 1], c.res[k].p, 1, Scale \div 4) THEN "point-far-outside-its-element"
    ELSE "ok"

TVerdict == LET c == Cases[cid] IN [id |-> cid, name |-> c.name, kind |-> c.kind,
                                   v |-> IF c.kind = "seq" THEN SeqVerdict(c) ELSE LocateVerdict(c)]
TEmit == PrintT(<<"VF", ToJson(TVerdict)>>)
=============================================================================
