\* spec mutant "diag-gram": d facet coords / d root = diag(L^T L)^-1 L^T instead of the Gram pseudo inverse (L^T L)^-1 L^T.
\* TLC must report a violation of BoundaryFieldTangential (the oblique face of the tetrahedron, faces of the inner children).
SPECIFICATION Spec
CONSTANTS
  MeshNames = {"tet"}
  RefineOn = {}
  MaxLevel = 1
  Refine2On = {}
  GeomIds = {12}
  FieldIds = {13}
  Lattice = 2
  Lattice3 = 1
  IntegrateOn = {}
  BFieldOn = {"tet"}
  RefineOnB = {"tet"}
  ProdGeomIds = {}
  ProdFieldIds = {}
  GmMutant = "diag-gram"
INVARIANT TypeOK
INVARIANT BoundaryFieldTangential
INVARIANT BoundarySurfGrad
