"""Report object shared by all property checks: collects coverage numbers,
violations (with a root-cause key), matches them against the committed
known-findings file, writes evidence and replay files, decides the exit code."""

import json
import os
import sys
import time

from .tlc import VERIF

KNOWN = os.path.join(VERIF, 'known_findings.jsonl')
# mutation/self-test runs redirect their evidence and replay files so that the committed evidence is never overwritten
OUT = os.environ.get('VF_OUT') or VERIF


def load_known():
    out = []
    if os.path.exists(KNOWN):
        for line in open(KNOWN):
            line = line.strip()
            if line and not line.startswith('#'):
                out.append(json.loads(line))
    return out


class Report:
    def __init__(self, pid, tier, seed, level='model_checking'):
        self.pid = pid
        self.tier = tier
        self.seed = seed
        self.level = level
        self.t0 = time.time()
        self.states = 0
        self.transitions = 0
        self.traces = 0            # traces validated against impl / behaviours replayed
        self.evaluations = 0
        self.nontrivial = set()    # distinct non-trivial case signatures
        self.rule = ''
        self.samples = []
        self.exhaustive = False
        self.actions = {}          # per-action coverage counts
        self.tlc_cmds = []
        self.constants = {}
        self.skipped = {}
        self.assumptions = []
        self.violations = []       # dicts: key, what, data
        self.extra = {}
        self.notes = []

    def lap(self, name):
        self.notes.append('{}: {:.1f}s'.format(name, time.time() - self.t0))

    # -- accumulation --------------------------------------------------
    def add_tlc(self, res, exhaustive=None):
        self.states += res.distinct or 0
        self.transitions += res.generated or 0
        if not res.distinct and res.generated:
            self.states += res.generated
        for k, v in res.coverage.items():
            self.actions[k] = self.actions.get(k, 0) + v[1]
        self.tlc_cmds.append(res.cmd.split('tlc2.TLC ')[-1])
        if exhaustive is not None:
            self.exhaustive = exhaustive if not self.tlc_cmds[:-1] else (self.exhaustive and exhaustive)

    def sample(self, x, limit=5):
        if len(self.samples) < limit:
            self.samples.append(x)

    def skip(self, why, n=1):
        self.skipped[why] = self.skipped.get(why, 0) + n

    def case(self, sig=None, nontrivial=True):
        self.evaluations += 1
        if nontrivial and sig is not None:
            self.nontrivial.add(sig)

    def violation(self, key, what, data=None):
        """key: root-cause signature (string) used for known-finding matching."""
        for v in self.violations:
            if v['key'] == key:
                v['count'] += 1
                return
        self.violations.append(dict(key=key, what=what, data=data, count=1))

    # -- finishing -----------------------------------------------------
    def finish(self):
        known = [k for k in load_known() if k.get('property') == self.pid and k.get('status', 'known') == 'known']
        knownkeys = {k['key']: k for k in known}
        hits = []
        fresh = []
        for v in self.violations:
            if v['key'] in knownkeys:
                hits.append(v)
            else:
                fresh.append(v)
        for v in hits:
            print('KNOWN-FINDING: property={} {} [key={}] (x{})'.format(self.pid, knownkeys[v['key']].get('what', v['what']), v['key'], v['count']))
        rdir = os.path.join(OUT, 'replays', self.pid)
        os.makedirs(rdir, exist_ok=True)
        for i, v in enumerate(fresh):
            path = os.path.join(rdir, '{}-{}-{}.json'.format(self.tier, self.seed, i))
            with open(path, 'w') as f:
                json.dump(dict(property=self.pid, key=v['key'], what=v['what'], data=v['data'], count=v['count']), f, indent=1, default=str)
            print('VIOLATION property={} replay={}'.format(self.pid, path))
            print('  key={} what={}'.format(v['key'], v['what']))
        cov = dict(
            states=int(self.states), transitions=int(self.transitions),
            traces_validated_against_impl=int(self.traces),
            evaluations=int(self.evaluations),
            distinct_nontrivial=len(self.nontrivial),
            rule=self.rule,
            samples=self.samples or ['(none)'],
            exhaustive=bool(self.exhaustive),
            actions=self.actions, tlc_cmds=self.tlc_cmds, constants=self.constants,
            skipped=self.skipped, known_findings_hit=[v['key'] for v in hits],
        )
        cov.update(self.extra)
        ev = dict(property_id=self.pid, tier=self.tier, seed=int(self.seed), level=self.level, coverage=cov,
                  assumptions=self.assumptions, wall_s=round(time.time() - self.t0, 2), violations=len(fresh))
        os.makedirs(os.path.join(OUT, 'evidence'), exist_ok=True)
        with open(os.path.join(OUT, 'evidence', self.pid + '.json'), 'w') as f:
            json.dump(ev, f, indent=1, default=str)
        print('{}: tier={} seed={} states={} transitions={} traces={} evaluations={} nontrivial={} known={} violations={} wall={:.1f}s'.format(
            self.pid, self.tier, self.seed, self.states, self.transitions, self.traces, self.evaluations, len(self.nontrivial), len(hits), len(fresh), time.time() - self.t0))
        for n in self.notes:
            print('  note:', n)
        sys.stdout.flush()
        return 1 if fresh else 0
