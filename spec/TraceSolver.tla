---------------------------- MODULE TraceSolver ----------------------------
(***************************************************************************)
(* Trace validation (C->S) of real System.solve executions against the     *)
(* design Solver.tla.  A trace is what a wrapper around the method= passed *)
(* to the real System.solve observes:                                      *)
(*   rhs    Direct only: class of the residual norm at the initial guess   *)
(*   tuple  Direct only: the (arguments, resnorm) pair handed to solve     *)
(*   yield  one (arguments, resnorm) pair yielded by the method iterator   *)
(*   end    how System.solve ended (return / exception class), iterations  *)
(* r is the class of the REPORTED residual norm, t the class of the norm   *)
(* that the harness recomputes densely and independently at the yielded    *)
(* arguments, c says that every constrained entry is bit-equal to its      *)
(* prescribed value, same that the returned arguments are the last yielded *)
(* ones.  Classes: 1 = at most tol (the model's magnitudes 0, 1), 2 =      *)
(* above tol and finite (magnitudes 2, 4), 999 = inf, 1000 = nan.          *)
(* Everything that is not logged (assemblies between yields, the linear    *)
(* solves, line search verdicts) is left to the design's actions.          *)
(*                                                                         *)
(* Every trace is tried against the code-as-written model (mode 0) and the *)
(* design the property demands (mode 1); the verdicts (matched prefix,     *)
(* Certified - of the most favourable match -, guard) are reported per trace by the POSTCONDITION and the   *)
(* harness maps them to OK / finding(key = guard) / not-a-behaviour.       *)
(***************************************************************************)
EXTENDS Integers, Sequences, FiniteSets, TLC, Json, IOUtils

Traces == JsonDeserialize(IOEnv.VF_TRACE)
NT == Len(Traces)

VARIABLES tid, l, mode, conf, pc, iiter, resnorm, yres, g, lin, linok, draws, outcome, why

AllVals == {0, 1, 2, 4, 999, 1000}
S == INSTANCE Solver WITH Methods <- {"direct", "newton", "reuse", "linesearch", "arnoldi"}, Vals <- AllVals,
                          Tols <- {0, 1}, MinIters <- {0}, MaxIters <- {99}, LModes <- {"none", "abs", "rel"},
                          MaxDraw <- 1000000, Variants <- BOOLEAN, Emitting <- FALSE

svars == <<conf, pc, iiter, resnorm, yres, g, lin, linok, draws, outcome, why>>
tvars == <<tid, l, mode, conf, pc, iiter, resnorm, yres, g, lin, linok, draws, outcome, why>>
\* draws is a history variable of the design: not part of the trace state
View == <<tid, l, mode, conf, pc, iiter, resnorm, yres, g, lin, linok, outcome, why>>

E == Traces[tid].events
Match(v, cls) == IF cls = 1 THEN v \in {0, 1} ELSE IF cls = 2 THEN v \in {2, 4} ELSE v = cls

TraceInit == /\ tid \in 1..NT /\ mode \in {0, 1} /\ l = 1
             /\ LET c == Traces[tid].conf
                IN conf = [m |-> c.m, tol |-> c.tol, miniter |-> c.miniter, maxiter |-> c.maxiter, lmode |-> c.lmode, rep |-> (mode = 1)]
             /\ pc = "call" /\ iiter = 0 /\ resnorm = 0 /\ yres = 0
             /\ g = [res |-> 0, upd |-> TRUE, k |-> 0, resume |-> "none"]
             /\ lin = [rhs |-> 0, len |-> FALSE, ret |-> "none", lhs |-> 1, res |-> 0]
             /\ linok = TRUE /\ draws = <<>> /\ outcome = "none" /\ why = "none"

IsEvent(name) == l <= Len(E) /\ E[l].ev = name /\ l' = l + 1 /\ UNCHANGED <<tid, mode>>

Yielding == S!NAsm \/ S!RAsm0 \/ S!RNewAccept \/ S!SAsm0 \/ S!STryAccept \/ S!AAsm \/ S!AFin
Internal == \/ S!Call \/ S!LoopReturn \/ S!LoopNonFinite \/ S!LoopMaxiter \/ S!LoopNext \/ S!LShort \/ S!LCall \/ S!LFinite \/ S!LCheck
            \/ S!NLin \/ S!RTop \/ S!RNewReject \/ S!SLin \/ S!STryReject \/ S!STryFail \/ S!ASolve \/ S!AEnd

TYield == /\ IsEvent("yield") /\ Yielding /\ pc' = "loop"
          /\ Match(resnorm', E[l].r) /\ E[l].t = E[l].r /\ E[l].c = TRUE
TRhs   == /\ IsEvent("rhs") /\ S!DAsm /\ Match(g'.res, E[l].r)
TTuple == /\ IsEvent("tuple") /\ S!DRet
          /\ Match(resnorm', E[l].r) /\ E[l].t = E[l].r /\ E[l].c = TRUE
\* a Direct call that raises never hands over a tuple
TEnd   == /\ IsEvent("end") /\ pc = "done" /\ outcome = E[l].outcome
          /\ (conf.m # "direct" /\ outcome # "ValueError") => iiter = E[l].iiter
          /\ outcome = "return" => E[l].c = TRUE /\ E[l].same = TRUE
          /\ UNCHANGED svars
\* (a design step that reaches "loop" is a yield and must be logged)
TSilent == Internal /\ pc' # "loop" /\ UNCHANGED <<tid, l, mode>>

TraceNext == TYield \/ TRhs \/ TTuple \/ TEnd \/ TSilent
TraceSpec == TraceInit /\ [][TraceNext]_tvars

\* ------------------------------------------------------------------ verdict bookkeeping (workers = 1)
\* register 2/3: longest matched prefix in mode 0/1; 4: Certified verdict of the complete mode-0 match
\* (0 none, 1 certified, 2 not certified); 5: the guard through which an uncertified mode-0 match returned
ASSUME TLCSet(2, [t \in 1..NT |-> 0]) /\ TLCSet(3, [t \in 1..NT |-> 0])
       /\ TLCSet(4, [t \in 1..NT |-> 0]) /\ TLCSet(5, [t \in 1..NT |-> "none"])
Complete == l = Len(E) + 1
CertHere == outcome # "return" \/ S!CertNow
NoSilentHere == outcome \in {"none", "return"} \cup S!Errors
Progress ==
    /\ IF mode = 0 THEN TLCSet(2, [TLCGet(2) EXCEPT ![tid] = IF l > @ THEN l ELSE @])
                   ELSE TLCSet(3, [TLCGet(3) EXCEPT ![tid] = IF l > @ THEN l ELSE @])
    /\ (mode = 0 /\ Complete) =>
          /\ TLCSet(4, [TLCGet(4) EXCEPT ![tid] = IF CertHere /\ NoSilentHere THEN 1 ELSE (IF @ = 1 THEN 1 ELSE 2)])
          /\ (~(CertHere /\ NoSilentHere)) =>
                TLCSet(5, [TLCGet(5) EXCEPT ![tid] = IF NoSilentHere THEN why ELSE "System.solve:raises-" \o outcome])
Report == /\ \A t \in 1..NT : PrintT(<<"VF", ToJson([tid |-> t, len |-> Len(Traces[t].events), a |-> TLCGet(2)[t] - 1,
                                                      r |-> TLCGet(3)[t] - 1, cert |-> TLCGet(4)[t], why |-> TLCGet(5)[t]])>>)
          /\ TRUE

\* invariants of the design, evaluated in every state of every matched trace
RCertified == S!Certified /\ S!NoSilent
IterBounds == S!IterBounds
ReturnsLast == S!ReturnsLast
=============================================================================
