----------------------------- MODULE MergeIndex -----------------------------
(***************************************************************************)
(* C12 -- util.merge_index_map, the routine that identifies the degrees of *)
(* freedom of neighbouring elements (_basis_c0_structured) and of          *)
(* neighbouring patches (MultipatchTopology.basis_spline).                 *)
(*                                                                         *)
(* The machine is the code: a pointer array im, one MergeStep per merge    *)
(* set (resolve every index to its root by following pointers, point all   *)
(* roots to the smallest), then one Finish step per index (a root gets the *)
(* next number, any other index the number of what it points to).          *)
(* The invariants say that pointers only ever point downwards (so the      *)
(* while loop of the code terminates and Finish reads numbers that are     *)
(* final), and that the result is the numbering of the equivalence classes *)
(* by smallest member that module Basis uses (BMergeMap / BMergeRep).      *)
(***************************************************************************)
EXTENDS Basis, TLC, Json

CONSTANTS MaxN,        \* indices 0..nin-1, nin <= MaxN
          MaxSets,     \* number of merge sets
          MaxLen       \* indices per merge set

VARIABLES nin, condense, sets0, todo, im, pos, count, phase
vars == <<nin, condense, sets0, todo, im, pos, count, phase>>

MergeSets(n) == {s \in UNION {[1..k -> 0..n-1] : k \in 1..MaxLen} : \A i \in 1..Len(s)-1 : s[i] <= s[i+1]}

Init == /\ nin \in 1..MaxN
        /\ condense \in BOOLEAN
        /\ sets0 = <<>> /\ todo = <<>>
        /\ im = [i \in 0..nin-1 |-> i]
        /\ pos = 0 /\ count = 0 /\ phase = "input"

(* the caller supplies the merge sets one by one (an iterable) *)
AddSet ==
    /\ phase = "input" /\ Len(sets0) < MaxSets
    /\ \E s \in MergeSets(nin) : sets0' = Append(sets0, s) /\ todo' = Append(todo, s)
    /\ UNCHANGED <<nin, condense, im, pos, count, phase>>
Start ==
    /\ phase = "input" /\ phase' = "merge"
    /\ UNCHANGED <<nin, condense, sets0, todo, im, pos, count>>

RECURSIVE Root(_, _)
Root(m, i) == IF m[i] = i THEN i ELSE Root(m, m[i])       \* while (parent := index_map[index]) != index: index = parent

MergeStep ==
    /\ phase = "merge" /\ todo # <<>>
    /\ LET s == Head(todo)
           resolved == {Root(im, s[k]) : k \in 1..Len(s)}
           low == IF Mutant = "merge-max" THEN BMax(resolved) ELSE BMin(resolved) IN
       im' = [i \in 0..nin-1 |-> IF i \in resolved THEN low ELSE im[i]]       \* index_map[resolved] = min(resolved)
    /\ todo' = Tail(todo)
    /\ UNCHANGED <<nin, condense, sets0, pos, count, phase>>

StartFinish ==
    /\ phase = "merge" /\ todo = <<>>
    /\ phase' = "finish"
    /\ UNCHANGED <<nin, condense, sets0, todo, im, pos, count>>

Finish ==
    /\ phase = "finish" /\ pos < nin
    /\ IF im[pos] = pos
       THEN /\ im' = IF condense THEN [im EXCEPT ![pos] = count] ELSE im
            /\ count' = count + 1
       ELSE /\ im' = [im EXCEPT ![pos] = im[im[pos]]]
            /\ count' = count
    /\ pos' = pos + 1
    /\ UNCHANGED <<nin, condense, sets0, todo, phase>>

Done ==
    /\ phase = "finish" /\ pos = nin
    /\ phase' = "done"
    /\ UNCHANGED <<nin, condense, sets0, todo, im, pos, count>>

Next == AddSet \/ Start \/ MergeStep \/ StartFinish \/ Finish \/ Done
Spec == Init /\ [][Next]_vars

---------------------------------------------------------------------------
AsSets == {BSet(sets0[k]) : k \in 1..Len(sets0)}
Merged == {BSet(sets0[k]) : k \in 1..Len(sets0) - Len(todo)}     \* the merge sets processed so far

TypeOK == /\ im \in [0..nin-1 -> 0..nin-1] /\ pos \in 0..nin /\ count \in 0..nin
          /\ phase \in {"input", "merge", "finish", "done"}
(* pointers point downwards: following them terminates, and what Finish reads has been finished *)
Downwards == phase = "merge" => \A i \in 0..nin-1 : im[i] <= i
(* while merging, the roots are exactly the smallest members of the classes of the sets merged so far *)
RootsAreReps == phase = "merge" => \A i \in 0..nin-1 : Root(im, i) = BMergeRep(nin, Merged)[i+1]
(* the result *)
Result == phase = "done" =>
    /\ count = BMergeCount(nin, AsSets)
    /\ \A i \in 0..nin-1 : im[i] = IF condense THEN BMergeMap(nin, AsSets)[i+1] ELSE BMergeRep(nin, AsSets)[i+1]
(* what the docstring says *)
Docstring == phase = "done" =>
    /\ \A k \in 1..Len(sets0) : \A i, j \in 1..Len(sets0[k]) : im[sets0[k][i]] = im[sets0[k][j]]
    /\ condense => \A c \in 0..count-1 : \E i \in 0..nin-1 : im[i] = c /\ \A j \in 0..i-1 : im[j] < c  \* first occurrences give range(nout)

Emit(x) == PrintT(<<"VF", ToJson(x)>>)
EmitDone == phase = "done" => Emit([nin |-> nin, condense |-> condense, sets |-> sets0, map |-> [i \in 1..nin |-> im[i-1]], count |-> count])
=============================================================================
