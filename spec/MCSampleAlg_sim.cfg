\* simulation: deeper nestings (up to 4 operations)
SPECIFICATION Spec
CONSTANTS
  Bases <- MCBases
  AtomDefs <- MCAtomDefs
  StartAtoms <- MCStartAtoms
  Operands <- MCOperands
  MaxOps = 4
  MaxPoints = 36
  MaxElems = 16
  TakeAll = FALSE
  Mutant = "none"
INVARIANT ContainerInv
INVARIANT LocatedInv
INVARIANT Sizes
INVARIANT IndexPartition
INVARIANT EvalOrder
INVARIANT EvIndexAgrees
INVARIANT Quadrature
INVARIANT OpLaw
INVARIANT EmitAll
CHECK_DEADLOCK FALSE
