---------------------------- MODULE BasisMachine ----------------------------
(***************************************************************************)
(* C12 -- the construction of a basis as a state machine.                  *)
(*                                                                         *)
(* One action per step nutils takes to arrive at a basis:                  *)
(*   SplineDim   one pass of the per-dimension loop of                     *)
(*               StructuredTopology.basis_spline (knot multiplicities,     *)
(*               offsets, start/stop dofs); as a state it is the basis of  *)
(*               a one-dimensional topology                                *)
(*   Ravel       StructuredBasis: the tensor product, dofs and elements    *)
(*               ravelled                                                  *)
(*   DiscontOn   Topology.basis_discont on the same grid                   *)
(*   LegendreOn  StructuredTopology.basis_legendre                         *)
(*   RemoveDofs  the removedofs argument (a MaskedBasis of the product)    *)
(*   Mask        basis[indices]              (MaskedBasis)                 *)
(*   Prune       SubsetTopology.basis        (PrunedBasis)                 *)
(*   Part        discontinuous_at_partition_interfaces                     *)
(* The state is the basis structure of module Basis as the model predicts  *)
(* it; the invariants are the clauses of C12 that are structural.          *)
(***************************************************************************)
EXTENDS BasisSpline, TLC

CONSTANTS DimA, DimB,       \* parameter records admitted for the first / the later dimensions
          MaxDims,          \* number of dimensions
          RemChoices,       \* lists of (possibly negative) indices offered as removedofs per dimension
          MaxDer,           \* number of Mask / Prune / Part steps
          SmallNd, SmallNe, \* up to this size every subset / partition is offered, above it a few patterns
          Kinds             \* which constructions are enabled

VARIABLES st, dims, b, hist, nder
vars == <<st, dims, b, hist, nder>>

Nil == [ne |-> 0, nd |-> 0, ed |-> <<>>, su |-> <<>>, mid |-> <<>>, ifc |-> {}, un |-> {}]
H(op, f, a, aa) == [op |-> op, f |-> f, a |-> a, aa |-> aa]
LastOp == IF hist = <<>> THEN "" ELSE hist[Len(hist)].op

Init == st = "new" /\ dims = <<>> /\ b = Nil /\ hist = <<>> /\ nder = 0

SplineDim ==
    /\ st \in {"new", "dims"} /\ Len(dims) < MaxDims
    /\ \E prm \in (IF Len(dims) = 0 THEN DimA ELSE DimB) :
         /\ SplValid(prm)
         /\ LET s == Spline1D(prm) IN
              /\ dims' = Append(dims, [prm |-> prm, s |-> s])
              /\ b' = s
         /\ hist' = Append(hist, H("dim", prm.form, <<prm.p, prm.n, IF prm.per THEN 1 ELSE 0, prm.k>>, <<prm.ms>>))
    /\ st' = "dims" /\ UNCHANGED nder

Product == IF Len(dims) = 1 THEN dims[1].s
           ELSE IF Len(dims) = 2 THEN TensorOp(dims[1].s, dims[2].s)
           ELSE TensorOp(TensorOp(dims[1].s, dims[2].s), dims[3].s)

Ravel ==
    /\ st = "dims" /\ "spline" \in Kinds
    /\ b' = Product
    /\ hist' = Append(hist, H("ravel", "", <<>>, <<>>))
    /\ st' = "built" /\ UNCHANGED <<dims, nder>>

(* discont / legendre take one integer degree and no other argument: offered on grids whose dimensions were
   declared with that degree and default arguments *)
PlainGrid == \A i \in 1..Len(dims) : dims[i].prm.form = "none" /\ dims[i].prm.k = -1 /\ dims[i].prm.p = dims[1].prm.p
RECURSIVE BPow(_, _)
BPow(x, k) == IF k = 0 THEN 1 ELSE x * BPow(x, k-1)

DiscontOn ==
    /\ st = "dims" /\ "discont" \in Kinds /\ PlainGrid
    /\ LET g == Product
           blk == BBlocks(g.ne, BPow(dims[1].prm.p + 1, Len(dims))) IN
       b' = [ne |-> g.ne, nd |-> blk.nd, ed |-> blk.ed, su |-> blk.su, mid |-> g.mid,
             ifc |-> {[key |-> i.key, a |-> i.a, b |-> i.b, c |-> -1] : i \in g.ifc}, un |-> 0..g.ne-1]
    /\ hist' = Append(hist, H("discont", "", <<dims[1].prm.p>>, <<>>))
    /\ st' = "built" /\ UNCHANGED <<dims, nder>>

LegendreOn ==
    /\ st = "dims" /\ "legendre" \in Kinds /\ PlainGrid /\ Len(dims) = 1
    /\ LET g == Product
           blk == BBlocks(g.ne, dims[1].prm.p + 1) IN
       b' = [ne |-> g.ne, nd |-> blk.nd, ed |-> blk.ed, su |-> blk.su, mid |-> g.mid,
             ifc |-> {[key |-> i.key, a |-> i.a, b |-> i.b, c |-> -1] : i \in g.ifc},
             un |-> IF dims[1].prm.p = 0 THEN 0..g.ne-1 ELSE {}]     \* P0 = 1, P0+P1+.. is not one
    /\ hist' = Append(hist, H("legendre", "", <<dims[1].prm.p>>, <<>>))
    /\ st' = "built" /\ UNCHANGED <<dims, nder>>

(* removedofs: per dimension a list of indices into that dimension's functions, negative ones from the end *)
DimNd(i) == dims[i].s.nd
Digit(d, i) ==      \* the index along dimension i of ravelled dof d
    LET after == IF i = Len(dims) THEN 1 ELSE IF i = Len(dims) - 1 THEN DimNd(Len(dims)) ELSE DimNd(Len(dims)) * DimNd(Len(dims)-1)
    IN (d \div after) % DimNd(i)
RemoveDofs ==
    /\ st = "built" /\ LastOp = "ravel" /\ "removedofs" \in Kinds
    /\ \E R \in [1..Len(dims) -> RemChoices] :
         /\ \E i \in 1..Len(dims) : R[i] # <<>>
         /\ \A i \in 1..Len(dims) : \A j \in 1..Len(R[i]) : -DimNd(i) <= R[i][j] /\ R[i][j] < DimNd(i)      \* numeric.normdim
         /\ LET gone(i) == {(R[i][j] + DimNd(i)) % DimNd(i) : j \in 1..Len(R[i])}
                K == {d \in BDofs(b) : \A i \in 1..Len(dims) : Digit(d, i) \notin gone(i)} IN
              /\ K # {}
              /\ b' = MaskOp(b, K)
         /\ hist' = Append(hist, H("rem", "", <<>>, R))
    /\ UNCHANGED <<st, dims, nder>>

MaskChoices == (IF b.nd <= SmallNd THEN SUBSET BDofs(b)
                ELSE {BDofs(b) \ {d} : d \in {0, b.nd \div 2, b.nd-1}} \cup {{d \in BDofs(b) : d % 2 = 0}, {d \in BDofs(b) : d % 3 # 1}, 0..(b.nd \div 2)})
               \ {{}, BDofs(b)}
Mask ==
    /\ st = "built" /\ nder < MaxDer /\ "mask" \in Kinds /\ b.nd >= 2
    /\ \E K \in MaskChoices :
         /\ b' = MaskOp(b, K)
         /\ hist' = Append(hist, H("mask", "", BSorted(K), <<>>))
    /\ nder' = nder + 1 /\ UNCHANGED <<st, dims>>

PruneChoices == (IF b.ne <= SmallNe THEN SUBSET BElems(b)
                 ELSE {BElems(b) \ {e} : e \in {0, b.ne \div 2, b.ne-1}} \cup {{e \in BElems(b) : e % 2 = 0}, {e \in BElems(b) : e % 3 # 0}, 0..(b.ne \div 2 - 1)})
                \ {{}, BElems(b)}
Prune ==
    /\ st = "built" /\ nder < MaxDer /\ "prune" \in Kinds /\ b.ne >= 2
    /\ \E E \in PruneChoices :
         /\ b' = PruneOp(b, E)
         /\ hist' = Append(hist, H("prune", "", BSorted(E), <<>>))
    /\ nder' = nder + 1 /\ UNCHANGED <<st, dims>>

PartChoices == IF b.ne <= SmallNe THEN {P \in [1..b.ne -> 0..2] : P[1] = 0 /\ \E e \in 1..b.ne : P[e] # 0}
               ELSE {[e \in 1..b.ne |-> e % 2], [e \in 1..b.ne |-> IF e <= b.ne \div 2 THEN 0 ELSE 1], [e \in 1..b.ne |-> e % 3], [e \in 1..b.ne |-> IF e % 3 = 0 THEN 0 ELSE 4]}
Part ==
    /\ st = "built" /\ nder < MaxDer /\ "part" \in Kinds /\ b.ne >= 2
    /\ \E P \in PartChoices :
         /\ b' = PartOp(b, P)
         /\ hist' = Append(hist, H("part", "", P, <<>>))
    /\ nder' = nder + 1 /\ UNCHANGED <<st, dims>>

Next == SplineDim \/ Ravel \/ DiscontOn \/ LegendreOn \/ RemoveDofs \/ Mask \/ Prune \/ Part
Spec == Init /\ [][Next]_vars

---------------------------------------------------------------------------
TypeOK == st \in {"new", "dims", "built"} /\ BWellFormed(b) /\ nder \in 0..MaxDer
InvInverse == BInverseMaps(b)                                        \* dof-to-elements and element-to-dofs are inverses
InvNoDead == BNoDeadDof(b)                                           \* every function lives somewhere
InvUnit == \A e \in b.un : b.ed[e+1] # <<>>                          \* a sum of nothing is not one
InvSpline == st = "dims" =>
    LET d == dims[Len(dims)] IN
      /\ SplImplRefines(d.prm, d.s)                                  \* topology.py's arithmetic = the knot vector definition
      /\ SplCount(d.prm, d.s) /\ SplLocal(d.prm, d.s)
      /\ SplAdvertised(d.prm, d.s) /\ SplContinuityArg(d.prm, d.s)   \* the advertised continuity
      /\ d.s.un = BElems(d.s)

(* what one step may change *)
StepProp == [][
    /\ (LastOp' \in {"mask", "rem"} /\ st = "built") =>
          /\ b'.nd < b.nd /\ b'.ne = b.ne /\ b'.un \subseteq b.un /\ b'.ifc = b.ifc
          /\ \A e \in 1..b.ne : Len(b'.ed[e]) <= Len(b.ed[e])
    /\ (LastOp' = "prune" /\ Len(hist') > Len(hist)) =>
          /\ b'.ne < b.ne /\ b'.nd <= b.nd
          /\ Cardinality(b'.ifc) <= Cardinality(b.ifc) /\ Cardinality(b'.un) <= Cardinality(b.un)
    /\ (LastOp' = "part" /\ Len(hist') > Len(hist)) =>
          /\ b'.ne = b.ne /\ b'.nd >= b.nd /\ b'.un = b.un
          /\ \A e \in 1..b.ne : Len(b'.ed[e]) = Len(b.ed[e])
          /\ \A i \in b'.ifc : \E j \in b.ifc : j.key = i.key /\ i.c <= j.c
    ]_vars

=============================================================================
