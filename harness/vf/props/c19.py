"""C19 -- Expression strings mean their index-notation reading.

Deciding method.  The TLA+ modules ExprLang / ExprParse are the oracle:

* ExprLang states the DOCUMENTED reading of the expression language: syntax trees,
  their rendering as strings, the documented rules as a declarative counting of index
  occurrences (Chk) and the meaning as explicit index-notation sums over exact two-sided
  rationals (Val).
* ExprParse models the ALGORITHM of expression_v2._Parser / _FunctionArrayOps on arrays
  (one operator per parse_* method) and a derivation machine (one action per production,
  rule-breaking constructors, token-level corruptions of the rendered string).  TLC
  checks over every derivable tree that the algorithm accepts exactly the trees that
  follow the documented rules and that its array equals the index-notation reading
  (VerdictAgree / FreeAgree / MeaningAgree), exhaustively for small bounds and by
  simulation beyond.
* S->C: every complete state is emitted with the verdict and the array the model
  predicts; the harness feeds the string to the real `expr @ ns`, `ns.x_ij = expr`
  (expression_v2) and `ns.eval_ij(expr)` (expression_v1) and compares exception class,
  shape, axis order and values on both sides of an interface.
* The language only expression_v1 has (arguments with deduced axis lengths, dirac,
  gradients, normal, substitution, calls with several arguments) has its own pair of
  modules ExprV1Lang / ExprV1Parse and its own replay: see c19_v1.py.
"""

import collections
import os
import random

from .. import tlc

LEVEL = 'model_checking'

JVM = {'JAVA_TOOL_OPTIONS': '-XX:ParallelGCThreads=2 -XX:CICompilerCount=2'}

CFG = '''SPECIFICATION {SPEC}
CONSTANTS
  Fams <- VFFams
  EmitMin = {EM}
  Bug = "{BUG}"
  Lazy = {LAZY}
'''
CHECKS = '''INVARIANT VerdictAgree
INVARIANT FreeAgree
INVARIANT MeaningAgree
INVARIANT RenderBalanced
INVARIANT Unbalanced
CONSTRAINT EmitComplete
CONSTRAINT EmitTables
'''

# seeded defect of the algorithm model -> a family (spec/MCExprParse.tla) that must expose it
SPEC_MUTANTS = {
    'trace-noshift': 'FamGen',        # _trace continues one position too far after removing a traced pair: G_ji(B_ij)
    'sum-nosummed': 'FamSmall',       # parse_expression forgets the summed indices of later terms: c + A_ii
    'sum-inverse-perm': 'FamPerm',    # parse_expression transposes with the inverse permutation: T_ijk + T_kij
    'pow-noverify': 'FamSmall',       # parse_power does not compare the base indices with the summed indices: a_i^(A_ii)
}

ACTIONS = ['ANum', 'AVar', 'ABadVar', 'AV1Leaf', 'AWrap', 'ACall', 'ABadCall', 'APowInt', 'APowScoped', 'ATerm', 'AFrac', 'ANeg', 'ASum', 'AFinish']


def run_tlc(tag, fams, *, bare=False, bug='', emitmin=0, simulate=None, depth=None, seed=0, coverage=False, timeout=900):
    """one TLC run of MCExprParse over the named families (the family is chosen in the initial state)"""
    wd = tlc.workdir(tag + '-defs')
    path = os.path.join(wd, 'MCExprParseX.tla')
    with open(path, 'w') as f:
        f.write('---- MODULE MCExprParseX ----\nEXTENDS MCExprParse\nVFFams == << {} >>\n====\n'.format(', '.join(fams)))
    cfg = CFG.format(SPEC='BareSpec' if bare else 'Spec', EM=emitmin, BUG=bug, LAZY='TRUE' if simulate else 'FALSE') + ('' if bare else CHECKS) + 'CHECK_DEADLOCK FALSE\n'
    kw = {}
    if simulate:
        kw = dict(simulate=dict(num=simulate), depth=depth, seed=seed)
    return tlc.run('MCExprParseX', cfg_text=cfg, tag=tag, workers=1, deadlock=False, coverage=coverage, timeout=timeout, env=JVM,
                   extra_modules=[path], **kw)


def stratified(cases, per_class, per_valid, rng):
    'at most per_class cases of every (verdict, rule) class, at most per_valid valid ones'
    groups = collections.defaultdict(list)
    for c in cases:
        groups[c['ok'], c['why'], c['ok1'], c['why1']].append(c)
    out = []
    for key in sorted(groups):
        g = groups[key]
        g.sort(key=lambda c: ''.join(c['t']))
        n = per_valid if 'ok' in (key[0], key[2]) else per_class
        if len(g) > n:
            g = rng.sample(g, n)
        out.extend(g)
    return out


def model_phase(rep):
    """all TLC work: returns the namespace tables and the emitted cases per family, and the same for the version 1 part"""
    import concurrent.futures
    from . import c19_v1
    quick = rep.tier == 'quick'
    # exhaustive runs: lists of families, one TLC process each
    if quick:
        exh = [['FamCore', 'FamRank3', 'FamGen'], ['FamPerm', 'FamSummed', 'FamMut', 'FamMut3', 'FamCor', 'FamV1q']]
        sim = ['FamSimV', 'FamSimM', 'FamSimC', 'FamSimVO']
    else:
        exh = [['FamCore0', 'FamMut2', 'FamMut3', 'FamCor2', 'FamRank3', 'FamGen'], ['FamPerm2', 'FamSummed3', 'FamV1', 'FamV1b'], ['FamThree'], ['FamThreeV']]
        sim = ['FamSimV', 'FamSimW', 'FamSimM', 'FamSimC', 'FamSimVO', 'FamSimWO']
    nsim = 60 if quick else 1500
    mutants = ['trace-noshift'] if quick else sorted(SPEC_MUTANTS)
    tmo = 500 if quick else 2400
    jobs = {}
    for i, fams in enumerate(exh):
        jobs['exhaustive%d' % i] = (lambda i, fams: lambda: run_tlc('c19-exh%d' % i, fams, timeout=tmo))(i, fams)
    jobs['simulate'] = lambda: run_tlc('c19-sim', sim, emitmin=2, simulate=nsim, depth=24, seed=rep.seed + 19, timeout=tmo)
    # vacuity guard: per-action coverage of the bare machine on the families that enable every action
    jobs['coverage'] = lambda: run_tlc('c19-cover', ['FamCov'], bare=True, coverage=True, timeout=tmo)
    for bug in mutants:
        jobs['mutant:' + bug] = (lambda bug: lambda: run_tlc('c19-mutant-' + bug, [SPEC_MUTANTS[bug]], bug=bug, timeout=tmo))(bug)
    # the long runs first: the version 1 families, then the exhaustive and simulation runs above, the small ones (coverage, mutants) last
    allj = dict(c19_v1.jobs(rep))
    allj.update(jobs)
    jobs = dict(sorted(allj.items(), key=lambda kv: ('exhaustive' not in kv[0], 'simulate' not in kv[0])))
    with concurrent.futures.ThreadPoolExecutor(max_workers=min(16, os.cpu_count() or 4)) as pool:
        futs = {k: pool.submit(f) for k, f in jobs.items()}
        results = {k: f.result() for k, f in futs.items()}
    rep.lap('tlc')

    runs = [('exhaustive%d' % i, fams) for i, fams in enumerate(exh)] + [('simulate', sim)]
    for k, _ in runs:
        res = results[k]
        if res.violated:
            raise tlc.TLCError('C19 design spec: invariant {} violated ({} run): the documented reading and the algorithm model disagree; '
                               'this is a defect of the specification, not of nutils:\n{}'.format(res.violated, k, '\n'.join(l[:300] for l in res.error_trace[:30])))
        rep.add_tlc(res, exhaustive=(k != 'simulate'))
    cov = results['coverage']
    rep.tlc_cmds.append(cov.cmd.split('tlc2.TLC ')[-1])
    for a, v in cov.coverage.items():
        if a in ACTIONS:
            rep.actions[a] = v[1]
    dead = [a for a in ACTIONS if not rep.actions.get(a)]
    if dead:
        raise tlc.TLCError('C19 vacuity guard: actions never taken: {}'.format(dead))
    # spec mutants: a seeded defect of the algorithm model must violate an invariant
    for bug in mutants:
        res = results['mutant:' + bug]
        if not res.violated:
            raise tlc.TLCError('C19: the seeded defect {!r} of the algorithm model violates no invariant over {}: the invariants are vacuous'.format(bug, SPEC_MUTANTS[bug]))
        rep.extra.setdefault('spec_mutants_caught', {})[bug] = res.violated

    tables = None
    byfam = collections.defaultdict(dict)
    for k, names in runs:
        for e in results[k].emitted:
            if 'vars' in e:
                tables = e
            else:
                byfam[names[e['fam'] - 1]].setdefault((''.join(e['t']), e['ok']), e)
    if tables is None:
        raise tlc.TLCError('C19: the model did not emit its namespace tables')
    for name, d in byfam.items():
        rep.constants[name] = dict(trees=len(d), valid=sum(c['ok'] == 'ok' for c in d.values()), invalid=sum(c['ok'] == 'bad' for c in d.values()))

    return tables, dict(byfam), sim, c19_v1.collect(rep, results)


def replay_phase(rep, tables, byfam, sim):
    """S->C: every selected case on the real namespaces"""
    from . import c19_ns
    rng = random.Random(rep.seed)
    quick = rep.tier == 'quick'
    R = c19_ns.Replayer(tables)
    per_class = 400 if quick else 100000         # invalid strings replayed per (family, violated rule): refusals are cheap
    per_valid = 120 if quick else 4000           # valid strings replayed per family
    worst = {}
    seen = set()
    status = {}          # (string, verdict) -> [case, family, judged engines, skipped engines]
    pending = []

    def record(c, name, eng, o):
        st = status[c19_ns.text(c), c.get('key_ok', c['ok'])]
        if o.kind == 'skip':
            st[3] += 1
            if eng != 'v2parser':
                rep.skip('{}: outside the model ({})'.format(eng, 'integer ** negative integer' if c['ok'] == 'skip' else 'undefined value'))
            return
        st[2] += 1
        if o.kind == 'violation':
            s = c19_ns.text(c)
            w = worst.get(o.key)
            rank = (c['no'], len(s), s)
            data = dict(expression=s, model=dict(verdict=c['ok'], rule=c['why'], axes=c['fr'], array=c['arr']), family=name)
            if w is None or rank < w[0]:
                worst[o.key] = (rank, o.what, data, (w[3] if w else 0) + 1)
            else:
                worst[o.key] = (w[0], w[1], w[2], w[3] + 1)

    def flush():
        # several arrays of one case (orders) count once per engine: the worst outcome wins
        outs = R.evaluate([p for p, _ in pending])
        best = {}
        for (p, name), o in zip(pending, outs):
            k = (c19_ns.text(p.case), p.case.get('key_ok', p.case['ok']), p.engine)
            if k not in best or (o.kind == 'violation' and best[k][2].kind != 'violation'):
                best[k] = (p.case, name, o, p.engine)
        for c, name, o, eng in best.values():
            record(c, name, eng, o)
        del pending[:]

    for name in sorted(byfam):
        cases = list(byfam[name].values())
        sel = stratified(cases, per_class, 100000 if name in sim else per_valid, rng)
        for c in sel:
            s = c19_ns.text(c)
            if (s, c['ok']) in seen:
                continue
            seen.add((s, c['ok']))
            status[s, c['ok']] = [c, name, 0, 0]
            for eng in ['v2'] + (['v1'] if R.v1_applicable(c) else []):
                o, pend = getattr(R, eng)(c)
                if o is not None:
                    record(c, name, eng, o)
                pending.extend((p, name) for p in pend)
            if c['ok'] == 'ok' and c['st'] == 0:
                record(c, name, 'v2parser', R.v2_parser(c))
            if len(pending) >= 40:
                flush()
    flush()
    nvalid = 0
    for (s, ok), (c, name, judged, skipped) in status.items():
        if judged:
            rep.traces += 1
            nvalid += ok == 'ok'
            rep.case((s, ok), nontrivial=c['no'] >= 2)
            if c['no'] >= 3 and name in sim:
                rep.sample(dict(expression=s, verdict=ok, rule=c['why'], axes=c['fr'], array=c['arr'] if len(c['arr']['v']) <= 4 else '...'))
    rep.lap('replay')
    for key, (rank, what, data, count) in sorted(worst.items()):
        for _ in range(count):
            rep.violation(key, what, data)
    rep.extra['valid_expressions_compared'] = nvalid


def run(rep):
    from . import c19_v1
    tables, byfam, sim, (tables1, byfam1, sim1) = model_phase(rep)
    replay_phase(rep, tables, byfam, sim)
    c19_v1.replay_phase(rep, tables1, byfam1, sim1, random.Random(rep.seed + 1))
    rep.rule = ('cases = (expression string, verdict) pairs emitted by the ExprParse / ExprV1Parse TLA+ machines, replayed on expression_v2 (`@`, attribute '
                'assignment) and expression_v1 (eval_..., attribute assignment, `@`; namespaces without and with a fallback length); non-trivial = at least two productions')
    rep.assumptions += [
        'ExprLang.tla (Chk, Val) is the documented reading; TLC shows the v2 algorithm model (ExprParse.P) equivalent to it within the bounds',
        'variables are piecewise constant on two elements and evaluated in the interface point; functions: sqr, abs, opposite and linear generating functions g, h, G (stand-ins for gradients)',
        'integer ** negative integer (refused by the array layer as by NumPy) and values the exact model leaves undefined (division by zero, roots, capped magnitudes) are not judged',
        'ExprV1Lang.tla (Ann1, ClassOf, Val1) is the documented reading of the version 1 only language; TLC shows the model of the _Array bookkeeping (ExprV1Parse.Q: groups of '
        'linked lengths) equivalent to it within the bounds; its meaning is compared with the real namespace only (no model of _eval_ast)',
        'version 1 world: quadratic data on a two-element 2D mesh evaluated in the midpoint of the straight interface (normal (1, 0), zero derivative); arguments get values by a fixed '
        'formula of their deduced shape; substituted values are built from numbers, constant arrays and arguments (function.replace_arguments refuses arrays bound to the mesh)',
        'outside the model: stack <a, b>_i, consumed axes f:i(...), generated axes f_i(...) and J:x / d:x of version 1; derivatives of order three or more through quotients and powers, '
        'derivatives to an argument of a substituted expression (emitted as undefined, not judged); the syntaxes `_,x_i`, `n:x_i`, `dx_i:u`, `_,?u` the parser answers with '
        'SyntaxError("no longer supported"); error messages are not compared',
    ]
