"""./check <ID> [--tier quick|thorough] [--replay PATH] [--selftest]"""
import argparse
import importlib
import os
import sys
import traceback


def main():
    ap = argparse.ArgumentParser()
    ap.add_argument('pid')
    ap.add_argument('--tier', default=os.environ.get('VERIF_TIER', 'quick'), choices=['quick', 'thorough'])
    ap.add_argument('--replay', default=None)
    ap.add_argument('--selftest', action='store_true')
    ap.add_argument('--seed', type=int, default=int(os.environ.get('VERIF_SEED', '0') or 0))
    a = ap.parse_args()
    pid = a.pid.upper()
    try:
        mod = importlib.import_module('vf.props.' + pid.lower())
    except ImportError:
        traceback.print_exc()
        print('no check implemented for', pid)
        return 2
    from vf.report import Report
    try:
        if a.selftest:
            return mod.selftest()
        if a.replay and hasattr(mod, 'replay'):
            return mod.replay(a.replay)
        if a.replay:
            # generic replay: every check is deterministic in (tier, seed); the replay file name records both
            # (<tier>-<seed>-<n>.json), so the violating behaviour is reproduced by re-running the check with them
            import json
            base = os.path.basename(a.replay).split('-')
            tier, seed = (base[0], int(base[1])) if len(base) >= 3 and base[0] in ('quick', 'thorough') and base[1].isdigit() else (a.tier, a.seed)
            with open(a.replay) as f:
                rec = json.load(f)
            print('replaying {} key={} what={}'.format(a.replay, rec.get('key'), str(rec.get('what'))[:300]))
            rep = Report(pid, tier, seed, getattr(mod, 'LEVEL', 'model_checking'))
            mod.run(rep)
            return rep.finish()
        rep = Report(pid, a.tier, a.seed, getattr(mod, 'LEVEL', 'model_checking'))
        mod.run(rep)
        return rep.finish()
    except SystemExit:
        raise
    except BaseException:
        traceback.print_exc()
        print('MACHINERY-FAILURE property={}'.format(pid))
        return 2


if __name__ == '__main__':
    sys.exit(main())
