\* spec mutant (the harness replaces Mutant): an invariant must be violated
SPECIFICATION Spec
CONSTANTS
  Families <- MutantFamilies
  Mutant = "sequential"
INVARIANT ShapeSound
INVARIANT FvSound
INVARIANT ReplaceIdNoop
INVARIANT SubstLemma
INVARIANT ChainTwoStep
INVARIANT SwapTwice
INVARIANT LinLinear
INVARIANT LinIsDerivContracted
INVARIANT FactorIdentity
INVARIANT FactorIdempotent
INVARIANT RejectSound
CHECK_DEADLOCK FALSE
