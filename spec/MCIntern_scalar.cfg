SPECIFICATION Spec
CONSTANTS
  Args <- ScalarArgsSmall
  CanonOf <- ScalarCanonAll
  PyOf <- ScalarPy
  KeyMode = "exact"
  Lossy = "reject"
  WrapOf <- NoWrap
  MaxOps = 4
  MaxPickles = 1
  Label = "scalar"
INVARIANT UniqueLive
INVARIANT ExactArgs
INVARIANT SameWhileAlive
INVARIANT TableSound
CONSTRAINT EmitBehaviour
CHECK_DEADLOCK FALSE
