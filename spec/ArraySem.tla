------------------------------ MODULE ArraySem ------------------------------
(***************************************************************************)
(* Denotational semantics of the nutils array-expression IR                *)
(* (src/nutils/evaluable.py) over exact rationals on tiny shapes.          *)
(*                                                                         *)
(* This is the reference ("what an expression MEANS") against which        *)
(* simplification (C01), code generation (C02/C03), differentiation (C04), *)
(* sparse extraction (C05) and static metadata (C06) of the real code are  *)
(* judged.  It is transcribed from the documented / NumPy meaning of each  *)
(* constructor, not from the evalf methods.                                *)
(*                                                                         *)
(* Scalars are dual numbers <<v, t>> of normalised rationals <<n, d>>      *)
(* (d > 0); <<0, 0>> is "undefined" and absorbing.  The tangent t carries  *)
(* the exact directional derivative (reference for C04); it is zero for    *)
(* plain evaluation.  Magnitudes are capped (Cap) so that 32-bit TLC       *)
(* integers cannot overflow: a capped value is undefined, and cases whose  *)
(* model value is undefined are skipped by the harness, never judged.      *)
(*                                                                         *)
(* An array is [sh |-> shape, v |-> flat C-order sequence of scalars].     *)
(* A program is a sequence of nodes                                        *)
(*   [op |-> name, d |-> operand positions, p |-> integer parameters,      *)
(*    sh |-> static shape, dt |-> "b" | "i" | "f"]                         *)
(* in post order (operands precede users).                                 *)
(***************************************************************************)
EXTENDS Integers, Sequences, FiniteSets, TLC

Cap == 20000

\* ------------------------------------------------------------------ rationals
Bad == <<0, 0>>
RZero == <<0, 1>>
ROne == <<1, 1>>
IsBad(r) == r[2] = 0
IAbs(x) == IF x < 0 THEN -x ELSE x
RECURSIVE GCD(_, _)
GCD(a, b) == IF b = 0 THEN a ELSE GCD(b, a % b)
Norm(n, d) == IF d = 0 THEN Bad
              ELSE LET s == IF d < 0 THEN -1 ELSE 1
                       g == GCD(IAbs(n), IAbs(d))
                       nn == (s * n) \div g
                       dd == (s * d) \div g
                   IN IF IAbs(nn) > Cap \/ dd > Cap THEN Bad ELSE <<nn, dd>>
RInt(n) == Norm(n, 1)
RAdd(a, b) == IF IsBad(a) \/ IsBad(b) THEN Bad ELSE Norm(a[1] * b[2] + b[1] * a[2], a[2] * b[2])
RNeg(a) == IF IsBad(a) THEN Bad ELSE <<-a[1], a[2]>>
RSub(a, b) == RAdd(a, RNeg(b))
RMul(a, b) == IF IsBad(a) \/ IsBad(b) THEN Bad ELSE Norm(a[1] * b[1], a[2] * b[2])
RInv(a) == IF IsBad(a) \/ a[1] = 0 THEN Bad ELSE Norm(a[2], a[1])
RDiv(a, b) == RMul(a, RInv(b))
RLt(a, b) == a[1] * b[2] < b[1] * a[2]          \* both defined
RSgn(a) == IF a[1] > 0 THEN 1 ELSE IF a[1] < 0 THEN -1 ELSE 0
RAbs(a) == IF IsBad(a) THEN Bad ELSE <<IAbs(a[1]), a[2]>>
RFloor(a) == a[1] \div a[2]                       \* floor, a defined (TLA+ \div floors for positive divisors)
RIsInt(a) == a[2] = 1
RECURSIVE RPowNat(_, _)
RPowNat(a, k) == IF k = 0 THEN ROne ELSE RMul(a, RPowNat(a, k - 1))
HasSqrt(n) == \E s \in 0..142 : s * s = n
ISqrt(n) == CHOOSE s \in 0..142 : s * s = n
\* a^b: integer exponents exactly; exponents with denominator 2 or 4 on perfect squares / fourth powers;
\* otherwise undefined
RPowInt(a, k) == IF k >= 0 THEN (IF k > 12 THEN Bad ELSE RPowNat(a, k)) ELSE (IF -k > 12 THEN Bad ELSE RInv(RPowNat(a, -k)))
HasRSqrt(a) == a[1] >= 0 /\ HasSqrt(a[1]) /\ HasSqrt(a[2])
RSqrt(a) == <<ISqrt(a[1]), ISqrt(a[2])>>
RPow(a, b) == IF IsBad(a) \/ IsBad(b) THEN Bad
              ELSE IF b[2] = 1 THEN RPowInt(a, b[1])
              ELSE IF b[2] = 2 /\ HasRSqrt(a) THEN RPowInt(RSqrt(a), b[1])
              ELSE IF b[2] = 4 /\ HasRSqrt(a) /\ HasRSqrt(RSqrt(a)) THEN RPowInt(RSqrt(RSqrt(a)), b[1])
              ELSE IF b[2] = 8 /\ HasRSqrt(a) /\ HasRSqrt(RSqrt(a)) /\ HasRSqrt(RSqrt(RSqrt(a))) THEN RPowInt(RSqrt(RSqrt(RSqrt(a))), b[1])
              ELSE Bad

\* ------------------------------------------------------------------ dual numbers
DBad == <<Bad, Bad>>
DOf(r) == IF IsBad(r) THEN DBad ELSE <<r, RZero>>
DInt(n) == DOf(RInt(n))
DZero == <<RZero, RZero>>
DOne == <<ROne, RZero>>
DIsBad(x) == IsBad(x[1])
Mk(v, t) == IF IsBad(v) THEN DBad ELSE <<v, t>>
DAdd(x, y) == Mk(RAdd(x[1], y[1]), RAdd(x[2], y[2]))
DNeg(x) == Mk(RNeg(x[1]), RNeg(x[2]))
DSub(x, y) == DAdd(x, DNeg(y))
DMul(x, y) == Mk(RMul(x[1], y[1]), RAdd(RMul(x[1], y[2]), RMul(x[2], y[1])))
DInv(x) == Mk(RInv(x[1]), RNeg(RMul(x[2], RInv(RMul(x[1], x[1])))))
DPow(x, y) == LET v == RPow(x[1], y[1]) IN
              IF IsBad(v) THEN DBad
              ELSE IF y[2] # RZero THEN <<v, Bad>>            \* exponent varies: needs log, not modelled
              ELSE IF x[2] = RZero \/ y[1] = RZero THEN <<v, RZero>>
              ELSE <<v, RMul(RMul(y[1], RPow(x[1], RSub(y[1], ROne))), x[2])>>
DAbs(x) == IF DIsBad(x) THEN DBad
           ELSE <<RAbs(x[1]), IF x[2] = RZero THEN RZero ELSE IF x[1][1] = 0 THEN Bad
                              ELSE IF x[1][1] > 0 THEN x[2] ELSE RNeg(x[2])>>
DSign(x) == IF DIsBad(x) THEN DBad
            ELSE <<RInt(RSgn(x[1])), IF x[1][1] = 0 /\ x[2] # RZero THEN Bad ELSE RZero>>
DMin(x, y) == IF DIsBad(x) \/ DIsBad(y) THEN DBad
              ELSE IF RLt(x[1], y[1]) THEN x ELSE IF RLt(y[1], x[1]) THEN y
              ELSE <<x[1], IF x[2] = y[2] THEN x[2] ELSE Bad>>
DMax(x, y) == IF DIsBad(x) \/ DIsBad(y) THEN DBad
              ELSE IF RLt(x[1], y[1]) THEN y ELSE IF RLt(y[1], x[1]) THEN x
              ELSE <<x[1], IF x[2] = y[2] THEN x[2] ELSE Bad>>
KinkT(x, y) == IF x[2] = RZero /\ y[2] = RZero THEN RZero ELSE Bad
\* Python/NumPy floor division and modulo (sign of the result follows the divisor)
DFloorDiv(x, y) == IF DIsBad(x) \/ DIsBad(y) \/ y[1][1] = 0 THEN DBad
                   ELSE LET q == RDiv(x[1], y[1]) IN IF IsBad(q) THEN DBad ELSE <<RInt(RFloor(q)), KinkT(x, y)>>
DMod(x, y) == IF DIsBad(x) \/ DIsBad(y) \/ y[1][1] = 0 THEN DBad
              ELSE LET q == RDiv(x[1], y[1]) IN
                   IF IsBad(q) THEN DBad ELSE Mk(RSub(x[1], RMul(RInt(RFloor(q)), y[1])), KinkT(x, y))
DBool(b, x, y) == <<IF b THEN ROne ELSE RZero, IF x[1] = y[1] /\ x[2] # y[2] THEN Bad ELSE RZero>>
DEq(x, y) == IF DIsBad(x) \/ DIsBad(y) THEN DBad ELSE DBool(x[1] = y[1], x, y)
DLess(x, y) == IF DIsBad(x) \/ DIsBad(y) THEN DBad ELSE DBool(RLt(x[1], y[1]), x, y)
DGreater(x, y) == DLess(y, x)
DNot(x) == IF DIsBad(x) THEN DBad ELSE <<IF x[1] = RZero THEN ROne ELSE RZero, RZero>>
DOr(x, y) == IF DIsBad(x) \/ DIsBad(y) THEN DBad ELSE <<IF x[1] = RZero /\ y[1] = RZero THEN RZero ELSE ROne, RZero>>
DAnd(x, y) == IF DIsBad(x) \/ DIsBad(y) THEN DBad ELSE <<IF x[1] = RZero \/ y[1] = RZero THEN RZero ELSE ROne, RZero>>

\* ------------------------------------------------------------------ index arithmetic
SLast(s) == s[Len(s)]
SFront(s) == SubSeq(s, 1, Len(s) - 1)
RECURSIVE Prod(_)
Prod(sh) == IF Len(sh) = 0 THEN 1 ELSE Prod(SFront(sh)) * SLast(sh)
RECURSIVE Flat(_, _)
Flat(idx, sh) == IF Len(sh) = 0 THEN 0 ELSE Flat(SFront(idx), SFront(sh)) * SLast(sh) + SLast(idx)
RECURSIVE Unflat(_, _)
Unflat(k, sh) == IF Len(sh) = 0 THEN <<>> ELSE Append(Unflat(k \div SLast(sh), SFront(sh)), k % SLast(sh))
InShape(idx, sh) == \A i \in 1..Len(sh) : idx[i] >= 0 /\ idx[i] < sh[i]
At(a, idx) == IF InShape(idx, a.sh) THEN a.v[Flat(idx, a.sh) + 1] ELSE DBad
MkArr(sh, F(_)) == [sh |-> sh, v |-> [k \in 1..Prod(sh) |-> F(Unflat(k - 1, sh))]]
Map1(a, F(_)) == [sh |-> a.sh, v |-> [k \in 1..Len(a.v) |-> F(a.v[k])]]
Map2(a, b, F(_, _)) == [sh |-> a.sh, v |-> [k \in 1..Len(a.v) |-> F(a.v[k], b.v[k])]]
RECURSIVE FoldSeq(_, _, _, _)
FoldSeq(F(_, _), z, s, k) == IF k > Len(s) THEN z ELSE FoldSeq(F, F(z, s[k]), s, k + 1)
\* value of an integer-valued scalar used as an index (undefined -> -1, i.e. out of range)
IdxVal(x) == IF DIsBad(x) \/ x[1][2] # 1 THEN -1 ELSE x[1][1]
Pre(idx, n) == SubSeq(idx, 1, n)
Post(idx, n) == SubSeq(idx, n + 1, Len(idx))

\* ------------------------------------------------------------------ array operations
AInsertAxis(a, n) == MkArr(Append(a.sh, n), LAMBDA idx : At(a, SFront(idx)))
\* numpy.transpose: result axis i is operand axis axes[i] (axes 0-based)
ATranspose(a, axes) == MkArr([i \in 1..Len(axes) |-> a.sh[axes[i] + 1]],
                             LAMBDA idx : At(a, [j \in 1..Len(axes) |-> idx[CHOOSE i \in 1..Len(axes) : axes[i] + 1 = j]]))
AReduceLast(a, F(_, _), z) ==
    MkArr(SFront(a.sh), LAMBDA idx : FoldSeq(F, z, [m \in 1..SLast(a.sh) |-> At(a, Append(idx, m - 1))], 1))
ATake(a, ind) == LET na == Len(a.sh) IN
    MkArr(SFront(a.sh) \o ind.sh, LAMBDA idx : At(a, Append(Pre(idx, na - 1), IdxVal(At(ind, Post(idx, na - 1))))))
ATakeDiag(a) == MkArr(SFront(a.sh), LAMBDA idx : At(a, Append(idx, SLast(idx))))
ADiagonalize(a) == MkArr(Append(a.sh, SLast(a.sh)),
                         LAMBDA idx : IF idx[Len(idx)] = idx[Len(idx) - 1] THEN At(a, SFront(idx)) ELSE DZero)
\* scatter-ADD of f (shape pre ++ dofmap.sh) into pre ++ <<length>>
AInflateG(f, dm, length, Plus(_, _)) == LET np == Len(f.sh) - Len(dm.sh) IN
    IF \E k \in 1..Len(dm.v) : IdxVal(dm.v[k]) < 0 \/ IdxVal(dm.v[k]) >= length
    THEN MkArr(Append(Pre(f.sh, np), length), LAMBDA idx : DBad)
    ELSE MkArr(Append(Pre(f.sh, np), length),
               LAMBDA idx : FoldSeq(Plus, DZero,
                    [k \in 1..Len(dm.v) |-> IF IdxVal(dm.v[k]) = SLast(idx)
                                            THEN At(f, Pre(idx, np) \o Unflat(k - 1, dm.sh)) ELSE DZero], 1))
\* numeric: scatter-add; boolean: numpy.add.at on bool arrays is a logical or
AInflate(f, dm, length) == AInflateG(f, dm, length, DAdd)
AInflateBool(f, dm, length) == AInflateG(f, dm, length, DOr)
AReshape(a, sh) == [sh |-> sh, v |-> a.v]
AChoose(index, choices) == MkArr(index.sh, LAMBDA idx : At(choices, Append(idx, IdxVal(At(index, idx)))))
ADet(a) == LET n == SLast(a.sh) IN
    MkArr(SubSeq(a.sh, 1, Len(a.sh) - 2),
          LAMBDA idx : IF n = 0 THEN DOne
                       ELSE IF n = 1 THEN At(a, idx \o <<0, 0>>)
                       ELSE IF n = 2 THEN DSub(DMul(At(a, idx \o <<0, 0>>), At(a, idx \o <<1, 1>>)),
                                               DMul(At(a, idx \o <<0, 1>>), At(a, idx \o <<1, 0>>)))
                       ELSE DBad)
AInv(a) == LET n == SLast(a.sh)
               det == ADet(a)
           IN MkArr(a.sh, LAMBDA idx :
                LET pre == SubSeq(idx, 1, Len(idx) - 2)
                    i == idx[Len(idx) - 1]
                    j == idx[Len(idx)]
                    dd == At(det, pre)
                IN IF n = 1 THEN DInv(At(a, pre \o <<0, 0>>))
                   ELSE IF n = 2 THEN
                        (IF i = j THEN DMul(At(a, pre \o <<1 - i, 1 - j>>), DInv(dd))
                         ELSE DNeg(DMul(At(a, pre \o <<i, j>>), DInv(dd))))
                   ELSE DBad)
ARange(n) == [sh |-> <<n>>, v |-> [k \in 1..n |-> DInt(k - 1)]]
AFull(sh, x) == [sh |-> sh, v |-> [k \in 1..Prod(sh) |-> x]]
AScalar(x) == [sh |-> <<>>, v |-> <<x>>]
\* constants: p = <<n1, d1, n2, d2, ...>>
AConst(sh, p) == [sh |-> sh, v |-> [k \in 1..Prod(sh) |-> DOf(Norm(p[2 * k - 1], p[2 * k]))]]
ARavelIndex(ia, ib, nb) == MkArr(ia.sh \o ib.sh,
    LAMBDA idx : DAdd(DMul(At(ia, Pre(idx, Len(ia.sh))), DInt(nb)), At(ib, Post(idx, Len(ia.sh)))))
ANormDim(length, index) == Map2(length, index,
    LAMBDA n, i : IF DIsBad(n) \/ DIsBad(i) THEN DBad
                  ELSE IF IdxVal(i) < -IdxVal(n) \/ IdxVal(i) >= IdxVal(n) THEN DBad
                  ELSE IF IdxVal(i) < 0 THEN DAdd(i, n) ELSE i)
AInRange(index, n) == Map1(index, LAMBDA i : IF DIsBad(i) \/ IdxVal(i) < 0 \/ IdxVal(i) >= n THEN DBad ELSE i)
\* polynomial evaluation, nutils_poly coefficient order, 1 variable: coeffs (.., nc) highest degree first;
\* points (.., 1); result coeffs.sh[:-1] ++ points.sh[:-1]  -- see Polyval docstring
APolyval1(c, x) == LET nc == SLast(c.sh) IN
    MkArr(SFront(x.sh) \o SFront(c.sh), LAMBDA idx :
        LET xi == At(x, Append(Pre(idx, Len(x.sh) - 1), 0))
            ci == Post(idx, Len(x.sh) - 1)
        IN FoldSeq(LAMBDA acc, cf : DAdd(DMul(acc, xi), cf), DZero, [m \in 1..nc |-> At(c, Append(ci, m - 1))], 1))

IsBoolNode(n) == n.dt = "b"
\* does node k depend on an argument (i.e. can it vary with the point of differentiation)?
RECURSIVE DepArg(_, _)
DepArg(N, k) == N[k].op = "Arg" \/ \E i \in 1..Len(N[k].d) : DepArg(N, N[k].d[i])
\* x^y with an exponent that varies with an argument is defined (real-valued) in a neighbourhood only for x > 0: for
\* x <= 0 the expression is not differentiable as a function of its arguments, whichever entry carries the seed
DPowVar(x, y) == LET r == DPow(x, y) IN IF DIsBad(r) \/ x[1][1] > 0 THEN r ELSE <<r[1], Bad>>

\* ------------------------------------------------------------------ the evaluator
\* N: program, k: node position, env: argument arrays (indexed by argument id),
\* lenv: loop index values (indexed by loop id)
RECURSIVE Ev(_, _, _, _)
Ev(N, k, env, lenv) ==
  LET n == N[k]
      op == n.op
      A(i) == Ev(N, n.d[i], env, lenv)
  IN CASE op = "Arg" -> env[n.p[1]]
       [] op = "Const" -> AConst(n.sh, n.p)
       [] op = "Zeros" -> AFull(n.sh, DZero)
       [] op = "Range" -> ARange(n.p[1])
       [] op = "LoopIndex" -> AScalar(DInt(lenv[n.p[1]]))
       [] op = "InsertAxis" -> AInsertAxis(A(1), n.p[1])
       [] op = "Transpose" -> ATranspose(A(1), n.p)
       [] op = "Sum" -> IF N[n.d[1]].dt = "b" THEN AReduceLast(A(1), DOr, DZero) ELSE AReduceLast(A(1), DAdd, DZero)
       [] op = "Product" -> IF N[n.d[1]].dt = "b" THEN AReduceLast(A(1), DAnd, DOne) ELSE AReduceLast(A(1), DMul, DOne)
       [] op = "Multiply" -> IF n.dt = "b" THEN Map2(A(1), A(2), DAnd) ELSE Map2(A(1), A(2), DMul)
       [] op = "Add" -> IF n.dt = "b" THEN Map2(A(1), A(2), DOr) ELSE Map2(A(1), A(2), DAdd)
       [] op = "Power" -> IF N[n.d[2]].dt = "f" /\ DepArg(N, n.d[2]) THEN Map2(A(1), A(2), DPowVar) ELSE Map2(A(1), A(2), DPow)
       [] op = "Negative" -> Map1(A(1), DNeg)
       [] op = "Reciprocal" -> Map1(A(1), DInv)
       [] op = "Absolute" -> Map1(A(1), DAbs)
       [] op = "Sign" -> Map1(A(1), DSign)
       [] op = "FloorDivide" -> Map2(A(1), A(2), DFloorDiv)
       [] op = "Mod" -> Map2(A(1), A(2), DMod)
       [] op = "Minimum" -> Map2(A(1), A(2), DMin)
       [] op = "Maximum" -> Map2(A(1), A(2), DMax)
       [] op = "Equal" -> Map2(A(1), A(2), DEq)
       [] op = "Less" -> Map2(A(1), A(2), DLess)
       [] op = "Greater" -> Map2(A(1), A(2), DGreater)
       [] op = "LogicalNot" -> Map1(A(1), DNot)
       [] op \in {"BoolToInt", "IntToFloat", "Guard", "Identity"} -> A(1)
       [] op = "Take" -> ATake(A(1), A(2))
       [] op = "TakeDiag" -> ATakeDiag(A(1))
       [] op = "Diagonalize" -> ADiagonalize(A(1))
       [] op = "Inflate" -> IF n.dt = "b" THEN AInflateBool(A(1), A(2), n.p[1]) ELSE AInflate(A(1), A(2), n.p[1])
       [] op = "Ravel" -> AReshape(A(1), n.sh)
       [] op = "Unravel" -> AReshape(A(1), n.sh)
       [] op = "RavelIndex" -> ARavelIndex(A(1), A(2), n.p[2])
       [] op = "Choose" -> AChoose(A(1), A(2))
       [] op = "InRange" -> AInRange(A(1), n.p[1])
       [] op = "NormDim" -> ANormDim(A(1), A(2))
       [] op = "Determinant" -> ADet(A(1))
       [] op = "Inverse" -> AInv(A(1))
       [] op = "Polyval" -> APolyval1(A(1), A(2))
       [] op = "LoopSum" ->
            LET parts == [i \in 1..n.p[2] |-> Ev(N, n.d[1], env, [lenv EXCEPT ![n.p[1]] = i - 1])]
            IN [sh |-> n.sh, v |-> [e \in 1..Prod(n.sh) |-> FoldSeq(DAdd, DZero, [i \in 1..n.p[2] |-> parts[i].v[e]], 1)]]
       [] op = "LoopConcat" ->
            \* p = <<loop id, loop length, chunk size>>; chunks concatenated along the last axis
            LET parts == [i \in 1..n.p[2] |-> Ev(N, n.d[1], env, [lenv EXCEPT ![n.p[1]] = i - 1])]
                c == n.p[3]
            IN MkArr(n.sh, LAMBDA idx : At(parts[(SLast(idx) \div c) + 1], Append(SFront(idx), SLast(idx) % c)))
       [] OTHER -> Assert(FALSE, <<"ArraySem: unknown op", op>>)

\* ------------------------------------------------------------------ environments
\* argument array from integer data with tangent seed on flat position seed (0 = none)
ArgArr(sh, ints, seed) == [sh |-> sh, v |-> [k \in 1..Prod(sh) |-> <<RInt(ints[k]), IF k = seed THEN ROne ELSE RZero>>]]
\* JSON-friendly projection of an array: flat list of <<vn, vd, tn, td>>
Proj(a) == [sh |-> a.sh, v |-> [k \in 1..Len(a.v) |-> <<a.v[k][1][1], a.v[k][1][2], a.v[k][2][1], a.v[k][2][2]>>]]
=============================================================================
