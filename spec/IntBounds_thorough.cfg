SPECIFICATION Spec
CONSTANTS
  B = 3
  MaxLen = 3
  InflateNaive = FALSE
INVARIANT Sound
INVARIANT WellFormed
CHECK_DEADLOCK FALSE
