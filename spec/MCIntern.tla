---------------------------- MODULE MCIntern ----------------------------
(* configurations of Intern: sample Singleton / DataClass classes          *)
(*   __init__(self, a, b=2)  called as cls(a, 2) | cls(b=2, a=a) | cls(a)  *)
(* and nutils.types.arraydata called with arrays of several source dtypes. *)
EXTENDS Intern

ScalarArgs == {"int:1/pos", "int:1/kw", "int:1/default", "bool:True/pos", "bool:True/kw", "float:1.0/pos",
               "int:2/pos", "tuple:(1,)/pos", "tuple:(True,)/kw"}
ScalarArgsSmall == {"int:1/pos", "int:1/kw", "bool:True/pos", "float:1.0/default", "tuple:(True,)/pos", "tuple:(1,)/kw"}
ScalarCanon == [a \in ScalarArgs |->
    CASE a \in {"int:1/pos", "int:1/kw", "int:1/default"} -> "int:1"
      [] a \in {"bool:True/pos", "bool:True/kw"} -> "bool:True"
      [] a \in {"float:1.0/pos", "float:1.0/default"} -> "float:1.0"
      [] a = "int:2/pos" -> "int:2"
      [] a \in {"tuple:(1,)/pos", "tuple:(1,)/kw"} -> "tuple:(1,)"
      [] a \in {"tuple:(True,)/kw", "tuple:(True,)/pos"} -> "tuple:(True,)"]
ScalarCanonAll == [a \in ScalarArgs \cup ScalarArgsSmall |->
    CASE a \in {"int:1/pos", "int:1/kw", "int:1/default"} -> "int:1"
      [] a \in {"bool:True/pos", "bool:True/kw"} -> "bool:True"
      [] a \in {"float:1.0/pos", "float:1.0/default"} -> "float:1.0"
      [] a = "int:2/pos" -> "int:2"
      [] a \in {"tuple:(1,)/pos", "tuple:(1,)/kw"} -> "tuple:(1,)"
      [] a \in {"tuple:(True,)/kw", "tuple:(True,)/pos"} -> "tuple:(True,)"]
\* python:  1 == True == 1.0,  (1,) == (True,),  equal hashes
ScalarPy == ("int:1" :> "1") @@ ("bool:True" :> "1") @@ ("float:1.0" :> "1") @@ ("int:2" :> "2")
            @@ ("tuple:(1,)" :> "(1,)") @@ ("tuple:(True,)" :> "(1,)")

\* "u64:big" = uint64 [2^64-1, 2^63] (not representable as int64), "ld:third" = long double [1/3, 0] (not representable as
\* float64), "u64:1,0" = small uint64 values (representable)
ArrayArgs == {"i64:1,0", "i32:1,0", "list:1,0", "u8:1,0", "wrap:1,0", "bool:1,0", "f64:1,0", "f32:1,0", "i64:1,1", "u64:big", "ld:third", "u64:1,0"}
ArrayArgsSmall == {"i64:1,0", "i32:1,0", "list:1,0", "bool:1,0", "f64:1,0", "i64:1,1", "u64:big", "u64:1,0"}
ArrayCanon == [a \in ArrayArgs |->
    CASE a \in {"i64:1,0", "i32:1,0", "list:1,0", "u8:1,0", "wrap:1,0", "u64:1,0"} -> "int:1,0"
      [] a \in {"u64:big", "ld:third"} -> "REJECT"
      [] a = "bool:1,0" -> "bool:1,0"
      [] a \in {"f64:1,0", "f32:1,0"} -> "float:1,0"
      [] a = "i64:1,1" -> "int:1,1"]
\* (int, (2,), bytes) / (bool, ..) / (float, ..) are pairwise different under python ==
ArrayPy == [c \in {"int:1,0", "bool:1,0", "float:1,0", "int:1,1", "int:-1,min", "float:third"} |-> c]
\* what a silent cast makes of the lossy calls (design mutant Lossy = "wrap")
ArrayWrap == [a \in ArrayArgs |-> IF a = "u64:big" THEN "int:-1,min" ELSE IF a = "ld:third" THEN "float:third" ELSE ArrayCanon[a]]
NoWrap == [a \in ScalarArgs \cup ScalarArgsSmall |-> ScalarCanonAll[a]]
=============================================================================
