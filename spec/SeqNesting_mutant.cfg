\* spec mutant: a deliberately wrong Lookup (cfg_text replaces LookupMutant); LookupCorrect must be violated
SPECIFICATION Spec
CONSTANTS
  MaxDepth = 1
  MaxStructOps = 0
  MaxElems = 12
  TailLen = 1
  Bases = {"line3", "sq22", "tri2"}
  Wrappers = {"mask", "reorder", "derive"}
  LookupMutant = "reorder-forward"
INVARIANT LookupCorrect
CHECK_DEADLOCK FALSE
