----------------------------- MODULE SeqNesting -----------------------------
(***************************************************************************)
(* C11, design spec: the machine that generates nestings of Transforms     *)
(* constructors (one nesting per state) over the vocabulary of             *)
(* TransformSeq.tla and states the property clauses on each of them.       *)
(*   Init          a base sequence: a structured line / square / cube      *)
(*                 (optionally periodic) or an IndexTransforms with        *)
(*                 simplex / mixed / prism references                      *)
(*   SRefine, SBoundary, SInterface, SSlice                                *)
(*                 the StructuredTopology operations refined, boundary,    *)
(*                 interfaces and slicing acting on the axes               *)
(*                 (topology.py:2015-2076, 2371-2376; Axis classes         *)
(*                 transformseq.py:438-523)                                *)
(*   WMask, WReorder, WDerive, WPlain, WChainIndex, WSplit                 *)
(*                 Masked / Reordered / (Uniform)Derived children or edges *)
(*                 / Plain / Chained constructors wrapped around the       *)
(*                 current sequence                                        *)
(* Every state is emitted with the model's predictions for the S->C replay.*)
(***************************************************************************)
EXTENDS TransformSeq

CONSTANTS MaxDepth,     \* number of wrapping constructors on top of the base sequence
          MaxStructOps, \* number of topology operations applied to the structured base
          MaxElems,     \* largest sequence considered
          TailLen,      \* tails of at most this many items are looked up for the first and last element
          Bases,        \* subset of BaseNames
          Wrappers      \* subset of {"mask","reorder","derive","plain","chainindex","split"}

\* ------------------------------------------------------------------ the machine: one nesting per state
VARIABLES expr, den, depth, sops, hist, parent, opp
vars == <<expr, den, depth, sops, hist, parent, opp>>
None == MkExpr("none", <<>>, <<>>, <<>>)
BaseNames == {"line2", "line3", "line3p", "line2p", "sq22", "sq21", "sq12p", "sq22p", "cube211", "idx1", "tri2", "mixed3", "tet1", "prism1"}
Simplex(n, len) == [k \in 1..len |-> <<n>>]
BaseExpr(b) ==
    IF b = "line2" THEN MkExpr("struct", <<0>>, <<DimAx(0, 2, 0, 0)>>, <<>>)
    ELSE IF b = "line3" THEN MkExpr("struct", <<0>>, <<DimAx(0, 3, 0, 0)>>, <<>>)
    ELSE IF b = "line3p" THEN MkExpr("struct", <<0>>, <<DimAx(0, 3, 3, 1)>>, <<>>)
    ELSE IF b = "line2p" THEN MkExpr("struct", <<0>>, <<DimAx(0, 2, 2, 1)>>, <<>>)
    ELSE IF b = "sq22" THEN MkExpr("struct", <<0>>, <<DimAx(0, 2, 0, 0), DimAx(0, 2, 0, 0)>>, <<>>)
    ELSE IF b = "sq21" THEN MkExpr("struct", <<0>>, <<DimAx(0, 2, 0, 0), DimAx(0, 1, 0, 0)>>, <<>>)
    ELSE IF b = "sq12p" THEN MkExpr("struct", <<0>>, <<DimAx(0, 1, 0, 0), DimAx(0, 2, 2, 1)>>, <<>>)
    ELSE IF b = "sq22p" THEN MkExpr("struct", <<0>>, <<DimAx(0, 2, 2, 1), DimAx(0, 2, 0, 0)>>, <<>>)
    ELSE IF b = "cube211" THEN MkExpr("struct", <<0>>, <<DimAx(0, 2, 0, 0), DimAx(0, 1, 0, 0), DimAx(0, 1, 0, 0)>>, <<>>)
    ELSE IF b = "idx1" THEN MkExpr("index", <<1, 3, 2>>, Simplex(1, 3), <<>>)
    ELSE IF b = "tri2" THEN MkExpr("index", <<2, 2, 0>>, Simplex(2, 2), <<>>)
    ELSE IF b = "mixed3" THEN MkExpr("index", <<2, 3, 0>>, << <<1, 1>>, <<2>>, <<2>> >>, <<>>)
    ELSE IF b = "tet1" THEN MkExpr("index", <<3, 1, 0>>, Simplex(3, 1), <<>>)
    ELSE MkExpr("index", <<3, 1, 0>>, << <<2, 1>> >>, <<>>)                      \* prism1
Op(name, a) == [op |-> name, a |-> a]

Init == \E b \in Bases :
          /\ expr = BaseExpr(b) /\ den = Den(BaseExpr(b))
          /\ depth = 0 /\ sops = 0 /\ hist = <<Op(b, <<>>)>> /\ parent = None /\ opp = None

\* ---- StructuredTopology operations (topology.py): only directly on the structured base
StructStep(x, name, a, par, o) ==
    /\ StructLen(x) >= 1 /\ StructLen(x) <= MaxElems
    /\ expr' = x /\ den' = Den(x) /\ sops' = sops + 1 /\ hist' = Append(hist, Op(name, a))
    /\ parent' = par /\ opp' = o /\ UNCHANGED depth
\* the interfaces of a StructuredTopology are plain TransformChainsTopology objects: no structured operation follows
CanStruct == expr.k = "struct" /\ depth = 0 /\ sops < MaxStructOps /\ hist[Len(hist)].op # "interfaces"
DimPositions(x) == {k \in 1..NAxes(x) : AxIsDim(x.q[k])}
WithAxis(x, k, a) == MkExpr("struct", x.p, [x.q EXCEPT ![k] = a], <<>>)
SRefine == /\ CanStruct /\ NRefine(expr) < 2
           /\ StructStep(MkExpr("struct", <<NRefine(expr) + 1>>, [k \in 1..NAxes(expr) |-> AxRefined(expr.q[k])], <<>>),
                         "refined", <<>>, expr, None)
SBoundary == /\ CanStruct
             /\ \E k \in DimPositions(expr), side \in {0, 1} :
                  /\ expr.q[k][5] = 0                                     \* periodic axes have no boundary
                  /\ StructStep(WithAxis(expr, k, AxBoundary(expr.q[k], StructNBounds(expr), side)),
                                "boundary", <<Cardinality({j \in DimPositions(expr) : j < k}), side>>, expr, None)
SInterface == /\ CanStruct
              /\ \E k \in DimPositions(expr), side \in {0, 1} :
                   StructStep(WithAxis(expr, k, AxInterface(expr.q[k], StructNBounds(expr), side)),
                              "interfaces", <<Cardinality({j \in DimPositions(expr) : j < k}), side>>, expr,
                              WithAxis(expr, k, AxInterface(expr.q[k], StructNBounds(expr), 1 - side)))
SSlice == /\ CanStruct
          /\ \E k \in DimPositions(expr) : \E start \in 0..(AxLen(expr.q[k]) - 1) : \E stop \in (start + 1)..AxLen(expr.q[k]) :
               /\ stop - start < AxLen(expr.q[k])
               /\ StructStep(WithAxis(expr, k, AxSlice(expr.q[k], start, stop)),
                             "slice", <<Cardinality({j \in DimPositions(expr) : j < k}), start, stop>>, None, None)

\* ---- wrapping constructors of transformseq.py
PrefixFreeDen(d) == \A a \in 1..Len(d) : \A b \in 1..Len(d) : a # b => ~IsPrefix(d[a].ch, d[b].ch)
Wrap(x, name, a, par) ==
    /\ Len(Den(x)) >= 1 /\ Len(Den(x)) <= MaxElems
    /\ expr' = x /\ den' = Den(x) /\ depth' = depth + 1 /\ hist' = Append(hist, Op(name, a))
    /\ parent' = par /\ opp' = None /\ UNCHANGED sops
CanWrap(w) == w \in Wrappers /\ depth < MaxDepth
\* strictly increasing index lists: all of them for short sequences, four patterns for longer ones
RECURSIVE IncSeq(_, _)
IncSeq(S, k) == IF S = {} THEN <<>> ELSE LET m == CHOOSE x \in S : \A y \in S : x <= y IN <<m>> \o IncSeq(S \ {m}, k + 1)
MaskSets(n) == IF n <= 3 THEN {S \in SUBSET (0..(n - 1)) : S # {} /\ S # 0..(n - 1)}
               ELSE {{k \in 0..(n - 1) : k % 2 = 0}, {k \in 0..(n - 1) : k % 2 = 1}, 1..(n - 1), 0..(n - 2), {1, n - 2}} \ {{}}
WMask == /\ CanWrap("mask") /\ Len(den) >= 2
         /\ \E S \in MaskSets(Len(den)) : Wrap(MkExpr("masked", IncSeq(S, 1), <<>>, <<expr>>), "mask", IncSeq(S, 1), None)
Perms(n) == {[k \in 1..n |-> n - k], [k \in 1..n |-> k % n]} \cup (IF n >= 3 THEN {[k \in 1..n |-> IF k = 1 THEN 1 ELSE IF k = 2 THEN 0 ELSE k - 1]} ELSE {})
WReorder == /\ CanWrap("reorder") /\ Len(den) >= 2
            /\ \E pm \in Perms(Len(den)) : Wrap(MkExpr("reorder", pm, <<>>, <<expr>>), "reorder", pm, None)
WDerive == /\ CanWrap("derive")
           /\ \E which \in {0, 1} :
                /\ which = 1 => SeqFromDims(expr) >= 1
                /\ Wrap(MkExpr("derived", <<which>>, <<>>, <<expr>>), "derive", <<which>>, expr)
WPlain == /\ CanWrap("plain") /\ expr.k # "plain"
          /\ Wrap(MkExpr("plain", <<>>, <<>>, <<expr>>), "plain", <<>>, None)
WChainIndex == /\ CanWrap("chainindex") /\ SeqToDims(expr) = SeqFromDims(expr)
               /\ \E first \in {0, 1} :
                    LET n == SeqToDims(expr)
                        ix == MkExpr("index", <<n, 2, 90>>, Simplex(n, 2), <<>>)
                        x == MkExpr("chained", <<>>, <<>>, IF first = 1 THEN <<ix, expr>> ELSE <<expr, ix>>)
                    IN PrefixFreeDen(Den(x)) /\ Wrap(x, "chainindex", <<first>>, None)
WSplit == /\ CanWrap("split") /\ Len(den) >= 2
          /\ \E S \in MaskSets(Len(den)) :
               LET a == MkExpr("masked", IncSeq(S, 1), <<>>, <<expr>>)
                   b == MkExpr("masked", IncSeq((0..(Len(den) - 1)) \ S, 1), <<>>, <<expr>>)
               IN Wrap(MkExpr("chained", <<>>, <<>>, <<b, a>>), "split", IncSeq(S, 1), None)

Next == SRefine \/ SBoundary \/ SInterface \/ SSlice \/ WMask \/ WReorder \/ WDerive \/ WPlain \/ WChainIndex \/ WSplit
Spec == Init /\ [][Next]_vars

\* ------------------------------------------------------------------ property clauses
DenIsDen == den = Den(expr)
PrefixFree == PrefixFreeDen(den)
ElemDims == \A e \in 1..Len(den) : /\ WellFormedChain(den[e].ch)
                                   /\ ToDims(den[e].ch[1]) = SeqToDims(expr)
                                   /\ FromDims(den[e].ch[Len(den[e].ch)]) = SeqFromDims(expr)
                                   /\ TcSum(den[e].ref) = SeqFromDims(expr)
\* every element with the tails of at most one item, the first and the last element with all tails up to TailLen
LookupCorrect == \A e \in 1..Len(den) :
                    \A t \in TailsOf(den[e].ref, IF e \in {1, Len(den)} THEN TailLen ELSE 1) : LookupOK(expr, den[e], e, t)
FIndex == \A e \in 1..Len(den) : Lookup(expr, den[e].ch) = <<e - 1, <<>>>>
CrossOf(e) == Lookup(parent, den[e].ch)
CrossConsistent == parent # None =>
                     \A e \in 1..Len(den) :
                        LET r == CrossOf(e)
                            pd == Den(parent)
                        IN /\ r # Fail
                           /\ SameMap(pd[r[1] + 1].ch \o r[2], den[e].ch, SeqFromDims(expr))
\* period of axis k in root coordinates (0 = not periodic)
RootPeriod(x, k) == IF x.q[k][3] > 0 THEN x.q[k][3] \div TcPow2(NRefine(x)) ELSE 0
InterfaceConsistent ==
    opp # None =>
       LET od == Den(opp)
           n == NAxes(expr)
       IN /\ Len(od) = Len(den)
          /\ \A e \in 1..Len(den) :
                LET F == PhysMap(den[e].ch, n)
                    G == PhysMap(od[e].ch, n)
                IN /\ F.A = G.A /\ F.e = G.e
                   /\ \A r \in 1..n : \/ F.b[r] = G.b[r]
                                      \/ /\ RootPeriod(expr, r) > 0
                                         /\ (F.b[r] - G.b[r]) % (RootPeriod(expr, r) * TcPow2(F.e)) = 0
                   /\ den[e].ch # od[e].ch                                  \* the two sides are different elements' edges

Emit(x) == PrintT(<<"VF", ToJson(x)>>)
IsStructTopo == expr.k = "struct" /\ depth = 0
Behaviour == [expr |-> expr, den |-> den, hist |-> hist,
              cross |-> IF parent = None THEN <<>> ELSE [e \in 1..Len(den) |-> [i |-> CrossOf(e)[1], map |-> ChainMap(CrossOf(e)[2], SeqFromDims(expr))]],
              phys |-> IF IsStructTopo THEN [e \in 1..Len(den) |-> PhysMap(den[e].ch, NAxes(expr))] ELSE <<>>,
              oppden |-> IF opp = None THEN <<>> ELSE Den(opp),
              oppphys |-> IF opp = None THEN <<>> ELSE LET od == Den(opp) IN [e \in 1..Len(od) |-> PhysMap(od[e].ch, NAxes(expr))]]
EmitAll == Emit(Behaviour)
=============================================================================
