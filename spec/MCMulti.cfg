\* quick, exhaustive: every layout of <= 3 patches in a 2x2 block, 1 or 2 elements per direction
SPECIFICATION Spec
CONSTANTS
  BoxW = 2
  BoxH = 2
  MaxPatches = 3
  NSet <- N_12
  BuildSet <- Builds_quick
  Mutant = "none"
INVARIANT TypeOK
INVARIANT InvInverse
INVARIANT InvNoDead
INVARIANT InvPatchwise
INVARIANT EmitState
CHECK_DEADLOCK FALSE
