"""C11 part 5 (S->C): locate() with its memo, spec/Locate.tla.

TLC generates histories of locate calls on ONE topology object (geometry object F1 / F2 argument free,
P argument dependent; argument values; target sequences) together with, per call, whether the call must
raise, the set of elements that contain every target and the local coordinates of the target in them.
Every history is replayed on a freshly built real topology

    struct   mesh.rectilinear -> .refined -> slices: StructuredTopology._locate (affine fit, memo);
             sheared argument values take the fall-back to the generic search inside it
    subset   (removed elements) base - base.take(removed): SubsetTopology._locate over the structured base
    groups   .withsubdomain(...): the group wrappers delegate to the same structured topology object
    take     .take(all elements): TransformChainsTopology._locate, the generic (Newton) search
    embed    (1-D) the line embedded in the plane, geometry (x, 2x): least squares branch of the generic search

with the SAME geometry function objects used by all calls of the history, and `locate(...).eval([geom,
f_index, f_coords], arguments)` is compared with the model: one point per target in input order, image on
the target, element among the model's containing elements (ties: any), local coordinates exact; targets
outside every element must raise LocateError.  A LocateError for targets that all lie inside is counted,
not judged (the property allows raising).
"""

import numpy

U = 128.0
VARIANTS_1D = ['struct', 'take', 'groups', 'embed']
VARIANTS_2D = ['struct', 'take', 'groups']


def build(topo, variant):
    """the real topology of the model topology record; returns (topology, root geometry, element map real index -> model flat index)"""
    from nutils import mesh
    lev, axes, off = topo['lev'], topo['axes'], topo['off']
    nroot = [-(-(ax['a'] + ax['n']) // 2 ** lev) for ax in axes]
    base, x = mesh.rectilinear([numpy.linspace(0, n, n + 1) for n in nroot])
    for _ in range(lev):
        base = base.refined
    t = base[tuple(slice(ax['a'], ax['a'] + ax['n']) for ax in axes)]
    assert type(t).__name__ == 'StructuredTopology' and list(t.shape) == [ax['n'] for ax in axes]
    active = [e for e, removed in enumerate(off) if not removed]
    removed = [e for e, r in enumerate(off) if r]
    if variant == 'take':
        return t.take(active), x, active
    if removed:
        t = t - t.take(removed)
        assert type(t).__name__ == 'SubsetTopology'
    if variant == 'groups':
        t = t.withsubdomain(first=t[:1] if not removed else t.take([0]))
    return t, x, active


class Geometries:
    """the geometry function objects of one history: F1, F2 (constants) and P (arguments stretch, shift, shear)"""

    def __init__(self, x, nd, fixed, embed):
        from nutils import function
        self.nd = nd
        self.embed = embed
        self.objs = {}
        for name, m in fixed.items():
            self.objs[name] = self._finish(self._shear(x * numpy.array(m['s']) / 2 + numpy.array(m['o']) / U, m['k'] / 2))
        stretch = function.Argument('stretch', (nd,))
        shift = function.Argument('shift', (nd,))
        g = x * stretch + shift
        if nd == 2:
            shear = function.Argument('shear', ())
            g = numpy.stack([g[0] + shear * g[1], g[1]])
        self.objs['P'] = self._finish(g)

    def _shear(self, g, k):
        from nutils import function
        if self.nd == 1 or not k:
            return g
        return numpy.stack([g[0] + k * g[1], g[1]])

    def _finish(self, g):
        from nutils import function
        if self.embed:
            return numpy.stack([g[0], 2 * g[0]])
        return g

    def arguments(self, call):
        m = call['m']
        if call['g'] == 'P':
            args = dict(stretch=numpy.array(m['s']) / 2, shift=numpy.array(m['o']) / U)
            if self.nd == 2:
                args['shear'] = numpy.array(m['k'] / 2)
            return args
        return dict(dummy=numpy.array(0.)) if call['hasargs'] else None

    def targets(self, call):
        ts = numpy.array(call['ts'], dtype=float) / U
        if self.embed:
            ts = numpy.stack([ts[:, 0], 2 * ts[:, 0]], axis=1)
        return ts


def fixed_maps(behaviour):
    """the maps of the argument-free geometry objects, read from the model's ArgVals through the calls (defaults as in the spec)"""
    nd = len(behaviour['topo']['axes'])
    fixed = {'F1': dict(s=[2] * nd, o=[0] * nd, k=0), 'F2': dict(s=[4] * nd, o=[-64, -32][:nd], k=0)}
    for call in behaviour['hist']:
        if call['g'] in fixed and call['m'] != fixed[call['g']]:
            raise RuntimeError('the model changed the map of {}: {} (harness expects {})'.format(call['g'], call['m'], fixed[call['g']]))
    return fixed


def replay(job):
    """job = dict(beh=behaviour, variant=..., kw='tol'|'eps'); returns dict(fails=[(key, what, detail)], stats)"""
    from nutils import topology
    beh, variant = job['beh'], job['variant']
    nd = len(beh['topo']['axes'])
    topo, x, active = build(beh['topo'], variant)
    geoms = Geometries(x, nd, fixed_maps(beh), embed=variant == 'embed')
    kwargs = {job['kw']: 2.0 ** -30}
    fails = []
    stats = dict(calls=0, located=0, raised=0, raised_though_inside=0, ties=0, memo=0, generic=0)
    seen_args = {}
    for n, call in enumerate(beh['hist']):
        geom = geoms.objs[call['g']]
        args = geoms.arguments(call)
        targets = geoms.targets(call)
        stats['calls'] += 1
        stats['memo'] += call['path'].startswith('memo')
        stats['generic'] += call['path'].endswith('generic')
        ctx = dict(step=n, topo=beh['topo']['id'], variant=variant, g=call['g'], m=call['m'], path=call['path'],
                   earlier=[(c['g'], c['m']) for c in beh['hist'][:n]], targets=targets.tolist())
        history = 'after-other-arguments' if any(c['g'] == call['g'] and c['m'] != call['m'] for c in beh['hist'][:n]) else 'first-use'
        try:
            smp = topo.locate(geom, targets, arguments=args, **kwargs)
        except topology.LocateError:
            stats['raised'] += 1
            if not call['mustraise'] and not call['raised']:
                stats['raised_though_inside'] += 1
            continue
        except Exception as e:
            fails.append(('locate-history:raises-{}'.format(type(e).__name__), 'locate raised {!r}'.format(e), ctx))
            break
        if call['mustraise']:
            fails.append(('locate-history:outside-target-located', 'a target lies in no element of the topology but locate returned a sample', ctx))
            break
        stats['located'] += 1
        try:
            xs, idx, loc = smp.eval([geom, topo.f_index, topo.f_coords], arguments=args)
        except Exception as e:
            fails.append(('locate-history:sample-eval-raises-{}'.format(type(e).__name__), 'evaluating on the located sample raised {!r}'.format(e), ctx))
            break
        xs, idx, loc = numpy.asarray(xs), numpy.asarray(idx), numpy.asarray(loc)
        if len(xs) != len(targets):
            fails.append(('locate-history:wrong-number-of-points', '{} points for {} targets'.format(len(xs), len(targets)), ctx))
            break
        bad = None
        for k in range(len(targets)):
            if abs(xs[k] - targets[k]).max() > 4e-9:
                bad = ('locate-history:image-off-target:' + history,
                       'target {} of call {}: the located point maps to {}, not to the target {} (input order / tolerance)'.format(k, n, xs[k].tolist(), targets[k].tolist()))
                break
            e = active[int(idx[k])] if 0 <= int(idx[k]) < len(active) else -1
            cont = {c['e']: c['p'] for c in call['cont'][k]}
            stats['ties'] += len(cont) > 1
            if e not in cont:
                bad = ('locate-history:element-does-not-contain-target', 'target {} of call {}: f_index gives element {}, the model elements containing it are {}'.format(k, n, e, sorted(cont)))
                break
            if abs(loc[k] - numpy.array(cont[e]) / U).max() > 4e-9:
                bad = ('locate-history:local-coordinates-differ-from-model', 'target {} of call {}: f_coords {} in element {}, model {}'.format(k, n, loc[k].tolist(), e, [p / U for p in cont[e]]))
                break
        if bad:
            fails.append((bad[0], bad[1], ctx))
            break
    return dict(fails=fails, stats=stats)


def replay_chunk(jobs):
    return dict(res=[replay(job) for job in jobs])


def jobs_for(behaviours, rng_offset=0, every_other=False):
    """every behaviour on the structured route, and (every behaviour / every other one) on one of the other routes in turn"""
    jobs = []
    for n, beh in enumerate(behaviours):
        nd = len(beh['topo']['axes'])
        variants = VARIANTS_1D if nd == 1 else VARIANTS_2D
        kw = 'tol' if (n + rng_offset) % 2 == 0 else 'eps'
        jobs.append(dict(beh=beh, variant='struct', kw=kw))
        if every_other and n % 2:
            continue
        other = variants[1 + ((n + rng_offset) // (2 if every_other else 1)) % (len(variants) - 1)]
        if other == 'embed' and any(c['m']['s'][0] == 0 for c in beh['hist']):
            other = 'take'
        jobs.append(dict(beh=beh, variant=other, kw='eps' if kw == 'tol' else 'tol'))
    return jobs
