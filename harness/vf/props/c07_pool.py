"""C07 helper: process pool with a robust per-item watchdog.

* the items live in a module global that the forked workers inherit (no pickling of the programs, `gc.freeze()` before the
  fork so that the workers' garbage collector does not touch -- and thereby copy -- the parent's heap);
* the watchdog counts the CPU time of the worker (ITIMER_PROF), not wall time, so that a loaded machine does not produce
  false timeouts; the timer REPEATS every 0.2 s until the exception is actually delivered: a first signal that happens to be
  raised inside a weakref / __del__ callback is swallowed by the interpreter ("Exception ignored in ...") and would otherwise
  be lost.
"""

import gc
import multiprocessing
import os
import signal
import traceback


class Timeout(Exception):
    pass


def _alarm(signum, frame):
    raise Timeout()


class watchdog:
    """context manager: raise Timeout in the body once it has used `seconds` of CPU time"""

    def __init__(self, seconds):
        self.seconds = seconds

    def __enter__(self):
        self.old = signal.signal(signal.SIGPROF, _alarm)
        signal.setitimer(signal.ITIMER_PROF, self.seconds, 0.2)
        return self

    def __exit__(self, *exc):
        signal.setitimer(signal.ITIMER_PROF, 0)
        try:
            signal.signal(signal.SIGPROF, self.old)
        except Timeout:        # a last pending signal
            pass
        return False


def with_timeout(seconds, fn, *args, **kw):
    with watchdog(seconds):
        return fn(*args, **kw)


_FN = None
_ITEMS = None


def _work(rng):
    out = []
    for i in range(*rng):
        try:
            out.append(_FN(_ITEMS[i]))
        except Timeout:         # a late signal outside the guarded regions of the item function: run the item again
            try:
                out.append(_FN(_ITEMS[i]))
            except BaseException:
                out.append(dict(harness_error=traceback.format_exc()))
        except BaseException:
            out.append(dict(harness_error=traceback.format_exc()))
    return out


def pmap(fn, items, nproc=None, chunk=24):
    """[fn(x) for x in items] over a fork pool; an exception of fn is returned as dict(harness_error=traceback)"""
    global _FN, _ITEMS
    _FN, _ITEMS = fn, items
    nproc = nproc or min(16, os.cpu_count() or 4)
    ranges = [(a, min(a + chunk, len(items))) for a in range(0, len(items), chunk)]
    if len(items) < 32 or nproc == 1:
        return [o for r in ranges for o in _work(r)]
    gc.collect()
    gc.freeze()
    try:
        ctx = multiprocessing.get_context('fork')
        with ctx.Pool(nproc) as pool:
            parts = pool.map(_work, ranges, chunksize=1)
    finally:
        gc.unfreeze()
    return [o for part in parts for o in part]
