---------------------------- MODULE ArraySemLaws ----------------------------
(***************************************************************************)
(* Spec-internal sanity of the ArraySem reference semantics: algebraic     *)
(* laws that must hold in the model, checked by TLC over small exact       *)
(* values.  They guard the oracle of C01-C06 against transcription slips   *)
(* (a law that fails here is a defect of the MODEL, never of nutils).      *)
(* One state per law (law = k); the invariant evaluates the law of the     *)
(* state, so a violation names the law in the error trace and every law    *)
(* is evaluated (no vacuity: NLaws + G distinct states).                   *)
(***************************************************************************)
EXTENDS ArraySem

VARIABLE law

\* ---- small exact domains
Rs == {<<-1, 1>>, <<0, 1>>, <<1, 2>>, <<2, 1>>}                       \* rationals
Ts == {RZero, ROne}                                                    \* tangents
Ds == {<<v, t>> : v \in Rs, t \in Ts}                                  \* dual numbers
Zs == {<<re, im>> : re \in Ds, im \in Ds}                              \* complex scalars with tangents (64)
Zv == {<<<<re, RZero>>, <<im, RZero>>>> : re \in Rs, im \in Rs}        \* complex scalars, plain values (16)
Zt == {<<re, <<im, RZero>>>> : re \in Ds, im \in Rs}                    \* tangent on the real part only (32)
Zw == {<<<<re, RZero>>, <<im, RZero>>>> : re \in Rs \ {RZero}, im \in Rs \ {RZero}}   \* 9 plain values
ZsNZ == {z \in Zs : z[1][1] # RZero \/ z[2][1] # RZero}
\* 2-vectors and 2x2 matrices of plain complex values over {0, 1, i, 1-i, 2}
Zm == {<<DZero, DZero>>, <<DZero, DOne>>, <<DOne, DInt(-1)>>, <<DInt(2), DZero>>}
Vec2(S) == {[sh |-> <<2>>, v |-> <<a, b>>] : a \in S, b \in S}
Mat2(S) == {[sh |-> <<2, 2>>, v |-> <<a, b, c, d>>] : a \in S, b \in S, c \in S, d \in S}
MatMulCx(A, B) == MkArr(<<2, 2>>, LAMBDA idx : ZAdd(ZMul(At(A, <<idx[1], 0>>), At(B, <<0, idx[2]>>)), ZMul(At(A, <<idx[1], 1>>), At(B, <<1, idx[2]>>))))
IdCx == [sh |-> <<2, 2>>, v |-> <<ZOne, ZZero, ZZero, ZOne>>]
ZVal(z) == <<z[1][1], z[2][1]>>                                        \* value without tangents
ZPlain(z) == <<<<z[1][1], RZero>>, <<z[2][1], RZero>>>>                \* the same value with zero tangents
Ix(a, b) == [sh |-> <<2>>, v |-> <<DInt(a), DInt(b)>>]

  \* ---------------------------------------------------------------- complex scalars
\* ---------------------------------------------------------------- complex scalars
\* Real(FloatToComplex x) = x, Imag(FloatToComplex x) = 0
Law1 == \A x \in Ds : ZRe(ZOfD(x)) = x /\ ZIm(ZOfD(x)) = DZero
\* Conjugate is an involution and fixes FloatToComplex
Law2 == (\A z \in Zs : ZConj(ZConj(z)) = z) /\ (\A x \in Ds : ZConj(ZOfD(x)) = ZOfD(x))
\* z = FloatToComplex(Real z) + i FloatToComplex(Imag z)
Law3 == \A z \in Zs : ZAdd(ZOfD(ZRe(z)), ZMul(<<DZero, DOne>>, ZOfD(ZIm(z)))) = z
\* Conjugate distributes over Add and Multiply (values and tangents)
Law4 == \A z \in Zt, w \in Zs : ZConj(ZAdd(z, w)) = ZAdd(ZConj(z), ZConj(w)) /\ ZConj(ZMul(z, w)) = ZMul(ZConj(z), ZConj(w))
\* z conj(z) = |z|^2 + 0i; Absolute(z)^2 = |z|^2 where defined
Law5 == \A z \in Zs :
           /\ ZVal(ZMul(z, ZConj(z))) = <<ZNorm2(z)[1], RZero>>
           /\ (~DIsBad(ZAbs(z)) => RMul(ZAbs(z)[1], ZAbs(z)[1]) = ZNorm2(z)[1])
\* Multiply is commutative, associative on values, distributes over Add
Law6 == /\ \A z \in Zt, w \in Zs : ZMul(z, w) = ZMul(w, z)
        /\ \A z \in Zw, w \in Zw, u \in Zv :
              /\ ZMul(z, ZMul(w, u)) = ZMul(ZMul(z, w), u)
              /\ ZMul(z, ZAdd(w, u)) = ZAdd(ZMul(z, w), ZMul(z, u))
\* Reciprocal: z * (1/z) = 1 with zero tangent; 1/0 undefined
Law7 == /\ \A z \in ZsNZ : ZMul(z, ZInv(z)) = ZOne
        /\ \A t \in Ts, u \in Ts : ZIsBad(ZInv(<<<<RZero, t>>, <<RZero, u>>>>))
\* Power with integer exponent is repeated Multiply / Reciprocal; non-integer or imaginary exponents are undefined;
\* the tangent for a unit seed on the real part is the complex derivative k z^(k-1)
Law8 == \A z \in Zs :
           /\ ZPow(z, <<DInt(3), DZero>>) = ZMul(z, ZMul(z, z))
           /\ ZPow(z, <<DInt(0), DZero>>) = ZOne
           /\ ZPow(z, <<DInt(-1), DZero>>) = ZInv(z)
           /\ ZIsBad(ZPow(z, <<DZero, DOne>>))
           /\ ZIsBad(ZPow(z, <<<<<<1, 2>>, RZero>>, DZero>>))
           /\ LET s == <<<<z[1][1], ROne>>, <<z[2][1], RZero>>>>
                  d == ZPow(s, <<DInt(3), DZero>>)
                  e == ZMul(<<DInt(3), DZero>>, ZMul(ZPlain(z), ZPlain(z)))
              IN <<d[1][2], d[2][2]>> = <<e[1][1], e[2][1]>>
\* Equal on complex = equality of both parts
Law9 == \A z \in Zv, w \in Zv : (ZEq(z, w)[1] = ROne) <=> (ZVal(z) = ZVal(w))
\* ---------------------------------------------------------------- complex arrays
\* Inverse(A) A = I and Determinant(Inverse A) Determinant(A) = 1 for invertible complex 2x2; singular -> undefined
Law10 == \A A \in Mat2(Zm) :
            LET det == ADetCx(A).v[1] IN
            IF ZVal(det) = <<RZero, RZero>> THEN \A k \in 1..4 : ZIsBad(AInvCx(A).v[k])
            ELSE MatMulCx(AInvCx(A), A) = IdCx /\ ZMul(ADetCx(AInvCx(A)).v[1], det) = ZOne
\* TakeDiag(Diagonalize z) = z, Sum(Diagonalize z) = z, Sum(Inflate(z, dofmap)) = Sum z (complex)
Law11 == \A z \in Vec2(Zm) :
            /\ ATakeDiag(ADiagonalizeZ(z, ZZero)) = z
            /\ AReduceLast(ADiagonalizeZ(z, ZZero), ZAdd, ZZero) = z
            /\ \A a \in 0..2, b \in 0..2 : AReduceLast(AInflateCx(z, Ix(a, b), 3), ZAdd, ZZero) = AReduceLast(z, ZAdd, ZZero)
\* Take(Inflate(z, perm), perm) = z; Take out of range is undefined (complex fill)
Law12 == \A z \in Vec2(Zm) :
            /\ ATakeB(AInflateCx(z, Ix(1, 0), 2), Ix(1, 0), ZBad) = z
            /\ ATakeB(z, Ix(0, 2), ZBad).v[2] = ZBad
\* Real/Imag/Conjugate commute with Transpose and Sum
Law13 == \A A \in Mat2({<<DZero, DOne>>, <<DOne, DInt(-1)>>, <<DInt(2), DZero>>}) :
            /\ Map1(ATranspose(A, <<1, 0>>), ZRe) = ATranspose(Map1(A, ZRe), <<1, 0>>)
            /\ Map1(AReduceLast(A, ZAdd, ZZero), ZIm) = AReduceLast(Map1(A, ZIm), DAdd, DZero)
            /\ Map1(AReduceLast(A, ZAdd, ZZero), ZConj) = AReduceLast(Map1(A, ZConj), ZAdd, ZZero)

\* ---------------------------------------------------------------- Einsum
Is == {DInt(-1), DZero, DInt(2)}
IMat == Mat2(Is)
IMatFew == {[sh |-> <<2, 2>>, v |-> <<DZero, DInt(-1), DInt(3), DOne>>], [sh |-> <<2, 2>>, v |-> <<DOne, DInt(2), DInt(2), DOne>>],
            [sh |-> <<2, 2>>, v |-> <<DInt(2), DZero, DOne, DInt(-1)>>]}
IVec == Vec2(Is)
MatMulD(A, B) == MkArr(<<2, 2>>, LAMBDA idx : DAdd(DMul(At(A, <<idx[1], 0>>), At(B, <<0, idx[2]>>)), DMul(At(A, <<idx[1], 1>>), At(B, <<1, idx[2]>>))))
EsD(args, idx, out) == AEinsumG(args, idx, out, DAdd, DMul, DZero, DOne)
\* Einsum('ij,jk->ik') is the matrix product, 'ij,jk->ki' its transpose
Law14 == \A A \in IMat, B \in IMatFew :
            /\ EsD(<<A, B>>, <<<<0, 1>>, <<1, 2>>>>, <<0, 2>>) = MatMulD(A, B)
            /\ EsD(<<A, B>>, <<<<0, 1>>, <<1, 2>>>>, <<2, 0>>) = ATranspose(MatMulD(A, B), <<1, 0>>)
            /\ EsD(<<A, B>>, <<<<0, 1>>, <<1, 0>>>>, <<>>) = AReduceLast(ATakeDiag(MatMulD(A, B)), DAdd, DZero)
\* Einsum('ij->ji') = Transpose, 'ii->i' = TakeDiag, 'ii->' = trace, 'ij->j' = column sums
Law15 == \A A \in IMat :
            /\ EsD(<<A>>, <<<<0, 1>>>>, <<1, 0>>) = ATranspose(A, <<1, 0>>)
            /\ EsD(<<A>>, <<<<0, 0>>>>, <<0>>) = ATakeDiag(A)
            /\ EsD(<<A>>, <<<<0, 0>>>>, <<>>) = AReduceLast(ATakeDiag(A), DAdd, DZero)
            /\ EsD(<<A>>, <<<<0, 1>>>>, <<1>>) = AReduceLast(ATranspose(A, <<1, 0>>), DAdd, DZero)
\* Einsum('i,i->') = Sum(Multiply), 'i,j->ji' = transposed outer product, 'ij,j->i' = matrix-vector product, 'i,j,j->i'
Law16 == \A u \in IVec, w \in IVec :
            /\ EsD(<<u, w>>, <<<<0>>, <<0>>>>, <<>>) = AReduceLast(Map2(u, w, DMul), DAdd, DZero)
            /\ EsD(<<u, w>>, <<<<0>>, <<1>>>>, <<1, 0>>) = MkArr(<<2, 2>>, LAMBDA idx : DMul(At(u, <<idx[2]>>), At(w, <<idx[1]>>)))
            /\ EsD(<<u, w, w>>, <<<<0>>, <<1>>, <<1>>>>, <<0>>) = Map1(u, LAMBDA x : DMul(x, AReduceLast(Map2(w, w, DMul), DAdd, DZero).v[1]))
            /\ \A A \in IMatFew : EsD(<<A, w>>, <<<<0, 1>>, <<1>>>>, <<0>>) = MkArr(<<2>>, LAMBDA idx : DAdd(DMul(At(A, <<idx[1], 0>>), w.v[1]), DMul(At(A, <<idx[1], 1>>), w.v[2])))
\* ---------------------------------------------------------------- polynomials
Qs == {DInt(-1), DOf(<<1, 2>>), DInt(2)}
Vec(S, n) == {[sh |-> <<n>>, v |-> q] : q \in [1..n -> S]}
Pt(a, b) == [sh |-> <<2>>, v |-> <<a, b>>]
Pt1(a) == [sh |-> <<1>>, v |-> <<a>>]
\* closed-form coefficient count = length of the monomial enumeration; degree inverts it
Law17 == /\ \A nv \in 0..3, p \in 0..5 : PolyNC(nv, p) = Len(PolyPowers(nv, p))
         /\ \A nv \in 1..3, p \in 0..5 : PolyDeg(nv, PolyNC(nv, p)) = p
         /\ PolyDeg(2, 5) = -1 /\ PolyDeg(2, 0) = -1
         /\ PolyPowers(2, 2) = << <<0, 2>>, <<1, 1>>, <<0, 1>>, <<2, 0>>, <<1, 0>>, <<0, 0>> >>
\* one variable: monomial-sum evaluation = Horner evaluation, highest degree first
Law18 == \A c \in Vec({DInt(-1), DZero, DInt(2)}, 3), x \in Qs : APolyvalN(c, Pt1(x)) = APolyval1(c, Pt1(x))
\* Polyval(PolyMul(l, r, vars), x) = Polyval(l, x_left) Polyval(r, x_right)
Law19 == \A a \in Qs, b \in Qs :
            /\ \A l \in Vec({DInt(-1), DInt(2)}, 2), r \in Vec({DInt(-1), DInt(3)}, 3) :
                  APolyvalN(APolyMul(l, r, <<2>>), Pt1(a)).v[1] = DMul(APolyvalN(l, Pt1(a)).v[1], APolyvalN(r, Pt1(a)).v[1])
            /\ \A l \in Vec({DInt(-1), DInt(2)}, 2), r \in Vec({DOne, DInt(3)}, 2) :
                  /\ APolyvalN(APolyMul(l, r, <<0, 1>>), Pt(a, b)).v[1] = DMul(APolyvalN(l, Pt1(a)).v[1], APolyvalN(r, Pt1(b)).v[1])
                  /\ APolyvalN(APolyMul(l, r, <<1, 0>>), Pt(a, b)).v[1] = DMul(APolyvalN(l, Pt1(b)).v[1], APolyvalN(r, Pt1(a)).v[1])
            /\ \A l \in Vec({DInt(-1), DInt(2)}, 2), r \in Vec({DOne, DInt(-2)}, 3) :
                  /\ APolyvalN(APolyMul(l, r, <<2, 1>>), Pt(a, b)).v[1] = DMul(APolyvalN(l, Pt1(a)).v[1], APolyvalN(r, Pt(a, b)).v[1])
                  /\ APolyvalN(APolyMul(r, r, <<2, 2>>), Pt(a, b)).v[1] = DMul(APolyvalN(r, Pt(a, b)).v[1], APolyvalN(r, Pt(a, b)).v[1])
\* Polyval(PolyGrad(c)[v], x) = the dual-number tangent of Polyval(c, x) for a unit seed on x_v (2 variables, degree 2)
Law20 == \A c \in Vec({DInt(-1), DInt(2)}, 6), a \in Qs, b \in Qs :
            LET g == APolyGrad(c, 2)
                row(v) == [sh |-> <<3>>, v |-> [k \in 1..3 |-> At(g, <<v, k - 1>>)]]
                seed(x) == <<x[1], ROne>>
            IN /\ g.sh = <<2, 3>>
               /\ APolyvalN(row(0), Pt(a, b)).v[1][1] = APolyvalN(c, Pt(seed(a), b)).v[1][2]
               /\ APolyvalN(row(1), Pt(a, b)).v[1][1] = APolyvalN(c, Pt(a, seed(b))).v[1][2]
\* gradient of a constant is zero with one coefficient; PolyDegree(PolyNCoeffs(nv, p), nv) = p; Legendre closed forms
Law21 == /\ APolyGrad([sh |-> <<1>>, v |-> <<DInt(7)>>], 2) = [sh |-> <<2, 1>>, v |-> <<DZero, DZero>>]
         /\ \A nv \in 1..2, p \in 0..4 : APolyDegree(APolyNCoeffs(nv, AScalar(DInt(p))), nv) = AScalar(DInt(p))
         /\ \A x \in Qs : LET P == ALegendre(AScalar(x), 3) IN
               /\ P.sh = <<4>> /\ P.v[1] = DOne /\ P.v[2] = x
               /\ P.v[3] = DMul(DOf(<<1, 2>>), DSub(DMul(DInt(3), DMul(x, x)), DOne))
               /\ P.v[4] = DMul(DOf(<<1, 2>>), DSub(DMul(DInt(5), DMul(x, DMul(x, x))), DMul(DInt(3), x)))
\* ---------------------------------------------------------------- search / integer operations
Js == {DInt(0), DInt(1), DInt(3)}
Vec3 == Vec(Js, 3)
\* ArgSort is a permutation that sorts (Take(a, ArgSort a) non-decreasing) and is stable
Law22 == \A a \in Vec3 :
            LET s == AArgSort(a)
                sa == ATake(a, s)
            IN /\ AIsPerm(s) /\ ASorted(sa)
               /\ \A k \in 1..2 : sa.v[k] = sa.v[k + 1] => IdxVal(s.v[k]) < IdxVal(s.v[k + 1])
\* SearchSorted: left = number of elements < v, right = number of elements <= v, both insertion points keep the order;
\* a sorter argument is the same as sorting first; an unsorted array is undefined
Law23 == \A a \in Vec3, x \in {DInt(-1), DInt(1), DInt(2), DInt(3)} :
            LET s == AArgSort(a)
                sa == ATake(a, s)
                l == IdxVal(ASearchSorted(AScalar(x), sa, 0).v[1])
                r == IdxVal(ASearchSorted(AScalar(x), sa, 1).v[1])
            IN /\ 0 <= l /\ l <= r /\ r <= 3
               /\ \A k \in 1..3 : (k <= l => RLt(sa.v[k][1], x[1])) /\ (k > r => RLt(x[1], sa.v[k][1])) /\ ((l < k /\ k <= r) => sa.v[k][1] = x[1])
               /\ (~ASorted(a) => DIsBad(ASearchSorted(AScalar(x), a, 0).v[1]))
\* unique(): with s = ArgSort(a), m = UniqueMask(a[s]), u = a[s][Find(m)], inv = UniqueInverse(m, s): u strictly increasing and u[inv] = a
Law24 == \A a \in Vec3 :
            LET s == AArgSort(a)
                sa == ATake(a, s)
                m == AUniqueMask(sa)
                u == ATake(sa, AFind(m))
                inv == AUniqueInverse(m, s)
            IN /\ ATake(u, inv) = a
               /\ \A k \in 1..(Len(u.v) - 1) : RLt(u.v[k][1], u.v[k + 1][1])
               /\ AFind(m).sh = <<Cardinality({a.v[k] : k \in 1..3})>>
\* _SizesToOffsets = cumulative sums starting at 0; CompressIndices: indices[c[i]:c[i+1]] == i
Law25 == /\ \A z \in Vec3 : LET o == ASizesToOffsets(z) IN
               o.sh = <<4>> /\ o.v[1] = DZero /\ \A k \in 1..3 : DSub(o.v[k + 1], o.v[k]) = z.v[k]
         /\ \A a \in Vec3 :
               LET c == ACompressIndices(a, 4) IN
               IF ~ASorted(a) THEN \A k \in 1..5 : DIsBad(c.v[k])
               ELSE /\ c.sh = <<5>> /\ IdxVal(c.v[1]) = 0 /\ IdxVal(c.v[5]) = 3
                    /\ \A i \in 0..3 : \A k \in (IdxVal(c.v[i + 1]) + 1)..IdxVal(c.v[i + 2]) : IdxVal(a.v[k]) = i
\* loop dependent chunk sizes: concatenating Range(i) for i = 0, 1, 2 gives [0, 0, 1]; Take(x, Range(sizes[i])) chunks; the
\* scattered sum over the loop of Inflate(Range(n_i), Range(n_i), 3) with n = (2, 0, 1)
LNode(op, d, p, sh, dt) == [op |-> op, d |-> d, p |-> p, sh |-> sh, dt |-> dt]
Law26 == LET P1 == << LNode("LoopIndex", <<>>, <<1, 3>>, <<>>, "i"), LNode("RangeN", <<1>>, <<>>, <<-1>>, "i"),
                      LNode("LoopConcat", <<2>>, <<1, 3, 0>>, <<3>>, "i") >>
             P2 == << LNode("Const", <<>>, <<2, 1, 0, 1, 1, 1>>, <<3>>, "i"), LNode("LoopIndex", <<>>, <<2, 3>>, <<>>, "i"),
                      LNode("Take", <<1, 2>>, <<>>, <<>>, "i"), LNode("RangeN", <<3>>, <<>>, <<-3>>, "i"),
                      LNode("Inflate", <<4, 4>>, <<3>>, <<3>>, "i"), LNode("LoopSum", <<5>>, <<2, 3>>, <<3>>, "i"),
                      LNode("Const", <<>>, <<5, 1, 7, 1>>, <<2>>, "f"), LNode("InsertAxisN", <<7, 3>>, <<>>, <<2, -3>>, "f"),
                      LNode("LoopConcat", <<8>>, <<2, 3, 0>>, <<2, 3>>, "f") >>
         IN /\ Ev(P1, 3, <<>>, <<0, 0>>) = [sh |-> <<3>>, v |-> <<DInt(0), DInt(0), DInt(1)>>]
            /\ Ev(P2, 6, <<>>, <<0, 0>>) = [sh |-> <<3>>, v |-> <<DInt(0), DInt(1), DInt(0)>>]
            /\ Ev(P2, 9, <<>>, <<0, 0>>) = [sh |-> <<2, 3>>, v |-> <<DInt(5), DInt(5), DInt(5), DInt(7), DInt(7), DInt(7)>>]

\* Monomial(values, (x,), ((i,),)) = values * Take(x, i); with the factor twice = values * Take(x, i)^2; scalar factor scales
Law27 == LET P(d, p) == << LNode("Const", <<>>, <<2, 1, -1, 1, 1, 2>>, <<3>>, "f"), LNode("Const", <<>>, <<3, 1, 5, 1>>, <<2>>, "f"),
                          LNode("Const", <<>>, <<1, 1, 0, 1, 1, 1>>, <<3>>, "i"), LNode("Const", <<>>, <<-2, 1>>, <<>>, "f"),
                          LNode("Monomial", d, p, <<3>>, "f") >>
             V(d, p) == Ev(P(d, p), 5, <<>>, <<0, 0, 0>>).v
             Q(a, b) == DOf(<<a, b>>)
         IN /\ V(<<1, 2, 3>>, <<1>>) = <<Q(10, 1), Q(-3, 1), Q(5, 2)>>
            /\ V(<<1, 2, 3, 2, 3>>, <<2, 1>>) = <<Q(50, 1), Q(-9, 1), Q(25, 2)>>
            /\ V(<<1, 4>>, <<1>>) = <<Q(-4, 1), Q(2, 1), Q(-1, 1)>>
            /\ V(<<1, 4, 2, 3>>, <<1, 1>>) = <<Q(-20, 1), Q(6, 1), Q(-5, 1)>>

LawNames == <<
  "Real(FloatToComplex x) = x, Imag(FloatToComplex x) = 0",
  "Conjugate is an involution and fixes FloatToComplex",
  "z = FloatToComplex(Real z) + i FloatToComplex(Imag z)",
  "Conjugate distributes over Add and Multiply (values and tangents)",
  "z conj(z) = |z|^2 + 0i; Absolute(z)^2 = |z|^2 where defined",
  "Multiply is commutative, associative on values, distributes over Add",
  "Reciprocal: z * (1/z) = 1 (value), tangent of the product is 0; 1/0 undefined",
  "Power with integer exponent is repeated Multiply / Reciprocal; tangent = k z^(k-1) z'",
  "Equal on complex = equality of both parts",
  "Inverse(A) A = I and Determinant(Inverse A) Determinant(A) = 1 for invertible complex 2x2",
  "TakeDiag(Diagonalize z) = z, Sum(Diagonalize z) = z, Sum(Inflate(z, dofmap)) = Sum z (complex)",
  "Take(Inflate(z, perm), perm) = z; Take out of range is undefined (complex fill)",
  "Real/Imag/Conjugate commute with Transpose and Sum",
  "Einsum: matrix product, transposed output, trace of a product",
  "Einsum: one operand (transpose, diagonal, trace, column sums)",
  "Einsum: inner / outer / matrix-vector / three operands",
  "PolyNC = Len(PolyPowers); PolyDeg inverts; monomial order of 2 variables degree 2",
  "Polyval in one variable = Horner",
  "Polyval(PolyMul) = product of Polyvals (Both, Left/Right, mixed)",
  "Polyval(PolyGrad) = dual tangent of Polyval",
  "PolyGrad of a constant; PolyDegree(PolyNCoeffs); Legendre closed forms",
  "ArgSort sorts, is a permutation, is stable",
  "SearchSorted left/right insertion points",
  "unique(): UniqueMask/Find/UniqueInverse reconstruct the array",
  "_SizesToOffsets cumulative sums; CompressIndices row pointer property",
  "loop dependent chunk sizes in LoopConcat / LoopSum of Inflate",
  "Monomial = values times the gathered factors"
>>
Holds(k) == CASE k = 1 -> Law1
           [] k = 2 -> Law2
           [] k = 3 -> Law3
           [] k = 4 -> Law4
           [] k = 5 -> Law5
           [] k = 6 -> Law6
           [] k = 7 -> Law7
           [] k = 8 -> Law8
           [] k = 9 -> Law9
           [] k = 10 -> Law10
           [] k = 11 -> Law11
           [] k = 12 -> Law12
           [] k = 13 -> Law13
           [] k = 14 -> Law14
           [] k = 15 -> Law15
           [] k = 16 -> Law16
           [] k = 17 -> Law17
           [] k = 18 -> Law18
           [] k = 19 -> Law19
           [] k = 20 -> Law20
           [] k = 21 -> Law21
           [] k = 22 -> Law22
           [] k = 23 -> Law23
           [] k = 24 -> Law24
           [] k = 25 -> Law25
           [] k = 26 -> Law26
           [] k = 27 -> Law27

NLaws == Len(LawNames)
\* TLC evaluates invariants of initial states on one thread; to use all workers the laws are the SUCCESSORS of G group
\* states (law = -g): worker threads expand the groups in parallel and evaluate the law of every successor they generate
G == 9
Init == law \in {-g : g \in 1..G}
Next == law < 0 /\ law' \in {k \in 1..NLaws : k % G = (-law) % G}
Spec == Init /\ [][Next]_law
LawHolds == law > 0 => Holds(law)
=============================================================================
