SPECIFICATION Spec
CONSTANTS
  MaxLeaves = 2
  MaxOps = 1
  MaxStack = 2
  VarSet <- VarsD
  NumSet <- NoStrings
  FuncSet <- FuncsD
  Toks <- ToksD
  GToks <- ToksD
  IntExps <- NoStrings
  Wraps <- NoStrings
  Muts <- NoStrings
  Cors <- NoStrings
  Styles <- NoStrings
  EmitMin = 0
  Bug = ""
INVARIANT VerdictAgree
INVARIANT FreeAgree
INVARIANT MeaningAgree
INVARIANT RenderBalanced
INVARIANT Unbalanced
CONSTRAINT EmitComplete
CONSTRAINT EmitTables
CHECK_DEADLOCK FALSE
