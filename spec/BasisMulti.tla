----------------------------- MODULE BasisMulti -----------------------------
(***************************************************************************)
(* C12 -- MultipatchTopology.basis_spline / basis_std: one tensor product  *)
(* spline per patch (module BasisSpline), the functions on coinciding      *)
(* patch sides identified when patchcontinuous (util.merge_index_map =     *)
(* GlueOp of module Basis).                                                *)
(*                                                                         *)
(* Patches are unit cells of an integer grid (1-D or 2-D), every patch     *)
(* has n elements per direction; the patch vertices are the grid points.   *)
(* Two patches are glued along a side iff they have the same two vertices  *)
(* there (in 1-D: the same vertex): patches that touch in a corner only    *)
(* keep their own corner functions.  AddPatch grows the layout so that TLC *)
(* enumerates rows, L-shapes, blocks and corner-touching layouts.          *)
(***************************************************************************)
EXTENDS BasisSpline

CONSTANTS BoxW, BoxH,      \* patches are cells <<X, Y>> with 0 <= X < BoxW, 0 <= Y < BoxH (BoxH = 0: one-dimensional, cells <<X>>)
          MaxPatches,
          NSet,            \* elements per patch and direction
          BuildSet         \* <<degree, continuity argument, patchcontinuous>>

VARIABLES patches, n, st, b, hist
vars == <<patches, n, st, b, hist>>

Nil == [ne |-> 0, nd |-> 0, ed |-> <<>>, su |-> <<>>, mid |-> <<>>, ifc |-> {}, un |-> {}]
MD == IF BoxH = 0 THEN 1 ELSE 2
AllCells == IF MD = 1 THEN {<<x>> : x \in 0..BoxW-1} ELSE {<<x, y>> : x \in 0..BoxW-1, y \in 0..BoxH-1}
MLess(v, w) == \E i \in 1..Len(v) : v[i] < w[i] /\ \A j \in 1..i-1 : v[j] = w[j]

Init == patches = <<>> /\ n \in NSet /\ st = "layout" /\ b = Nil /\ hist = <<>>

AddPatch ==
    /\ st = "layout" /\ Len(patches) < MaxPatches
    /\ \E c \in AllCells :
         /\ IF patches = <<>> THEN TRUE ELSE MLess(patches[Len(patches)], c)
         /\ patches' = Append(patches, c)
    /\ UNCHANGED <<n, st, b, hist>>

(* the structure of one patch, placed at cell c: element midpoints and interface keys in doubled element units *)
PatchBasis(c, p, k) ==
    LET s == Spline1D([p |-> p, n |-> n, per |-> FALSE, form |-> "none", ms |-> <<>>, k |-> k])
        t == IF MD = 1 THEN s ELSE TensorOp(s, s)
        shift(key) == [d \in 1..MD |-> key[d] + 2*n*c[d]] IN
    [ne |-> t.ne, nd |-> t.nd, ed |-> t.ed, su |-> t.su,
     mid |-> [e \in 1..t.ne |-> shift(t.mid[e])],
     ifc |-> {[key |-> shift(i.key), a |-> i.a, b |-> i.b, c |-> i.c] : i \in t.ifc},
     nd1 |-> s.nd]

(* sides of the patch at position k of the layout: <<vertices (grid points), dofs along the side, elements along the side, dim, end>> *)
Sides(k, pb, dofoff, eloff) ==
    LET c == patches[k]
        nd1 == pb.nd1 IN
    IF MD = 1 THEN {[v |-> <<c[1]>>, dofs |-> <<dofoff>>, els |-> <<eloff>>, d |-> 1, s |-> 0],
                    [v |-> <<c[1]+1>>, dofs |-> <<dofoff + nd1 - 1>>, els |-> <<eloff + n - 1>>, d |-> 1, s |-> 1]}
    ELSE {[v |-> <<<<c[1], c[2]>>, <<c[1], c[2]+1>>>>, dofs |-> [j \in 1..nd1 |-> dofoff + (j-1)], els |-> [j \in 1..n |-> eloff + (j-1)], d |-> 1, s |-> 0],
          [v |-> <<<<c[1]+1, c[2]>>, <<c[1]+1, c[2]+1>>>>, dofs |-> [j \in 1..nd1 |-> dofoff + (nd1-1)*nd1 + (j-1)], els |-> [j \in 1..n |-> eloff + (n-1)*n + (j-1)], d |-> 1, s |-> 1],
          [v |-> <<<<c[1], c[2]>>, <<c[1]+1, c[2]>>>>, dofs |-> [i \in 1..nd1 |-> dofoff + (i-1)*nd1], els |-> [i \in 1..n |-> eloff + (i-1)*n], d |-> 2, s |-> 0],
          [v |-> <<<<c[1], c[2]+1>>, <<c[1]+1, c[2]+1>>>>, dofs |-> [i \in 1..nd1 |-> dofoff + (i-1)*nd1 + nd1-1], els |-> [i \in 1..n |-> eloff + (i-1)*n + n-1], d |-> 2, s |-> 1]}

Multi(p, k, pc) ==
    LET np == Len(patches)
        pbs == TLCEval([i \in 1..np |-> PatchBasis(patches[i], p, k)])
        ne1 == pbs[1].ne
        nd1 == pbs[1].nd
        ne == np * ne1
        sides == UNION {Sides(i, pbs[i], (i-1)*nd1, (i-1)*ne1) : i \in 1..np}
        shared == {q \in sides \X sides : q[1].v = q[2].v /\ q[1].dofs[1] < q[2].dofs[1]}
        glue == IF pc THEN UNION {{{q[1].dofs[j], q[2].dofs[j]} : j \in 1..Len(q[1].dofs)} : q \in shared} ELSE {}
        raw == [ne |-> ne, nd |-> np*nd1,
                ed |-> [e \in 1..ne |-> LET i == (e-1) \div ne1 + 1 IN [j \in 1..Len(pbs[i].ed[((e-1) % ne1) + 1]) |-> pbs[i].ed[((e-1) % ne1) + 1][j] + (i-1)*nd1]],
                su |-> <<>>]
        g == GlueOp(raw, glue)
        \* the interface between the elements on both sides of a shared patch side: midpoint of the element facet
        fkey(q, j) == LET c == patches[(q[1].els[1] \div ne1) + 1] IN
                      IF MD = 1 THEN <<2*n*q[1].v[1]>>
                      ELSE IF q[1].d = 1 THEN <<2*n*q[1].v[1][1], 2*n*q[1].v[1][2] + 2*j - 1>>
                      ELSE <<2*n*q[1].v[1][1] + 2*j - 1, 2*n*q[1].v[1][2]>>
    IN [ne |-> ne, nd |-> g.nd, ed |-> g.ed, su |-> g.su,
        mid |-> [e \in 1..ne |-> pbs[(e-1) \div ne1 + 1].mid[((e-1) % ne1) + 1]],
        ifc |-> UNION {{[key |-> i.key, a |-> i.a + (k2-1)*ne1, b |-> i.b + (k2-1)*ne1, c |-> i.c] : i \in pbs[k2].ifc} : k2 \in 1..np}
                \cup UNION {{[key |-> fkey(q, j), a |-> q[1].els[j], b |-> q[2].els[j], c |-> IF pc THEN 0 ELSE -1] : j \in 1..Len(q[1].els)} : q \in shared},
        un |-> 0..ne-1]

Build ==
    /\ st = "layout" /\ patches # <<>>
    /\ \E bp \in BuildSet :
         /\ bp[1] >= 1 \/ ~bp[3]            \* a degree 0 basis has no functions to share
         /\ SplValid([p |-> bp[1], n |-> n, per |-> FALSE, form |-> "none", ms |-> <<>>, k |-> bp[2]])
         /\ b' = Multi(bp[1], bp[2], bp[3])
         /\ hist' = <<[op |-> "multipatch", p |-> bp[1], k |-> bp[2], pc |-> bp[3], n |-> n, patches |-> patches]>>
    /\ st' = "built" /\ UNCHANGED <<patches, n>>

Next == AddPatch \/ Build
Spec == Init /\ [][Next]_vars

---------------------------------------------------------------------------
TypeOK == st \in {"layout", "built"} /\ BWellFormed(b)
InvInverse == BInverseMaps(b)
InvNoDead == BNoDeadDof(b)
(* gluing never creates functions, and without patch continuity every function lives on one patch *)
InvPatchwise == (st = "built" /\ ~hist[1].pc) =>
    \A d \in 1..b.nd : \A e, f \in b.su[d] : e \div (b.ne \div Len(patches)) = f \div (b.ne \div Len(patches))
=============================================================================
