"""C20, unit strings: S->C replay of UnitMachine outcomes on nutils.SI / nutils.unit and
the table exports (T) that TLC checks against the model (unit table, dispatch table)."""

import fractions
import operator
import warnings

import numpy

from .c20_num import py, frac, powers_of, real_powers, si, resolve, unit_of, TRANS

UNTRANS = {v: k for k, v in TRANS.items()}


def tla_chars(s):
    return [UNTRANS.get(c, c) for c in s]


def sci_value(v):
    'model value {n, d, e, big} -> Fraction'
    n = int(''.join(v['big'])) * v['n'] if v['big'] else v['n']
    return fractions.Fraction(n, v['d']) * fractions.Fraction(10) ** v['e']


def close(got, want, rtol=1e-12):
    want = float(want)
    return abs(float(got) - want) <= rtol * abs(want)


UPY_TABLE = dict(m=1, s=1, g=1e-3, A=1, K=1, N='kg*m/s2', Pa='N/m2', J='N*m', W='J/s', Hz='/s', min='60s', h='60min', L='dm3', t='1000kg', **{'in': '25.4mm'})
UPY_BASE = {'L': 'm', 'T': 's', 'M': 'g', 'I': 'A', 'θ': 'K'}


class UnitReplayer:

    def __init__(self, rep):
        self.rep = rep
        self.SI = si()
        with warnings.catch_warnings():
            warnings.simplefilter('ignore')
            from nutils import unit
        self.U = unit.create(**UPY_TABLE)
        self.n = 0
        self.nupy = 0
        self.parsed = {}

    def bad(self, e, where, what, detail):
        self.rep.violation('{}:{}'.format(where, what), '{} {!r}: {}'.format(what, py(e['s']), detail), dict(case=e, detail=detail))

    def step(self, e):
        self.n += 1
        getattr(self, 'do_' + e['kind'])(e)

    # -- SI.parse ------------------------------------------------------------
    def do_parse(self, e):
        SI = self.SI
        s = py(e['s'])
        try:
            q = SI.parse(s)
            exc = None
        except Exception as ex:
            q, exc = None, ex
        if e['err']:
            if exc is None:
                self.bad(e, 'parse', 'invalid-accepted', 'invalid unit string parsed to {!r}'.format(q))
        elif exc is not None:
            self.bad(e, 'parse', 'raised-' + type(exc).__name__, 'valid unit string refused: {!r}'.format(exc))
        else:
            want = powers_of(e['pw'])
            val = sci_value(e['val'])
            if not want:
                if isinstance(q, SI.Quantity) or not close(q, val):
                    self.bad(e, 'parse', 'wrong-value', 'expected the number {}, got {!r}'.format(float(val), q))
                else:
                    self.check_call_plain(e, s, q)
            elif not isinstance(q, SI.Quantity) or real_powers(type(q)) != want:
                self.bad(e, 'parse', 'wrong-dimension', 'expected powers {}, got {!r}'.format(want, q))
            elif type(q).__name__ != '[' + py(e['name']) + ']':
                self.bad(e, 'parse', 'wrong-name', 'expected class [{}], got {}'.format(py(e['name']), type(q).__name__))
            elif not close(q.unwrap(), val):
                self.bad(e, 'parse', 'wrong-value', 'expected {} in reference units, got {!r}'.format(float(val), q.unwrap()))
            else:
                self.parsed[s] = q
                self.check_call(e, s, q)
        self.do_unitpy(e, s)

    def check_call(self, e, s, q):
        'Dimension.__call__: the class accepts the string iff it has that dimension'
        SI = self.SI
        for cls in (type(q), SI.Length, SI.Time, SI.Velocity):
            try:
                r = cls(s)
                exc = None
            except Exception as ex:
                r, exc = None, ex
            if cls is type(q):
                if exc is not None or type(r) is not cls or r.unwrap() != q.unwrap():
                    self.bad(e, 'call', 'own-class-refused', '{}({!r}) gave {!r} / {!r}'.format(cls.__name__, s, r, exc))
            elif exc is None:
                self.bad(e, 'call', 'not-rejected', '{}({!r}) accepted a quantity of class {}'.format(cls.__name__, s, type(q).__name__))
            elif not isinstance(exc, SI.DimensionError):
                self.bad(e, 'call', 'rejected-with-' + type(exc).__name__, '{}({!r}) raised {!r}'.format(cls.__name__, s, exc))

    def check_call_plain(self, e, s, q):
        'a dimensionless string: accepted by Dimensionless (as a number), refused by every dimensional class'
        SI = self.SI
        try:
            r = SI.Dimensionless(s)
        except Exception as ex:
            self.bad(e, 'call', 'own-class-refused', 'Dimensionless({!r}) raised {!r}'.format(s, ex))
        else:
            if isinstance(r, SI.Quantity) or r != q:
                self.bad(e, 'call', 'own-class-refused', 'Dimensionless({!r}) gave {!r}'.format(s, r))
        for cls in (SI.Length, SI.Velocity):
            try:
                r = cls(s)
            except SI.DimensionError:
                pass
            except Exception as ex:
                self.bad(e, 'call', 'rejected-with-' + type(ex).__name__, '{}({!r}) raised {!r}'.format(cls.__name__, s, ex))
            else:
                self.bad(e, 'call', 'not-rejected', '{}({!r}) accepted the dimensionless {!r}'.format(cls.__name__, s, r))

    # -- nutils.unit ------------------------------------------------------------
    def do_unitpy(self, e, s):
        if '_' in s or e['uerr'] == 'nomodel':
            return      # int('3_2') == 32 in Python: outside the model
        self.nupy += 1
        U = self.U
        try:
            q = U._parse(s)
            exc = None
        except Exception as ex:
            q, exc = None, ex
        if e['uerr']:
            if exc is None:
                self.bad(e, 'unitpy', 'invalid-accepted', 'nutils.unit parsed an invalid string to {}'.format(q))
            return
        if exc is not None:
            self.bad(e, 'unitpy', 'raised-' + type(exc).__name__, 'nutils.unit refused a valid string: {!r}'.format(exc))
            return
        want = {UPY_BASE[b]: int(p) for b, p in powers_of(e['upw']).items()}
        val = sci_value(e['uval'])
        if q.powers != want:
            self.bad(e, 'unitpy', 'wrong-dimension', 'expected powers {}, got {}'.format(want, q.powers))
            return
        if not close(q.value, val):
            self.bad(e, 'unitpy', 'wrong-value', 'expected {}, got {}'.format(float(val), q.value))
            return
        # bound type: value in base units, dimension check, dump/load round trip with the same unit
        unitpart = s.lstrip('+-1234567890.')
        if not unitpart or s[:1] in '+-':
            return
        try:
            v = U(s)
            B = U[unitpart]
            text = B.__stringly_dumps__(float(v))
            back = B(text)
        except Exception as ex:
            self.bad(e, 'unitpy', 'roundtrip-raised-' + type(ex).__name__, 'load/dump/load raised {!r}'.format(ex))
            return
        if not close(v, val) or not close(back, val, 1e-11) or not text.endswith(unitpart):
            self.bad(e, 'unitpy', 'roundtrip', 'loaded {!r}, dumped {!r}, reloaded {!r}'.format(float(v), text, float(back)))
        other = 'K' if want != {'K': 1} else 'm'
        try:
            U[other](s)
        except ValueError:
            pass
        except Exception as ex:
            self.bad(e, 'unitpy', 'rejected-with-' + type(ex).__name__, 'bound type of another dimension raised {!r}'.format(ex))
        else:
            self.bad(e, 'unitpy', 'not-rejected', 'unit type {!r} accepted {!r}'.format(other, s))

    # -- Quantity.__format__ ------------------------------------------------------------
    def do_format(self, e):
        SI = self.SI
        s = py(e['s'])
        spec = py(e['spec'])
        q = self.parsed.get(s)
        if q is None:
            try:
                q = SI.parse(s)
            except Exception:
                return    # reported by the parse case
            if not isinstance(q, SI.Quantity):
                return
        try:
            text = format(q, spec)
            exc = None
        except Exception as ex:
            text, exc = None, ex
        if e['err']:
            cls = SI.DimensionError if e['err'] == 'DimensionError' else ValueError
            if exc is None:
                self.bad(e, 'format', 'not-rejected', 'format({!r}, {!r}) gave {!r}, expected {}'.format(s, spec, text, e['err']))
            elif not isinstance(exc, cls):
                self.bad(e, 'format', 'rejected-with-' + type(exc).__name__, 'format({!r}, {!r}) raised {!r}, expected {}'.format(s, spec, exc, e['err']))
            # the same refusal for  quantity / 'unit string'
            unit = spec.lstrip('0123456789.,')
            try:
                r = q / unit
            except cls:
                pass
            except Exception as ex:
                self.bad(e, 'format', 'strdiv-rejected-with-' + type(ex).__name__, '{!r} / {!r} raised {!r}, expected {}'.format(s, unit, ex, e['err']))
            else:
                self.bad(e, 'format', 'strdiv-not-rejected', '{!r} / {!r} gave {!r}, expected {}'.format(s, unit, r, e['err']))
            return
        if exc is not None:
            self.bad(e, 'format', 'raised-' + type(exc).__name__, 'format({!r}, {!r}) raised {!r}'.format(s, spec, exc))
            return
        want = py(e['text'])
        if text != want:
            self.bad(e, 'format', 'roundtrip' if e['ok'] else 'wrong-text', 'format({!r}, {!r}) gave {!r}, expected {!r}'.format(s, spec, text, want))
            return
        # q / 'unit' is the number in the text
        unit = spec.lstrip('0123456789.,')
        try:
            r = q / unit
        except Exception as ex:
            self.bad(e, 'format', 'strdiv-raised-' + type(ex).__name__, '{!r} / {!r} raised {!r}'.format(s, unit, ex))
            return
        num = want[:len(want) - len(unit)]
        prec = len(num.partition('.')[2])
        if isinstance(r, SI.Quantity) or abs(float(r) - float(num)) > .5000001 * 10 ** -prec:
            self.bad(e, 'format', 'strdiv-wrong-value', '{!r} / {!r} = {!r}, text {!r}'.format(s, unit, r, want))

    # -- Units.__setattr__ ------------------------------------------------------------
    def do_setattr(self, e):
        SI = self.SI
        name = py(e['s'])
        U = SI.Units(SI.units)
        before = dict(U)
        try:
            setattr(U, name, SI.units.m)
            exc = None
        except Exception as ex:
            exc = ex
        if not e['ok']:
            if exc is None:
                self.bad(e, 'setattr', 'collision-accepted', 'defining unit {!r} was accepted although the name or a prefixed form exists'.format(name))
            elif not isinstance(exc, ValueError):
                self.bad(e, 'setattr', 'rejected-with-' + type(exc).__name__, repr(exc))
            elif dict(U) != before:
                self.bad(e, 'setattr', 'rejected-but-modified', 'table changed by a rejected definition')
            return
        if exc is not None:
            self.bad(e, 'setattr', 'raised-' + type(exc).__name__, 'defining the new unit {!r} raised {!r}'.format(name, exc))
            return
        new = set(U) - set(before)
        if len(new) != 20 or name not in new or any(U[k] is not before[k] for k in before):
            self.bad(e, 'setattr', 'wrong-keys', 'defining {!r} added {}'.format(name, sorted(new)))


def signature(e):
    return (e['kind'], ''.join(e['s']), ''.join(e['spec']), e['err'], e['ok'])


# ---------------------------------------------------------------------------
# table exports (T)

def mant_exp(x):
    'float -> (digits without trailing zeros, e) with x = int(digits) * 10**e, 12 significant digits'
    if x == 0:
        return ['0'], 0
    assert x > 0
    s = '{:.11e}'.format(x)
    m, _, e = s.partition('e')
    digits = m.replace('.', '').rstrip('0')
    return list(digits), int(e) - (len(digits) - 1)


def export_units():
    'the live SI.units dict: one row per key'
    SI = si()
    rows = []
    for k, q in SI.units.items():
        digits, e = mant_exp(q.unwrap())
        rows.append(dict(key=tla_chars(k), pw={UNTRANS.get(b, b): [p.numerator, p.denominator] for b, p in real_powers(type(q)).items()},
                         mant=digits, e=e))
    return rows


PROBE_DIMS = [{}, {'L': (1, 1)}, {'T': (1, 1)}, {'L': (1, 1), 'T': (-1, 1)}, {'M': (1, 2)}]


class Probe:
    'stands for op(...) inside a dispatcher: records nothing, returns a marker'

    def __init__(self):
        self.__name__ = 'probe'

    def __call__(self, *args, **kwargs):
        return Marker


class _Marker:
    def __repr__(self):
        return 'Marker'

    def __iter__(self):      # __evaluate zips dims with the results
        return iter([self] * 8)


Marker = _Marker()


CONVENTIONS = ('one', 'pow', 'two', 'setitem', 'stack', 'interp', 'locate', 'sample', 'field', 'evaluate')


def live_name(f):
    'the name the specs use for a key of the live dispatch table'
    mod = getattr(f, '__module__', None)
    qn = getattr(f, '__qualname__', None) or getattr(f, '__name__', repr(f))
    if isinstance(f, numpy.ufunc):
        return 'numpy.' + f.__name__
    if mod in ('_operator', 'operator'):
        return 'operator.' + qn
    if mod == 'nutils.function':
        return 'function.' + qn
    if mod in ('nutils.sample', 'nutils.topology'):
        return qn
    if mod and mod.startswith('numpy'):
        for prefix, m in (('numpy.linalg.', numpy.linalg), ('numpy.', numpy)):
            if getattr(m, qn, None) is f:
                return prefix + qn
    return '{}.{}'.format(mod, qn)


def export_dispatch():
    """For every key of the live table: the name of the dispatcher registered in the live
    table and, for every calling convention, the class it produces for probe operands of a few
    dimensions.  The operation itself is replaced by a stub (table entries are
    `partial(dispatcher, func)`), so that only the dimension rule of the live entry is
    exercised; TLC selects the convention that belongs to the model's dispatcher of the
    function and compares with its own Dispatch."""
    SI = si()
    table = SI.Quantity._Quantity__DISPATCH_TABLE
    dims = [{b: fractions.Fraction(*p) for b, p in d.items()} for d in PROBE_DIMS]
    classes = [SI.Dimension.from_powers(p) for p in dims]

    def obj(i):
        return classes[i].wrap(Marker) if dims[i] else Marker

    def clsname(i):
        return tla_chars(classes[i].__name__[1:-1])

    probe = Probe()
    rows = []
    n = len(dims)
    for f, entry in table.items():
        name = live_name(f)
        disp = entry.func
        probes = []
        for conv in CONVENTIONS:
            for i in range(n):
                for j in range(n):
                    if conv in ('one', 'pow', 'sample') and j != 0:
                        continue
                    if not dims[i] and (not dims[j] or conv in ('one', 'pow', 'sample')):
                        continue    # no Quantity among the operands: SI is not involved
                    for k, extra in variants(conv, i, j):
                        res = probe_one(SI, disp, probe, conv, obj, i, j, k, extra)
                        ds = {'one': [i], 'pow': [i], 'sample': [i], 'interp': [i, j, 2], 'field': [0, i, j],
                              'locate': [i, j] + list(extra or (0, 0))}.get(conv, [i, j])
                        kk = list(k) if conv != 'locate' else [int(extra[2]), int(extra[3])]
                        probes.append(dict(conv=conv, ds=[clsname(x) for x in ds], k=kk, **res))
        rows.append(dict(f=name, disp=disp.__name__, probes=probes))
    # (keys the model does not know are rows with an f outside AllFuncs; `extra` is kept for names that cannot be resolved back)
    extra = [r['f'] for r in rows if not _resolves(r['f'], table)]
    clsrows = [dict(name=clsname(i), pw={UNTRANS.get(b, b): [p.numerator, p.denominator] for b, p in dims[i].items()}) for i in range(n)]
    return dict(rows=rows, extra=extra, classes=clsrows)


def _resolves(name, table):
    try:
        return resolve(name) in table
    except Exception:
        return False


def variants(conv, i, j):
    if conv == 'pow':
        return [((2, 1), None), ((1, 2), None), ((-1, 1), None)]
    if conv == 'locate':
        # (tol class index, maxdist class index, tol not given, maxdist not given)
        return [((0, 1), (i, 0, False, True)), ((0, 1), (0, 0, True, True)), ((0, 1), (2, 0, False, True)),
                ((0, 1), (i, i, False, False)), ((0, 1), (i, 2, False, False))]
    return [((0, 1), None)]


def probe_one(SI, disp, probe, conv, obj, i, j, k, extra):
    'call the live dispatcher with a stub operation on probe operands of classes i, j'
    a, b = obj(i), obj(j)
    try:
        if conv == 'one':
            r = disp(probe, a)
        elif conv == 'pow':
            r = disp(probe, a, fractions.Fraction(*k))
        elif conv == 'two':
            r = disp(probe, a, b)
        elif conv == 'setitem':
            r = disp(probe, a, 0, b)
        elif conv == 'stack':
            r = disp(probe, [a, b])
        elif conv == 'interp':
            r = disp(probe, a, b, obj(2))
        elif conv == 'locate':
            ti, mi, tnone, mnone = extra
            kw = {}
            if not tnone:
                kw['tol'] = obj(ti)
            if not mnone:
                kw['maxdist'] = obj(mi)
            r = disp(probe, None, a, b, **kw)
        elif conv == 'sample':
            r = disp(probe, None, a)
        elif conv == 'field':
            r = disp(probe, 'name', a, b)
        elif conv == 'evaluate':
            r = disp(probe, a, b)
            if not (isinstance(r, tuple) and len(r) == 2):
                return dict(res='other', name=[], name2=[])
            names = [tla_chars(type(x).__name__[1:-1]) if isinstance(x, SI.Quantity) else [] for x in r]
            return dict(res='each', name=names[0], name2=names[1])
    except SI.DimensionError:
        return dict(res='rej', name=[], name2=[])
    except Exception as ex:
        return dict(res='exc', name=[], name2=[])
    if isinstance(r, SI.Quantity):
        return dict(res='wrap', name=tla_chars(type(r).__name__[1:-1]), name2=[])
    return dict(res='plain', name=[], name2=[])
