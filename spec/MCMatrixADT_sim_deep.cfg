\* thorough simulation: sequences of six operations
SPECIFICATION Spec
CONSTANTS
  Forms = {"csr", "coo", "diag", "empty", "eye"}
  Shapes <- ShapesBig
  MinNnz = 0
  MaxNnz = 5
  WildM = 1
  WildN = 1
  WildCooN = 1
  WildNnz = 1
  BlockHeights = {0, 1}
  BlockWidths = {0, 1}
  MaxBlockRows = 1
  MaxBlockCols = 1
  MaxBlockNnz = 1
  Dtypes = {"f", "c"}
  WildDtypes = {"f"}
  Ops = {"neg", "T", "scale", "div", "add", "sub", "submatrix", "pickle"}
  OpForms = {"csr", "coo", "diag", "empty", "eye"}
  MaxSteps = 6
  MaxE = 3
  StrictOrder = TRUE
  LowerBound = TRUE
  CacheCopies = TRUE
INVARIANT TypeOK
INVARIANT AcceptIffValid
INVARIANT ReasonsIffInvalid
INVARIANT BackendGetsValid
INVARIANT Faithful
INVARIANT FaithfulInput
INVARIANT CompressCorrect
INVARIANT BlockFaithful
INVARIANT PickleFaithful
INVARIANT CacheTransparent
INVARIANT StepsFaithful
INVARIANT Algebra
INVARIANT EmitBehaviours
CHECK_DEADLOCK FALSE
