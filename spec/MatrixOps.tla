----------------------------- MODULE MatrixOps -----------------------------
(***************************************************************************)
(* Constant-level vocabulary of the C15 matrix model (no variables):       *)
(* values, dense denotations, the algebra of nutils.matrix.Matrix, the     *)
(* declarative well-formedness of CSR / COO input and the export contract. *)
(* Used by MatrixADT (design spec) and MatrixExport (table check).         *)
(*                                                                         *)
(* A value is a Gaussian integer <<re, im>> (im = 0 for float data).  A    *)
(* matrix denotation is a record [m, n, e, c]: c is a sequence of m rows   *)
(* of n values and the real entry is c[i][j] / 2^e (the exponent makes     *)
(* A/2 = A.__mul__(1/2) exactly representable).  Indices of nutils are     *)
(* 0-based, sequences of TLA+ 1-based: column index j of the code is       *)
(* position j+1 of a row.                                                  *)
(***************************************************************************)
EXTENDS Integers, Sequences, FiniteSets, TLC, Json

Tab(n, F(_)) == IF n = 0 THEN <<>> ELSE [i \in 1..n |-> F(i)]
MOMax(a, b) == IF a >= b THEN a ELSE b
Pow2(k) == <<1, 2, 4, 8, 16, 32, 64, 128, 256>>[k + 1]
SeqsUpTo(S, K) == UNION {[1..k -> S] : k \in 0..K}
SeqsBetween(S, A, B) == UNION {[1..k -> S] : k \in A..B}

\* ------------------------------------------------------------------ values
Z0 == <<0, 0>>
CAdd(a, b) == <<a[1] + b[1], a[2] + b[2]>>
CNeg(a) == <<0 - a[1], 0 - a[2]>>
CMul(a, b) == <<a[1] * b[1] - a[2] * b[2], a[1] * b[2] + a[2] * b[1]>>
CInt(k, a) == <<k * a[1], k * a[2]>>
Abs2(a) == a[1] * a[1] + a[2] * a[2]
IsEven(a) == a[1] % 2 = 0 /\ a[2] % 2 = 0
CHalf(a) == <<a[1] \div 2, a[2] \div 2>>
CSum(s) == LET F[k \in 0..Len(s)] == IF k = 0 THEN Z0 ELSE CAdd(F[k - 1], s[k]) IN F[Len(s)]

\* ------------------------------------------------------------------ dense denotations
Cells(m, n, F(_, _)) == Tab(m, LAMBDA i : Tab(n, LAMBDA j : F(i, j)))
ZeroCells(m, n) == Cells(m, n, LAMBDA i, j : Z0)
Mat(m, n, e, c) == [m |-> m, n |-> n, e |-> e, c |-> c]

AllEven(M) == \A i \in 1..M.m : \A j \in 1..M.n : IsEven(M.c[i][j])
RECURSIVE Norm(_)
Norm(M) == IF M.e > 0 /\ AllEven(M)
           THEN Norm(Mat(M.m, M.n, M.e - 1, Cells(M.m, M.n, LAMBDA i, j : CHalf(M.c[i][j]))))
           ELSE M
\* cells of M expressed with exponent e >= M.e
Lift(M, e) == Cells(M.m, M.n, LAMBDA i, j : CInt(Pow2(e - M.e), M.c[i][j]))

MNeg(M) == Mat(M.m, M.n, M.e, Cells(M.m, M.n, LAMBDA i, j : CNeg(M.c[i][j])))
MT(M) == Mat(M.n, M.m, M.e, Cells(M.n, M.m, LAMBDA i, j : M.c[j][i]))
MScale(M, s) == Norm(Mat(M.m, M.n, M.e, Cells(M.m, M.n, LAMBDA i, j : CMul(s, M.c[i][j]))))
MDiv2(M) == Norm(Mat(M.m, M.n, M.e + 1, M.c))
MAdd(A, B) == LET e == MOMax(A.e, B.e)
                  a == Lift(A, e)
                  b == Lift(B, e)
              IN Norm(Mat(A.m, A.n, e, Cells(A.m, A.n, LAMBDA i, j : CAdd(a[i][j], b[i][j]))))
MSub(A, B) == MAdd(A, MNeg(B))
IsZero(M) == \A i \in 1..M.m : \A j \in 1..M.n : M.c[i][j] = Z0

\* positions of the TRUE entries of a boolean sequence, in order
TrueIdx(b) == LET F[k \in 0..Len(b)] == IF k = 0 THEN <<>> ELSE IF b[k] THEN Append(F[k - 1], k) ELSE F[k - 1]
              IN F[Len(b)]
MSelect(M, rows, cols) == LET r == TrueIdx(rows)
                              c == TrueIdx(cols)
                          IN Norm(Mat(Len(r), Len(c), M.e, Cells(Len(r), Len(c), LAMBDA i, j : M.c[r[i]][c[j]])))

\* observations
RowSupp(M, tol) == Tab(M.m, LAMBDA i : \E j \in 1..M.n : Abs2(M.c[i][j]) > tol * tol * Pow2(M.e) * Pow2(M.e))
Diag(M) == Tab(M.m, LAMBDA i : M.c[i][i])
\* A @ x for a vector x (sequence of n values, exponent 0): values carry exponent M.e
MatVec(M, x) == Tab(M.m, LAMBDA i : CSum(Tab(M.n, LAMBDA j : CMul(M.c[i][j], x[j]))))
\* A @ X for X a sequence of n rows of p values
MatArr(M, X, p) == Tab(M.m, LAMBDA i : Tab(p, LAMBDA q : CSum(Tab(M.n, LAMBDA j : CMul(M.c[i][j], X[j][q])))))

\* ------------------------------------------------------------------ CSR data
\* c = [v, rp, ci, n]: values, rowptr, colidx (0-based as in the code), ncols
NRows(c) == Len(c.rp) - 1
\* the structural part: rowptr describes a partition of the stored entries into rows
RowptrNonEmpty(c) == Len(c.rp) >= 1
RowptrStart(c) == c.rp[1] = 0
RowptrMonotone(c) == \A i \in 1..(Len(c.rp) - 1) : c.rp[i] <= c.rp[i + 1]
RowptrEnd(c) == c.rp[Len(c.rp)] = Len(c.v)
ColLen(c) == Len(c.ci) = Len(c.v)
Structural(c) == RowptrNonEmpty(c) /\ RowptrStart(c) /\ RowptrMonotone(c) /\ RowptrEnd(c) /\ ColLen(c)
ColNonNeg(c) == \A k \in 1..Len(c.ci) : c.ci[k] >= 0
ColBelowN(c) == \A k \in 1..Len(c.ci) : c.ci[k] < c.n
\* entries (1-based positions) of row i (1-based)
RowEntries(c, i) == (c.rp[i] + 1)..c.rp[i + 1]
ColSorted(c) == \A i \in 1..NRows(c) : \A k \in RowEntries(c, i) : (k + 1) \in RowEntries(c, i) => c.ci[k] <= c.ci[k + 1]
ColNoRepeat(c) == \A i \in 1..NRows(c) : \A k, l \in RowEntries(c, i) : k # l => c.ci[k] # c.ci[l]

\* the input defines a matrix unambiguously
ValidCSR(c) == Structural(c) /\ ColNonNeg(c) /\ ColBelowN(c) /\ ColSorted(c) /\ ColNoRepeat(c)

\* why an input is not valid (root causes; column ordering is only meaningful for structural input)
CSRReasons(c) ==
     (IF ~RowptrNonEmpty(c) THEN {"rowptr-empty"} ELSE
        (IF ~RowptrStart(c) THEN {"rowptr-start"} ELSE {})
        \cup (IF ~RowptrMonotone(c) THEN {"rowptr-nonmonotone"} ELSE {})
        \cup (IF ~RowptrEnd(c) THEN {"rowptr-end"} ELSE {}))
     \cup (IF ~ColLen(c) THEN {"colidx-length"} ELSE {})
     \cup (IF ~ColNonNeg(c) THEN {"col-negative"} ELSE {})
     \cup (IF ~ColBelowN(c) THEN {"col-too-large"} ELSE {})
     \cup (IF Structural(c) /\ ~ColSorted(c) THEN {"col-unsorted"} ELSE {})
     \cup (IF Structural(c) /\ ~ColNoRepeat(c) THEN {"col-repeated"} ELSE {})

\* stored entries of cell (i, j), 1-based i, j
CSRCell(c, i, j) == {k \in RowEntries(c, i) : c.ci[k] = j - 1}
\* cells is the matrix defined by unambiguous CSR data c
DenotesCSR(c, cells) ==
     /\ Len(cells) = NRows(c)
     /\ \A i \in 1..NRows(c) :
          /\ Len(cells[i]) = c.n
          /\ \A j \in 1..c.n : /\ \A k \in CSRCell(c, i, j) : cells[i][j] = c.v[k]
                               /\ CSRCell(c, i, j) = {} => cells[i][j] = Z0

\* export contract (explicit zeros may be stored or dropped; nothing else may differ):
\* structural, columns in range, no cell stored twice, and it denotes the matrix
ExportCSROK(c, cells) == Structural(c) /\ ColNonNeg(c) /\ ColBelowN(c) /\ ColNoRepeat(c) /\ DenotesCSR(c, cells)

\* canonical CSR of a denotation: the nonzero cells in row-major order (what a backend
\* without explicit zeros exports; this is what Matrix.__reduce__ pickles)
NzCols(M, i) == LET F[j \in 0..M.n] == IF j = 0 THEN <<>> ELSE IF M.c[i][j] # Z0 THEN Append(F[j - 1], j - 1) ELSE F[j - 1]
                IN F[M.n]
CanonCSR(M) == LET R[i \in 0..M.m] == IF i = 0 THEN [v |-> <<>>, rp |-> <<0>>, ci |-> <<>>]
                                     ELSE LET cols == NzCols(M, i)
                                              prev == R[i - 1]
                                          IN [v |-> prev.v \o Tab(Len(cols), LAMBDA q : M.c[i][cols[q] + 1]),
                                              rp |-> Append(prev.rp, Len(prev.ci) + Len(cols)),
                                              ci |-> prev.ci \o cols]
               IN [v |-> R[M.m].v, rp |-> R[M.m].rp, ci |-> R[M.m].ci, n |-> M.n, e |-> M.e]

\* ------------------------------------------------------------------ COO data
\* o = [v, ri, m, ci, n]
COOLen(o) == Len(o.ri) = Len(o.v) /\ Len(o.ci) = Len(o.v)
COORowRange(o) == \A k \in 1..Len(o.ri) : 0 <= o.ri[k] /\ o.ri[k] < o.m
COORowMonotone(o) == \A k \in 1..(Len(o.ri) - 1) : o.ri[k] <= o.ri[k + 1]
COOColNonNeg(o) == \A k \in 1..Len(o.ci) : o.ci[k] >= 0
COOColBelowN(o) == \A k \in 1..Len(o.ci) : o.ci[k] < o.n
COOStructural(o) == COOLen(o) /\ COORowRange(o) /\ COORowMonotone(o)
COOColSorted(o) == \A k \in 1..(Len(o.v) - 1) : o.ri[k] = o.ri[k + 1] => o.ci[k] <= o.ci[k + 1]
COONoRepeat(o) == \A k, l \in 1..Len(o.v) : k # l => ~(o.ri[k] = o.ri[l] /\ o.ci[k] = o.ci[l])
ValidCOO(o) == COOStructural(o) /\ COOColNonNeg(o) /\ COOColBelowN(o) /\ COOColSorted(o) /\ COONoRepeat(o)
COOReasons(o) ==
     (IF ~COOLen(o) THEN {"coo-length"} ELSE {})
     \cup (IF ~COORowRange(o) THEN {"row-out-of-range"} ELSE {})
     \cup (IF ~COORowMonotone(o) THEN {"row-nonmonotone"} ELSE {})
     \cup (IF ~COOColNonNeg(o) THEN {"col-negative"} ELSE {})
     \cup (IF ~COOColBelowN(o) THEN {"col-too-large"} ELSE {})
     \cup (IF COOStructural(o) /\ ~COOColSorted(o) THEN {"col-unsorted"} ELSE {})
     \cup (IF COOStructural(o) /\ ~COONoRepeat(o) THEN {"col-repeated"} ELSE {})
COOCell(o, i, j) == {k \in 1..Len(o.v) : o.ri[k] = i - 1 /\ o.ci[k] = j - 1}
DenotesCOO(o, cells) ==
     /\ Len(cells) = o.m
     /\ \A i \in 1..o.m :
          /\ Len(cells[i]) = o.n
          /\ \A j \in 1..o.n : /\ \A k \in COOCell(o, i, j) : cells[i][j] = o.v[k]
                               /\ COOCell(o, i, j) = {} => cells[i][j] = Z0
\* export contract for COO: lengths agree, indices in range, no cell twice, denotes the matrix
ExportCOOOK(o, cells) == COOLen(o) /\ COORowRange(o) /\ COOColNonNeg(o) /\ COOColBelowN(o) /\ COONoRepeat(o) /\ DenotesCOO(o, cells)
=============================================================================
