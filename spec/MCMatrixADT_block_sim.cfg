\* simulation: rectangular blocks up to 2x2 with up to two stored entries, followed by one operation
SPECIFICATION Spec
CONSTANTS
  Forms = {"block"}
  Shapes <- NoShapes
  MinNnz = 0
  MaxNnz = 3
  WildM = 1
  WildN = 1
  WildCooN = 1
  WildNnz = 1
  BlockHeights = {0, 1, 2}
  BlockWidths = {0, 1, 2}
  MaxBlockRows = 2
  MaxBlockCols = 3
  MaxBlockNnz = 2
  Dtypes = {"f", "c"}
  WildDtypes = {"f"}
  Ops = {"neg", "T", "scale", "div", "add", "sub", "submatrix", "pickle"}
  OpForms = {"block"}
  MaxSteps = 1
  MaxE = 2
  StrictOrder = TRUE
  LowerBound = TRUE
  CacheCopies = TRUE
INVARIANT TypeOK
INVARIANT AcceptIffValid
INVARIANT ReasonsIffInvalid
INVARIANT BackendGetsValid
INVARIANT Faithful
INVARIANT FaithfulInput
INVARIANT CompressCorrect
INVARIANT BlockFaithful
INVARIANT PickleFaithful
INVARIANT CacheTransparent
INVARIANT StepsFaithful
INVARIANT Algebra
INVARIANT EmitBehaviours
CHECK_DEADLOCK FALSE
