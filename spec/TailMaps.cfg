SPECIFICATION Spec
CONSTANT N = 2
INVARIANT EmitTails
CHECK_DEADLOCK FALSE
