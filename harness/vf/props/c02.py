"""C02 -- Optimised code generation is a faithful translation of the expression.

Deciding method: programs (and tuples of programs with shared subterms) are
behaviours of the ExprBuilder TLA+ machine, their meaning is the ArraySem TLA+
semantics evaluated by TLC; every program is compiled by the real
evaluable.compile under all compile configurations and the returned
structure / shapes / element types / values are compared with the model
(S->C).  The generated scripts themselves are validated against the CodeGen
TLA+ machine (C->S, see c02_codegen) when available.
"""

import itertools
import random

from .. import dag, exprs, tlc, codegen

LEVEL = 'model_checking'


def configs(tier, has_loop, par=True):
    out = []
    for s, o, c in itertools.product((False, True), (False, True), (False, True)):
        out.append(dict(_simplify=s, _optimize=o, cache_const_intermediates=c, stats=False, maxprocs=1))
    out.append(dict(_simplify=True, _optimize=True, cache_const_intermediates=True, stats='log', maxprocs=1))
    out.append(dict(_simplify=False, _optimize=True, cache_const_intermediates=False, stats='log', maxprocs=1))
    if has_loop and par:
        out.append(dict(_simplify=True, _optimize=True, cache_const_intermediates=True, stats=False, maxprocs=3))
        out.append(dict(_simplify=False, _optimize=False, cache_const_intermediates=True, stats=False, maxprocs=3))
        if tier == 'thorough':
            out.append(dict(_simplify=False, _optimize=True, cache_const_intermediates=False, stats=False, maxprocs=2))
            out.append(dict(_simplify=True, _optimize=False, cache_const_intermediates=False, stats=False, maxprocs=4))
    return out


def cfgname(c):
    return 's{}o{}c{}{}p{}'.format(int(c['_simplify']), int(c['_optimize']), int(c['cache_const_intermediates']), 'L' if c['stats'] else '', c['maxprocs'])


def flatten(x):
    if isinstance(x, (tuple, list)):
        for y in x:
            yield from flatten(y)
    else:
        yield x


def same_structure(a, b):
    if isinstance(a, tuple) or isinstance(b, tuple):
        return isinstance(a, tuple) and isinstance(b, tuple) and len(a) == len(b) and all(same_structure(x, y) for x, y in zip(a, b))
    return True


def replay_one(item):
    import numpy
    import treelog
    from nutils import evaluable as ev, parallel
    nodes, outs_pos, shape_kind, expected, tier, par = item
    res = dict(status='ok', checked=0, configs=0)
    arrs = dag.build(nodes)
    model = {}
    k = 0
    for pos in outs_pos:
        model[pos] = []
        for e in range(len(dag.ENVS)):
            v, bad, _, _ = dag.arr_value(expected['vals'][k])
            model[pos].append(None if bad else v)
            k += 1
    # output structure
    roots = [arrs[p - 1] for p in outs_pos]
    if shape_kind == 0 or len(roots) == 1:
        func = roots[0] if len(roots) == 1 else tuple(roots)
        struct = outs_pos[0] if len(roots) == 1 else tuple(outs_pos)
    elif shape_kind == 1:
        func = (roots[0], tuple(roots[1:]))
        struct = (outs_pos[0], tuple(outs_pos[1:]))
    else:
        func = (tuple(roots[:-1]), roots[-1], roots[0])
        struct = (tuple(outs_pos[:-1]), outs_pos[-1], outs_pos[0])
    has_loop = any(n['op'] in ('LoopSum', 'LoopConcat', 'LoopSumN') for n in nodes)
    # C->S pre-pass: record the executed statements of the generated script (first run and rerun) for three configurations
    for kw in (dict(_simplify=True, _optimize=True, cache_const_intermediates=True), dict(_simplify=False, _optimize=True, cache_const_intermediates=False),
               dict(_simplify=True, _optimize=False, cache_const_intermediates=True)):
        try:
            with treelog.set(treelog.NullLog()), codegen.capture() as rec:
                f = exprs.with_timeout(30, ev.compile, func, stats=False, **kw)
            if len(rec.scripts) != 1:
                continue
            script = rec.scripts[0][0]
            for ncall, e in enumerate((0, 1)):
                with numpy.errstate(all='ignore'):
                    _, lines = exprs.with_timeout(30, codegen.trace_call, f, dag.env_arrays(dag.ENVS[e]))
                evs = codegen.events(script, lines)
                if len(evs) <= 400:
                    res.setdefault('traces', []).append(dict(cfg=cfgname(dict(kw, stats=False, maxprocs=1)), call=ncall, nvars=max(1, len(script.varid)),
                        predefined=sorted(set([i for v, i in script.varid.items() if v.startswith('c')] + (script.globals if ncall else []))), events=evs,
                        text={str(d['ln']): d['text'][:120] + ' # ' + d['cls'] for d in script.info.values()}))
        except Exception:
            pass   # failures to compile/evaluate are judged by the value pass below
    for c in configs(tier, has_loop, par):
        name = cfgname(c)
        kw = dict(c)
        mp = kw.pop('maxprocs')
        try:
            with parallel.maxprocs(mp), treelog.set(treelog.NullLog() if hasattr(treelog, 'NullLog') else treelog.current):
                f = exprs.with_timeout(30, ev.compile, func, **kw)
                got = []
                # call order: env0, env1, env0 again (rerun path with cached constants), env2
                for e in (0, 1, 0, 2):
                    with numpy.errstate(all='ignore'):
                        got.append((e, exprs.with_timeout(30, f, dag.env_arrays(dag.ENVS[e]))))
        except exprs.Timeout:
            res.update(status='violation', key='timeout:' + name, what='compile/evaluate did not finish in 30 s', cfg=name)
            return res
        except Exception as ex:
            # a model-undefined program may legitimately raise (e.g. singular matrix, index error): only judge if defined everywhere
            if all(m is not None for p in outs_pos for m in model[p]):
                res.update(status='violation', key='exception:{}:{}'.format(type(ex).__name__, name.rstrip('p123').replace('L', '')), what='compile/evaluate raised {!r}'.format(ex)[:300], cfg=name)
                return res
            res['skipped_exc'] = res.get('skipped_exc', 0) + 1
            continue
        res['configs'] += 1
        for e, val in got:
            if not same_structure(val, struct):
                res.update(status='violation', key='structure:' + name, what='returned structure {} differs from requested'.format(type(val)), cfg=name)
                return res
            for pos, arr in zip(flatten(struct), flatten(val)):
                m = model[pos][e]
                if m is None:
                    continue
                arr = numpy.asarray(arr)
                n = nodes[pos - 1]
                kind = dag.KIND[n['dt']]
                if list(arr.shape) != n['sh'] or arr.dtype.kind.replace('u', 'i') != kind:
                    res.update(status='violation', key='shape-dtype:{}:{}'.format(n['op'], name), what='result shape/dtype {} {} differs from {} {}'.format(arr.shape, arr.dtype, n['sh'], n['dt']), cfg=name)
                    return res
                if not dag.matches(m, arr, n['dt']):
                    res.update(status='violation', key='value:{}:s{}o{}'.format(n['op'], int(c['_simplify']), int(c['_optimize'])), what='values differ from the model in config {} (call with env {})'.format(name, e),
                               cfg=name, got=arr.tolist(), want=[str(x) for x in m.ravel()], pos=pos)
                    return res
                res['checked'] += 1
    return res


def pick_outputs(nodes, rng):
    """root plus up to two earlier closed non-leaf nodes (shared subterms between outputs)"""
    root = len(nodes)
    cands = [i + 1 for i, n in enumerate(nodes[:-1]) if n.get('cl', True) and n['d']]
    rng.shuffle(cands)
    extra = cands[:rng.choice([0, 1, 2])]
    return [root] + extra


def run(rep):
    rng = random.Random(rep.seed)
    quick = rep.tier == 'quick'
    progs = exprs.generate(rep, 'c02-exh', MaxNodes=5, MaxOps=2, MaxLeaves=3, Ops='CoreOps', LeafSet='{1, 2, 13, 14, 22}', EmitMin=2, exhaustive=True)
    nexh = len(progs)
    sims = exprs.generate(rep, 'c02-sim', MaxNodes=12, MaxOps=7, MaxLeaves=5, EmitMin=3, simulate=300 if quick else 3000, depth=13, seed=rep.seed + 11)
    loops = exprs.generate(rep, 'c02-loops', MaxNodes=10, MaxOps=5, MaxLeaves=4, EmitMin=3,
                           Ops='{"LoopSum","LoopConcat","Take","Inflate","Multiply","Add","IntToFloat","InsertAxis","Sum","Transpose","Diagonalize","Power"}',
                           LeafSet='{1, 2, 8, 13, 14, 20, 22, 23}', simulate=300 if quick else 3000, depth=11, seed=rep.seed + 12)
    loops = [p for p in loops if any(n['op'] in ('LoopSum', 'LoopConcat') for n in p)]
    # extended vocabulary (complex dtype, ...), kept separate so that the base sample is unchanged
    k = 300 if quick else 4000
    sel = exprs.select(progs, k // 3, rng, need_arg=True) + exprs.select(sims, k // 3, rng, need_arg=True) + exprs.select(loops, k // 3, rng)
    ext = exprs.extended(rep, rng, 'c02-ext', ['cx', 'einsum', 'poly', 'search', 'dyn', 'arglen', 'monomial', 'inflate3', 'uvc'], k // 40, quick=quick)
    rep.lap('generated')
    for name, ps in ext.items():
        sel += ps
    rep.constants['ExprBuilder'] = dict(exhaustive_programs=nexh, simulate_programs=len(sims), loop_programs=len(loops), selected=len(sel))
    metas = []
    jobs = []
    for p in sel:
        outs = pick_outputs(p, rng)
        metas.append((outs, rng.choice([0, 1, 2])))
        jobs.append((p, [dict(env=env, node=pos) for pos in outs for env in dag.ENVS], []))
    results, stats = dag.evaluate(jobs, tag='c02-eval')
    for st in stats:
        rep.add_tlc(st)
    rep.lap('model values')
    items = []
    npar = 0
    for p, m, r in zip(sel, metas, results):
        if r is None:
            continue
        hasloop = any(n['op'] in ('LoopSum', 'LoopConcat') for n in p)
        par = hasloop and (not quick or npar < 16)   # forking is slow in this sandbox: parallel configs on a subset in the quick tier
        npar += par
        items.append((p, m[0], m[1], r, rep.tier, par))
    rep.skip('model could not evaluate', len(sel) - len(items))
    outs = exprs.pmap(replay_one, items, chunksize=2)
    rep.lap('replayed')
    nconf = 0
    for it, o in zip(items, outs):
        if 'harness_error' in o:
            raise RuntimeError(o['harness_error'])
        p = it[0]
        rep.case((exprs.canon(p), tuple(it[1]), it[2]), nontrivial=sum(1 for n in p if n['d']) >= 2)
        nconf += o.get('configs', 0)
        if o['status'] == 'violation':
            rep.violation(o['key'], o['what'], dict(program=p, outputs=it[1], cfg=o.get('cfg'), got=o.get('got'), want=o.get('want')))
        elif o.get('checked', 0):
            rep.traces += 1
        else:
            rep.skip('model value undefined at all environments')
    rep.extra['compiled_configurations'] = nconf
    # C->S: executed statements of the generated scripts validated against the TraceCodeGen machine
    traces, owners = [], []
    for it, o in zip(items, outs):
        for t in o.get('traces', []):
            traces.append(dict(nvars=t['nvars'], predefined=t['predefined'], events=t['events']))
            owners.append((it[0], t))
    if traces:
        import json, os
        wd = tlc.workdir('c02-codegen-traces')
        path = os.path.join(wd, 'traces.json')
        with open(path, 'w') as fh:
            json.dump(traces, fh)
        tres = tlc.run('TraceCodeGen', 'TraceCodeGen.cfg', tag='c02-tracecodegen', workers=1, env=dict(VF_TRACE=path), deadlock=False, timeout=1800)
        rep.add_tlc(tres)
        rejected = {e['tid']: e for e in tres.emitted}
        for tid, e in rejected.items():
            p, t = owners[tid - 1]
            evn = t['events'][e['matched']] if e['matched'] < len(t['events']) else None
            stmt = t['text'].get(str(evn['ln']), '?') if evn else '?'
            cls = stmt.rsplit('# ', 1)[-1] if evn else '?'
            rep.violation('codegen:{}:{}:{}'.format(e['clause'], evn['k'] if evn else '?', cls),
                          'generated script ({}, call {}) violates machine clause "{}" at statement `{}`'.format(t['cfg'], t['call'], e['clause'], stmt),
                          dict(program=p, cfg=t['cfg'], statement=stmt, event=evn))
        rep.traces += len(traces) - len(rejected)
        rep.extra['script_traces_validated'] = len(traces)
        rep.extra['script_statements_validated'] = sum(len(t['events']) for t in traces)
    rep.lap('script traces validated')
    for it in items[:3]:
        rep.sample(dict(program=[[n['op'], n['d'], n['p'], n['sh'], n['dt']] for n in it[0]], outputs=it[1], structure=it[2]))
    rep.rule = ('cases = (program, output tuple structure) pairs from the ExprBuilder TLA+ machine, each compiled under 10-14 compile '
                'configurations and called 4 times; non-trivial = at least two non-leaf nodes')
    rep.assumptions += ['ArraySem.tla is the reference semantics; transcendental functions outside the vocabulary',
                        'programs whose model value is undefined at an environment are not judged there']
