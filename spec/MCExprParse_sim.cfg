SPECIFICATION Spec
CONSTANTS
  MaxLeaves = 4
  MaxOps = 6
  MaxStack = 3
  VarSet <- AllVars
  NumSet <- AllNums
  FuncSet <- AllFuncs
  Toks <- AllToks
  GToks <- AllGToks
  IntExps <- AllExps
  Wraps <- AllWraps
  Muts <- AllMuts
  Cors <- AllCors
  Styles <- OneStyle
  EmitMin = 2
  Bug = ""
INVARIANT VerdictAgree
INVARIANT FreeAgree
INVARIANT MeaningAgree
INVARIANT RenderBalanced
INVARIANT Unbalanced
CONSTRAINT EmitComplete
CONSTRAINT EmitTables
CHECK_DEADLOCK FALSE
