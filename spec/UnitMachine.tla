---------------------------- MODULE UnitMachine ----------------------------
(***************************************************************************)
(* C20 -- state machine around UnitGrammar:                                *)
(*  1. replay the unit definitions of SI.py through the model of           *)
(*     Units.__setattr__ (one Define step per definition),                 *)
(*  2. try to define further names (DefineExtra: the collision rules),     *)
(*  3. build unit strings from abstract tokens (number, words =            *)
(*     prefix+unit, powers, '*' and '/'), parse them like SI.parse does    *)
(*     (level I) and compare with the direct evaluation of the tokens      *)
(*     against the physical table (level A),                               *)
(*  4. format the parsed quantity with a precision and a unit string and   *)
(*     state the round trip.                                               *)
(* Every Parse / Format / DefineExtra outcome is emitted for the S->C      *)
(* replay on nutils.SI.                                                    *)
(***************************************************************************)
EXTENDS UnitGrammar

CONSTANTS Numbers,     \* number literals (character sequences, possibly empty)
          Words1,      \* prefix+unit character sequences offered for the first factor
          Words2,      \* ... for further factors
          Powers1, Powers2,   \* powers <<n, d>> offered for the first / further factors
          MaxFactors,
          Precs,       \* precisions for formatting; -1 = no precision given (Python default 6)
          Precs2,      \* ... for strings with several factors and for formatting in other units
          OtherUnits,  \* unit strings to format in besides the string's own unit
          ExtraNames,  \* names for DefineExtra
          UPyUnits     \* the table handed to nutils.unit.create: name -> quantity (level A values of those units)

VARIABLES units, ndef, num, facs, cur, last, phase
vars == <<units, ndef, num, facs, cur, last, phase>>

\* ---- level A reading of a word: the valid (prefix, unit) pairs that spell it
\* (only two candidates can spell w: no prefix, or the first character as prefix)
Readings(w) == (IF w \in DOMAIN AUnits THEN {<<"", w>>} ELSE {})
               \cup (IF Len(w) >= 2 /\ w[1] \in PrefixChars /\ Tail(w) \in DOMAIN AUnits /\ AUnits[Tail(w)].prefixable THEN {<<w[1], Tail(w)>>} ELSE {})
AWordVal(w) == LET pu == CHOOSE x \in Readings(w) : TRUE
               IN QV(AUnits[pu[2]].pw, SMul(APrefixVal(pu[1]), AUnits[pu[2]].val))
\* no character string has two readings of different value (here: two readings at all)
UniqueParse == \A w \in {(IF pu[1] = "" THEN <<>> ELSE <<pu[1]>>) \o pu[2] : pu \in (PrefixChars \cup {""}) \X DOMAIN AUnits} :
                  Cardinality(Readings(w)) <= 1

\* factor: [op, w, k]
FChars(f) == (IF f.op = "" THEN <<>> ELSE <<f.op>>) \o f.w \o PowerChars(f.k)
RECURSIVE FsChars(_)
FsChars(fs) == IF fs = <<>> THEN <<>> ELSE FChars(Head(fs)) \o FsChars(Tail(fs))
RECURSIVE AEvalW(_, _)
AEvalW(q, fs) == IF fs = <<>> THEN q
                 ELSE LET f == Head(fs)
                          v == QPow(AWordVal(f.w), f.k)
                      IN AEvalW(IF f.op = "/" THEN QDiv(q, v) ELSE QMul(q, v), Tail(fs))
\* level A: value of number + factors, or an error when a word has no reading / the number is no number
AParse(n, fs) == LET fl == IF n = <<>> THEN [ok |-> TRUE, val |-> SOne] ELSE FloatOf(n)
                 IN IF ~fl.ok \/ \E i \in 1..Len(fs) : Readings(fs[i].w) = {} THEN QErr("ValueError")
                    ELSE AEvalW(QNum(fl.val), fs)

NoLast == [kind |-> "none", s |-> <<>>, spec |-> <<>>, err |-> "", pw |-> NoPowers, val |-> SOne, name |-> <<>>, text |-> <<>>, ok |-> TRUE,
           uerr |-> "", upw |-> NoPowers, uval |-> SOne]
QOut(kind, s, spec, q) == [NoLast EXCEPT !.kind = kind, !.s = s, !.spec = spec,
                                         !.err = IF IsErr(q) THEN "ValueError" ELSE "",
                                         !.pw = IF IsErr(q) THEN NoPowers ELSE q.pw,
                                         !.val = IF IsErr(q) THEN SOne ELSE q.val,
                                         !.name = IF IsErr(q) THEN <<>> ELSE Name(q.pw)]

Init == /\ units = EmptyUnits /\ ndef = 0 /\ num = <<"?">> /\ facs = <<>> /\ cur = QNum(SOne) /\ last = NoLast /\ phase = "define"

Define == /\ phase = "define" /\ ndef < Len(Defs)
          /\ LET df == Defs[ndef + 1]
                 v == DefValue(units, df)
                 r == IF df.kind = "raw" THEN [ok |-> TRUE, U |-> SetItem(units, df.name, v), why |-> ""] ELSE SetAttr(units, df.name, v)
             IN /\ units' = r.U
                /\ last' = [NoLast EXCEPT !.kind = "define", !.s = df.name, !.ok = r.ok /\ ~IsErr(v), !.err = r.why]
          /\ ndef' = ndef + 1
          /\ phase' = IF ndef + 1 = Len(Defs) THEN "build" ELSE "define"
          /\ UNCHANGED <<num, facs, cur>>

\* units.<name> = 1 m  (any Quantity): ValueError when the name or one of its prefixed forms exists
DefineExtra == \E name \in ExtraNames :
          /\ phase = "build" /\ facs = <<>> /\ num = <<"?">>
          /\ LET r == SetAttr(units, name, QV([x \in {"L"} |-> One], SOne))
             IN last' = [NoLast EXCEPT !.kind = "setattr", !.s = name, !.ok = r.ok, !.err = r.why]
          /\ phase' = "leaf"
          /\ UNCHANGED <<units, ndef, num, facs, cur>>

\* Only the words the string builder can spell are ever looked up from here on; the states keep just those
\* entries of the dict (a word that is not a key stays a non-key), which keeps the states small.
NeededKeys == Words1 \cup Words2 \cup UNION {{LStrip(SplitFactors(ou)[i].base, NumChars) : i \in 1..Len(SplitFactors(ou))} : ou \in OtherUnits}
Start == \E n \in Numbers :
          /\ phase = "build" /\ num = <<"?">>
          /\ num' = n /\ phase' = "factors" /\ last' = [NoLast EXCEPT !.kind = "start", !.s = n]
          /\ units' = [k \in DOMAIN units \cap NeededKeys |-> units[k]]
          /\ UNCHANGED <<ndef, facs, cur>>

AddFactor == \E op \in (IF facs = <<>> THEN {"", "/"} ELSE {"*", "/"}), w \in (IF facs = <<>> THEN Words1 ELSE Words2),
                k \in (IF facs = <<>> THEN Powers1 ELSE Powers2) :
          /\ phase = "factors" /\ Len(facs) < MaxFactors
          /\ facs' = Append(facs, [op |-> op, w |-> w, k |-> k])
          /\ last' = [NoLast EXCEPT !.kind = "addfactor", !.s = num \o FsChars(facs) \o FChars([op |-> op, w |-> w, k |-> k])]
          /\ UNCHANGED <<units, ndef, num, cur, phase>>

DoParse == /\ phase = "factors"
           /\ LET s == num \o FsChars(facs)
                  q == ParseStr(units, s)
              IN /\ (IsErr(q) \/ ~IsBad(q.val))            \* the model has an exact value (else: outside the explored space)
                 /\ cur' = q
                 /\ LET uq == UParse(UPyUnits, s)       \* the same characters through nutils.unit
                    IN last' = [QOut("parse", s, <<>>, q) EXCEPT !.uerr = IF IsErr(uq) THEN "ValueError" ELSE IF IsBad(uq.val) THEN "nomodel" ELSE "",
                                                              !.upw = IF IsErr(uq) THEN NoPowers ELSE uq.pw,
                                                              !.uval = IF IsErr(uq) \/ IsBad(uq.val) THEN SOne ELSE uq.val]
                 /\ phase' = IF IsErr(q) \/ DOMAIN q.pw = {} THEN "leaf" ELSE "parsed"
           /\ UNCHANGED <<units, ndef, num, facs>>

SpecOf(P, unit) == (IF P = -1 THEN <<>> ELSE <<".">> \o Digits(P)) \o unit
\* own = TRUE: format with the string's own unit (the round trip); otherwise (single-factor strings) with another unit string
DoFormat == \E own \in BOOLEAN : \E P \in (IF own /\ Len(facs) = 1 THEN Precs ELSE Precs2) : \E ou \in OtherUnits :
           /\ phase = "parsed" /\ facs # <<>>
           /\ (own => ou = CHOOSE x \in OtherUnits : TRUE)         \* (one successor for own = TRUE)
           /\ (~own => Len(facs) = 1)
           /\ LET unit == IF own THEN FsChars(facs) ELSE ou
                  spec == SpecOf(P, unit)
                  r == FormatQ(units, cur, spec)
              IN /\ r.kind # "inexact"
                 /\ last' = [NoLast EXCEPT !.kind = "format", !.s = num \o FsChars(facs), !.spec = spec, !.err = IF r.kind = "text" THEN "" ELSE r.kind,
                                           !.text = r.text, !.ok = own, !.pw = cur.pw, !.val = cur.val]
           /\ phase' = "leaf"
           /\ UNCHANGED <<units, ndef, num, facs, cur>>

Next == Define \/ DefineExtra \/ Start \/ AddFactor \/ DoParse \/ DoFormat
Spec == Init /\ [][Next]_vars

\* ------------------------------------------------------------- invariants
\* SI.py loads: every definition is accepted
DefsAccepted == last.kind = "define" => last.ok
\* after the last definition the flat dict is exactly what the physical table and the prefix table dictate
AllKeys == UNION {{u} \cup (IF AUnits[u].prefixable THEN {<<p>> \o u : p \in PrefixChars} ELSE {}) : u \in DOMAIN AUnits}
TableSound == (last.kind = "define" /\ ndef = Len(Defs)) =>
                /\ DOMAIN units = AllKeys
                /\ \A u \in DOMAIN AUnits :
                      /\ units[u] = QV(AUnits[u].pw, AUnits[u].val)
                      /\ AUnits[u].prefixable => \A p \in PrefixChars : units[<<p>> \o u] = QV(AUnits[u].pw, SMul(S(1, 1, Prefixes[p]), AUnits[u].val))
                /\ UniqueParse
\* parsing the characters gives what the tokens mean
ParseSound == last.kind = "parse" =>
                LET a == AParse(num, facs)
                IN IF IsErr(a) THEN last.err # ""
                   ELSE /\ last.err = "" /\ last.pw = a.pw
                        /\ (~IsBad(a.val) => last.val = a.val)
\* nutils.unit reads the same characters the same way whenever all units are in its table and all powers are integers
\* (its own rule: the whole word is a unit if such a unit exists, otherwise the first character is a prefix)
UReadable(f) == /\ f.k[2] = 1
                /\ Readings(f.w) # {}
                /\ (CHOOSE x \in Readings(f.w) : TRUE)[2] \in DOMAIN UPyUnits
                /\ (f.w \in DOMAIN UPyUnits => Readings(f.w) = {<<"", f.w>>})
UParseSound == (last.kind = "parse" /\ last.err = "" /\ \A i \in 1..Len(facs) : UReadable(facs[i])) =>
                  /\ last.uerr # "ValueError"
                  /\ (last.uerr = "" => last.upw = last.pw /\ last.uval = last.val)
\* format then parse gives the quantity back; with the string's own unit the text is the number itself
NumDecimals(n) == LET k == FirstIdx(n, ".") IN IF k = 0 THEN 0 ELSE Len(n) - k
RoundTrip == (last.kind = "format" /\ last.err = "" /\ last.ok) =>
                LET P == IF last.spec[1] = "." THEN NatOf(SubSeq(last.spec, 2, Len(last.spec) - Len(LStrip(last.spec, FmtChars)))) ELSE 6
                    back == ParseStr(units, last.text)
                    numval == IF num = <<>> THEN SOne ELSE FloatOf(num).val
                IN /\ ~IsErr(back) /\ back.pw = cur.pw
                   /\ (NumDecimals(num) <= P => back.val = cur.val /\ last.text = FixedOf(numval, P).text \o FsChars(facs))
\* formatting in a unit of another dimension is refused
FormatChecked == (last.kind = "format" /\ ~last.ok) =>
                   LET unit == LStrip(last.spec, FmtChars)
                       uq == ParseStr(units, unit)
                   IN (last.err = "DimensionError") <=> (~IsErr(uq) /\ Vec(uq.pw) # Vec(cur.pw))
\* the collision rule: a new name is refused iff the name or one of its prefixed forms is already a key
ExtraChecked == last.kind = "setattr" =>
                   (last.ok <=> (last.s \notin DOMAIN units /\ \A p \in PrefixChars : <<p>> \o last.s \notin DOMAIN units))

Emit == last.kind = "none" \/ PrintT(<<"VF", ToJson(last)>>)
\* (large runs: only the outcomes that are replayed, not the string-building steps)
EmitResults == last.kind \notin {"parse", "format", "setattr"} \/ PrintT(<<"VF", ToJson(last)>>)
=============================================================================
