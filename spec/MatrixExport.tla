---------------------------- MODULE MatrixExport ----------------------------
(***************************************************************************)
(* T-binding for C15: the CSR and COO exports of the real matrix objects   *)
(* (every backend, every matrix created while replaying the behaviours of  *)
(* MatrixADT) are loaded as a table and checked against the export         *)
(* contract of MatrixOps: the exported data is structurally sound, stores  *)
(* no cell twice, and denotes exactly the matrix the model predicts        *)
(* (explicit zeros may be stored or dropped, nothing else may differ).     *)
(*                                                                         *)
(* Table entry: [c |-> predicted cells, csr |-> [v, rp, ci, n],            *)
(*               coo |-> [v, ri, m, ci, n]] with values <<re, im>> scaled  *)
(* to the exponent of the prediction.  One TLC state per table entry.      *)
(***************************************************************************)
EXTENDS MatrixOps, IOUtils

Table == JsonDeserialize(IOEnv.VF_TABLE)
VARIABLE i
Init == i = 0
Next == i < Len(Table) /\ i' = i + 1
Spec == Init /\ [][Next]_i

CsrOK(r) == ExportCSROK(r.csr, r.c)
CooOK(r) == ExportCOOOK(r.coo, r.c)
Verdict(r) == [id |-> i, csr |-> CsrOK(r), coo |-> CooOK(r)]
Emit(x) == PrintT(<<"VF", ToJson(x)>>)
\* always TRUE; prints the entries that violate the contract
CheckEntry == (i > 0 /\ ~(CsrOK(Table[i]) /\ CooOK(Table[i]))) => Emit(Verdict(Table[i]))
Checked == i >= 0
=============================================================================
