\* random histories of 3 calls for the replay (simulation, seeded); the whole history is emitted with the model's results
SPECIFICATION SimSpec
CONSTANTS
  MaxCalls = 3
  MemoAlways = FALSE
  TopoIds = {"line3", "line4r", "line2s", "line4m", "rect32", "rect32r", "rect33m"}
  NTargetSets = 5
INVARIANT ImageOK
INVARIANT PickedContains
INVARIANT OutsideRaises
INVARIANT InsideLocated
INVARIANT MemoSound
CHECK_DEADLOCK FALSE
