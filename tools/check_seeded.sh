#!/bin/sh
# usage: tools/check_seeded.sh [seeded/<dir> ...]   (default: all)
# For every seeded change: apply patch.diff in a scratch worktree of /repo, run the demonstration
# (must fail with the patch), run the check(s) named in meta.json (quick, then thorough if quick misses), report.
here="$(cd "$(dirname "$0")/.." && pwd)"
cd "$here"
[ $# -eq 0 ] && set -- seeded/*/
for d in "$@"; do
  d="${d%/}"
  [ -f "$d/patch.diff" ] || continue
  pid=$(python3 -c "import json;print(json.load(open('$d/meta.json'))['property'])")
  checks=$(python3 -c "import json;m=json.load(open('$d/meta.json'));print(' '.join(m.get('checks',[m['property']])))")
  wt="/tmp/vf_seed_$$"
  git -C /repo worktree add --detach "$wt" >/dev/null 2>&1
  if ! git -C "$wt" apply "$here/$d/patch.diff" 2>/dev/null; then echo "$d: PATCH-DOES-NOT-APPLY"; git -C /repo worktree remove --force "$wt"; continue; fi
  demo="n/a"
  if [ -f "$d/demo.py" ]; then
    if PYTHONPATH="$wt/src" /venv/bin/python "$d/demo.py" >/dev/null 2>&1; then demo="demo-passes(!)"; else demo="demo-fails(ok)"; fi
  fi
  verdict="MISSED"
  for c in $checks; do
    for tier in quick thorough; do
      mkdir -p "$wt/.vfout"
      ( VF_REPO="$wt" VF_OUT="$wt/.vfout" ./check "$c" --tier "$tier" ) > "$wt/.vfout/log.$c.$tier" 2>&1
      rc=$?
      if [ $rc -eq 1 ]; then verdict="CAUGHT by $c/$tier: $(grep -m1 '^  key=' "$wt/.vfout/log.$c.$tier" | cut -c1-160)"; break 2; fi
      if [ $rc -ne 0 ]; then verdict="MACHINERY rc=$rc in $c/$tier"; cp "$wt/.vfout/log.$c.$tier" "/tmp/vf_seed_fail_$(basename $d).log"; break 2; fi
      [ "${SEEDED_QUICK_ONLY:-}" = 1 ] && break
    done
  done
  echo "$d [$pid]: $demo; $verdict"
  git -C /repo worktree remove --force "$wt" >/dev/null 2>&1; rm -rf "$wt"
done
