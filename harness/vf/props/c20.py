"""C20 -- Physical dimensions are tracked soundly (nutils.SI, nutils.unit).

Deciding method: TLA+ models checked by TLC and bound to the code.

  spec/Dimension.tla     rationals, exponent vectors (level A: what physics dictates, RuleOf/Physics) and the
                         code-shaped level I (powers dicts with zero stripping, canonical class names built and
                         parsed character by character, Dimension.__cache, the dispatchers of
                         Quantity.__DISPATCH_TABLE)
  spec/MCDimLaws.tla     abelian-group / homomorphism / name-injectivity laws of level I against level A (ASSUME)
  spec/DimMachine.tla    state machine of operator / NumPy arithmetic on quantities with exact rational values
  spec/DimFn.tla         programs of nutils function-array operations (grad, div, curl, laplace, jacobian,
                         curvature, integral, ...) on wrapped arrays
  spec/UnitGrammar.tla, UnitMachine.tla, SITables.tla
                         Units.__setattr__ (prefix expansion, collisions), SI.parse/_split_factors, format round
                         trip, Dimension.__call__, nutils.unit parsing -- characters (level I) against tokens and
                         the physical unit table (level A)
  spec/DimTable.tla, UnitTable.tla
                         (T) the live dispatch table (probed per entry) and the live unit dict against the models

Binding: S->C -- every transition / program / string outcome TLC generates is replayed on the real objects
(c20_num, c20_fn, c20_units) and compared with the model's prediction (class, powers, name, exact value,
rejection); T -- tables exported from the live code are checked by TLC.
"""

import concurrent.futures
import json
import os
import random
import time

from .. import tlc
from . import c20_num, c20_fn, c20_units

LEVEL = 'model_checking'
WORKROOT = os.path.join(tlc.WORK, 'c20')


def _cfg(name, **subst):
    'text of spec/<name> with `KEY <- value` / `KEY = value` lines replaced'
    text = open(os.path.join(tlc.SPEC, name)).read()
    out = []
    for line in text.splitlines():
        parts = line.split()
        if len(parts) >= 3 and parts[0] in subst and parts[1] in ('<-', '='):
            line = '  {} {} {}'.format(parts[0], parts[1], subst[parts[0]])
        out.append(line)
    return '\n'.join(out) + '\n'


def _no_emit(text):
    return '\n'.join(l for l in text.splitlines() if not l.startswith('CONSTRAINT Emit')) + '\n'


def _check_design(res, what):
    if res.violated:
        raise RuntimeError('design spec {} violates {}:\n{}'.format(what, res.violated, '\n'.join(res.error_trace[:60])))


def _actions(module):
    'names of the actions of a machine: the disjuncts of its Op / Next definition'
    text = open(os.path.join(tlc.SPEC, module + '.tla')).read()
    import re
    names = set()
    for defn in ('Op', 'Next'):
        m = re.search(r'^%s ==(.*?)(?=^\S)' % defn, text, re.S | re.M)
        if m:
            names |= set(re.findall(r'\b([A-Z][A-Za-z]+)\b', re.sub(r'\\\*.*', '', m.group(1))))
    return names - {'Op', 'MaxSteps', 'Len', 'UNCHANGED'}


def _need(what, have, want):
    missing = sorted(set(want) - set(have))
    if missing:
        raise RuntimeError('vacuity: {} never produced the outcome(s) {}'.format(what, missing))


def _vacuity(rep, res, module, taken):
    """Vacuity guard on action coverage.  TLC's -coverage mode runs out of memory on these specs (cost
    model of the nested RECURSIVE operators), so the count is taken from the generated states themselves:
    every state TLC generates carries the name of the action that produced it and is emitted."""
    names = _actions(module)
    if len(names) < 3:
        raise RuntimeError('cannot determine the actions of ' + module)
    zero = sorted(n for n in names if not taken.get(n))
    for n in names:
        res.coverage[n] = (taken.get(n, 0), taken.get(n, 0))
    if zero:
        raise RuntimeError('vacuity: actions of {} never taken: {}'.format(module, zero))


def run(rep):
    tier = rep.tier
    quick = tier == 'quick'
    rng = random.Random(rep.seed)
    seed = rep.seed
    os.makedirs(WORKROOT, exist_ok=True)
    ex = concurrent.futures.ThreadPoolExecutor(max_workers=8)
    jobs = {}        # future -> key
    handlers = {}    # key -> function(result)
    timing = rep.extra.setdefault('timing_s', {})
    t00 = time.time()

    def submit(key, handler, *args, **kwargs):
        # several JVMs run side by side: keep their GC / JIT thread pools small
        env = dict(kwargs.pop('env', {}), JAVA_TOOL_OPTIONS='-XX:ParallelGCThreads=2 -XX:CICompilerCount=2')
        jobs[ex.submit(tlc.run, *args, env=env, heap='2g', **kwargs)] = key
        handlers[key] = handler

    # ------------------------------------------------------------------ handlers
    def h_laws(key, res):
        rep.add_tlc(res, exhaustive=True)
        if res.postcondition_failed or res.violated:
            raise RuntimeError('algebraic laws of the dimension model do not hold (MCDimLaws):\n' + res.stdout[-2000:])

    def h_tdisp(key, res):
        rep.add_tlc(res, exhaustive=True)
        if res.violated == 'ModelOK':
            raise RuntimeError('model tables ImplFuncs / RuleFuncs disagree')
        info = res.emitted[-1] if res.emitted else None
        if info is None:
            raise RuntimeError('DimTable emitted nothing')
        for row in info['rows']:
            rep.violation('table:{}:{}'.format(row['f'], row['why']),
                          'live dispatch table entry {} does not follow the dimension rule of the model ({})'.format(row['f'], row['why']),
                          dict(row=[r for r in disp['rows'] if r['f'] == row['f']][:1]))
        for f in info['missing']:
            rep.violation('table:{}:missing'.format(f), 'function {} is in the model table but not in the live dispatch table'.format(f), None)
        for f in info['extra']:
            rep.violation('table:{}:unresolved'.format(f), 'live dispatch table key {} cannot be named'.format(f), None)
        if res.violated and not (info['rows'] or info['missing'] or info['extra']):
            raise RuntimeError('DimTable violated {} without a reason'.format(res.violated))
        if not all(info['nprobes']):
            raise RuntimeError('vacuity: a dispatch table row was compared on no probe')
        rep.extra['dispatch_entries_checked'] = len(disp['rows'])
        rep.extra['dispatch_probes_checked'] = sum(info['nprobes'])
        for r in disp['rows']:
            rep.case(('table', r['f'], r['disp']), nontrivial=True)
        rep.traces += len(disp['rows'])

    def h_tunit(key, res):
        rep.add_tlc(res, exhaustive=True)
        info = res.emitted[-1] if res.emitted else None
        if info is None:
            raise RuntimeError('UnitTable emitted nothing')
        # root-cause keys: a wrong unit taints its 19 prefixed forms, a wrong prefix taints every prefixed unit
        badkeys = {c20_num.py(row['key']): row['why'] for row in info['rows']}
        allkeys = {c20_num.py(r['key']) for r in urows}
        for k, why in sorted(badkeys.items()):
            base = k[1:] if len(k) > 1 and k[1:] in allkeys and k not in ('min', 'cd', 'mol', 'Pa', 'ha', 'day', 'au', 'kat', 'Gy', 'Hz', 'eV', 'Da') else None
            if base is None:
                rk = 'units:{}:{}'.format(k, why)
            elif base in badkeys:
                continue     # reported for the unit itself
            else:
                rk = 'units:prefix-{}:{}'.format(k[0], why)
            rep.violation(rk, 'live SI.units[{!r}] differs from the model table ({})'.format(k, why),
                          dict(row=[r for r in urows if c20_num.py(r['key']) == k][:1]))
        for k in info['missing']:
            rep.violation('units:{}:missing'.format(c20_num.py(k)), 'unit {!r} of the model table is not in the live SI.units'.format(c20_num.py(k)), None)
        if res.violated and not (info['rows'] or info['missing']):
            raise RuntimeError('UnitTable violated {} without a reason'.format(res.violated))
        rep.extra['unit_table_keys_checked'] = len(urows)
        rep.traces += len(urows)

    def h_num(exhaustive, vac=False):
        def handler(key, res):
            _check_design(res, key)
            if vac:
                taken = {}
                for e in res.emitted:
                    taken[e['act']] = taken.get(e['act'], 0) + 1
                taken['Absorb'] = res.generated - len(res.emitted)
                _vacuity(rep, res, 'DimMachine', taken)
                _need('DimMachine', {e['out']['kind'] for e in res.emitted}, ['q', 'plain', 'bool', 'meta', 'reject', 'noteq', 'none', 'qopaque'])
            rep.add_tlc(res, exhaustive=exhaustive)
            r = c20_num.Replayer(rep, 'num')
            es = res.emitted
            res.emitted, res.stdout = [], ''
            es.sort(key=lambda e: e['step'])
            for e in es:
                r.step(e)
                rep.case(c20_num.signature(e), nontrivial=True)
            rep.traces += len(es)
            if es:
                rep.sample(dict(kind='quantity arithmetic ({})'.format(key), transition=es[len(es) // 2]))
            rep.extra['transitions_replayed_' + key] = len(es)
            rep.extra['transitions_blocked_' + key] = r.blocked
        return handler

    ur = c20_units.UnitReplayer(rep)

    def h_unit(exhaustive, vac=False):
        def handler(key, res):
            _check_design(res, key)
            if vac:
                taken = {}
                names = dict(define='Define', setattr='DefineExtra', start='Start', addfactor='AddFactor', parse='DoParse', format='DoFormat')
                for e in res.emitted:
                    taken[names[e['kind']]] = taken.get(names[e['kind']], 0) + 1
                _vacuity(rep, res, 'UnitMachine', taken)
                _need('UnitMachine', {(e['kind'], e['err'], e['ok']) for e in res.emitted},
                      [('parse', '', True), ('parse', 'ValueError', True), ('format', '', True), ('format', '', False), ('format', 'DimensionError', False),
                       ('format', 'ValueError', False), ('setattr', '', True), ('setattr', 'collision', False), ('setattr', 'already defined', False)])
                _need('UnitMachine (nutils.unit)', {e['uerr'] for e in res.emitted if e['kind'] == 'parse'}, ['', 'ValueError'])
                _need('UnitMachine (dimensionless strings)', {bool(e['pw']) for e in res.emitted if e['kind'] == 'parse' and not e['err']}, [True, False])
            rep.add_tlc(res, exhaustive=exhaustive)
            es = [e for e in res.emitted if e['kind'] in ('parse', 'format', 'setattr')]
            res.emitted, res.stdout = [], ''
            order = {'parse': 0, 'format': 1, 'setattr': 2}
            es.sort(key=lambda e: order[e['kind']])
            n = 0
            for e in es:
                sig = c20_units.signature(e)
                if sig in seen_unit:
                    continue
                seen_unit.add(sig)
                ur.step(e)
                rep.case(sig, nontrivial=True)
                n += 1
            rep.traces += n
            if es:
                rep.sample(dict(kind='unit string ({})'.format(key), case={k: v for k, v in es[len(es) // 3].items() if k in ('kind', 's', 'spec', 'err', 'text', 'name')}))
            rep.extra['unit_cases_replayed_' + key] = n
        return handler

    seen_unit = set()
    fr = c20_fn.FnReplayer(rep, rng, 0)

    def h_fn(exhaustive, vac=False, budget=None, numeric=40):
        def handler(key, res):
            _check_design(res, key)
            if vac:
                taken = {}
                for e in res.emitted:
                    a = e['prog'][-1]['act']
                    taken[a] = taken.get(a, 0) + 1
                _vacuity(rep, res, 'DimFn', taken)
                _need('DimFn', {e['prog'][-1]['out']['kind'] for e in res.emitted}, ['q', 'plain', 'reject', 'undef', 'dict', 'sample'])
            rep.add_tlc(res, exhaustive=exhaustive)
            es = res.emitted
            res.emitted, res.stdout = [], ''
            es.sort(key=lambda e: (len(e['prog']), json.dumps(e['prog'], sort_keys=True), e['nd'], json.dumps(e['init'])))
            one = [e for e in es if len(e['prog']) == 1]
            more = [e for e in es if len(e['prog']) > 1]
            if budget is not None and len(more) > budget:
                more = rng.sample(more, budget)
            chosen = one + more
            pnum = min(1., numeric / max(1, len(chosen)))
            for e in chosen:
                fr.run(e, rng.random() < pnum or (len(e['prog']) == 1 and rng.random() < .1))
                rep.case(c20_fn.signature(e), nontrivial=True)
            rep.traces += len(chosen)
            if chosen:
                e = chosen[-1]
                rep.sample(dict(kind='function-array program ({})'.format(key), nd=e['nd'], init=[''.join(o['dim']) for o in e['init']],
                                prog=[(s['f'], s['a'], ''.join(s['out']['dim']) or s['out']['kind']) for s in e['prog']]))
            rep.extra['programs_replayed_' + key] = len(chosen)
            rep.extra['programs_generated_' + key] = len(es)
        return handler

    def h_modelonly(key, res):
        _check_design(res, key)
        rep.add_tlc(res, exhaustive=True)

    # ------------------------------------------------------------------ T: export the live tables
    tdisp = os.path.join(WORKROOT, 'dispatch.json')
    tunit = os.path.join(WORKROOT, 'units.json')
    urows = c20_units.export_units()
    with open(tunit, 'w') as f:
        json.dump(urows, f)

    # ------------------------------------------------------------------ launch TLC (longest first)
    submit('unit', h_unit(True, vac=True), 'MCUnitMachine', 'MCUnitMachine.cfg', tag='c20-unit', workers=8, deadlock=False)
    submit('num', h_num(True, vac=True), 'MCDimMachine', 'MCDimMachine.cfg', tag='c20-num', workers=8, deadlock=False)
    simcfg = _cfg('MCDimMachine.cfg', Pows='MCPowsThorough', MaxSteps=6, FullSteps=6, LeafDedup='FALSE')
    submit('numsim', h_num(False), 'MCDimMachine', cfg_text=simcfg, tag='c20-numsim', workers=2 if quick else 4, deadlock=False,
           simulate=dict(num=2 if quick else 16), depth=13, seed=seed)
    submit('fn', h_fn(True, vac=True, budget=1500 if quick else None, numeric=40 if quick else 600), 'MCDimFn', 'MCDimFn.cfg', tag='c20-fn', workers=4, deadlock=False)
    submit('laws', h_laws, 'MCDimLaws', cfg_text=_cfg('MCDimLaws.cfg', ExpSet='ExpQuick' if quick else 'ExpThorough'), tag='c20-laws', workers=1, deadlock=False)
    submit('tunit', h_tunit, 'UnitTable', 'UnitTable.cfg', tag='c20-tunit', workers=1, deadlock=False, env=dict(VF_TABLE=tunit))
    disp = c20_units.export_dispatch()       # (while the JVMs start)
    with open(tdisp, 'w') as f:
        json.dump(disp, f)
    submit('tdisp', h_tdisp, 'DimTable', 'DimTable.cfg', tag='c20-tdisp', workers=1, deadlock=False, env=dict(VF_TABLE=tdisp))
    if not quick:
        submit('num2', h_num(True), 'MCDimMachine', cfg_text=_cfg('MCDimMachine.cfg', FullSteps=2), tag='c20-num2', workers=6, deadlock=False)
        submit('num4', h_num(True), 'MCDimMachine', cfg_text=_cfg('MCDimMachine.cfg', BaseOrd='MCBaseOrd4', Seeds='MCSeedsThorough', Pows='MCPowsThorough', MaxSteps=1),
               tag='c20-num4', workers=2, deadlock=False)
        submit('numsim4', h_num(False), 'MCDimMachine', cfg_text=_cfg('MCDimMachine.cfg', BaseOrd='MCBaseOrd4', Seeds='MCSeedsThorough', Pows='MCPowsThorough',
                                                                      MaxSteps=5, FullSteps=5, LeafDedup='FALSE'),
               tag='c20-numsim4', workers=3, deadlock=False, simulate=dict(num=9), depth=11, seed=seed + 1)
        submit('fn2', h_fn(True, budget=20000, numeric=400), 'MCDimFn', cfg_text=_cfg('MCDimFn.cfg', Inits='MCInitsThorough'), tag='c20-fn2', workers=4, deadlock=False)
        submit('fn3', h_modelonly, 'MCDimFn', cfg_text=_no_emit(_cfg('MCDimFn.cfg', Inits='MCInitsDeep', MaxSteps=3)), tag='c20-fn3', workers=6, deadlock=False, timeout=1500)
        results_only = lambda text: text.replace('CONSTRAINT Emit', 'CONSTRAINT EmitResults')
        submit('unit2', h_unit(True), 'MCUnitMachine', cfg_text=results_only(_cfg('MCUnitMachine.cfg', Numbers='MCNumbersThorough', Words1='MCWords1',
                                                                                  Powers1='MCPowers1', Precs='MCPrecs', Precs2='MCPrecs2Thorough')),
               tag='c20-unit2', workers=8, deadlock=False, timeout=1500)
        submit('unit3', h_unit(True), 'MCUnitMachine', cfg_text=results_only(_cfg('MCUnitMachine.cfg', Words1='MCWords3', Words2='MCWords3', Powers1='MCPowers3',
                                                                                  Powers2='MCPowers3', MaxFactors=3)),
               tag='c20-unit3', workers=6, deadlock=False, timeout=1500)

    # ------------------------------------------------------------------ consume the results as they arrive
    try:
        for fut in concurrent.futures.as_completed(list(jobs)):
            key = jobs[fut]
            res = fut.result()
            t = time.time()
            handlers[key](key, res)
            timing[key] = dict(tlc_wall=round(res.wall, 1), handled_in=round(time.time() - t, 1), done_at=round(time.time() - t00, 1))
    finally:
        ex.shutdown(wait=False, cancel_futures=True)

    rep.extra['fn_numeric_evaluations'] = fr.numeric_done
    rep.extra['fn_numeric_skipped'] = fr.numeric_skipped
    rep.extra['fn_programs_not_meaningful_on_plain_arrays'] = fr.plain_raises
    rep.extra['fn_programs_blocked_by_earlier_failure'] = fr.blocked
    rep.extra['unitpy_cases'] = ur.nupy
    rep.constants['DimMachine'] = dict(bases='L,M,T (+theta thorough)', seeds='7 (12 thorough)', MaxSteps='2 exhaustive; 6 in simulation', MaxVal=10000)
    rep.constants['DimFn'] = dict(inits='4 (9 thorough)', MaxSteps='2 (3 model-only thorough)', space_dims='2,3')
    rep.constants['UnitMachine'] = dict(MaxFactors='2 (3 with a small alphabet, thorough)', words='26 / 54', precisions='default,0,2 (0,1,3 thorough)')
    rep.constants['MCDimLaws'] = dict(universe='exponents {-2,-1/2,0,1}^3 quick, {-2,-1,-1/2,0,1/2,1,2}^3 thorough')
    rep.rule = ('cases = distinct (function, operand classes and shapes, parameter, predicted outcome) of replayed quantity transitions '
                '+ distinct function-array programs + distinct unit strings / format specs / unit definitions + live table rows')
    rep.assumptions += [
        'values in the numeric model are exact rationals (scalars and 2-vectors); operations whose exact value the model cannot express (inexact roots, |n|,d > 10^4) are not explored',
        'refusal of == / != between different dimensions may take the form of the constant answer False / True (Python falls back to identity comparison when __eq__ returns NotImplemented); any other mismatch must raise TypeError/DimensionError (ValueError is accepted where NumPy hands the call to nutils.function first)',
        'function-array values are compared with the same program on the unwrapped arrays (the reference the property itself names) on one curved 2D/3D mesh; the model decides classes and rejections',
        'jacobian(geom) without ndims has no statically known dimension: the model demands that it does not return a value',
        'Topology.locate: the default tol=0 is a dimensionless number and is refused like any other dimensionless tol when the geometry is dimensional (modelled as the code does; observation, not judged)',
        'unit strings: number literals without exponent; powers p or p_q with q in {1,2,3}; float noise below 1e-12 relative is ignored; format precision cases avoid exact rounding ties',
        'action coverage is counted from the emitted states (TLC -coverage runs out of memory on the nested RECURSIVE operators of these specs)',
    ]
