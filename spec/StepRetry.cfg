\* both variants (conf.rep): the demanded design must satisfy Advance / Tiling; every complete behaviour of
\* both variants is emitted for the S->C replay
SPECIFICATION Spec
CONSTANTS
  MaxRetrySet = {0, 1, 2}
  TimeDeps = {TRUE, FALSE}
  MaxCalls = 7
  Variants = {TRUE, FALSE}
  Emitting = TRUE
INVARIANT Advance
INVARIANT Tiling
INVARIANT EachSolve
INVARIANT Depth
INVARIANT NoRetryWithoutTime
INVARIANT EmitTerminal
CHECK_DEADLOCK FALSE
