"""C18, cache.Recursion part: design check of CacheRec + C->S validation of
real (sequential and concurrent, killed, corrupted) iteration histories."""

import json
import os
import shutil
import signal
import time

from .. import tlc
from . import c18 as base

MOD = 1000003


def true_seq(n, H, seed):
    out = []
    for i in range(n):
        h = out[-H:] if H else []
        out.append((i, (31 * sum(x for _, x in h) + 7 + seed) % MOD))
    return out


_mode = dict(kind='to_end', at=-1)


def make_rec(H, N):
    from nutils import cache
    import treelog

    class Rec(cache.Recursion, length=H):
        def __init__(self, n, seed):
            self.n = n
            self.seed = seed

        def resume(self, history):
            lg = base._cur[0]
            history = list(history)
            while True:
                i = history[-1][0] + 1 if history else 0
                if i >= self.n:
                    lg.ev('r_compute', i=self.n)
                    treelog.info('done')
                    return
                if _mode['kind'] == 'raise' and _mode['at'] == i:
                    lg.ev('r_raise')
                    raise base.Boom('resume failed')
                if _mode['kind'] == 'kill_compute' and _mode['at'] == i:
                    os.kill(os.getpid(), signal.SIGKILL)
                lg.ev('r_compute', i=i)
                h = history[-H:] if H else []
                v = (i, (31 * sum(x[1] for x in h) + 7 + self.seed) % MOD)
                treelog.info('item {}'.format(i))
                if _mode['kind'] == 'kill_dump' and _mode['at'] == i:
                    base.Killer.armed = True
                yield v + (bytes(range(256)) * 600, base.Killer(), 'x')
                history.append(v)
    Rec.__qualname__ = 'Rec{}'.format(H)
    return Rec


def _child_run(fd, p, cachedir, H, N, seed, kind, at, start_at):
    import treelog
    from nutils import cache
    lg = base.EvLog(fd, p)
    base._cur[0] = lg
    _mode.update(kind=kind, at=at)
    Rec = make_rec(H, N)
    truth = true_seq(N, H, seed)
    while time.time() < start_at:
        pass
    with treelog.set(lg), cache.enable(cachedir):
        it = iter(Rec(N, seed))
        k = 0
        try:
            while True:
                if kind == 'stop_after' and k == at:
                    if k:  # a consumer that never asked for an item never started the generator
                        lg.ev('consumer_stop')
                    break
                try:
                    v = next(it)
                except StopIteration:
                    ok = k == N and lg.infos == ['item {}'.format(i) for i in range(N)] + ['done']
                    lg.ev('stop', ok=ok)
                    break
                ok = k < N and tuple(v[:2]) == truth[k] and lg.infos == ['item {}'.format(i) for i in range(k + 1)]
                lg.ev('yield', ok=ok, i=k)
                k += 1
        except base.Boom:
            lg.ev('raised')
    os._exit(0)


def _reap(fd, pids, timers):
    killed = []
    pending = dict(pids)
    while pending:
        now = time.time()
        for pid, t in list(timers.items()):
            if now >= t and pid in pending:
                try:
                    os.kill(pid, signal.SIGKILL)
                except ProcessLookupError:
                    pass
                del timers[pid]
        pid, status = os.waitpid(-1, os.WNOHANG)
        if pid == 0:
            time.sleep(0.0005)
            continue
        p = pending.pop(pid)
        if os.WIFSIGNALED(status):
            killed.append(p)
            os.write(fd, (json.dumps(dict(p=p, ev='killed', ok=True)) + '\n').encode())
        elif os.WEXITSTATUS(status) != 0:
            os.write(fd, (json.dumps(dict(p=p, ev='childerror', ok=False)) + '\n').encode())
    return killed


def run_history(rng, workdir, H, N, sid):
    cachedir = os.path.join(workdir, 'r{}'.format(sid))
    shutil.rmtree(cachedir, ignore_errors=True)
    os.makedirs(cachedir)
    evpath = cachedir + '.events'
    fd = os.open(evpath, os.O_WRONLY | os.O_CREAT | os.O_TRUNC | os.O_APPEND)
    seed = rng.randrange(1000)
    nphases = rng.choice([2, 3, 4])
    p = 0
    killed = []
    plan = []
    for phase in range(nphases):
        conc = rng.choice([1, 1, 2])
        start_at = time.time() + 0.01
        pids, timers = {}, {}
        for _ in range(conc):
            p += 1
            kind = rng.choice(['to_end', 'to_end', 'stop_after', 'stop_after', 'kill_compute', 'kill_dump', 'raise', 'kill_timer'])
            at = rng.randrange(0, N + 1) if kind == 'stop_after' else rng.randrange(0, N)
            if N > 10:  # "infinite" sequence: everything happens early and runs are stopped by the consumer
                at = rng.randrange(0, 5)
                if kind == 'to_end':
                    kind, at = 'stop_after', rng.randrange(0, 6)
            plan.append((phase, p, kind, at))
            pid = os.fork()
            if pid == 0:
                try:
                    _child_run(fd, p, cachedir, H, N, seed, 'to_end' if kind == 'kill_timer' and N <= 10 else ('stop_after' if kind == 'kill_timer' else kind),
                               5 if kind == 'kill_timer' and N > 10 else at, start_at)
                finally:
                    os._exit(3)
            pids[pid] = p
            if kind == 'kill_timer':
                timers[pid] = start_at + rng.choice([0.0005, 0.002, 0.004, 0.008, 0.02])
        killed += _reap(fd, pids, timers)
        if rng.random() < 0.4:
            # corrupt one stored item between phases
            d = [x for x in os.listdir(cachedir)]
            if d:
                sub = os.path.join(cachedir, d[0])
                items = sorted(os.listdir(sub))
                if items:
                    it = rng.choice(items)
                    kind = rng.choice(['empty', 'junk'])
                    with open(os.path.join(sub, it), 'wb') as fh:
                        if kind == 'junk':
                            fh.write(rng.choice([b'\x00' * 20, b'not a pickle', b'\x00' * 5000]))
                    os.write(fd, (json.dumps(dict(p=0, ev='corrupt', ok=True, i=int(it), kind=kind)) + '\n').encode())
    # final crash-free complete (or 6-item) run
    p += 1
    pid = os.fork()
    if pid == 0:
        try:
            _child_run(fd, p, cachedir, H, N, seed, 'to_end' if N <= 10 else 'stop_after', 6, 0)
        finally:
            os._exit(3)
    _reap(fd, {pid: p}, {})
    os.close(fd)
    events = [json.loads(line) for line in open(evpath)]
    for e in events:
        e.setdefault('i', -1)
        e.setdefault('kind', '')
    shutil.rmtree(cachedir, ignore_errors=True)
    os.unlink(evpath)
    return dict(H=H, N=N, killed=killed, events=events, plan=plan)


def design(rep):
    for cfg in ('MCCacheRec.cfg', 'MCCacheRec_h2.cfg'):
        res = tlc.run('CacheRec', cfg, tag='c18-' + cfg, coverage=(cfg == 'MCCacheRec.cfg'), deadlock=False)
        rep.add_tlc(res, exhaustive=True)
        if res.violated:
            raise RuntimeError('design spec CacheRec violates {} under {}'.format(res.violated, cfg))
    zero = [a for a, n in rep.actions.items() if n == 0]
    if zero:
        raise RuntimeError('vacuity: actions never taken: {}'.format(zero))
    rep.constants['CacheRec'] = dict(Procs='2 (H=1,N=2) / 1 (H=2,N=3)', PLen=2, MaxCrash='1-2', MaxRuns='3-4', MaxCorrupt='1-2')


def conformance(rep, rng):
    nper = 12 if rep.tier == 'quick' else 120
    wd = os.path.join(base.WORKROOT, 'rec')
    os.makedirs(wd, exist_ok=True)
    total = 0
    for H, N in ((1, 3), (2, 4), (2, 40), (3, 5)):
        traces = [run_history(rng, wd, H, N, sid) for sid in range(nper)]
        path = os.path.join(wd, 'TraceCacheRec_{}_{}.json'.format(H, N))
        with open(path, 'w') as f:
            json.dump(traces, f)
        res = tlc.run('TraceCacheRec', 'TraceCacheRec.cfg', tag='c18-tracerec-{}-{}'.format(H, N), workers=1,
                      env=dict(VF_TRACE=path, VF_N=N, VF_H=H), deadlock=False, timeout=1800)
        rep.add_tlc(res)
        rejected = {}
        if res.violated:
            tid = None
            for line in res.error_trace:
                if line.startswith('/\\ tid = '):
                    tid = int(line.split('=')[1])
            rejected[tid] = 'invariant ' + res.violated
        for e in res.emitted:
            rejected[e['tid']] = 'rejected after {} of {} events'.format(e['matched'], e['len'])
        for tid, why in rejected.items():
            t = traces[tid - 1] if tid else None
            nxt = None
            if t and 'rejected after' in why:
                m = int(why.split()[2])
                nxt = t['events'][m]['ev'] if m < len(t['events']) else None
            rep.violation('rec-trace:{}:{}'.format(why.split(' after')[0], nxt), 'recorded execution of cache.Recursion (H={}, N={}) is not a behaviour of CacheRec: {} (next event {})'.format(H, N, why, nxt), t)
        rep.traces += len(traces) - len(rejected)
        total += len(traces)
        for t in traces:
            rep.case(('rec', H, N, tuple(t['plan']), tuple((e['p'], e['ev'], e['i']) for e in t['events'])), nontrivial=len(t['plan']) >= 2)
        if H == 2 and N == 4:
            rep.sample(dict(kind='cache.Recursion history', H=H, N=N, plan=traces[0]['plan'], killed=traces[0]['killed'],
                            events=[(e['p'], e['ev'], e['i']) for e in traces[0]['events']][:60]))
    rep.extra['rec_histories'] = total
