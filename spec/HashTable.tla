------------------------------ MODULE HashTable ------------------------------
(***************************************************************************)
(* C17, binding of Hash/HashSem to the real code (mechanism T + S->C):     *)
(* the harness materialises every value that the design run emitted (and   *)
(* exports the structure of real nutils objects: transform / reference     *)
(* sequences, samples, evaluable expressions, array data), computes        *)
(* types.nutils_hash on the live objects -- in this process, in fresh      *)
(* interpreters with other PYTHONHASHSEEDs, after a pickle round trip,     *)
(* after a cross-process pickle round trip, after rebuilding -- and        *)
(* writes a table                                                          *)
(*    [classes |-> extra class table, ncols |-> n,                         *)
(*     rows |-> << [t |-> term, h |-> <<digest ids, one per column>>] >>]  *)
(* (digest ids are small integers, equal ids = equal 20-byte digests,      *)
(* 0 = not available).  TLC evaluates on the table, with Canon computed    *)
(* here from the term:                                                     *)
(*                                                                         *)
(*   RealInjective: equal digests  => equal Canon      (all pairs)         *)
(*   RealStable:    equal Canon    => equal digests    (all pairs)         *)
(*   RealRoutes:    every other column equals column 1 (seeds, pickle ..)  *)
(*   ModelMatch:    (observation) the equality pattern of the real digests *)
(*                  is the equality pattern of Enc: binds the              *)
(*                  transcription of nutils_hash in HashSem to the code.   *)
(* Run with -continue: every violating row emits its partners.             *)
(***************************************************************************)
EXTENDS HashSem, Json, IOUtils

VARIABLE i

ASSUME TLCSet(20, JsonDeserialize(IOEnv.VF_TABLE))
Data == TLCGet(20)
\* cfg: ExtraClasses <- TableClasses (a constant substitution is evaluated before any ASSUME, hence no register here)
TableClasses == JsonDeserialize(IOEnv.VF_TABLE).classes
Rows == Data.rows
N == Len(Rows)
NC == Data.ncols

ASSUME /\ TLCSet(12, [j \in 1..N |-> Enc(Rows[j].t)] \o <<>>)
       /\ TLCSet(13, [j \in 1..N |-> Canon(Rows[j].t)] \o <<>>)
       /\ TLCSet(14, [j \in 1..N |-> Rows[j].h[1]] \o <<>>)
EncS == TLCGet(12)
CanS == TLCGet(13)
H1 == TLCGet(14)

Init == i = 0
Next == i = 0 /\ i' \in 1..N
Spec == Init /\ [][Next]_i

EmitVF(x) == PrintT(<<"VF", ToJson(x)>>)
Report(name, bad) == bad = {} \/ (EmitVF([inv |-> name, i |-> i, js |-> SetToSeq(bad)]) /\ FALSE)
Observe(name, bad) == bad = {} \/ EmitVF([inv |-> name, i |-> i, js |-> SetToSeq(bad)])

\* pairs are visited once: partner j > i
RealInjective == i = 0 \/ H1[i] = 0 \/
    Report("RealInjective", {j \in (i+1)..N : H1[j] = H1[i] /\ CanS[j] # CanS[i] /\ ~Grey(Rows[i].t, Rows[j].t)})

RealStable == i = 0 \/ H1[i] = 0 \/
    Report("RealStable", {j \in (i+1)..N : H1[j] # 0 /\ CanS[j] = CanS[i] /\ H1[j] # H1[i]})

RealRoutes == i = 0 \/ H1[i] = 0 \/
    Report("RealRoutes", {c \in 2..NC : Rows[i].h[c] # 0 /\ Rows[i].h[c] # H1[i]})

ModelMatch == i = 0 \/ H1[i] = 0 \/
    Observe("ModelMatch", {j \in (i+1)..N : H1[j] # 0 /\ ((H1[j] = H1[i]) # (EncS[j] = EncS[i]))})

RealGrey == i = 0 \/ H1[i] = 0 \/
    Observe("RealGrey", {j \in (i+1)..N : H1[j] = H1[i] /\ CanS[j] # CanS[i] /\ Grey(Rows[i].t, Rows[j].t)})

\* strict evaluation of all clauses (see Hash!Judge)
Judge == LET r == <<RealInjective, RealStable, RealRoutes, ModelMatch, RealGrey>> IN r[1] /\ r[2] /\ r[3] /\ r[4] /\ r[5]
=============================================================================
