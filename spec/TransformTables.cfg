SPECIFICATION Spec
INVARIANT CheckEntry
INVARIANT Counted
CHECK_DEADLOCK FALSE
