\* random longer behaviours (simulation): 3 allocations, 6 arrays
SPECIFICATION SimSpec
CONSTANTS
  MaxBufs = 3
  Addrs = {1, 2}
  Items = {1, 2}
  MaxViews = 6
  MaxOps = 12
  MaxVer = 1
  UseKinds = {"even", "head", "headT", "odd", "mid", "tail", "rev"}
  FirstFit = FALSE
  KeyStrides = TRUE
  Finalizer = TRUE
  CheckBases = TRUE
INVARIANT TypeOK
INVARIANT Transparent
INVARIANT EntriesFresh
INVARIANT KeysDistinct
INVARIANT NoLeak
CHECK_DEADLOCK FALSE
