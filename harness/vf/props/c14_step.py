"""C14, time steps: S->C binding of spec/StepRetry.tla.

Every complete behaviour of the model (maxretry, does the system depend on
time, the oracle's outcome of each self.solve call, and the model's prediction
of the (t0, t, dt) each call sees, the final time and the Advance/Tiling
verdict) is replayed on the REAL System.step / System.solve of a real nutils
System for du/dt = 1; only the outcome of the individual solves is scripted (a
method= callable that either raises the scripted exception or delegates to the
real Direct method).
"""

import warnings

import numpy

from .c14_proto import ScriptMismatch, _NULL


class Other(KeyError):
    'an exception that step does not catch'


def replay(beh, variant=0):
    import treelog
    from nutils import function, solver, matrix
    conf = beh['conf']
    codes = [c[3] for c in beh['calls']]
    unit = beh['unit']
    timestep = (1., .5, 2.)[variant % 3]
    T0 = (0., .75)[(variant // 3) % 2]
    U0 = 1.25
    dtonly = conf['timedep'] and (variant // 6) % 3 == 2     # timearg=None, timesteparg='dt'
    u, v, u0 = function.field('u'), function.field('v'), function.field('u0')
    t, dt = function.field('t'), function.field('dt')
    if conf['timedep']:
        res = ((u - u0) / dt - 1 + (0 if dtonly else 0 * t)) * v
    else:
        res = (u - u0 - 1) * v
    seen = []
    pos = [0]

    class Scripted:
        def __str__(self):
            return 'scripted'

        def __call__(self, system, *, arguments, constrain):
            if pos[0] >= len(codes):
                raise ScriptMismatch('step calls solve {} times, the model {} times'.format(pos[0] + 1, len(codes)))
            code = codes[pos[0]]
            pos[0] += 1
            seen.append((float(arguments['t0']) if 't0' in arguments else None,
                         float(arguments['t']) if 't' in arguments else None,
                         float(arguments['dt']) if 'dt' in arguments else None,
                         float(arguments['u0']), code))
            if code == 1:
                return solver.Direct()(system, arguments=arguments, constrain=constrain)
            if code == 0:
                raise solver.SolverError('scripted')
            if code == 2:
                raise matrix.MatrixError('scripted')
            raise Other('scripted')

    out = dict(outcome=None, detail='')
    with warnings.catch_warnings(), numpy.errstate(all='ignore'), treelog.set(_NULL):
        warnings.simplefilter('ignore')
        system = solver.System(res, trial='u', test='v')
        args = dict(u=numpy.array(U0))
        if not dtonly:
            args['t'] = T0
        kw = dict(arguments=args, suffix='0', timestep=timestep, maxretry=conf['maxretry'], method=Scripted())
        if not dtonly:
            kw['timearg'] = 't'
        if conf['timedep'] or variant % 2:
            kw['timesteparg'] = 'dt'
        try:
            ret = system.step(**kw)
            out['outcome'] = 'return'
        except ScriptMismatch as e:
            out.update(outcome='mismatch', detail=str(e))
            return out
        except Other:
            out['outcome'] = 'Other'
        except solver.SolverError:
            out['outcome'] = 'SolverError'
        except matrix.MatrixError:
            out['outcome'] = 'MatrixError'
        except Exception as e:
            out.update(outcome=type(e).__name__, detail=repr(e)[:200])
    out['seen'] = seen
    out['consumed'] = pos[0]
    h = timestep / unit
    out['h'], out['T0'], out['dtonly'], out['timestep'] = h, T0, dtonly, timestep
    if out['outcome'] == 'return':
        out['time'] = None if dtonly else float(ret['t'])
        out['u'] = float(ret['u'])
        # independent verdict: time advanced by exactly timestep, successful solves tile [T0, T0+timestep], u integrated du/dt=1
        ok = [s for s in seen if s[4] == 1]
        if conf['timedep']:
            good = bool(ok) and out['u'] == U0 + timestep
        else:
            good = bool(ok) and out['u'] == U0 + 1
        if not dtonly:
            good = good and out['time'] == T0 + timestep and ok[0][0] == T0 and ok[-1][1] == T0 + timestep \
                and all(a[1] == b[0] for a, b in zip(ok, ok[1:]))
        out['cert'] = bool(good)
    return out


def conforms(beh, out):
    """does the observation equal the model behaviour beh (calls, outcome, final time)?"""
    if out['outcome'] != beh['outcome'] or out.get('consumed') != len(beh['calls']):
        return False
    h, T0 = out['h'], out['T0']
    for (t0, lt, dt, code), s in zip(beh['calls'], out['seen']):
        if s[4] != code:
            return False
        if s[2] is not None and s[2] != dt * h:
            return False
        if not out['dtonly'] and (s[0] != T0 + t0 * h or s[1] != T0 + lt * h):
            return False
    if out['outcome'] == 'return' and not out['dtonly'] and out['time'] != T0 + beh['time'] * h:
        return False
    return True
