"""C18 -- Disk memoisation is transparent and crash-tolerant.

Deciding method: TLA+ models CacheFn (cache.function) and CacheRec
(cache.Recursion) checked exhaustively by TLC; bound to the code by
 (a) C->S trace validation: real concurrent/killed processes, events are the
     treelog.debug lines of cache.py, validated by TraceCacheFn/TraceCacheRec;
 (b) S->C replay: every file state reachable in the model is realised on a real
     cache file (every byte prefix, junk tails, chimeras of two writers) and the
     model's prediction (load vs recompute, value, log) compared with the code;
     TLC-generated partial-run histories of Recursion are replayed likewise.
"""

import json
import os
import pickle
import random
import shutil
import signal
import sys
import time

from .. import tlc

LEVEL = 'model_checking'
WORKROOT = os.path.join(tlc.WORK, 'c18')


# ---------------------------------------------------------------------------
# event logging shared by forked children: one os.write per event on an
# O_APPEND descriptor opened before the fork; the file order is the global order

class EvLog:
    def __init__(self, fd, p):
        self.fd = fd
        self.p = p
        self.infos = []

    def ev(self, name, ok=True, **kw):
        rec = dict(p=self.p, ev=name, ok=bool(ok))
        rec.update(kw)
        os.write(self.fd, (json.dumps(rec) + '\n').encode())

    # treelog protocol
    def pushcontext(self, title): pass
    def popcontext(self): pass
    def recontext(self, title): pass

    def write(self, msg, level):
        msg = str(msg)
        if msg.startswith('[cache.function'):
            if msg.endswith('acquiring lock'):
                self.ev('acquiring')
            elif msg.endswith('lock acquired'):
                self.ev('acquired')
            elif 'failed to load' in msg:
                self.ev('failed')
            elif msg.endswith('] load'):
                self.ev('load')
            elif msg.endswith('] store'):
                self.ev('store')
            else:
                self.ev('unknown:' + msg)
        elif msg.startswith('[cache.Recursion'):
            # '[cache.Recursion <hkey>.<i>] what'
            head, what = msg.split('] ', 1)
            idx = head.rsplit('.', 1)[1] if '.' in head.split(' ')[-1] else None
            i = int(idx) if idx is not None and idx.isdigit() else -1
            if what == 'start iterating':
                self.ev('r_start')
            elif what == 'acquiring lock':
                self.ev('r_acquiring', i=i)
            elif what == 'lock acquired':
                self.ev('r_acquired', i=i)
            elif what.startswith('failed to load'):
                self.ev('r_failed', i=i)
            elif what == 'cache exhausted':
                self.ev('r_exhausted', i=i)
            elif what == 'load':
                self.ev('r_load', i=i)
            elif what == 'store':
                self.ev('r_store', i=i)
            else:
                self.ev('unknown:' + msg)
        else:
            self.infos.append(msg)


class Boom(RuntimeError):
    pass


class Killer:
    'pickles fine, but kills the pickling process when armed'
    armed = False

    def __reduce__(self):
        if Killer.armed:
            os.kill(os.getpid(), signal.SIGKILL)
        return (Killer, ())

    def __eq__(self, other):
        return isinstance(other, Killer)

    def __hash__(self):
        return 1


_behaviour = dict(sleep=0.0, fail=None)
_cur = [None]     # current EvLog in this process
_ncalls = [0]


def _payload(x):
    import numpy
    big = bytes(range(256)) * 1200  # ~300 kB: written through the buffered writer before Killer is reached
    return (x * 2, ('nested', numpy.arange(5) * x, {'k': 1.5}), big, Killer(), 'tail' * 10)


def _make_cached():
    from nutils import cache
    import treelog

    @cache.function
    def cached_f(x, tag='t'):
        lg = _cur[0]
        _ncalls[0] += 1
        if lg:
            lg.ev('compute_start')
        treelog.info('computing f({})'.format(x))
        if _behaviour['sleep']:
            time.sleep(_behaviour['sleep'])
        if _behaviour['fail'] == 'raise':
            if lg:
                lg.ev('compute_raise')
            raise Boom('func failed')
        if _behaviour['fail'] == 'kill_compute':
            os.kill(os.getpid(), signal.SIGKILL)
        with treelog.context('sub'):
            treelog.user('result ready')
        if lg:
            lg.ev('compute_end')
        if _behaviour['fail'] == 'kill_dump':
            Killer.armed = True
        return _payload(x)
    return cached_f


EXPECTED_INFOS = ['computing f(3)', 'result ready']


def _same(a, b):
    import numpy
    if isinstance(a, tuple) and isinstance(b, tuple):
        return len(a) == len(b) and all(_same(x, y) for x, y in zip(a, b))
    if isinstance(a, dict) and isinstance(b, dict):
        return a.keys() == b.keys() and all(_same(a[k], b[k]) for k in a)
    if isinstance(a, numpy.ndarray) or isinstance(b, numpy.ndarray):
        return isinstance(a, numpy.ndarray) and isinstance(b, numpy.ndarray) and a.dtype == b.dtype and a.shape == b.shape and (a == b).all()
    return type(a) == type(b) and a == b


def _child_call(fd, p, cachedir, sleep, fail, start_at):
    """body of a forked child: one call of the memoised function"""
    import treelog
    from nutils import cache
    lg = EvLog(fd, p)
    _cur[0] = lg
    _behaviour['sleep'] = sleep
    _behaviour['fail'] = fail
    f = _make_cached()
    while time.time() < start_at:
        pass
    with treelog.set(lg), cache.enable(cachedir):
        lg.ev('call')
        try:
            v = f(3)
        except Boom:
            lg.ev('raise')
        else:
            ok = _same(v, _payload(3)) and lg.infos == EXPECTED_INFOS
            lg.ev('return', ok=ok)
    os._exit(0)


def _reference_bytes(workdir):
    """run the memoised function once to obtain (file name, complete pickle bytes)"""
    import treelog
    from nutils import cache
    d = os.path.join(workdir, 'ref')
    shutil.rmtree(d, ignore_errors=True)
    f = _make_cached()
    _cur[0] = None
    _behaviour.update(sleep=0.0, fail=None)
    Killer.armed = False
    with treelog.set(EvLog(os.open(os.devnull, os.O_WRONLY), 0)), cache.enable(d):
        f(3)
    (name,) = os.listdir(d)
    with open(os.path.join(d, name), 'rb') as fh:
        data = fh.read()
    return name, data


# directed schedules (start offset, time spent inside the wrapped function, failure) per process: a failing / killed first
# executor with a second caller already blocked on the lock and a third arriving while the second computes; several waiters
DIRECTED = [
    [(0, .12, 'raise'), (.03, .12, None), (.2, 0, None)],
    [(0, .12, 'kill_compute'), (.03, .12, None), (.2, 0, None)],
    [(0, .10, 'raise'), (.03, .10, 'raise'), (.16, .05, None)],
    [(0, .10, None), (.03, 0, None), (.05, 0, None)],
    [(0, .10, 'raise'), (.03, .10, None), (.05, 0, None)],
]


def run_scenario(rng, workdir, name, good, sid, script=None):
    """one real multi-process scenario; returns trace dict"""
    cachedir = os.path.join(workdir, 's{}'.format(sid))
    shutil.rmtree(cachedir, ignore_errors=True)
    os.makedirs(cachedir)
    init = rng.choice(['absent', 'absent', 'empty', 'prefix', 'complete', 'garbage']) if script is None else rng.choice(['absent', 'empty'])
    path = os.path.join(cachedir, name)
    if init == 'empty':
        open(path, 'wb').close()
    elif init == 'prefix':
        k = rng.choice([1, 2, 10, len(good) // 2, len(good) - 1, rng.randrange(1, len(good))])
        open(path, 'wb').write(good[:k])
    elif init == 'complete':
        open(path, 'wb').write(good)
    elif init == 'garbage':
        open(path, 'wb').write(rng.choice([b'\x00' * 50, b'garbage!', b'\x00' * 5000]))
    evpath = os.path.join(cachedir + '.events')
    fd = os.open(evpath, os.O_WRONLY | os.O_CREAT | os.O_TRUNC | os.O_APPEND)
    nprocs = rng.choice([2, 2, 3]) if script is None else len(script)
    fails = [rng.choice([None, None, None, 'raise', 'kill_compute', 'kill_dump', 'kill_timer']) for _ in range(nprocs)] if script is None else [f for _, _, f in script]
    start_at = time.time() + 0.02
    pids = {}
    timers = {}
    for p in range(1, nprocs + 1):
        sleep = rng.choice([0, 0.001, 0.005, 0.02]) if script is None else script[p - 1][1]
        fail = fails[p - 1]
        offset = rng.choice([0, 0, 0.001, 0.004]) if script is None else script[p - 1][0]
        pid = os.fork()
        if pid == 0:
            try:
                _child_call(fd, p, cachedir, sleep, None if fail == 'kill_timer' else fail, start_at + offset)
            finally:
                os._exit(3)
        pids[pid] = p
        if fail == 'kill_timer':
            timers[pid] = start_at + rng.choice([0.0005, 0.002, 0.006, 0.015, 0.03])
    killed = []
    parent = EvLog(fd, 0)
    pending = dict(pids)
    while pending:
        now = time.time()
        for pid, t in list(timers.items()):
            if now >= t and pid in pending:
                try:
                    os.kill(pid, signal.SIGKILL)
                except ProcessLookupError:
                    pass
                del timers[pid]
        pid, status = os.waitpid(-1, os.WNOHANG)
        if pid == 0:
            time.sleep(0.0005)
            continue
        p = pending.pop(pid)
        if os.WIFSIGNALED(status):
            killed.append(p)
            os.write(fd, (json.dumps(dict(p=p, ev='killed', ok=True)) + '\n').encode())
        elif os.WEXITSTATUS(status) != 0:
            os.write(fd, (json.dumps(dict(p=p, ev='childerror', ok=False)) + '\n').encode())
    # final crash-free caller: must return the right value from whatever is on disk
    p = nprocs + 1
    pid = os.fork()
    if pid == 0:
        try:
            _child_call(fd, p, cachedir, 0, None, 0)
        finally:
            os._exit(3)
    _, status = os.waitpid(pid, 0)
    if status != 0:
        os.write(fd, (json.dumps(dict(p=p, ev='childerror', ok=False)) + '\n').encode())
    os.close(fd)
    events = [json.loads(line) for line in open(evpath)]
    shutil.rmtree(cachedir, ignore_errors=True)
    os.unlink(evpath)
    return dict(init=init, nprocs=nprocs + 1, killed=killed, events=events, fails=[str(f) for f in fails])


def validate_fn_traces(rep, traces, tag='TraceCacheFn'):
    wd = os.path.join(WORKROOT, 'traces')
    os.makedirs(wd, exist_ok=True)
    path = os.path.join(wd, tag + '.json')
    with open(path, 'w') as f:
        json.dump(traces, f)
    res = tlc.run(tag, tag + '.cfg', workers=1, env=dict(VF_TRACE=path), deadlock=False, timeout=1200)
    rep.add_tlc(res)
    rejected = {}
    if res.violated:
        # an invariant failed inside some trace: find tid in the error trace
        tid = None
        for line in res.error_trace:
            if line.startswith('/\\ tid = '):
                tid = int(line.split('=')[1])
        rejected[tid] = 'invariant ' + res.violated
    for e in res.emitted:
        rejected[e['tid']] = 'rejected after {} of {} events'.format(e['matched'], e['len'])
    return rejected, res


def prefix_sweep(rep, workdir, name, good, rng, tier):
    """S->C: realise every file state the model reaches on a real cache file and
    compare the outcome of a crash-free call with the model's prediction."""
    import treelog
    from nutils import cache
    f = _make_cached()
    _behaviour.update(sleep=0.0, fail=None)
    Killer.armed = False
    d = os.path.join(workdir, 'sweep')
    shutil.rmtree(d, ignore_errors=True)
    os.makedirs(d)
    path = os.path.join(d, name)
    n = len(good)
    # a second, different pickle of the same call (different log text) for chimera states
    other = pickle.dumps((_payload(3), _other_log()))
    small = [k for k in range(0, n + 1) if k < 700 or k > n - 700 or k % (997 if tier == 'quick' else 97) == 0]
    cases = []
    for k in small:
        cases.append(('prefix', k, good[:k], 'recompute' if k < n else 'load'))
    for k in ([0, 1, 5, 64, 300, n // 2, n - 1] if tier == 'quick' else list(range(0, 400)) + [n // 2, n - 1]):
        for junk in (b'\x00', b'JUNK' * 30, good[:77]):
            cases.append(('complete+junk', k, good + junk[:max(1, k % len(junk) + 1)], 'load'))
    # prefix of the new attempt followed by the tail of an older *incomplete* attempt (never truncated file)
    ks = [1, 2, 3, 17, 100, 301, n // 3] if tier == 'quick' else list(range(1, 300)) + [n // 3, n // 2]
    for k in ks:
        for j in (k + 1, k + 40, n // 2 + k, n - 1):
            if k < j < n:
                cases.append(('prefix+oldtail', (k, j), good[:k] + good[k:j], 'recompute'))
    for kind, k, content, predicted in cases:
        with open(path, 'wb') as fh:
            fh.write(content)
        lg = EvLog(os.open(os.devnull, os.O_WRONLY), 0)
        _cur[0] = None
        before = _ncalls[0]
        try:
            with treelog.set(lg), cache.enable(d):
                v = f(3)
        except BaseException as e:
            rep.violation('fn:{}:{}'.format(kind, type(e).__name__), 'cache.function raised {} on file state {} k={}'.format(type(e).__name__, kind, k),
                          dict(kind=kind, k=k, exc=repr(e)))
            os.close(lg.fd)
            continue
        os.close(lg.fd)
        ncomp = _ncalls[0] - before
        ok = _same(v, _payload(3)) and lg.infos == EXPECTED_INFOS
        rep.case(('sweep', kind, k))
        rep.traces += 1
        if not ok:
            rep.violation('fn:{}:wrong-value-or-log'.format(kind), 'value/log differs from uncached call for file state {} k={}'.format(kind, k), dict(kind=kind, k=k, infos=lg.infos))
        if (predicted == 'load') != (ncomp == 0):
            rep.violation('fn:{}:model-mismatch'.format(kind), 'model predicts {} but code computed {} times (k={})'.format(predicted, ncomp, k), dict(kind=kind, k=k))
        # afterwards the file must be loadable: a second call loads
        before = _ncalls[0]
        lg2 = EvLog(os.open(os.devnull, os.O_WRONLY), 0)
        try:
            with treelog.set(lg2), cache.enable(d):
                v2 = f(3)
        except BaseException as e:
            os.close(lg2.fd)
            rep.violation('fn:{}:not-recovered:{}'.format(kind, type(e).__name__), 'the call after a crash-free call on file state {} k={} raised {!r}: the entry is poisoned'.format(kind, k, e),
                          dict(kind=kind, k=k, exc=repr(e)))
            continue
        os.close(lg2.fd)
        if _ncalls[0] != before or not _same(v2, _payload(3)) or lg2.infos != EXPECTED_INFOS:
            rep.violation('fn:{}:not-recovered'.format(kind), 'after a crash-free call the entry is not served from cache / wrong', dict(kind=kind, k=k))
    rep.sample(dict(sweep_cases=len(cases), pickle_len=n))
    # chimera of two different attempts (non-deterministic log): observed, reported as note unless it returns a wrong value
    nch = 0
    other_exc = {}
    m = min(len(other), n)
    for k in range(1, min(m, 600 if tier == 'quick' else m)):
        for j in (k + 1, k + 25, m - 1):
            if not k < j < m:
                continue
            with open(path, 'wb') as fh:
                fh.write(good[:k] + other[k:j])
            lg = EvLog(os.open(os.devnull, os.O_WRONLY), 0)
            try:
                with treelog.set(lg), cache.enable(d):
                    v = f(3)
                if not (_same(v, _payload(3)) and lg.infos == EXPECTED_INFOS):
                    rep.violation('fn:chimera:wrong-value-or-log', 'chimera file returned a wrong value/log', dict(k=k, j=j))
            except BaseException as e:
                other_exc[type(e).__name__] = other_exc.get(type(e).__name__, 0) + 1
            os.close(lg.fd)
            nch += 1
    rep.extra['chimera_states'] = nch
    rep.extra['chimera_uncaught_exceptions'] = other_exc
    shutil.rmtree(d, ignore_errors=True)


def _other_log():
    import treelog
    r = treelog.RecordLog()
    with treelog.set(r):
        treelog.info('computing f(3) took 0.123456 s on host A')
        treelog.user('result ready')
    return r


def run(rep):
    tier = rep.tier
    rng = random.Random(rep.seed)
    shutil.rmtree(WORKROOT, ignore_errors=True)
    os.makedirs(WORKROOT)
    # ---- 1. design level: exhaustive TLC
    for cfg, exh in (('MCCacheFn.cfg', True), ('MCCacheFn_nondet.cfg', True), ('MCCacheFn_det.cfg', True)):
        res = tlc.run('MCCacheFn', cfg, tag='c18-' + cfg, coverage=(cfg == 'MCCacheFn.cfg'), deadlock=False)
        rep.add_tlc(res, exhaustive=True)
        if res.violated:
            raise RuntimeError('design spec CacheFn violates {} under {}'.format(res.violated, cfg))
    zero = [a for a, n in rep.actions.items() if n == 0]
    if zero:
        raise RuntimeError('vacuity: actions never taken: {}'.format(zero))
    rep.constants['CacheFn'] = dict(Procs=2, PLen=3, MaxCrash='2-3', MaxCalls='4-5')
    from . import c18rec
    c18rec.design(rep)
    # ---- 2. C->S: real concurrent processes with kills
    try:
        name, good = _reference_bytes(WORKROOT)
    except Exception as e:
        rep.violation('fn:first-call:' + type(e).__name__, 'first call of a memoised function with caching enabled raised ' + repr(e), dict(exc=repr(e)))
        c18rec.conformance(rep, rng)
        return
    nscen = 40 if tier == 'quick' else 400
    traces = []
    for sid in range(nscen):
        t = run_scenario(rng, WORKROOT, name, good, sid)
        traces.append(t)
    for k, script in enumerate(DIRECTED * (1 if tier == 'quick' else 4)):
        traces.append(run_scenario(rng, WORKROOT, name, good, nscen + k, script=script))
    rejected, res = validate_fn_traces(rep, traces)
    for tid, why in rejected.items():
        t = traces[tid - 1] if tid else None
        rep.violation('fn-trace:' + why.split(' after')[0], 'recorded execution of cache.function is not a behaviour of CacheFn: ' + why, t)
    rep.traces += len(traces) - len(rejected)
    for t in traces:
        rep.case(('fn', t['init'], tuple(t['fails']), tuple((e['p'], e['ev']) for e in t['events'])), nontrivial=len(t['events']) > 8)
    rep.sample(dict(kind='cache.function trace', init=traces[0]['init'], killed=traces[0]['killed'], events=[(e['p'], e['ev']) for e in traces[0]['events']]))
    rep.extra['fn_traces'] = len(traces)
    rep.extra['fn_traces_with_kill'] = sum(1 for t in traces if t['killed'])
    rep.extra['fn_traces_kill_in_dump_partial'] = sum(1 for t in traces if 'kill_dump' in t['fails'])
    # ---- 3. S->C: every file state
    prefix_sweep(rep, WORKROOT, name, good, rng, tier)
    # ---- 4. Recursion
    c18rec.conformance(rep, rng)
    rep.rule = ('cases = recorded multi-process executions (distinct event sequences with >8 events) + realised file states '
                '(distinct (kind, byte offset)) + Recursion histories (distinct action sequences)')
    rep.assumptions += ['process death is modelled as SIGKILL (OS-level power loss/fsync reordering not modelled)',
                        'pickle of a deterministic function result is deterministic (DetPickle); chimera files of differing attempts are explored and reported separately',
                        'flock semantics: exclusive per open file description, released at process death']
    shutil.rmtree(WORKROOT, ignore_errors=True)
