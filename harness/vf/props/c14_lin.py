"""C14, linear solves with constraints: S->C binding of spec/LinSolve.tla.

The harness draws small integer inputs (matrix, right hand side, initial
guess, boolean / NaN-float column constraints, row constraints, drop
tolerance); TLC runs the design on exactly these inputs, checks the invariants
and emits the exact rational answer (or MatrixError).  The answer is compared
with the real code on every backend and solver:
  kind "solve"    Matrix.solve  and, where expressible, solver.solve_linear /
                  System.solve(method=Direct) on a real System
  kind "droptol"  System.solve_constraints / solver.optimize(droptol=..)
  kind "project"  Topology.project (lsqr) on a 1D mesh whose mass matrix is
                  the integer matrix of the input
"""

import json
import os
import warnings

import numpy

from .. import tlc
from .c14_proto import _NULL, backends, tlc_run


def gen_inputs(rng, count, n=3):
    out = []
    for i in range(count):
        kind = rng.choice(['solve'] * 6 + ['droptol'] * 3 + (['project'] * 2 if n > 1 else []))
        if kind == 'project':
            out.append(gen_project(rng, n))
            continue
        shape = rng.choice(['random', 'random', 'dominant', 'singular', 'zerorow', 'triangular'])
        ent = [-2, -1, 0, 0, 1, 2, 3] if kind == 'solve' else [-4, -1, 0, 0, 1, 1, 4, 8]
        A = [[rng.choice(ent) for _ in range(n)] for _ in range(n)]
        if shape == 'dominant':
            for k in range(n):
                A[k][k] = sum(abs(v) for v in A[k]) + 1 + (4 if kind != 'solve' else 0)
        elif shape == 'singular':
            A[n - 1] = list(A[0])
        elif shape == 'zerorow':
            k = rng.randrange(n)
            A[k] = [0] * n
            if rng.random() < .5:
                for r in A:
                    r[k] = 0
        elif shape == 'triangular':
            for r in range(n):
                for c in range(r):
                    A[r][c] = 0
                if A[r][r] == 0:
                    A[r][r] = 1
        if kind != 'solve':
            for r in range(n):
                for c in range(r):
                    A[r][c] = A[c][r]
        b = [rng.choice([-1, 0, 1, 3]) for _ in range(n)]
        if rng.random() < .15:
            b = [0] * n
        inp = dict(kind=kind, A=A, b=b, hasl0=False, l0=[0] * n, ck='none', cm=[False] * n, cv=[0] * n, rk=False, rm=[False] * n, dtol=0,
                   solver='direct', precon='direct', atol=0)
        if kind == 'solve':
            if rng.random() < .4:
                # a named solver / preconditioner / requested tolerance combination of its own (Method and Certify steps of the model)
                inp['solver'], inp['precon'], inp['atol'] = rng.choice([('direct', 'diag', 1), ('direct', 'diag', 2), ('direct', 'diag', 5), ('direct', 'diag', 0),
                                                                         ('arnoldi', 'diag', 1), ('arnoldi', 'direct', 1), ('direct', 'direct', 2), ('direct', 'direct', 4)])
                if inp['precon'] == 'diag' and rng.random() < .7:
                    for k in range(n):
                        if A[k][k] == 0:
                            A[k][k] = rng.choice([-2, 1, 3])
            inp['hasl0'] = rng.random() < .6
            if inp['hasl0']:
                inp['l0'] = [rng.choice([-3, -1, 0, 2, 5]) for _ in range(n)]
            inp['ck'] = rng.choice(['none', 'bool', 'bool', 'float', 'float'])
            if inp['ck'] != 'none':
                inp['cm'] = [rng.random() < .4 for _ in range(n)]
            if inp['ck'] == 'float':
                inp['cv'] = [rng.choice([-2, 1, 3, 4]) for _ in range(n)]
            if inp['ck'] == 'bool' and rng.random() < .35:
                inp['rk'] = True
                rm = list(inp['cm'])
                rng.shuffle(rm)          # same number of constrained rows: square
                if rng.random() < .2:
                    rm[rng.randrange(n)] ^= True     # not square
                inp['rm'] = rm
        else:
            inp['ck'] = 'float'
            inp['cm'] = [rng.random() < .3 for _ in range(n)]
            inp['cv'] = [rng.choice([-2, 1, 3, 4]) for _ in range(n)]
            inp['dtol'] = rng.choice([0, 1, 1])
        out.append(inp)
    return out


def gen_project(rng, n):
    """1D mesh with n-1 elements of length 6, linear basis (n dofs); projection domain = element range [a, b);
    A = 6 * mass matrix of that range (integers), rhs = 6 * integral of basis * f with f linear with integer nodal values"""
    ne = n - 1
    a = rng.randrange(0, ne)
    bb = rng.randrange(a + 1, ne + 1)
    f = [rng.choice([-1, 0, 1, 2, 3])] * n if rng.random() < .5 else None
    if f is None:
        f0, f1 = rng.choice([-1, 0, 1, 2]), rng.choice([-1, 1, 2])
        f = [f0 + f1 * k for k in range(n)]
    A = [[0] * n for _ in range(n)]
    b = [0] * n
    for e in range(a, bb):
        # local mass h/6 [[2,1],[1,2]] with h = 6; local load h/6 [2 f_e + f_e+1, f_e + 2 f_e+1]
        A[e][e] += 12
        A[e][e + 1] += 6
        A[e + 1][e] += 6
        A[e + 1][e + 1] += 12
        b[e] += 6 * (2 * f[e] + f[e + 1])
        b[e + 1] += 6 * (f[e] + 2 * f[e + 1])
    cm = [rng.random() < .25 for _ in range(n)]
    if not any(b):
        cm = [False] * n      # project() short-cuts a zero load to zero constraints; only comparable without prior constraints
    cv = [rng.choice([-2, 1, 3, 4]) for _ in range(n)]
    # drop tolerance between the end-dof rows (12, 6) and the interior rows (24, 6): the real matrix is A / 6
    dtol = rng.choice([0, 0, 15])
    return dict(kind='project', A=A, b=b, hasl0=False, l0=[0] * n, ck='float', cm=cm, cv=cv, rk=False, rm=[False] * n, dtol=dtol,
                solver='direct', precon='direct', atol=0, proj=dict(a=a, b=bb, f=f))


def predictions(rep, inputs, n, tag):
    wd = os.path.join(tlc.WORK, 'c14')
    os.makedirs(wd, exist_ok=True)
    path = os.path.join(wd, tag + '.json')
    slim = [{k: v for k, v in inp.items() if k != 'proj'} for inp in inputs]
    with open(path, 'w') as f:
        json.dump(slim, f)
    cfg = open(os.path.join(tlc.SPEC, 'LinSolve_given.cfg')).read().replace('N = 3', 'N = {}'.format(n))
    res = tlc_run('LinSolve', tag=tag, cfg_text=cfg, env=dict(VF_TABLE=path), deadlock=False, workers=4, timeout=600)
    rep.add_tlc(res)
    if res.violated:
        raise RuntimeError('LinSolve: design invariant {} violated on a harness-chosen input:\n{}'.format(res.violated, '\n'.join(res.error_trace[-30:])))
    key = lambda d: json.dumps({k: d[k] for k in ('kind', 'A', 'b', 'hasl0', 'l0', 'ck', 'cm', 'cv', 'rk', 'rm', 'dtol', 'solver', 'precon', 'atol')}, sort_keys=True)
    pred = {}
    for e in res.emitted:
        pred.setdefault(key(e['inp']), []).append(e)      # the arnoldi/diag method is nondeterministic in the model: several terminal states
    out = []
    for inp in inputs:
        ps = pred.get(key(inp))
        if not ps:
            raise RuntimeError('LinSolve emitted no prediction for input {}'.format(inp))
        p = dict(ps[0])
        p['allowed'] = sorted({q['outcome'] for q in ps})
        out.append(p)
    return out


def _matrix(A):
    from nutils import matrix
    A = numpy.array(A, dtype=float)
    nz = A != 0
    r, c = numpy.nonzero(nz)
    return matrix.assemble_coo(A[r, c], r, A.shape[0], c, A.shape[1])


def _expected(pred):
    den = pred['den']
    return numpy.array([num / den for num in pred['num']], dtype=float)


def _exc_class(e):
    from nutils import matrix, solver
    if isinstance(e, matrix.MatrixError):
        return 'MatrixError'
    if isinstance(e, solver.SolverError):
        return 'SolverError'
    return type(e).__name__


def check_solution(inp, pred, x, atol, what):
    """compare a returned vector with the model's verdict; returns None or (keysuffix, message)"""
    n = len(inp['b'])
    A = numpy.array(inp['A'], dtype=float)
    b = numpy.array(inp['b'], dtype=float)
    x = numpy.asarray(x, dtype=float)
    free = numpy.array(pred['free'])
    rows = numpy.array(pred['rows'])
    nan = numpy.array(pred['nan'])
    cm = numpy.array(inp['cm']) & (inp['ck'] != 'none')
    if x.shape != (n,):
        return 'shape', 'returned shape {}'.format(x.shape)
    # NaN pattern
    if (numpy.isnan(x) != nan).any():
        return 'nan-pattern', 'NaN pattern {} differs from the model {}'.format(numpy.isnan(x).tolist(), nan.tolist())
    if not numpy.isfinite(x[~nan]).all():
        return 'non-finite', 'returned non-finite values {}'.format(x.tolist())
    # constrained entries: bit-equal
    if pred['outcome'] == 'return':
        exp = _expected(pred)
    else:
        exp = None
    presc = numpy.array([inp['cv'][j] if inp['ck'] == 'float' else (inp['l0'][j] if inp['hasl0'] else 0) for j in range(n)], dtype=float)
    if (x[cm] != presc[cm]).any():
        return 'constraint-violated', 'constrained entries {} differ from prescribed {}'.format(x[cm].tolist(), presc[cm].tolist())
    # free equations
    xz = numpy.where(nan, 0., x)
    res = (A @ xz - b)[rows]
    scale = 1 + abs(A).sum() * (1 + abs(xz).max(initial=0)) + abs(b).sum()
    tol = max(atol, 1e-10 * scale) if atol else 1e-10 * scale
    if res.size and numpy.linalg.norm(res) > tol * (1 + 1e-9):
        return 'residual', 'free residual {:.3e} exceeds {:.3e}'.format(numpy.linalg.norm(res), tol)
    # value: the model's exact answer (unique when the free block is regular)
    if exp is not None and pred['detB'] != 0 and not atol:
        ok = ~nan
        if (abs(x[ok] - exp[ok]) > 1e-9 * (1 + abs(exp[ok]))).any():
            return 'value', 'returned {} but the exact answer is {}'.format(x.tolist(), exp.tolist())
    return None


SOLVERS = dict(numpy=['direct', 'arnoldi'], scipy=['direct', 'arnoldi', 'gmres', 'bicgstab'])


def replay_solve(rep, rng, inp, pred, tier):
    """Matrix.solve on every backend/solver + independence of the initial guess + legacy wrapper"""
    import treelog
    from nutils import matrix, solver, function
    n = len(inp['b'])
    b = numpy.array(inp['b'], dtype=float)
    cm = numpy.array(inp['cm'])
    nviol = 0
    if (inp['solver'], inp['precon'], inp['atol']) != ('direct', 'direct', 0):
        return replay_method(rep, rng, inp, pred)
    for backend in backends():
        solvers = SOLVERS[backend]
        for sname in solvers:
            iterative = sname in ('gmres', 'bicgstab')
            variants = ['model', 'guess2', 'guess3'] if (inp['ck'] != 'none' or inp['hasl0']) else ['model']
            if iterative and tier == 'quick' and rng.random() < .5:
                continue
            for variant in variants:
                kwargs = dict(solver=sname)
                atol = 0.
                if iterative or rng.random() < .25:
                    atol = 1e-7
                    kwargs['atol'] = atol
                if variant == 'model':
                    l0 = numpy.array(inp['l0'], dtype=float) if inp['hasl0'] else None
                else:
                    # another initial guess: free entries arbitrary, entries prescribed by a boolean constraint kept
                    l0 = numpy.array(inp['l0'], dtype=float) if inp['hasl0'] else numpy.zeros(n)
                    fre = ~cm if inp['ck'] == 'bool' else numpy.ones(n, dtype=bool)
                    if inp['rk'] or pred['detB'] == 0:
                        continue
                    l0 = numpy.where(fre, numpy.array([rng.choice([-7.5, .125, 3., 11.]) for _ in range(n)]), l0)
                if l0 is not None:
                    kwargs['lhs0'] = l0
                if inp['ck'] == 'bool':
                    kwargs['constrain'] = cm.copy()
                elif inp['ck'] == 'float':
                    kwargs['constrain'] = numpy.where(cm, numpy.array(inp['cv'], dtype=float), numpy.nan)
                if inp['rk']:
                    kwargs['rconstrain'] = numpy.array(inp['rm'])
                rhs = b
                if not b.any() and len(kwargs) > 1 + bool(atol) and rng.random() < .5:
                    rhs = None
                with matrix.backend(backend), warnings.catch_warnings(), numpy.errstate(all='ignore'), treelog.set(_NULL):
                    warnings.simplefilter('ignore')
                    M = _matrix(inp['A'])
                    try:
                        x = M.solve(rhs, **kwargs)
                        obs = 'return'
                    except Exception as e:
                        obs, x = _exc_class(e), None
                        detail = repr(e)[:120]
                rep.case(('solve', backend, sname, variant, inp['ck'], inp['rk'], pred['outcome'], pred['short'], pred['k']))
                sig = 'Matrix.solve[{}]'.format('iterative' if iterative else sname)
                if obs not in ('return', 'MatrixError'):
                    rep.violation('{}:raises-{}'.format(sig, obs), 'Matrix.solve raised {} ({})'.format(obs, detail), dict(inp=inp, pred=pred, backend=backend, kwargs=repr(kwargs)))
                    nviol += 1
                    continue
                if pred['outcome'] == 'MatrixError':
                    if obs == 'return':
                        # a singular block may still admit a certified answer; a non-square one may not
                        bad = ('not-square-returned', 'non-square constrained system returned') if numpy.sum(pred['free']) != numpy.sum(pred['rows']) \
                            else check_solution(inp, dict(pred, outcome='MatrixError'), x, atol, sig)
                        if bad:
                            rep.violation('{}:singular:{}'.format(sig, bad[0]), 'model: MatrixError; code returned an uncertified answer: ' + bad[1],
                                          dict(inp=inp, pred=pred, backend=backend, solver=sname, x=x.tolist()))
                            nviol += 1
                    continue
                if obs == 'MatrixError':
                    if iterative:
                        rep.skip('iterative solver raised on a regular system (allowed: raises instead of returning)')
                        continue
                    rep.violation('{}:regular-system-raises'.format(sig), 'model: returns {}; code raised {}'.format(_expected(pred).tolist(), detail),
                                  dict(inp=inp, pred=pred, backend=backend, solver=sname, kwargs=repr(kwargs)))
                    nviol += 1
                    continue
                bad = check_solution(inp, pred, x, atol, sig)
                if bad:
                    key = '{}:{}{}'.format(sig, bad[0], ':other-guess' if variant != 'model' and bad[0] == 'value' else '')
                    rep.violation(key, 'Matrix.solve on {} backend ({}): {}'.format(backend, variant, bad[1]),
                                  dict(inp=inp, pred=pred, backend=backend, solver=sname, kwargs=repr(kwargs), x=numpy.asarray(x).tolist()))
                    nviol += 1
    # legacy wrapper / System path: solve_linear on a real System (no row constraints there)
    if not inp['rk']:
        with warnings.catch_warnings(), numpy.errstate(all='ignore'), treelog.set(_NULL):
            warnings.simplefilter('ignore')
            u = function.Argument('u', (n,))
            resid = (numpy.array(inp['A'], dtype=float) @ u) - b
            cons = None
            if inp['ck'] == 'bool':
                cons = cm.copy()
            elif inp['ck'] == 'float':
                cons = numpy.where(cm, numpy.array(inp['cv'], dtype=float), numpy.nan)
            l0 = numpy.array(inp['l0'], dtype=float) if inp['hasl0'] else None
            for backend in backends():
                with matrix.backend(backend):
                    try:
                        if cons is not None and cons.dtype == bool and l0 is None:
                            x = solver.System([resid], trial='u').solve(constrain=dict(u=cons))['u']
                        else:
                            # (lhs0= of solve_linear is unusable at this commit: it is forwarded to the recursive call, which rejects it)
                            x = solver.solve_linear('u', resid, constrain=cons, arguments={} if l0 is None else dict(u=l0))
                        obs = 'return'
                    except Exception as e:
                        obs, x, detail = _exc_class(e), None, repr(e)[:120]
                rep.case(('solve_linear', backend, inp['ck'], inp['hasl0'], pred['outcome'], pred['short'], pred['k']))
                sig = 'solve_linear'
                if obs not in ('return', 'MatrixError', 'SolverError'):
                    rep.violation(sig + ':raises-' + obs, 'solve_linear raised {} ({})'.format(obs, detail), dict(inp=inp, pred=pred, backend=backend))
                    nviol += 1
                elif pred['outcome'] == 'MatrixError':
                    if obs == 'return':
                        bad = check_solution(inp, dict(pred, outcome='MatrixError'), x, 0., sig)
                        if bad:
                            rep.violation(sig + ':singular:' + bad[0], 'model: MatrixError; solve_linear returned an uncertified answer: ' + bad[1],
                                          dict(inp=inp, pred=pred, backend=backend, x=numpy.asarray(x).tolist()))
                            nviol += 1
                elif obs != 'return':
                    rep.violation(sig + ':regular-system-raises', 'model: returns; solve_linear raised ' + detail, dict(inp=inp, pred=pred, backend=backend))
                    nviol += 1
                else:
                    bad = check_solution(inp, pred, x, 0., sig)
                    if bad:
                        rep.violation(sig + ':' + bad[0], 'solve_linear on {} backend: {}'.format(backend, bad[1]),
                                      dict(inp=inp, pred=pred, backend=backend, x=numpy.asarray(x).tolist()))
                        nviol += 1
    return nviol


def replay_method(rep, rng, inp, pred):
    """a named solver with a named preconditioner and a requested absolute tolerance: the Method / Certify steps of the model.
    The model's outcome set (return / MatrixError / ToleranceNotReached; several for the nondeterministic arnoldi+diag) must contain
    the observed class, a returned vector must be certified (constraints exact, free residual within the requested tolerance,
    independent dense recomputation) and, where the model's method is deterministic, equal the predicted vector"""
    import treelog
    from nutils import matrix
    n = len(inp['b'])
    b = numpy.array(inp['b'], dtype=float)
    cm = numpy.array(inp['cm'])
    nviol = 0
    if inp['atol'] and pred['res2'] == pred['bound2'] and not pred.get('exact', True):
        rep.skip('residual of the inexact method ties with the requested tolerance (decided by rounding)')
        return 0
    for backend in backends():
        kwargs = dict(solver=inp['solver'], precon=inp['precon'])
        atol = float(inp['atol'])
        if atol:
            kwargs['atol'] = atol
        if inp['hasl0']:
            kwargs['lhs0'] = numpy.array(inp['l0'], dtype=float)
        if inp['ck'] == 'bool':
            kwargs['constrain'] = cm.copy()
        elif inp['ck'] == 'float':
            kwargs['constrain'] = numpy.where(cm, numpy.array(inp['cv'], dtype=float), numpy.nan)
        if inp['rk']:
            kwargs['rconstrain'] = numpy.array(inp['rm'])
        with matrix.backend(backend), warnings.catch_warnings(), numpy.errstate(all='ignore'), treelog.set(_NULL):
            warnings.simplefilter('ignore')
            M = _matrix(inp['A'])
            try:
                x = M.solve(b, **kwargs)
                obs = 'return'
            except matrix.ToleranceNotReached as e:
                obs, x, detail = 'ToleranceNotReached', None, repr(e)[:120]
            except Exception as e:
                obs, x, detail = _exc_class(e), None, repr(e)[:120]
        sig = 'Matrix.solve[{}+{}]'.format(inp['solver'], inp['precon'])
        rep.case(('method', backend, inp['solver'], inp['precon'], inp['atol'] > 0, inp['ck'], inp['rk'], tuple(pred['allowed']), pred['k']))
        if obs not in ('return', 'MatrixError', 'ToleranceNotReached'):
            rep.violation('{}:raises-{}'.format(sig, obs), 'Matrix.solve raised {} ({})'.format(obs, detail), dict(inp=inp, pred=pred, backend=backend, kwargs=repr(kwargs)))
            nviol += 1
            continue
        if obs == 'return':
            # certification is demanded of every returned vector whatever the model's method did (atol = 0 with an inexact method: not judged)
            bad = None
            if atol or pred.get('exact', True):
                bad = check_solution(inp, dict(pred, outcome='return' if pred['outcome'] == 'return' and pred.get('exact', True) and not atol else 'MatrixError'), x, atol, sig)
            if bad is None and 'return' not in pred['allowed'] and numpy.sum(pred['free']) != numpy.sum(pred['rows']):
                bad = ('not-square-returned', 'non-square constrained system returned')
            if bad is None and inp['solver'] == 'direct' and pred['outcome'] == 'return' and not pred['short']:
                # deterministic method: the exact vector the model predicts (lhs + D^-1 r, or the exact solution)
                exp = _expected(pred)
                if (abs(numpy.asarray(x) - exp) > 1e-9 * (1 + abs(exp))).any():
                    bad = ('value', 'returned {} but the model method returns {}'.format(numpy.asarray(x).tolist(), exp.tolist()))
            if bad is None and pred['allowed'] == ['ToleranceNotReached']:
                bad = ('uncertified-return', 'the model certifies no answer within atol={} (ToleranceNotReached) but the code returned {}'.format(atol, numpy.asarray(x).tolist()))
            if bad:
                rep.violation('{}:{}'.format(sig, bad[0]), 'Matrix.solve on {} backend: {}'.format(backend, bad[1]),
                              dict(inp=inp, pred=pred, backend=backend, kwargs=repr(kwargs), x=numpy.asarray(x).tolist()))
                nviol += 1
        elif obs not in pred['allowed']:
            if obs == 'MatrixError' and pred['allowed'] == ['ToleranceNotReached']:
                continue       # raising the base class instead of returning is still "raises"
            if obs == 'ToleranceNotReached' and inp['solver'] == 'arnoldi':
                continue       # the Krylov iteration may stall where the model's exact branch applies; raising is allowed
            rep.violation('{}:{}-where-model-{}'.format(sig, obs, '+'.join(pred['allowed'])), 'model: {}; code raised {}'.format(pred['allowed'], detail),
                          dict(inp=inp, pred=pred, backend=backend, kwargs=repr(kwargs)))
            nviol += 1
    return nviol


def replay_droptol(rep, rng, inp, pred):
    import treelog
    from nutils import matrix, solver, function
    n = len(inp['b'])
    A = numpy.array(inp['A'], dtype=float)
    b = numpy.array(inp['b'], dtype=float)
    cm = numpy.array(inp['cm'])
    nviol = 0
    for backend in backends():
        for api in ('solve_constraints', 'optimize'):
            with matrix.backend(backend), warnings.catch_warnings(), numpy.errstate(all='ignore'), treelog.set(_NULL):
                warnings.simplefilter('ignore')
                u = function.Argument('u', (n,))
                functional = .5 * (u @ (A @ u)) - b @ u
                cons = numpy.where(cm, numpy.array(inp['cv'], dtype=float), numpy.nan)
                try:
                    if api == 'solve_constraints':
                        x = solver.System(functional, trial='u').solve_constraints(droptol=float(inp['dtol']), constrain=dict(u=cons) if cm.any() or rng.random() < .5 else {})['u']
                    else:
                        x = solver.optimize('u', functional, droptol=float(inp['dtol']), constrain=cons if cm.any() else None)
                    obs = 'return'
                except Exception as e:
                    obs, x, detail = _exc_class(e), None, repr(e)[:120]
            rep.case(('droptol', backend, api, inp['dtol'], tuple(pred['nan']), pred['outcome'], pred['k']))
            sig = 'solve_constraints'
            if obs not in ('return', 'MatrixError', 'SolverError'):
                rep.violation(sig + ':raises-' + obs, '{} raised {} ({})'.format(api, obs, detail), dict(inp=inp, pred=pred, backend=backend))
                nviol += 1
            elif pred['outcome'] == 'MatrixError':
                if obs == 'return':
                    bad = check_solution(inp, dict(pred, outcome='MatrixError', nan=[c is False and not f for c, f in zip(inp['cm'], pred['free'])]), x, 0., sig)
                    if bad:
                        rep.violation(sig + ':singular:' + bad[0], 'model: MatrixError; {} returned an uncertified answer: {}'.format(api, bad[1]),
                                      dict(inp=inp, pred=pred, backend=backend, x=numpy.asarray(x).tolist()))
                        nviol += 1
            elif obs != 'return':
                rep.violation(sig + ':regular-system-raises', 'model: returns; {} raised {}'.format(api, detail), dict(inp=inp, pred=pred, backend=backend))
                nviol += 1
            else:
                bad = check_solution(inp, pred, x, 0., sig)
                if bad:
                    rep.violation(sig + ':' + bad[0], '{} on {} backend: {}'.format(api, backend, bad[1]),
                                  dict(inp=inp, pred=pred, backend=backend, x=numpy.asarray(x).tolist()))
                    nviol += 1
    return nviol


def replay_project(rep, rng, inp, pred):
    import treelog
    from nutils import matrix, mesh, function, _util as util
    n = len(inp['b'])
    pj = inp['proj']
    cm = numpy.array(inp['cm'])
    nviol = 0
    for backend in backends():
        with matrix.backend(backend), warnings.catch_warnings(), numpy.errstate(all='ignore'), treelog.set(_NULL):
            warnings.simplefilter('ignore')
            domain, geom = mesh.line(numpy.arange(n) * 6., space='X')
            basis = domain.basis('std', degree=1)
            f = numpy.array(pj['f'], dtype=float)
            fun = basis @ f          # linear interpolant of the integer nodal values
            prior = util.NanVec(n)
            prior[cm] = numpy.array(inp['cv'], dtype=float)[cm]
            sub = domain[pj['a']:pj['b']]
            try:
                x = sub.project(fun, onto=basis, geometry=geom, ischeme='gauss', degree=2, droptol=inp['dtol'] / 6. if inp['dtol'] else 1e-12,
                                constrain=prior if cm.any() or rng.random() < .5 else None)
                obs = 'return'
            except Exception as e:
                obs, x, detail = _exc_class(e), None, repr(e)[:160]
        rep.case(('project', backend, pj['a'], pj['b'], tuple(pred['nan']), tuple(inp['cm']), pred['outcome']))
        sig = 'Topology.project'
        # the matrix nutils assembles is mass/1: the model's is 6*mass; same solution, same support
        if obs not in ('return', 'MatrixError'):
            rep.violation(sig + ':raises-' + obs, 'project raised {} ({})'.format(obs, detail), dict(inp=inp, pred=pred, backend=backend))
            nviol += 1
        elif pred['outcome'] == 'MatrixError':
            if obs == 'return':
                rep.violation(sig + ':singular-returned', 'model: MatrixError; project returned', dict(inp=inp, pred=pred, backend=backend, x=numpy.asarray(x).tolist()))
                nviol += 1
        elif obs != 'return':
            rep.violation(sig + ':regular-system-raises', 'model: returns; project raised ' + detail, dict(inp=inp, pred=pred, backend=backend))
            nviol += 1
        else:
            bad = check_solution(inp, pred, numpy.asarray(x), 0., sig)
            if bad:
                rep.violation(sig + ':' + bad[0], 'project on {} backend: {}'.format(backend, bad[1]),
                              dict(inp=inp, pred=pred, backend=backend, x=numpy.asarray(x).tolist()))
                nviol += 1
    return nviol


def run(rep, rng, count, tier):
    total = 0
    for n in ((3,) if tier == 'quick' else (3, 2, 1)):
        inputs = gen_inputs(rng, count if n == 3 else count // 3, n)
        preds = predictions(rep, inputs, n, 'c14-lin-{}'.format(n))
        for inp, pred in zip(inputs, preds):
            if inp['kind'] == 'solve':
                replay_solve(rep, rng, inp, pred, tier)
            elif inp['kind'] == 'droptol':
                replay_droptol(rep, rng, inp, pred)
            else:
                replay_project(rep, rng, inp, pred)
            rep.traces += 1
            total += 1
        rep.sample(dict(kind='LinSolve input + exact answer', inp={k: v for k, v in inputs[0].items() if k != 'proj'},
                        outcome=preds[0]['outcome'], num=preds[0]['num'], den=preds[0]['den'], nan=preds[0]['nan']))
    rep.extra['linsolve_inputs'] = total
