SPECIFICATION Spec
INVARIANT CheckEntry
INVARIANT EmitTails
INVARIANT Counted
CHECK_DEADLOCK FALSE
