"""C07 helpers: the fixed table  model call -> NumPy API call  (used identically on nutils function arrays and, as a
sanity guard of the TLA+ transcription, on plain ndarrays), decoding of model values, root-cause descriptors."""

import operator
from fractions import Fraction

import numpy

KINDS = {'b': bool, 'i': int, 'f': float, 'c': complex}
NPDT = {'b': numpy.bool_, 'i': numpy.int64, 'f': numpy.float64, 'c': numpy.complex128}

BINARY = ('add', 'subtract', 'multiply', 'true_divide', 'floor_divide', 'mod', 'power', 'minimum', 'maximum',
          'greater', 'less', 'equal', 'not_equal', 'greater_equal', 'less_equal',
          'logical_and', 'logical_or', 'logical_xor', 'bitwise_and', 'bitwise_or', 'hypot', 'arctan2')
# transcendental functions: the TLA+ model decides shape / kind / dispatch; their values are irrational almost everywhere
TRANS = ('sin', 'cos', 'tan', 'arcsin', 'arccos', 'arctan', 'sinh', 'cosh', 'tanh', 'arctanh', 'exp', 'log', 'log2', 'log10', 'sinc')
UNARY = ('negative', 'positive', 'absolute', 'sign', 'reciprocal', 'square', 'sqrt', 'conjugate', 'real', 'imag', 'logical_not', 'invert') + TRANS
REDUCE = ('sum', 'prod', 'any', 'all', 'max', 'min')
# operator spelling of the same ufunc calls (NDArrayOperatorsMixin), used as a second route
OPERATORS = {'add': operator.add, 'subtract': operator.sub, 'multiply': operator.mul, 'true_divide': operator.truediv,
             'floor_divide': operator.floordiv, 'mod': operator.mod, 'power': operator.pow, 'greater': operator.gt, 'less': operator.lt,
             'greater_equal': operator.ge, 'less_equal': operator.le, 'bitwise_and': operator.and_, 'bitwise_or': operator.or_,
             'matmul': operator.matmul, 'negative': operator.neg, 'positive': operator.pos, 'absolute': abs, 'invert': operator.invert}
# operations whose floating point result is not the exactly rounded rational even for dyadic data
# (a quotient is exactly rounded by numpy, but nutils may rewrite a / b into a * b**-1 and the like: not reproducible to the last bit)
INEXACT = {'sqrt', 'norm', 'inv', 'det', 'interp', 'reciprocal', 'hypot', 'arctan2', 'true_divide'} | set(TRANS)
# operations that depend discontinuously on their (float) operands
DISCONT = {'floor_divide', 'mod', 'divmod', 'greater', 'less', 'equal', 'not_equal', 'greater_equal', 'less_equal', 'sign', 'searchsorted',
           'logical_and', 'logical_or', 'logical_xor', 'logical_not', 'any', 'all', 'choose', 'take', 'getitem', 'power'}
# for these only the listed operand positions (0-based) are discontinuous (the index operands)
# (power: a negative base with an exponent that is not exactly an integer is nan)
DISCONT_OPERANDS = {'choose': (0,), 'take': (1,), 'getitem': (1, 2, 3), 'power': (1,)}
LETTERS = ' ijklmn'


def kind_of(dtype):
    for t, k in ((bool, 'b'), (int, 'i'), (float, 'f'), (complex, 'c')):
        if dtype is t:
            return k
    k = numpy.dtype(dtype).kind
    return {'b': 'b', 'i': 'i', 'u': 'i', 'f': 'f', 'c': 'c'}.get(k, k)


def seq(x):
    'TLC prints an empty function as {} -- normalise JSON lists'
    if isinstance(x, dict) and not x:
        return []
    return x


def decode(sh, dt, v):
    """model flat values [[rn, rd, in, id], ...] -> (ndarray of the model's kind, boolean mask of undefined entries)"""
    v = seq(v)
    sh = tuple(seq(sh))
    n = len(v)
    bad = numpy.zeros(n, dtype=bool)
    if dt == 'c':
        out = numpy.zeros(n, dtype=complex)
    elif dt == 'f':
        out = numpy.zeros(n, dtype=float)
    elif dt == 'i':
        out = numpy.zeros(n, dtype=numpy.int64)
    else:
        out = numpy.zeros(n, dtype=bool)
    for k, (rn, rd, im, idn) in enumerate(v):
        if rd == 0 or idn == 0:
            bad[k] = True
            continue
        if dt == 'c':
            out[k] = complex(float(Fraction(rn, rd)), float(Fraction(im, idn)))
        elif dt == 'f':
            out[k] = float(Fraction(rn, rd))
        elif dt == 'i':
            assert rd == 1, 'model integer value is not integral'
            out[k] = rn
        else:
            assert rd == 1 and rn in (0, 1), 'model boolean value is not 0/1'
            out[k] = bool(rn)
    return out.reshape(sh), bad.reshape(sh)


def raw_value(leaf):
    'python object for a raw leaf: python scalar for shape (), ndarray otherwise'
    val, _ = decode(leaf['sh'], leaf['dt'], leaf['v'])
    if not leaf['sh']:
        return KINDS[leaf['dt']](val.item())
    return val


def decode_items(items, A):
    out = []
    for it in seq(items):
        k, a = it['k'], seq(it['a'])
        if k == 'int':
            out.append(int(a[0]))
        elif k == 'slice':
            out.append(slice(a[1] if a[0] else None, a[3] if a[2] else None, a[5] if a[4] else None))
        elif k == 'ell':
            out.append(Ellipsis)
        elif k == 'new':
            out.append(numpy.newaxis)
        elif k == 'arr':
            out.append(numpy.array(a, dtype=int).reshape(tuple(seq(it['sh']))).tolist())
        elif k == 'mask':
            out.append(numpy.array(a, dtype=bool).reshape(tuple(seq(it['sh']))))
        elif k == 'node':
            out.append(A[a[0] - 1])
        else:
            raise KeyError(k)
    return tuple(out) if len(out) != 1 else out[0]


def axis_of(spec):
    if spec['mode'] == 'none':
        return None
    ax = seq(spec['ax'])
    return int(ax[0]) if spec['mode'] == 'int' else tuple(int(a) for a in ax)


def subscripts(p):
    ins = [''.join(LETTERS[l] for l in seq(s)) for s in seq(p['ins'])]
    s = ','.join(ins)
    if not p['imp']:
        s += '->' + ''.join(LETTERS[l] for l in seq(p['out']))
    return s


def apply(op, p, A, expand_dims=None):
    """the NumPy API call of a model node applied to operands A (function arrays, ndarrays or python scalars)"""
    p = seq(p)
    if op in BINARY:
        return getattr(numpy, op)(A[0], A[1])
    if op == 'divmod':
        return numpy.divmod(A[0], A[1])[p[0]]
    if op in UNARY:
        return getattr(numpy, op)(A[0])
    if op in REDUCE:
        kw = {}
        ax = axis_of(p)
        if p['mode'] != 'none':
            kw['axis'] = ax
        if p['kd']:
            kw['keepdims'] = True
        return getattr(numpy, op)(A[0], **kw)
    if op == 'getitem':
        return A[0][decode_items(p, A)]
    if op == 'reshape':
        return numpy.reshape(A[0], tuple(int(n) for n in p))
    if op == 'ravel':
        return numpy.ravel(A[0])
    if op == 'transpose':
        return numpy.transpose(A[0]) if p['none'] else numpy.transpose(A[0], tuple(int(a) for a in seq(p['ax'])))
    if op == 'swapaxes':
        return numpy.swapaxes(A[0], p[0], p[1])
    if op == 'moveaxis':
        return numpy.moveaxis(A[0], p[0], p[1])
    if op == 'expand_dims':
        return (expand_dims or numpy.expand_dims)(A[0], p[0])
    if op == 'broadcast_to':
        return numpy.broadcast_to(A[0], tuple(int(n) for n in p))
    if op == 'repeat':
        return numpy.repeat(A[0], p[0], p[2]) if p[1] else numpy.repeat(A[0], p[0])
    if op == 'stack':
        return numpy.stack(list(A), p[0])
    if op == 'concatenate':
        return numpy.concatenate(list(A), p[0])
    if op == 'take':
        idx = numpy.array(seq(p['idx']), dtype=int).reshape(tuple(seq(p['ish']))).tolist() if p['lit'] else A[1]
        return numpy.take(A[0], idx, p['ax']) if p['axg'] else numpy.take(A[0], idx)
    if op == 'choose':
        return numpy.choose(A[0], list(A[1:]))
    if op == 'compress':
        cond = [bool(c) for c in seq(p['cond'])]
        return numpy.compress(cond, A[0], p['ax']) if p['axg'] else numpy.compress(cond, A[0])
    if op in ('dot', 'matmul', 'vdot', 'cross'):
        return getattr(numpy, op)(A[0], A[1])
    if op == 'einsum':
        return numpy.einsum(subscripts(p), *A)
    if op == 'trace':
        return numpy.trace(A[0], p[0], p[1], p[2])
    if op == 'diagonal':
        return numpy.diagonal(A[0], p[0], p[1], p[2])
    if op == 'det':
        return numpy.linalg.det(A[0])
    if op == 'inv':
        return numpy.linalg.inv(A[0])
    if op == 'norm':
        return numpy.linalg.norm(A[0], axis=p[1]) if p[0] else numpy.linalg.norm(A[0])
    if op == 'searchsorted':
        return numpy.searchsorted(A[0], A[1], side='right' if p[0] else 'left')
    if op == 'interp':
        return numpy.interp(A[0], A[1], A[2])
    raise KeyError(op)


def apply_alt(op, p, A):
    """a second spelling of the same call where one exists (operators of NDArrayOperatorsMixin, Array methods); None if there is none"""
    p = seq(p)
    if op in OPERATORS and op != 'matmul':
        return OPERATORS[op](*A[:2]) if op in BINARY else OPERATORS[op](A[0])
    if op == 'matmul':
        return operator.matmul(A[0], A[1])
    if op == 'divmod':
        return divmod(A[0], A[1])[p[0]]
    if not hasattr(A[0], 'lower'):
        return None
    if op == 'transpose':
        return A[0].T if p['none'] else A[0].transpose(tuple(int(a) for a in seq(p['ax'])))
    if op == 'swapaxes':
        return A[0].swapaxes(p[0], p[1])
    if op in ('sum', 'prod') and p['mode'] != 'none' and not p['kd']:
        return getattr(A[0], op)(axis_of(p))
    if op in ('conjugate',):
        return A[0].conjugate()
    if op in ('real', 'imag'):
        return getattr(A[0], op)
    if op == 'choose':
        return A[0].choose(list(A[1:]))
    return None


def pyexpr(nodes, k=None):
    'python source text of the call tree (for reports / snippets)'
    k = len(nodes) if k is None else k
    n = nodes[k - 1]
    op, p = n['op'], seq(n['p'])
    a = [pyexpr(nodes, d) for d in seq(n['d'])]
    if op == 'leaf':
        return p
    if op == 'getitem':
        parts = []
        for it in p:
            kk, aa = it['k'], seq(it['a'])
            if kk == 'int':
                parts.append(str(aa[0]))
            elif kk == 'slice':
                s = '{}:{}'.format(aa[1] if aa[0] else '', aa[3] if aa[2] else '')
                if aa[4]:
                    s += ':{}'.format(aa[5])
                parts.append(s)
            elif kk == 'ell':
                parts.append('...')
            elif kk == 'new':
                parts.append('None')
            elif kk == 'arr':
                parts.append(str(numpy.array(aa, dtype=int).reshape(tuple(seq(it['sh']))).tolist()))
            elif kk == 'mask':
                parts.append('numpy.array({})'.format(numpy.array(aa, dtype=bool).reshape(tuple(seq(it['sh']))).tolist()))
            else:
                parts.append(a[aa[0] - 1])
        return '{}[{}]'.format(a[0], ', '.join(parts))
    if op in REDUCE:
        s = 'numpy.{}({}'.format(op, a[0])
        if p['mode'] != 'none':
            s += ', axis={}'.format(axis_of(p))
        if p['kd']:
            s += ', keepdims=True'
        return s + ')'
    if op == 'divmod':
        return 'numpy.divmod({}, {})[{}]'.format(a[0], a[1], p[0])
    if op == 'transpose':
        return 'numpy.transpose({})'.format(a[0]) if p['none'] else 'numpy.transpose({}, {})'.format(a[0], tuple(seq(p['ax'])))
    if op in ('reshape', 'broadcast_to'):
        return 'numpy.{}({}, {})'.format(op, a[0], tuple(p))
    if op in ('stack', 'concatenate'):
        return 'numpy.{}([{}], {})'.format(op, ', '.join(a), p[0])
    if op == 'take':
        idx = numpy.array(seq(p['idx']), dtype=int).reshape(tuple(seq(p['ish']))).tolist() if p['lit'] else a[1]
        return 'numpy.take({}, {}{})'.format(a[0], idx, ', {}'.format(p['ax']) if p['axg'] else '')
    if op == 'choose':
        return 'numpy.choose({}, [{}])'.format(a[0], ', '.join(a[1:]))
    if op == 'compress':
        return 'numpy.compress({}, {}{})'.format([bool(c) for c in seq(p['cond'])], a[0], ', {}'.format(p['ax']) if p['axg'] else '')
    if op == 'einsum':
        return 'numpy.einsum({!r}, {})'.format(subscripts(p), ', '.join(a))
    if op == 'repeat':
        return 'numpy.repeat({}, {}{})'.format(a[0], p[0], ', {}'.format(p[2]) if p[1] else '')
    if op == 'norm':
        return 'numpy.linalg.norm({}{})'.format(a[0], ', axis={}'.format(p[1]) if p[0] else '')
    if op in ('det', 'inv'):
        return 'numpy.linalg.{}({})'.format(op, a[0])
    if op == 'searchsorted':
        return 'numpy.searchsorted({}, {}, side={!r})'.format(a[0], a[1], 'right' if p[0] else 'left')
    if isinstance(p, list) and p:
        return 'numpy.{}({}, {})'.format(op, ', '.join(a), ', '.join(str(x) for x in p))
    return 'numpy.{}({})'.format(op, ', '.join(a))


def descriptor(nodes, k):
    """short root-cause descriptor of the call at node k: routine + the feature of its parameters / operand kinds that selects
    the code path (stable across seeds, never the whole input)"""
    n = nodes[k - 1]
    op, p = n['op'], seq(n['p'])
    kinds = ','.join(nodes[d - 1]['dt'] for d in seq(n['d']))
    ranks = [len(seq(nodes[d - 1]['sh'])) for d in seq(n['d'])]
    if op in BINARY or op == 'divmod':
        return op, kinds
    if op in UNARY:
        return op, kinds
    if op in REDUCE:
        ax = seq(p['ax'])
        r = ranks[0]
        if p['mode'] == 'none':
            f = 'axis-none'
        elif any(a < -r or a >= r for a in ax):
            f = 'axis-out-of-range'
        elif len({a % r for a in ax}) < len(ax):
            f = 'axis-duplicate'
        elif p['mode'] == 'int':
            f = 'axis-negative' if ax[0] < 0 else 'axis-int'
        else:
            f = 'axis-tuple-empty' if not ax else 'axis-tuple-negative' if any(a < 0 for a in ax) else 'axis-tuple'
        if p['kd']:
            f = 'keepdims'
        return op, f + ':' + kinds
    if op == 'getitem':
        feats = set()
        narr = 0
        sh = seq(nodes[seq(n['d'])[0] - 1]['sh'])
        for it in p:
            kk, aa = it['k'], seq(it['a'])
            if kk == 'int':
                feats.add('negative-int' if aa[0] < 0 else 'int')
                narr += 0
            elif kk == 'slice':
                step = aa[5] if aa[4] else 1
                big = max(sh) if sh else 0
                if step < 0:
                    feats.add('negative-step-slice')
                elif step > 1:
                    feats.add('step-slice')
                if (aa[0] and (aa[1] > big or aa[1] < -big)) or (aa[2] and (aa[3] > big or aa[3] < -big)):
                    feats.add('clipped-slice')
                if aa[0] and aa[2] and step > 0 and 0 <= aa[3] <= aa[1]:
                    feats.add('empty-slice')
                feats.add('slice')
            elif kk == 'ell':
                feats.add('ellipsis')
            elif kk == 'new':
                feats.add('newaxis')
            elif kk == 'arr':
                narr += 1
                feats.add('index-array')
                if any(x < 0 for x in aa):
                    feats.add('negative-index-array')
                if len(seq(it['sh'])) > 1:
                    feats.add('nd-index-array')
                if not aa:
                    feats.add('empty-index-array')
            elif kk == 'mask':
                feats.add('bool-mask')
            elif kk == 'node':
                narr += 1
                feats.add('function-index-array')
        if narr >= 2:
            feats.add('multiple-index-arrays')
        elif narr == 1 and feats & {'int', 'negative-int'}:
            feats.add('index-array-with-int')
        for prio in ('bool-mask', 'multiple-index-arrays', 'index-array-with-int', 'function-index-array', 'empty-index-array', 'clipped-slice', 'empty-slice', 'negative-step-slice', 'step-slice',
                     'nd-index-array', 'negative-index-array', 'index-array', 'newaxis', 'ellipsis', 'negative-int', 'slice', 'int'):
            if prio in feats:
                return op, prio
        return op, 'empty'
    if op == 'transpose':
        return op, 'axes-none' if p['none'] else 'axes-negative' if any(a < 0 for a in seq(p['ax'])) else 'axes'
    if op in ('swapaxes', 'moveaxis', 'expand_dims'):
        return op, 'negative' if any(a < 0 for a in p) else 'nonnegative'
    if op == 'reshape':
        return op, 'unknown-dimension' if any(a < 0 for a in p) else 'explicit'
    if op == 'repeat':
        return op, ('axis-none' if not p[1] else 'axis') + (':singleton' if p[1] and ranks[0] and -ranks[0] <= p[2] < ranks[0] and seq(nodes[seq(n['d'])[0] - 1]['sh'])[p[2]] == 1 else '')
    if op in ('stack', 'concatenate'):
        return op, ('axis-negative' if p[0] < 0 else 'axis') + ':' + kinds
    if op == 'take':
        return op, ('literal' if p['lit'] else 'function-indices') + (':axis-none' if not p['axg'] else ':axis-negative' if p['ax'] < 0 else ':axis')
    if op == 'compress':
        return op, 'axis-none' if not p['axg'] else 'axis'
    if op == 'choose':
        return op, kinds
    if op in ('dot', 'matmul', 'vdot', 'cross'):
        return op, 'ranks-{}:{}'.format(','.join(map(str, ranks)), kinds)
    if op == 'einsum':
        return op, subscripts(p)
    if op in ('trace', 'diagonal'):
        return op, ('offset' if p[0] else 'main') + (':negative-axes' if p[1] < 0 or p[2] < 0 else '')
    if op == 'norm':
        return op, 'axis' if p[0] else 'axis-none'
    return op, kinds
