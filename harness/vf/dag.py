"""DAG JSON <-> nutils evaluables, and the TLC-side evaluation service (EvalDag).

A program is a list of node dicts {op, d, p, sh, dt[, ix]} in post order (d holds
1-based positions), exactly the records of spec/ArraySem.tla / ExprBuilder.tla.
spec -> nutils uses the RAW constructors of nutils.evaluable (never the
simplifying helpers) so that the program replayed is the program generated.
"""

import json
import os
import subprocess
from fractions import Fraction

import numpy

from . import tlc

DT = {'b': bool, 'i': int, 'f': float}
ARGNAMES = {1: 'a1', 2: 'a2', 3: 'a3', 4: 'a4', 5: 'a5', 6: 'a6', 7: 'a7', 8: 'a8', 9: 'a9'}


def build(nodes):
    """return list of nutils evaluable arrays, one per node"""
    from nutils import evaluable as ev, types
    out = []
    c = ev.constant
    for n in nodes:
        op, d, p, sh, dt = n['op'], n['d'], n['p'], n['sh'], DT[n['dt']]
        A = [out[i - 1] for i in d]
        if op == 'Arg':
            r = ev.Argument(ARGNAMES[p[0]], tuple(c(k) for k in sh), dt)
        elif op == 'Const':
            vals = [Fraction(p[2 * k], p[2 * k + 1]) for k in range(len(p) // 2)]
            arr = numpy.array([float(v) if dt is float else (bool(v) if dt is bool else int(v)) for v in vals], dtype=dt).reshape(sh)
            r = ev.Constant(types.arraydata(arr))
        elif op == 'Zeros':
            r = ev.Zeros(tuple(c(k) for k in sh), dt)
        elif op == 'Range':
            r = ev.Range(c(p[0]))
        elif op == 'LoopIndex':
            r = ev.loop_index('l{}'.format(p[0]), c(p[1]))
        elif op == 'InsertAxis':
            r = ev.InsertAxis(A[0], c(p[0]))
        elif op == 'Transpose':
            r = ev.Transpose(A[0], tuple(p))
        elif op == 'Sum':
            r = ev.Sum(A[0])
        elif op == 'Product':
            r = ev.Product(A[0])
        elif op == 'Multiply':
            r = ev.Multiply(types.frozenmultiset([A[0], A[1]]))
        elif op == 'Add':
            r = ev.Add(types.frozenmultiset([A[0], A[1]]))
        elif op == 'Power':
            r = ev.Power(A[0], A[1])
        elif op in ('Negative', 'Reciprocal', 'Absolute', 'LogicalNot', 'BoolToInt', 'IntToFloat', 'Sign',
                    'TakeDiag', 'Diagonalize', 'Ravel', 'Determinant', 'Inverse'):
            r = getattr(ev, op)(A[0])
        elif op in ('FloorDivide', 'Mod', 'Minimum', 'Maximum', 'Equal', 'Less', 'Greater', 'Take', 'Choose', 'Polyval'):
            r = getattr(ev, op)(A[0], A[1])
        elif op == 'Inflate':
            r = ev.Inflate(A[0], A[1], c(p[0]))
        elif op == 'Unravel':
            r = ev.Unravel(A[0], c(p[0]), c(p[1]))
        elif op == 'RavelIndex':
            r = ev.RavelIndex(A[0], A[1], c(p[0]), c(p[1]))
        elif op == 'InRange':
            r = ev.InRange(A[0], c(p[0]))
        elif op == 'NormDim':
            r = ev.NormDim(A[0], A[1])
        elif op == 'LoopSum':
            idx = ev.loop_index('l{}'.format(p[0]), c(p[1]))
            r = ev.LoopSum(idx.loop_id, idx.length, A[0], A[0].shape)
        elif op == 'LoopConcat':
            idx = ev.loop_index('l{}'.format(p[0]), c(p[1]))
            r = ev.loop_concatenate(A[0], idx)
        else:
            raise KeyError(op)
        out.append(r)
    return out


# ---------------------------------------------------------------------------
# nutils -> DAG JSON (for C->S: simplification steps, derivative expressions)

class Unsupported(Exception):
    pass


def const_int(a):
    'value of a constant scalar integer evaluable (axis length etc.)'
    from nutils import evaluable as ev
    if isinstance(a, ev.Constant) and a.ndim == 0:
        return int(a.value)
    if a.ndim or not a.isconstant or a._loops:
        raise Unsupported('non-constant length')
    lo, hi = a._intbounds
    if lo == hi:
        return int(lo)
    return int(ev.eval_once(a))


def export(roots):
    """export nutils evaluables (list) into one shared program; returns (nodes, positions of roots).
    Raises Unsupported for nodes outside the ArraySem vocabulary."""
    from nutils import evaluable as ev
    nodes = []
    memo = {}
    argids = {v: k for k, v in ARGNAMES.items()}

    def static_shape(a):
        return [cint(n) for n in a.shape]

    def dtc(a):
        return {bool: 'b', int: 'i', float: 'f'}.get(a.dtype) or _unsup('dtype {}'.format(a.dtype))

    def _unsup(msg):
        raise Unsupported(msg)

    def cint(a):
        return const_int(a)

    def add(op, d, p, a):
        nodes.append(dict(op=op, d=d, p=p, sh=static_shape(a), dt=dtc(a), ix=0))
        return len(nodes)

    def visit(a):
        if a in memo:
            return memo[a]
        T = type(a).__name__
        if T == 'Argument':
            if a.name not in argids:
                raise Unsupported('argument ' + a.name)
            r = add('Arg', [], [argids[a.name]], a)
        elif T == 'Constant':
            v = numpy.asarray(a.value)
            if v.size > 64:
                raise Unsupported('large constant')
            p = []
            for x in v.ravel():
                fr = Fraction(x.item()) if v.dtype.kind == 'f' else Fraction(int(x))
                if fr.denominator > 10000 or abs(fr.numerator) > 10000:
                    raise Unsupported('constant magnitude')
                p += [fr.numerator, fr.denominator]
            r = add('Const', [], p, a)
        elif T == 'Zeros':
            r = add('Zeros', [], [], a)
        elif T == 'Range':
            r = add('Range', [], [cint(a.length)], a)
        elif T == '_LoopIndex':
            name = str(a.loop_id)
            if not (name.startswith('l') and name[1:].isdigit()):
                raise Unsupported('loop id ' + name)
            r = add('LoopIndex', [], [int(name[1:]), cint(a.length)], a)
        elif T == 'InsertAxis':
            r = add('InsertAxis', [visit(a.func)], [cint(a.length)], a)
        elif T == 'Transpose':
            r = add('Transpose', [visit(a.func)], list(a.axes), a)
        elif T in ('Sum', 'Product', 'TakeDiag', 'Diagonalize', 'Ravel', 'Determinant', 'Inverse', 'Sign'):
            r = add(T, [visit(a.func)], [], a)
        elif T in ('Multiply', 'Add'):
            f1, f2 = a.funcs
            r = add(T, [visit(f1), visit(f2)], [], a)
        elif T == 'Power':
            r = add('Power', [visit(a.func), visit(a.power)], [], a)
        elif T in ('Negative', 'Reciprocal', 'Absolute', 'BoolToInt', 'IntToFloat'):
            r = add(T, [visit(a.arg)], [], a)
        elif T == 'LogicalNot':
            r = add(T, [visit(a.x)], [], a)
        elif T in ('FloorDivide', 'Mod'):
            r = add(T, [visit(a.dividend), visit(a.divisor)], [], a)
        elif T in ('Minimum', 'Maximum', 'Equal', 'Less', 'Greater'):
            r = add(T, [visit(a.x), visit(a.y)], [], a)
        elif T == 'Take':
            r = add('Take', [visit(a.func), visit(a.indices)], [], a)
        elif T == 'Inflate':
            r = add('Inflate', [visit(a.func), visit(a.dofmap)], [cint(a.length)], a)
        elif T == 'Unravel':
            r = add('Unravel', [visit(a.func)], [cint(a.sh1), cint(a.sh2)], a)
        elif T == 'RavelIndex':
            r = add('RavelIndex', [visit(a.ia), visit(a.ib)], [cint(a.na), cint(a.nb)], a)
        elif T == 'Choose':
            r = add('Choose', [visit(a.index), visit(a.choices)], [], a)
        elif T == 'InRange':
            r = add('InRange', [visit(a.index)], [cint(a.length)], a)
        elif T == 'NormDim':
            r = add('NormDim', [visit(a.length), visit(a.index)], [], a)
        elif T == 'Polyval':
            if a.points_ndim != 1:
                raise Unsupported('Polyval nvars')
            r = add('Polyval', [visit(a.coeffs), visit(a.points)], [], a)
        elif T == 'LoopSum':
            name = str(a.loop_id)
            if not (name.startswith('l') and name[1:].isdigit()):
                raise Unsupported('loop id ' + name)
            r = add('LoopSum', [visit(a.func)], [int(name[1:]), cint(a.length)], a)
        elif T == 'LoopConcatenate':
            name = str(a.loop_id)
            if not (name.startswith('l') and name[1:].isdigit()) or not a.func.shape[-1].isconstant:
                raise Unsupported('loop concatenate')
            r = add('LoopConcat', [visit(a.func)], [int(name[1:]), cint(a.length), cint(a.func.shape[-1])], a)
        elif T in ('Guard',):
            r = add('Identity', [visit(a.fun)], [], a)
        elif T == '_Get':
            # func[..., index] == Take(func, index) with scalar index
            r = add('Take', [visit(a.func), visit(a.index)], [], a)
        else:
            raise Unsupported(T)
        memo[a] = r
        return r

    pos = [visit(r) for r in roots]
    return nodes, pos


# ---------------------------------------------------------------------------
# environments

ARGSH = {1: [2], 2: [2, 2], 3: [], 4: [3], 5: [2], 6: [2], 7: [2, 2, 2], 8: [3, 3], 9: [4]}
ARGDT = {1: float, 2: float, 3: float, 4: float, 5: int, 6: bool, 7: float, 8: float, 9: float}

# integer data per argument id (flat); chosen to avoid ties/kinks where possible
ENVS = [
    {1: [1, 2], 2: [1, 2, 3, 5], 3: [2], 4: [1, 2, 3], 5: [1, 0], 6: [1, 0], 7: [1, 2, 3, 4, 5, 6, 7, 9], 8: [2, 1, 0, 1, 3, 1, 0, 1, 2], 9: [1, 2, 3, 4]},
    {1: [-2, 3], 2: [2, -1, 1, 3], 3: [-3], 4: [-1, 3, 2], 5: [0, 1], 6: [0, 1], 7: [-1, 2, -3, 1, 3, -2, 2, 1], 8: [1, -2, 3, 2, 1, -1, -3, 1, 2], 9: [-2, 1, 3, -1]},
    {1: [3, -1], 2: [-3, 1, 2, -2], 3: [-4], 4: [2, -2, 1], 5: [1, 1], 6: [1, 1], 7: [2, -1, 1, 3, -2, 1, -3, 2], 8: [-1, 3, 2, 1, -2, 3, 2, 1, -3], 9: [2, -3, -1, 4]},
]


def env_arrays(env):
    return {ARGNAMES[k]: numpy.array(v, dtype=ARGDT[k]).reshape(ARGSH[k]) for k, v in env.items()}


INEXACT_OPS = {'Inverse', 'Reciprocal', 'Power'}
DISCONTINUOUS_OPS = {'FloorDivide', 'Mod', 'Less', 'Greater', 'Equal', 'Sign'}


def unstable(nodes):
    """True if a discontinuous operation consumes a float value that is not exactly representable in IEEE
    arithmetic (it derives from a matrix inverse, reciprocal or float power): the real evaluation may then land
    on the other side of the discontinuity (floor(1.9999999999999996/2) vs floor(2/2)) although it is correct up
    to rounding, which the properties explicitly allow.  Such programs are not judged against the exact model."""
    inexact = []
    for n in nodes:
        ix = n['dt'] == 'f' and (n['op'] in INEXACT_OPS or any(inexact[d - 1] for d in n['d']))
        if n['op'] in DISCONTINUOUS_OPS and any(inexact[d - 1] for d in n['d']):
            return True
        # comparisons produce bool/int results that depend discontinuously on inexact inputs: handled above
        inexact.append(ix)
    return False


def args_used(nodes):
    return sorted({n['p'][0] for n in nodes if n['op'] == 'Arg'})


def nloops(nodes):
    return max([n['p'][0] for n in nodes if n['op'] in ('LoopIndex', 'LoopSum', 'LoopConcat')] + [2])


# ---------------------------------------------------------------------------
# TLC evaluation service

def _job(jid, nodes, evals, pairs=()):
    N = [dict(op=n['op'], d=n['d'], p=n['p'], sh=n['sh'], dt=n['dt']) for n in nodes]
    nl = nloops(nodes)
    ev = []
    for e in evals:
        ev.append(dict(args=[e['env'].get(a, [0] * int(numpy.prod(ARGSH[a]))) for a in sorted(ARGSH)],
                       lenv=list(e.get('lenv', [0] * nl)) + [0] * (nl - len(e.get('lenv', [0] * nl))),
                       seed=list(e.get('seed', (0, 0))), node=e['node']))
    return dict(id=jid, N=N, argsh=[ARGSH[a] for a in sorted(ARGSH)], evals=ev, pairs=[dict(a=a, b=b) for a, b in pairs])


def run_jobs(module, jobdicts, tag, nproc=None, timeout=1800):
    """run spec/<module>.tla (a job-evaluating spec: one initial state per job, work done in the constraint)
    over `jobdicts` (each with an integer 'id' = position) split over parallel single-worker TLC processes.
    Returns (results by position (None where TLC emitted nothing), list of tlc.Result for statistics)."""
    import shutil
    if not jobdicts:
        return [], []
    nproc = nproc or min(16, max(1, len(jobdicts) // 8))
    wd = tlc.workdir(tag)
    chunks = [[] for _ in range(nproc)]
    for i, j in enumerate(jobdicts):
        chunks[i % nproc].append(j)
    procs = []
    for c, chunk in enumerate(chunks):
        if not chunk:
            continue
        cd = os.path.join(wd, 'c{}'.format(c))
        os.makedirs(cd)
        for fn in ('ArraySem.tla', module + '.tla', module + '.cfg'):
            shutil.copy(os.path.join(tlc.SPEC, fn), cd)
        jp = os.path.join(cd, 'jobs.json')
        with open(jp, 'w') as f:
            json.dump(chunk, f)
        cmd = ['java', '-XX:+UseSerialGC', '-XX:TieredStopAtLevel=1', '-Xmx1g', '-Xss32m', '-cp', tlc.JAR, 'tlc2.TLC', '-workers', '1', '-metadir', os.path.join(cd, 'meta'),
               '-noGenerateSpecTE', '-deadlock', '-config', module + '.cfg', module + '.tla']
        e = dict(os.environ, VF_JOBS=jp)
        out = open(os.path.join(cd, 'tlc.out'), 'w')
        procs.append((subprocess.Popen(cmd, cwd=cd, env=e, stdout=out, stderr=subprocess.STDOUT), cd, out))
    results = [None] * len(jobdicts)
    stats = []
    for p, cd, out in procs:
        try:
            p.wait(timeout=timeout)
        except subprocess.TimeoutExpired:
            p.kill()
        out.close()
        text = open(os.path.join(cd, 'tlc.out'), errors='replace').read()
        res = tlc.Result()
        res.cmd = 'tlc2.TLC -workers 1 -config {0}.cfg {0}.tla'.format(module)
        tlc.parse(text, res)
        stats.append(res)
        for e in res.emitted:
            results[e['id']] = e
        if p.returncode not in (0,) and not res.emitted:
            raise tlc.TLCError('{} failed in {}:\n{}'.format(module, cd, '\n'.join(text.splitlines()[-30:])))
    return results, stats


def evaluate(jobs, tag='evaldag', nproc=None, timeout=1800):
    """jobs: list of (nodes, evals, pairs). Returns (list of results in job order, TLC stats list).
    result = dict(vals=[array dicts], verdicts=[...]) or None if TLC could not evaluate the job."""
    return run_jobs('EvalDag', [_job(i, nodes, evals, pairs) for i, (nodes, evals, pairs) in enumerate(jobs)], tag, nproc, timeout)


def arr_value(proj):
    """model array projection -> (values as Fraction ndarray(object) or None if any undefined, tangents likewise)"""
    sh = proj['sh']
    vals, tans = [], []
    bad = tbad = False
    for vn, vd, tn, td in proj['v']:
        if vd == 0:
            bad = True
            vals.append(None)
        else:
            vals.append(Fraction(vn, vd))
        if td == 0:
            tbad = True
            tans.append(None)
        else:
            tans.append(Fraction(tn, td))
    v = numpy.empty(len(vals), dtype=object)
    v[:] = vals
    t = numpy.empty(len(tans), dtype=object)
    t[:] = tans
    return v.reshape(sh), bad, t.reshape(sh), tbad


def matches(model_vals, actual, dt):
    """compare model Fractions with numpy result"""
    actual = numpy.asarray(actual)
    if list(actual.shape) != list(model_vals.shape):
        return False
    if dt in ('b', 'i'):
        exp = numpy.array([int(x) for x in model_vals.ravel()], dtype=int).reshape(model_vals.shape)
        return bool((actual.astype(int) == exp).all())
    exp = numpy.array([float(x) for x in model_vals.ravel()], dtype=float).reshape(model_vals.shape)
    return bool(numpy.allclose(actual, exp, rtol=1e-9, atol=1e-12, equal_nan=False))


KIND = {'b': 'b', 'i': 'i', 'f': 'f'}


def dtype_char(dtype):
    return numpy.dtype(dtype).kind.replace('u', 'i')
