------------------------------ MODULE HashSem ------------------------------
(***************************************************************************)
(* Semantics shared by the C17 specifications (Hash, HashTable, Intern):   *)
(*                                                                         *)
(*   - abstract VALUES that nutils hashes, as terms <<kind, payload, kids>> *)
(*     (kind a string, payload a sequence of strings, kids a sequence of   *)
(*     terms; this uniform shape keeps TLC comparisons well typed and      *)
(*     survives a JSON round trip unchanged);                              *)
(*   - Enc(v): the structure of nutils.types.nutils_hash (types.py 74-150) *)
(*     and of the __nutils_hash__ properties of Immutable / Singleton /    *)
(*     DataClass / arraydata / frozendict / frozenmultiset /               *)
(*     hashable_function (types.py 235-240, 361-366, 446-451, 530-535,     *)
(*     713) and of the key of cache.function (cache.py 179-197)            *)
(*     transcribed branch by branch.  SHA-1 is modelled as an         *)
(*     injective constructor <<"H", input>>; the input is a sequence of    *)
(*     items: <<"raw", text>> (adjacent raw texts are concatenated, so     *)
(*     that boundary ambiguities of un-delimited fields are visible),      *)
(*     digests <<"H", ..>> (fixed width, hence self delimiting),           *)
(*     <<"sorted", bag>> for sorted(..) of fixed width chunks and          *)
(*     <<"arr", dtype, values>> for ndarray.tobytes();                     *)
(*   - Canon(v): the behavioural identity of a value (what the property    *)
(*     calls "can behave differently"): construction routes erased, dict / *)
(*     set / multiset order erased, numpy scalars identified with the      *)
(*     python scalar of the same value, classes identified by the class    *)
(*     OBJECT (class key), not by their name.                              *)
(*                                                                         *)
(* NUL bytes are written "~" in raw texts.                                 *)
(***************************************************************************)
EXTENDS Naturals, Sequences, FiniteSets, TLC, SequencesExt

CONSTANTS TagMode,       \* "name": type tag is t.__name__ (the code); "qualified": module.qualname for non-builtins
          ExtraClasses   \* class table entries for values exported from the live code (function key -> record)

T(k, p, c) == <<k, p, c>>
Kind(v) == v[1]
Pay(v) == v[2]
Kids(v) == v[3]
Sc(k, r) == <<k, <<r>>, <<>>>>
I(n) == Sc("int", n)
S(s) == Sc("str", s)
B(s) == Sc("bytes", s)
F(r) == Sc("float", r)
TrueV == Sc("bool", "True")
FalseV == Sc("bool", "False")
NoneV == T("none", <<>>, <<>>)
Tup(c) == T("tuple", <<>>, c)
Lst(c) == T("list", <<>>, c)
Pair(k, x) == T("pair", <<>>, <<k, x>>)
Ty(key) == T("type", <<key>>, <<>>)
Np(npname, pykind, r) == T("npscalar", <<npname, pykind, r>>, <<>>)

(* ------------------------------------------------------------------ classes *)
(* name = __name__, mod = __module__, qual = __qualname__, ver = version of *)
(* ImmutableMeta, base = how instances are hashed, params = constructor     *)
(* parameters / fields, ndef = number of trailing parameters that default   *)
(* to the int 2.  The harness BUILDS the synthetic classes from this table. *)
Cl(name, mod, qual, ver, base, params, ndef) ==
    [name |-> name, mod |-> mod, qual |-> qual, ver |-> ver, base |-> base, params |-> params, ndef |-> ndef]
Builtin(n) == Cl(n, "builtins", n, "0", "builtin", <<>>, 0)

ClassTab ==
    ("int" :> Builtin("int")) @@ ("bool" :> Builtin("bool")) @@ ("float" :> Builtin("float"))
 @@ ("complex" :> Builtin("complex")) @@ ("str" :> Builtin("str")) @@ ("bytes" :> Builtin("bytes"))
 @@ ("tuple" :> Builtin("tuple")) @@ ("list" :> Builtin("list")) @@ ("dict" :> Builtin("dict"))
 @@ ("frozenset" :> Builtin("frozenset"))
    \* plain classes: two different classes called A1
 @@ ("A1@m1" :> Cl("A1", "vfm1", "A1", "0", "plain", <<>>, 0))
 @@ ("A1@m2" :> Cl("A1", "vfm2", "A1", "0", "plain", <<>>, 0))
 @@ ("A2@m1" :> Cl("A2", "vfm1", "A2", "0", "plain", <<>>, 0))
    \* collections.namedtuple classes; two called P, one called like the builtin tuple
 @@ ("P@m1" :> Cl("P", "vfm1", "P", "0", "namedtuple", <<"a", "b">>, 0))
 @@ ("P@m2" :> Cl("P", "vfm2", "P", "0", "namedtuple", <<"x", "y">>, 0))
 @@ ("Q@m1" :> Cl("Q", "vfm1", "Q", "0", "namedtuple", <<"a", "b">>, 0))
 @@ ("tuple@m1" :> Cl("tuple", "vfm1", "tuple", "0", "namedtuple", <<"a", "b">>, 0))
    \* dataclasses.dataclass(frozen=True) classes
 @@ ("R@m1" :> Cl("R", "vfm1", "R", "0", "dataclass", <<"a", "b">>, 0))
 @@ ("R@m2" :> Cl("R", "vfm2", "R", "0", "dataclass", <<"a", "b">>, 0))
 @@ ("R2@m1" :> Cl("R2", "vfm1", "R2", "0", "dataclass", <<"a", "b">>, 0))
    \* nutils.types.Immutable subclasses  __init__(self, a, b=2)
 @@ ("I1@m1" :> Cl("I1", "vfm1", "I1", "0", "Immutable", <<"a", "b">>, 1))
 @@ ("I1@m2" :> Cl("I1", "vfm2", "I1", "0", "Immutable", <<"a", "b">>, 1))
 @@ ("I1v1@m1" :> Cl("I1", "vfm1", "I1", "1", "Immutable", <<"a", "b">>, 1))
 @@ ("I2@m1" :> Cl("I2", "vfm1", "I2", "0", "Immutable", <<"a", "b">>, 1))
    \* nutils.types.Singleton subclasses
 @@ ("S1@m1" :> Cl("S1", "vfm1", "S1", "0", "Singleton", <<"a", "b">>, 1))
 @@ ("S1@m2" :> Cl("S1", "vfm2", "S1", "0", "Singleton", <<"a", "b">>, 1))
 @@ ("S2@m1" :> Cl("S2", "vfm1", "S2", "0", "Singleton", <<"a", "b">>, 1))
    \* functions  def f(a, b=2)  memoised with nutils.cache.function(version=ver)
 @@ ("f1@m1" :> Cl("f1", "vfm1", "f1", "0", "function", <<"a", "b">>, 1))
 @@ ("f1@m2" :> Cl("f1", "vfm2", "f1", "0", "function", <<"a", "b">>, 1))
 @@ ("f1v1@m1" :> Cl("f1", "vfm1", "f1", "1", "function", <<"a", "b">>, 1))
 @@ ("f2@m1" :> Cl("f2", "vfm1", "f2", "0", "function", <<"a", "b">>, 1))
    \* nutils.types.DataClass subclasses   a: object; b: object = 2
 @@ ("D1@m1" :> Cl("D1", "vfm1", "D1", "0", "DataClass", <<"a", "b">>, 1))
 @@ ("D1@m2" :> Cl("D1", "vfm2", "D1", "0", "DataClass", <<"a", "b">>, 1))
 @@ ("D2@m1" :> Cl("D2", "vfm1", "D2", "0", "DataClass", <<"a", "b">>, 1))

Classes == ClassTab @@ ExtraClasses

\* the tag that nutils_hash derives from a class: t.__name__ in the code
TagOf(key) == LET c == Classes[key] IN
              IF TagMode = "qualified" /\ c.mod # "builtins" THEN c.mod \o "." \o c.qual ELSE c.name

(* ------------------------------------------------------------------ hash input *)
Sha(items) == <<"H", items>>
AddRaw(items, s) == IF s = "" THEN items
                    ELSE IF Len(items) > 0 /\ items[Len(items)][1] = "raw"
                         THEN [items EXCEPT ![Len(items)] = <<"raw", @[2] \o s>>]
                         ELSE Append(items, <<"raw", s>>)
Raw(s) == AddRaw(<<>>, s)
Start(tag) == Raw(tag \o "~")                     \* sha1(t.__name__.encode()+b'\0')

RECURSIVE Cat(_, _)                               \* h.update of a chunk of items
Cat(items, chunk) == IF chunk = <<>> THEN items
                     ELSE Cat(IF Head(chunk)[1] = "raw" THEN AddRaw(items, Head(chunk)[2]) ELSE Append(items, Head(chunk)), Tail(chunk))

BagOfSeq(s) == [x \in ToSet(s) |-> Cardinality({i \in DOMAIN s : s[i] = x})]

\* for item in sorted(chunks): h.update(item)   -- chunks of equal width
AddSorted(items, chunks) ==
    IF Len(chunks) = 0 THEN items
    ELSE IF Len(chunks) = 1 THEN Cat(items, chunks[1])
    ELSE Append(items, <<"sorted", BagOfSeq(chunks)>>)

Count4(n) == <<"0001", "0002", "0003", "0004", "0005", "0006">>[n]    \* '{:04d}'.format(count)

RECURSIVE JoinC(_)                                \* ','.join(map(str, shape))
JoinC(s) == IF s = <<>> THEN ""
            ELSE IF Len(s) = 1 THEN Pay(s[1])[Len(Pay(s[1]))]
            ELSE Pay(s[1])[Len(Pay(s[1]))] \o "," \o JoinC(Tail(s))

ArrTok(dt, vals) == IF vals = "" THEN <<>> ELSE << <<"arr", dt, vals>> >>

RECURSIVE Enc(_), EncKids(_, _)
EncKids(items, kids) == IF kids = <<>> THEN items ELSE EncKids(Append(items, Enc(Head(kids))), Tail(kids))

\* nutils_hash of the bytes object  array.tobytes()  held by an arraydata
EncArrBytes(knd, vals) == Sha(Append(Start("bytes"), Sha(ArrTok(knd, vals))))

Enc(v) ==
  LET k == Kind(v)
      p == Pay(v)
      c == Kids(v)
  IN
  CASE \* ---- objects with a __nutils_hash__ attribute (first branch of nutils_hash)
       k = "inst" ->
          LET ci == Classes[p[1]] IN
          IF ci.base \in {"Immutable", "Singleton"}
          THEN \* Immutable.__nutils_hash__: 'module.qualname:version\0' + hash of every element of _args
               Sha(EncKids(Raw(ci.mod \o "." \o ci.qual \o ":" \o ci.ver \o "~"), c))
          ELSE \* DataClass.__nutils_hash__: 'module.qualname\0' + hash of every parameter
               Sha(EncKids(Raw(ci.mod \o "." \o ci.qual \o "~"), c))
    [] k = "arraydata" ->
          \* Singleton with _args = (dtype, shape, bytes, ())
          Sha(Append(Append(EncKids(Raw("nutils.types.arraydata:0~"), <<Ty(p[1]), Tup(c)>>),
                            EncArrBytes(p[1], p[2])), Enc(Tup(<<>>))))
    [] k = "fdict" ->
          Sha(AddSorted(Raw("nutils.types.frozendict~"), [i \in DOMAIN c |-> <<Enc(Kids(c[i])[1]), Enc(Kids(c[i])[2])>>]))
    [] k = "fms" ->
          LET items == SetToSeq(ToSet(c))
              cnt(x) == Cardinality({i \in DOMAIN c : c[i] = x})
          IN Sha(AddSorted(Raw("nutils.types.frozenmultiset~"),
                           [i \in DOMAIN items |-> <<<<"raw", Count4(cnt(items[i]))>>, Enc(items[i])>>]))
    [] k = "hfunc" -> Enc(Tup(<<S("hashable_function"), c[1]>>))
    [] k = "call" ->   \* cache.function (cache.py 179-197): sha1(func_key) + hash of every canonical positional argument
          LET fi == Classes[p[1]] IN
          Sha(EncKids(<<Sha(Raw(fi.mod \o "." \o fi.qual \o ":" \o fi.ver))>>, c))
    [] k = "opaque" -> Sha(Raw(p[1]))               \* a custom __nutils_hash__ that is not modelled: stands for itself
       \* ---- numpy.generic is normalised to the python scalar
    [] k = "npscalar" -> Enc(Sc(p[2], p[3]))
       \* ---- tag = type(data).__name__, then one branch per type
    [] k = "none" -> Sha(Start("NoneType"))
    [] k = "ellipsis" -> Sha(Start("ellipsis"))
    [] k = "type" -> Sha(Append(Start("type"), Sha(Raw(TagOf(p[1])))))
    [] k \in {"bool", "int", "float", "complex"} -> Sha(Append(Start(k), Sha(Raw(p[1]))))     \* sha1(repr(data))
    [] k \in {"str", "bytes"} -> Sha(Append(Start(k), Sha(Raw(p[1]))))
    [] k \in {"tuple", "list"} -> Sha(EncKids(Start(k), c))
    [] k = "dict" -> Sha(AddSorted(Start("dict"), [i \in DOMAIN c |-> <<Enc(Kids(c[i])[1]), Enc(Kids(c[i])[2])>>]))
    [] k \in {"set", "frozenset"} -> Sha(AddSorted(Start(k), [i \in DOMAIN c |-> <<Enc(c[i])>>]))
    [] k = "buf" -> Sha(AddRaw(AddRaw(Start("BytesIO"), p[2]), p[1]))                       \* str(pos) then the content
    [] k = "method" -> Sha(Append(Append(Start("method"), Enc(c[1])), Enc(S(p[1]))))
    [] k = "ndarray" -> Sha(Cat(AddRaw(Start("ndarray"), JoinC(c) \o p[1] \o "~"), ArrTok(p[1], p[2])))
    [] k = "dc" ->     \* dataclasses: sorted(nutils_hash((field.name, value)))
          Sha(AddSorted(Start(TagOf(p[1])), [i \in DOMAIN c |-> <<Enc(Tup(<<S(Classes[p[1]].params[i]), c[i]>>))>>]))
    [] k = "nt" ->     \* __getnewargs__
          Sha(EncKids(Start(TagOf(p[1])), c))

(* ------------------------------------------------------------------ identity *)
RECURSIVE Canon(_)
CanonKids(c) == [i \in DOMAIN c |-> Canon(c[i])]
Canon(v) ==
  LET k == Kind(v)
      p == Pay(v)
      c == Kids(v)
  IN
  CASE k \in {"none", "ellipsis", "bool", "int", "float", "complex", "str", "bytes", "type", "buf", "opaque"} -> v
    [] k = "npscalar" -> Sc(p[2], p[3])
    [] k \in {"tuple", "list", "nt", "dc", "method", "hfunc", "pair"} -> T(k, p, CanonKids(c))
    [] k \in {"inst", "call"} -> T(k, <<p[1]>>, CanonKids(c))             \* route erased
    [] k \in {"dict", "fdict", "set", "frozenset"} -> T(k, <<>>, {Canon(x) : x \in ToSet(c)})
    [] k = "fms" -> T(k, <<>>, BagOfSeq(CanonKids(c)))
    [] k \in {"ndarray", "arraydata"} -> T(k, <<p[1], p[2]>>, CanonKids(c))  \* route (memory layout, source dtype) erased

(* pairs the property does not range over in that role: buffers are mutable  *)
(* objects; a hashable_function is deliberately hashed as the tuple          *)
(* ('hashable_function', identifier).  Collisions there are observed and     *)
(* reported as notes, never judged.                                          *)
RECURSIVE Grey(_, _)
Grey(v, w) == \/ Kind(v) = "buf" \/ Kind(w) = "buf"
              \/ {Kind(v), Kind(w)} = {"hfunc", "tuple"}
              \/ /\ Kind(v) = Kind(w) /\ Pay(v) = Pay(w) /\ Len(Kids(v)) = Len(Kids(w)) /\ Len(Kids(v)) > 0
                 /\ \A i \in DOMAIN Kids(v) : Kids(v)[i] = Kids(w)[i] \/ Grey(Kids(v)[i], Kids(w)[i])

\* python == is reflexive on the value (no NaN inside): needed where python counts equal items (multisets)
RECURSIVE Reflexive(_)
Reflexive(v) == /\ v # F("nan")
                /\ \A i \in DOMAIN Kids(v) : Reflexive(Kids(v)[i])

\* python-hashable (may be a dict key, a set element, an argument of an Immutable)
RECURSIVE Hashable(_)
Hashable(v) == /\ Kind(v) \notin {"list", "dict", "set", "ndarray", "buf"}
               /\ \A i \in DOMAIN Kids(v) : Hashable(Kids(v)[i])
=============================================================================
