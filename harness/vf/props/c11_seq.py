"""C11 part 2: S->C replay of spec/TransformSeq.tla behaviours.

Every TLC state is one nesting of Transforms constructors with the denotation the model
predicts (chains + element references), the predicted cross lookups into the sequence it was
derived from, and -- for structured topologies -- the predicted root coordinates of both sides.
The nesting is rebuilt from the real classes (and, for structured bases, additionally through the
StructuredTopology API route) and compared element by element, lookup by lookup.
"""

import numpy

from . import c11_items as ci

TOL = 1e-12


class Failure(Exception):
    def __init__(self, key, what, data=None):
        self.key, self.what, self.data = key, what, data


def expr_key(x):
    return (x['k'], tuple(x['p']), tuple(tuple(a) for a in x['q']), tuple(expr_key(u) for u in x['u']))


def expr_str(x):
    k = x['k']
    if k == 'struct':
        return 'Struct(nrefine={},axes={})'.format(x['p'][0], ['{}{}:{}{}'.format('D' if a[3] else 'I{}{}'.format(a[5], 'R' if a[6] else 'L'), a[0], a[1], '%{}'.format(a[2]) if a[2] else '') for a in x['q']])
    if k == 'index':
        return 'Index({},{},{})'.format(*x['p'])
    if k == 'derived':
        return '{}({})'.format('Edges' if x['p'][0] else 'Refined', expr_str(x['u'][0]))
    if k in ('masked', 'reorder'):
        return '{}({},{})'.format(k.capitalize(), expr_str(x['u'][0]), x['p'])
    return '{}({})'.format(k.capitalize(), ','.join(expr_str(u) for u in x['u']))


# ---------------------------------------------------------------------------
# python copy of the denotation's element references (only what building needs)

def refs_of(x):
    k = x['k']
    if k == 'struct':
        nd = sum(1 for a in x['q'] if a[3])
        n = 1
        for a in x['q']:
            n *= a[1] - a[0]
        return [[1] * nd] * n
    if k == 'index':
        return [list(r) for r in x['q']]
    if k == 'plain':
        return refs_of(x['u'][0])
    if k in ('masked', 'reorder'):
        r = refs_of(x['u'][0])
        return [r[i] for i in x['p']]
    if k == 'derived':
        out = []
        for r in refs_of(x['u'][0]):
            if x['p'][0] == 0:
                out += [r] * 2 ** sum(r)
            else:
                out += [ci.edge_from_ref(r, ci.edge_factor(e)) for e in ci.edges(r)]
        return out
    return [r for u in x['u'] for r in refs_of(u)]


def _references(refs, ndims):
    from nutils.elementseq import References
    return References.from_iter([ci.ref(r) for r in refs], ndims)


_built = {}


def build(x):
    """the real Transforms object named by expression x (memoised: interned objects stay alive)"""
    key = expr_key(x)
    if key in _built:
        return _built[key]
    from nutils import transformseq as ts, transform, types
    k = x['k']
    if k == 'struct':
        axes = tuple(ts.DimAxis(a[0], a[1], a[2], bool(a[4])) if a[3] else ts.IntAxis(a[0], a[1], a[2], a[5], bool(a[6])) for a in x['q'])
        obj = ts.StructuredTransforms(transform.Index(len(axes), 0), axes, x['p'][0])
    elif k == 'index':
        obj = ts.IndexTransforms(*x['p'])
    elif k == 'plain':
        sub = build(x['u'][0])
        obj = ts.PlainTransforms(tuple(transform.canonical(c) for c in sub), sub.todims, sub.fromdims)
    elif k == 'masked':
        obj = ts.MaskedTransforms(build(x['u'][0]), types.arraydata(numpy.array(x['p'], dtype=int)))
    elif k == 'reorder':
        obj = ts.ReorderedTransforms(build(x['u'][0]), types.arraydata(numpy.array(x['p'], dtype=int)))
    elif k == 'derived':
        sub = build(x['u'][0])
        refs = _references(refs_of(x['u'][0]), sub.fromdims)
        obj = sub.edges(refs) if x['p'][0] else sub.refined(refs)
    elif k == 'chained':
        obj = ts.ChainedTransforms(tuple(build(u) for u in x['u']))
    else:
        raise ValueError(k)
    _built[key] = obj
    return obj


def build_api(x):
    """the same sequence through the public indexing / chaining API, or None"""
    from nutils import transformseq as ts
    k = x['k']
    if k in ('masked', 'reorder'):
        return build(x['u'][0])[numpy.array(x['p'], dtype=int)]
    if k == 'chained':
        subs = [build(u) for u in x['u']]
        return ts.chain(subs, subs[0].todims, subs[0].fromdims)
    return None


# ---------------------------------------------------------------------------

def classname(obj):
    return type(obj).__name__


def check_sequence(obj, den, tailmaps, max_tail=2, label=None, nlook=None):
    """compare a real Transforms object with the model denotation; yields Failure objects"""
    cls = label or classname(obj)
    nlook = nlook if nlook is not None else [0]
    try:
        n = len(obj)
    except Exception as e:
        yield Failure('len:{}:raises-{}'.format(cls, type(e).__name__), 'len() raised {!r}'.format(e))
        return
    if n != len(den):
        yield Failure('len:{}'.format(cls), 'len is {} but the model has {} elements'.format(n, len(den)))
        return
    chains = []
    for i, el in enumerate(den):
        try:
            chain = obj[i]
            got = ci.chain_to_abs(chain)
        except ci.Unrepresentable as e:
            yield Failure('getitem:{}:foreign-item'.format(cls), 'element {} contains an item outside the model alphabet: {}'.format(i, e))
            return
        except Exception as e:
            yield Failure('getitem:{}:raises-{}'.format(cls, type(e).__name__), 'self[{}] raised {!r}'.format(i, e))
            return
        if got != el['ch']:
            yield Failure('getitem:{}'.format(cls), 'self[{}] is {!r}, the model predicts {}'.format(i, chain, el['ch']), dict(i=i, got=got, want=el['ch']))
            return
        chains.append(tuple(chain))
    try:
        it = [tuple(c) for c in obj]
    except Exception as e:
        yield Failure('iter:{}:raises-{}'.format(cls, type(e).__name__), 'iter() raised {!r}'.format(e))
        return
    if it != chains:
        yield Failure('iter:{}'.format(cls), 'iter(self) differs from [self[i]]')
    for i, (el, chain) in enumerate(zip(den, chains)):
        tails = tailmaps[tuple(el['ref'])]
        for tk, (tail, tmap, tlen) in tails.items():
            if tlen > max_tail or (tlen >= 2 and not (i in (0, n - 1) or i % 4 == 1)):
                continue
            nlook[0] += 1
            q = chain + tail
            try:
                r = obj.index_with_tail(q)
                idx, rest = r
            except Exception as e:
                yield Failure('lookup:{}:raises-{}'.format(cls, type(e).__name__), 'index_with_tail(self[{}]+{!r}) raised {!r}'.format(i, tail, e), dict(i=i, tail=[repr(t) for t in tail]))
                break
            if int(idx) != i:
                yield Failure('lookup:{}:wrong-index'.format(cls), 'index_with_tail(self[{}]+{!r}) returned index {}'.format(i, tail, idx), dict(i=i, tail=[repr(t) for t in tail], got=int(idx)))
                break
            if tlen == 0:
                ok = tuple(rest) == ()
            else:
                try:
                    ok = ci.chain_map(tuple(rest), el_fromdims(el)) == tmap and (rest[-1].fromdims if rest else el_fromdims(el)) == tmap['n']
                except ci.Unrepresentable:
                    ok = False
            if not ok:
                yield Failure('lookup:{}:wrong-tail'.format(cls), 'index_with_tail(self[{}]+{!r}) returned the remainder {!r}, which is not the same affine map'.format(i, tail, rest), dict(i=i, tail=[repr(t) for t in tail], rest=[repr(t) for t in rest]))
                break
            if tlen == 0:
                try:
                    j = obj.index(q)
                    c1, c2 = obj.contains(q), obj.contains_with_tail(q)
                except Exception as e:
                    yield Failure('index:{}:raises-{}'.format(cls, type(e).__name__), 'index(self[{}]) raised {!r}'.format(i, e))
                    break
                if int(j) != i or not c1 or not c2:
                    yield Failure('index:{}'.format(cls), 'index(self[{}]) = {}, contains = {}, contains_with_tail = {}'.format(i, j, c1, c2))
                    break


def el_fromdims(el):
    return sum(el['ref'])


def check_cross(parent, obj, cross, label):
    for i, want in enumerate(cross):
        q = obj[i]
        try:
            idx, rest = parent.index_with_tail(q)
        except Exception as e:
            yield Failure('cross:{}:raises-{}'.format(label, type(e).__name__), 'looking element {} up in the sequence it derives from raised {!r}'.format(i, e))
            return
        try:
            m = ci.chain_map(tuple(rest), q[-1].fromdims)
        except ci.Unrepresentable:
            m = None
        if int(idx) != want['i'] or m != want['map']:
            yield Failure('cross:{}'.format(label), 'looking element {} up in the sequence it derives from gave ({}, {!r}); the model predicts index {}'.format(i, idx, rest, want['i']))
            return


TAILMAPS = {}     # ref tuple -> {tail key: (real tail items, model map, length)}; set before forking


def set_tailmaps(emitted):
    TAILMAPS.clear()
    for em in emitted:
        if em.get('sec') != 'tail':
            continue
        real = ci.chain_to_real(em['t'])
        TAILMAPS.setdefault(tuple(em['ref']), {})[ci.key(em['t'])] = (real, em['map'], len(em['t']))


def check_state(beh):
    """replay one TLC state; returns dict(fails=[(key, what, data)], lookups=n, label=...)"""
    from . import c11_topo
    x = beh['expr']
    out = dict(fails=[], lookups=0, label=expr_str(x), topo=0)
    nlook = [0]
    try:
        obj = build(x)
    except Exception as e:
        out['fails'].append(('build:{}:raises-{}'.format(x['k'], type(e).__name__), 'constructing {} raised {!r}'.format(expr_str(x), e), None))
        return out
    fails = list(check_sequence(obj, beh['den'], TAILMAPS, nlook=nlook))
    if not fails:
        api = None
        try:
            api = build_api(x)
        except Exception as e:
            fails.append(Failure('api:{}:raises-{}'.format(x['k'], type(e).__name__), 'building {} through indexing/chaining raised {!r}'.format(expr_str(x), e)))
        if api is not None and api is not obj:
            fails += list(check_sequence(api, beh['den'], TAILMAPS, max_tail=1, label='api-' + classname(api), nlook=nlook))
    if not fails and beh['cross']:
        parent = build(x['u'][0]) if x['k'] == 'derived' else None
        if parent is not None:
            fails += list(check_cross(parent, obj, beh['cross'], classname(obj)))
    if not fails and x['k'] == 'struct' and all(h['op'] in c11_topo.STRUCT_OPS for h in beh['hist'][1:]):
        try:
            tf = list(c11_topo.check_struct_topology(beh, obj))
        except Failure as f:
            tf = [f]
        fails += tf
        out['topo'] = 1
    out['lookups'] = nlook[0]
    out['fails'] = [(f.key, f.what, f.data) for f in fails]
    return out
