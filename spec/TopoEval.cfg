SPECIFICATION ESpec
CONSTANTS
  Bases = {}
  MaxOps = 99
  MaxSub = 3
  NPat = 3
  OpSet <- EvalOps
  TrimRef <- EvalRef
  Mutant = "none"
INVARIANT TypeOK
INVARIANT Disjoint
INVARIANT WithinHull
INVARIANT BoundaryClosed
INVARIANT InterfacesOnce
INVARIANT CutShared
INVARIANT EmitPrediction
CHECK_DEADLOCK FALSE
