SPECIFICATION Spec
CONSTANTS
  BaseOrd <- MCBaseOrd3
  Seeds <- MCSeedsQuick
  Pows <- MCPowsThorough
  MaxSteps = 6
  FullSteps = 6
  LeafDedup = FALSE
  MaxVal = 10000
CONSTRAINT Emit
INVARIANT TypeOK
INVARIANT CacheSound
INVARIANT CacheInjective
INVARIANT NoDimensionlessQuantity
INVARIANT Sound
INVARIANT NoSpuriousReject
CHECK_DEADLOCK FALSE
