SPECIFICATION TSpec
CONSTANTS
  LookupMutant = "none"
INVARIANT TEmit
CHECK_DEADLOCK FALSE
