--------------------------- MODULE MCGaussOracle ---------------------------
(* C09: constants of GaussOracle (sequences cannot be written in a cfg) *)
EXTENDS GaussOracle
MCRefs1 == {<<1>>, <<2>>, <<1, 1>>}
MCRefs2 == {<<1>>, <<2>>, <<3>>, <<1, 1>>, <<1, 2>>, <<2, 1>>, <<1, 1, 1>>}
MCTrim2 == {<<1>>, <<2>>, <<1, 1>>}
MCTrim3 == {<<1>>, <<2>>, <<1, 1>>, <<3>>, <<1, 2>>, <<1, 1, 1>>}
MCLevels1 == {1}
MCLevels2 == {1, 2}
MCRefine0 == {0}
MCRefine01 == {0, 1}
=============================================================================
