"""C12 -- Bases are what their type promises.

Deciding method: model-based verification with TLA+ specifications checked by TLC.

Design specs (spec/)
  Basis.tla         what a basis is structurally (elements, dofs, per-element dof lists, supports, interfaces with the
                    promised continuity order, elements on which the functions sum to one); the relation InverseMaps of the
                    property text; one operator per deriving construction of nutils.function: MaskOp (MaskedBasis),
                    PruneOp (PrunedBasis), PartOp (discontinuous_at_partition_interfaces), TensorOp (StructuredBasis /
                    ravelled products), GlueOp + BMergeMap (util.merge_index_map as equivalence class numbering).
  BasisSpline.tla   one dimension of StructuredTopology.basis_spline in two layers: the knot vector definition (function q
                    lives between its first and last knot, is C^(p-k) at a knot it contains k times; open or periodic) and
                    a transcription of topology.py's arithmetic; invariants SplImplRefines (both agree), SplCount
                    (dimension formula), SplLocal (p+1 functions per element), SplAdvertised (C^(p-m) at a knot of
                    multiplicity m), SplContinuityArg (continuity=c gives C^c).
  BasisMachine.tla  the construction of a structured basis as a state machine: SplineDim, Ravel, DiscontOn, LegendreOn,
                    RemoveDofs, Mask, Prune, Part; invariants InvInverse, InvNoDead, InvUnit, InvSpline; action property
                    StepProp.  MCBasis_*.cfg: every 1-D spline of degree <= 3 on <= 3 elements (all multiplicity vectors,
                    continuity arguments, periodicity), products, removedofs, every subset / partition on small bases.
  MergeIndex.tla    util.merge_index_map as the pointer machine of the code; invariants Downwards, RootsAreReps, Result
                    (= BMergeMap), Docstring.
  BasisNodal.tla    C0 / bubble / discont bases on every small simplex mesh (AddSimplex, Build): lattice nodes identified
                    across facets (or by vertex for degree 1 std and bubble).
  BasisHier.tla     classical and truncated hierarchical bases on every small dyadic refinement (Refine, Build):
                    selection rule of Vuong / Giannelli over the level bases of BasisSpline.
  BasisMulti.tla    multipatch spline bases on every small patch layout (AddPatch, Build): per-patch tensor splines glued
                    along coinciding sides.
Vacuity  TLC -coverage on small complete runs of MergeIndex, BasisMachine and BasisNodal (every action taken); the two
         actions each of BasisHier / BasisMulti are counted from the Build states TLC emits (TLC exhausts its heap under
         -coverage on these modules); every operation / basis kind must occur among the emitted states; spec mutants
         (mask-supp, cont-off, impl-start, merge-max) must violate an invariant.
Binding
  S->C  every state TLC emits carries the basis structure the model predicts; c12_replay.py constructs the same basis with
        nutils (mesh.rectilinear incl. periodic, products of lines, SubsetTopology, SimplexTopology, refined_by,
        mesh.multipatch) step by step and compares get_dofs / get_support / ndofs with the model (exactly where the model
        fixes the numbering, else up to renumbering), then decides the numeric clauses as the model predicts them:
        sample.eval(basis) = get_coefficients scattered to get_dofs, non-zero functions = get_dofs, sum = 1 on the
        elements the model names, jump of all derivatives up to the promised order = 0 on every interface.
        util.merge_index_map is run on every input of the MergeIndex machine.  Alternative public routes to the same
        basis must agree with the same prediction: basis('std'), basis('lagrange') / basis('bernstein') of the structured
        topology and basis('std') of the same elements as a ConnectedTopology (all through _basis_c0_structured),
        'h-spline' without refinement, products of one-dimensional topologies, bool / int masks, SubsetTopology.basis.
  T     the dof tables of every replayed real basis, and Mask / Prune / Part children of nodal, hierarchical and
        multipatch bases, are exported and judged by TLC (spec/BasisTables.tla: InverseMaps, MaskOp / PruneOp / PartOp).
"""

import collections
import concurrent.futures
import json
import multiprocessing
import os
import random
import time
import zlib

# the replay workers are processes: one BLAS thread each (set before numpy is first imported)
for _v in ('OPENBLAS_NUM_THREADS', 'OMP_NUM_THREADS', 'MKL_NUM_THREADS'):
    os.environ.setdefault(_v, '1')

from .. import tlc

LEVEL = 'model_checking'
T0 = time.time()
# wall clock plan (seconds after start): the replay stops taking new cases at REPLAY_END (but always gets REPLAY_MIN),
# so that only the coverage -- never a verdict -- depends on the load of the machine
# replay_cpu: CPU seconds of replay per worker process (CPU time, not wall-clock time: the coverage must not depend on the machine load)
PLAN = dict(quick=dict(nproc=10, ntlc=11, replay_cpu=30, ntab=4),
            thorough=dict(nproc=12, ntlc=8, replay_cpu=420, ntab=6))
# several runs side by side (mutation testing with VF_REPO / VF_OUT) need scratch directories of their own
RUNTAG = 'c12' + os.environ.get('VF_C12_TAG', '')
WORKROOT = os.path.join(tlc.WORK, RUNTAG)

# runs of a few seconds: C1 compiler only, few GC / compiler threads (many JVMs run side by side)
LEAN_JVM = dict(JAVA_TOOL_OPTIONS='-XX:TieredStopAtLevel=1 -XX:ParallelGCThreads=2 -XX:CICompilerCount=1')

MERGE_ACTIONS = ['AddSet', 'Start', 'MergeStep', 'StartFinish', 'Finish', 'Done']
# vacuity guard: every action of every machine must have been taken in the TLC run made with -coverage
ACTIONS = dict(struct=['SplineDim', 'Ravel', 'DiscontOn', 'LegendreOn', 'RemoveDofs', 'Mask', 'Prune', 'Part'], merge=MERGE_ACTIONS,
               nodal=['AddSimplex', 'Build'])
STRUCT_OPS = ['dim', 'ravel', 'discont', 'legendre', 'rem', 'mask', 'prune', 'part']
# spec mutant -> invariants one of which must be violated
MUTANTS = {
    'mask-supp': ('MCBasis', ('InvInverse', 'InvNoDead', 'TypeOK')),
    'cont-off': ('MCBasis', ('InvSpline',)),
    'impl-start': ('MCBasis', ('InvSpline',)),
    'merge-max': ('MergeIndex', ('Downwards', 'RootsAreReps', 'Result', 'Docstring')),
}


def _cfg_basis(dima, dimb, maxdims, rem, maxder, smallnd, smallne, kinds='Kinds_all', mutant='none', emit=True, depth=None):
    lines = ['SPECIFICATION Spec', 'CONSTANTS',
             '  DimA <- ' + dima, '  DimB <- ' + dimb, '  MaxDims = {}'.format(maxdims), '  RemChoices <- ' + rem,
             '  MaxDer = {}'.format(maxder), '  SmallNd = {}'.format(smallnd), '  SmallNe = {}'.format(smallne),
             '  Kinds <- ' + kinds, '  Mutant = "{}"'.format(mutant)]
    for inv in ('TypeOK', 'InvInverse', 'InvNoDead', 'InvUnit', 'InvSpline'):
        lines.append('INVARIANT ' + inv)
    if emit:
        lines.append('INVARIANT EmitState')
    lines += ['PROPERTY StepProp', 'CHECK_DEADLOCK FALSE']
    return '\n'.join(lines) + '\n'


def _cfg_generic(consts, invs, emit='EmitState'):
    lines = ['SPECIFICATION Spec', 'CONSTANTS'] + ['  ' + c for c in consts] + ['  Mutant = "none"']
    lines += ['INVARIANT ' + i for i in invs]
    if emit:
        lines.append('INVARIANT ' + emit)
    lines.append('CHECK_DEADLOCK FALSE')
    return '\n'.join(lines) + '\n'


NODAL_INVS = ('TypeOK', 'InvInverse', 'InvNoDead', 'InvSupportShares', 'InvVertexCount')
HIER_INVS = ('TypeOK', 'InvInverse', 'InvNoDead', 'InvPartition', 'InvMin', 'InvUnrefined', 'InvIfc')
MULTI_INVS = ('TypeOK', 'InvInverse', 'InvNoDead', 'InvPatchwise')
MERGE_INVS = ('TypeOK', 'Downwards', 'RootsAreReps', 'Result', 'Docstring')


def _rand_dim(rng, pmax, nmax):
    p = rng.randint(0, pmax)
    n = rng.randint(1, nmax)
    per = rng.random() < 0.4
    form = rng.choice(['full', 'full', 'none', 'coarse'] if n % 2 == 0 else ['full', 'full', 'none'])
    k, ms = -1, []
    if form == 'none':
        k = rng.randint(-(p + 1), p - 1) if p else -1
    else:
        ms = [rng.randint(1, p + 1) for i in range(n + 1 if form == 'full' else n // 2 + 1)]
        ms[-1] = ms[0] if per else ms[-1]
        if form == 'coarse':
            k = rng.choice([-1, 0]) if p else -1
    return dict(p=p, n=n, per=per, form=form, ms=ms, k=k)


def _random_module(seed, tier):
    """MCBasisRnd.tla: parameter sets drawn by the harness (larger than the exhaustive ones: degree <= 4, <= 5 elements)"""
    rng = random.Random(seed * 7919 + 17)
    na, nb = (6, 4) if tier == 'quick' else (14, 8)
    os.makedirs(WORKROOT, exist_ok=True)
    path = os.path.join(WORKROOT, 'MCBasisRnd.tla')
    with open(path, 'w') as f:
        f.write('---- MODULE MCBasisRnd ----\nEXTENDS MCBasis\n')
        f.write('RndA == {' + ', '.join(tlc.to_tla(_rand_dim(rng, 4, 5)) for i in range(na)) + '}\n')
        f.write('RndB == {' + ', '.join(tlc.to_tla(_rand_dim(rng, 3, 3)) for i in range(nb)) + '}\n====\n')
    return path


def plan(tier, seed):
    """name -> (family, module, tlc.run kwargs, exhaustive)"""
    jobs = collections.OrderedDict()
    rnd = _random_module(seed, tier)
    if tier == 'quick':
        jobs['struct-1d'] = ('struct', 'MCBasis', dict(cfg='MCBasis_1d.cfg'), True)
        jobs['struct-2d'] = ('struct', 'MCBasis', dict(cfg='MCBasis_2d.cfg'), True)
        jobs['struct-der'] = ('struct', 'MCBasis', dict(cfg='MCBasis_der.cfg'), True)
        jobs['struct-rnd'] = ('struct', 'MCBasisRnd', dict(cfg_text=_cfg_basis('RndA', 'RndB', 2, 'Rem_3', 3, 5, 3), extra_modules=[rnd], simulate=dict(num=12), depth=8, seed=seed), False)
        jobs['merge'] = ('merge', 'MergeIndex', dict(cfg='MergeIndex.cfg', coverage=True), True)
        jobs['nodal'] = ('nodal', 'MCNodal', dict(cfg='MCNodal.cfg'), True)
        jobs['hier'] = ('hier', 'MCHier', dict(cfg='MCHier.cfg'), True)
        jobs['multi'] = ('multi', 'MCMulti', dict(cfg='MCMulti.cfg'), True)
        muts = [sorted(MUTANTS)[seed % len(MUTANTS)]]
    else:
        jobs['struct-1d'] = ('struct', 'MCBasis', dict(cfg_text=_cfg_basis('Dims_1d_big', 'Dims_1d_big', 1, 'Rem_3', 0, 0, 0, kinds='Kinds_struct')), True)
        jobs['struct-2d'] = ('struct', 'MCBasis', dict(cfg_text=_cfg_basis('Dims_2a', 'Dims_2b', 2, 'Rem_2', 1, 0, 0)), True)
        jobs['struct-2dx'] = ('struct', 'MCBasis', dict(cfg_text=_cfg_basis('Dims_2c', 'Dims_2d', 2, 'Rem_2', 0, 0, 0, kinds='Kinds_spline')), True)
        jobs['struct-der'] = ('struct', 'MCBasis', dict(cfg_text=_cfg_basis('Dims_tiny', 'Dims_tiny', 1, 'Rem_2', 2, 5, 3)), True)
        jobs['struct-rnd'] = ('struct', 'MCBasisRnd', dict(cfg_text=_cfg_basis('RndA', 'RndB', 2, 'Rem_3', 4, 5, 3), extra_modules=[rnd], simulate=dict(num=150), depth=9, seed=seed), False)
        jobs['struct-sim3'] = ('struct', 'MCBasis', dict(cfg_text=_cfg_basis('Dims_2a_q', 'Dims_2b_q', 3, 'Rem_2', 2, 0, 0), simulate=dict(num=40), depth=8, seed=seed + 1), False)
        jobs['merge-cov'] = ('merge', 'MergeIndex', dict(cfg='MergeIndex.cfg', coverage=True), True)
        jobs['merge'] = ('merge', 'MergeIndex', dict(cfg='MergeIndex_thorough.cfg'), True)
        jobs['merge-sim'] = ('merge', 'MergeIndex', dict(cfg='MergeIndex_sim.cfg', simulate=dict(num=400), depth=30, seed=seed), False)
        jobs['nodal'] = ('nodal', 'MCNodal', dict(cfg_text=_cfg_generic(['MaxV = 5', 'MaxSimp = 4', 'DimSet <- Dims_12', 'BuildSet <- Builds_all', 'AnyOrder = FALSE'], NODAL_INVS)), True)
        jobs['nodal-6'] = ('nodal', 'MCNodal', dict(cfg_text=_cfg_generic(['MaxV = 6', 'MaxSimp = 3', 'DimSet <- Dims_2', 'BuildSet <- Builds_quick', 'AnyOrder = FALSE'], NODAL_INVS)), True)
        jobs['nodal-3d'] = ('nodal', 'MCNodal', dict(cfg_text=_cfg_generic(['MaxV = 5', 'MaxSimp = 3', 'DimSet <- Dims_3', 'BuildSet <- Builds_3d', 'AnyOrder = FALSE'], NODAL_INVS)), True)
        jobs['nodal-sim'] = ('nodal', 'MCNodal', dict(cfg_text=_cfg_generic(['MaxV = 7', 'MaxSimp = 6', 'DimSet <- Dims_2', 'BuildSet <- Builds_all', 'AnyOrder = TRUE'], NODAL_INVS),
                                                     simulate=dict(num=120), depth=8, seed=seed), False)
        jobs['hier-1d'] = ('hier', 'MCHier', dict(cfg_text=_cfg_generic(['Bases <- Bases_1d', 'MaxCells = 12', 'BuildSet <- Builds_all'], HIER_INVS)), True)
        jobs['hier-2d'] = ('hier', 'MCHier', dict(cfg_text=_cfg_generic(['Bases <- Bases_2d', 'MaxCells = 10', 'BuildSet <- Builds_2d'], HIER_INVS)), True)
        jobs['multi'] = ('multi', 'MCMulti', dict(cfg_text=_cfg_generic(['BoxW = 3', 'BoxH = 2', 'MaxPatches = 4', 'NSet <- N_12', 'BuildSet <- Builds_all'], MULTI_INVS)), True)
        jobs['multi-1d'] = ('multi', 'MCMulti', dict(cfg_text=_cfg_generic(['BoxW = 4', 'BoxH = 0', 'MaxPatches = 4', 'NSet <- N_123', 'BuildSet <- Builds_all'], MULTI_INVS)), True)
        muts = sorted(MUTANTS)
    # small complete runs with TLC's action coverage: the vacuity guard of generate().  (-coverage is expensive on the
    # tabulating operators of these specs, so the large runs are made without it; on BasisHier and BasisMulti TLC exhausts
    # its heap under -coverage even for the smallest constants: their two actions are counted from the states TLC emits,
    # a Build state with a cell of level >= 1 / with >= 2 patches proves that Refine / AddPatch and Build were taken)
    # directed family: periodic splines of degree 4 (5, 6 in thorough) with reduced continuity / repeated knots around the seam
    jobs['struct-seam'] = ('struct', 'MCBasis', dict(cfg_text=_cfg_basis('Dims_seam4' if tier == 'quick' else 'Dims_seam5', 'Dims_seam4', 1, 'Rem_2', 0, 0, 0, kinds='Kinds_spline')), True)
    jobs['struct-cov'] = ('struct', 'MCBasis', dict(cfg_text=_cfg_basis('Dims_cov', 'Dims_cov', 2, 'Rem_2', 1, 4, 3), coverage=True), True)
    jobs['nodal-cov'] = ('nodal', 'MCNodal', dict(cfg_text=_cfg_generic(['MaxV = 3', 'MaxSimp = 2', 'DimSet <- Dims_1', 'BuildSet <- Builds_cov', 'AnyOrder = FALSE'], NODAL_INVS), coverage=True), True)
    for m in muts:
        module, want = MUTANTS[m]
        if module == 'MCBasis':
            kw = dict(cfg_text=_cfg_basis('Dims_mut', 'Dims_mut', 1, 'Rem_2', 1, 0, 0, mutant=m, emit=False))
        else:
            kw = dict(cfg='MergeIndex_mutant.cfg')
        jobs['mutant-' + m] = ('mutant', module, kw, True)
    return jobs


def _run_job(item):
    name, (fam, module, kw, exhaustive) = item
    kw = dict(kw)
    cfg = kw.pop('cfg', None)
    kw.setdefault('timeout', 1500 if _STATE.get('tier') == 'quick' else 3600)   # a bound for a loaded machine; the runs take seconds to a few minutes
    kw.setdefault('env', LEAN_JVM if _STATE.get('tier') == 'quick' or fam == 'mutant' else None)
    res = tlc.run(module, cfg, tag=RUNTAG + '-' + name, workers=2, deadlock=False, expect_violation=(fam == 'mutant'), **kw)
    return name, res


def generate(rep, jobs):
    """run the TLC design jobs (a few at a time); -> emitted states per family"""
    _STATE['tier'] = rep.tier
    with concurrent.futures.ThreadPoolExecutor(max_workers=PLAN[rep.tier]['ntlc']) as pool:
        results = dict(pool.map(_run_job, jobs.items()))
    rep.lap('tlc design runs')
    emitted = collections.defaultdict(list)
    covered = set()
    for name, res in results.items():
        fam, module, kw, exhaustive = jobs[name]
        if fam == 'mutant':
            want = MUTANTS[name[7:]][1]
            if res.violated not in want:
                raise RuntimeError('spec mutant {} does not violate any of {} (violated={}): the invariants are vacuous'.format(name, want, res.violated))
            rep.extra.setdefault('spec_mutants_killed', []).append('{}:{}'.format(name[7:], res.violated))
            continue
        rep.add_tlc(res, exhaustive=exhaustive)
        if res.violated:
            raise RuntimeError('design spec run {} violates {}:\n{}'.format(name, res.violated, '\n'.join(res.error_trace[:80])))
        if kw.get('coverage'):     # vacuity guard with TLC's own action coverage (and, below, counted from the emitted states)
            missing = [a for a in ACTIONS[fam] if res.coverage.get(a, (0, 0))[1] == 0]
            if missing:
                raise RuntimeError('{} ({}): actions never taken in the coverage run: {}'.format(module, name, missing))
            covered.add(fam)
        if not res.emitted:
            raise RuntimeError('design spec run {} emitted no state'.format(name))
        emitted[fam] += res.emitted
        rep.extra.setdefault('states_emitted', {})[name] = len(res.emitted)
    if covered != set(ACTIONS):
        raise RuntimeError('no TLC coverage run for the machines {}'.format(sorted(set(ACTIONS) - covered)))
    # vacuity guards on what the machines did (counted from the emitted states)
    ops = collections.Counter(e['hist'][-1]['op'] for e in emitted['struct'])
    missing = [o for o in STRUCT_OPS if not ops[o]]
    if missing:
        raise RuntimeError('BasisMachine: operations never reached: {}'.format(missing))
    for fam, need in (('nodal', ('std', 'lagrange', 'bubble', 'discont')), ('hier', ('h-spline', 'th-spline', 'h-std', 'th-std')), ('multi', ('multipatch',))):
        got = collections.Counter(e['hist'][0]['op'] for e in emitted[fam])
        missing = [o for o in need if not got[o]]
        if missing:
            raise RuntimeError('{} machine: builds never reached: {}'.format(fam, missing))
        rep.actions.update({'{}:{}'.format(fam, k): v for k, v in got.items()})
    steps = {'BasisHier:Refine': sum(1 for e in emitted['hier'] if any(c[0] >= 1 for c in e['hist'][0]['cells'])), 'BasisHier:Build': len(emitted['hier']),
             'BasisMulti:AddPatch': sum(1 for e in emitted['multi'] if len(e['hist'][0]['patches']) >= 2), 'BasisMulti:Build': len(emitted['multi'])}
    missing = [a for a, n in steps.items() if not n]
    if missing:
        raise RuntimeError('actions never taken (counted from the emitted states): {}'.format(missing))
    rep.extra['actions_counted_from_emitted_states'] = steps
    if not any(e['condense'] for e in emitted['merge']) or all(e['condense'] for e in emitted['merge']) or not any(e['count'] < e['nin'] for e in emitted['merge']):
        raise RuntimeError('MergeIndex machine: no merging behaviour reached')
    rep.actions.update({'struct:' + k: v for k, v in ops.items()})
    rep.actions['merge:Done'] = len(emitted['merge'])
    return emitted


# ----------------------------------------------------------------------------------------------------------

_STATE = {}


def _work(task):
    """worker: replay a chunk of cases of one family"""
    import treelog
    import warnings
    from . import c12_replay as R
    warnings.filterwarnings('ignore', message='inexact integration')   # the gauss points only serve as interior points
    fam, cases, core = task
    fails = []
    tables = []
    states = []
    complete = 0
    skipped = 0
    done = set()
    seed = _STATE['seed']
    with treelog.set(treelog.FilterLog(treelog.StdoutLog(), minlevel=treelog.proto.Level.error)):
        for case in cases:
            if not core and time.process_time() > _STATE['deadline']:     # a forked worker starts at zero CPU seconds
                skipped += 1
                continue
            try:
                if fam == 'struct':
                    hist = case
                    preds = [_STATE['preds'].get(R.hkey(hist[:k])) for k in range(1, len(hist) + 1)]
                    before = set(done)
                    f, ok, t = R.run_structured(hist, preds, done, variant=seed)
                    states += sorted(done - before)
                    if not [x for x in f if ':array-arg:' not in x[0]]:
                        complete += 1
                elif fam == 'merge':
                    f, t = R.run_merge(case), []
                    states.append(R.hkey(case))
                    complete += not f
                else:
                    h, pred = case
                    rng = random.Random(seed * 1000003 + zlib.crc32(R.hkey(h).encode()))
                    f, ok, t = dict(nodal=R.run_nodal, hier=R.run_hier, multi=R.run_multi)[fam](h, pred, derive=rng)
                    if ok:
                        states.append(R.hkey(h))
                        complete += 1
            except Exception:
                import traceback
                return dict(harness_error=traceback.format_exc() + '\ncase: ' + json.dumps(case)[:2000])
            fails += f
            tables += t
    return dict(fails=fails, tables=tables, states=states, complete=complete, skipped=skipped)


def choose(emitted, rng, limits):
    """the cases to replay per family: maximal histories for the structured machine, states for the others"""
    from . import c12_replay as R
    preds = {}
    for e in emitted['struct']:
        preds[R.hkey(e['hist'])] = e['b']
    prefixes = set()
    hists = {}
    for e in emitted['struct']:
        h = e['hist']
        hists[R.hkey(h)] = h
        for k in range(1, len(h)):
            prefixes.add(R.hkey(h[:k]))
    leaves = [h for key, h in sorted(hists.items()) if key not in prefixes]
    rng.shuffle(leaves)
    # stratify by (number of dimensions, last operation) so that a cut keeps every kind of step
    strata = collections.OrderedDict()
    for h in leaves:
        strata.setdefault((sum(1 for o in h if o['op'] == 'dim'), h[-1]['op'], len(h)), []).append(h)
    order = []
    while strata:
        for k in list(strata):
            order.append(strata[k].pop())
            if not strata[k]:
                del strata[k]
    # the replay is cut by the clock except for its first chunks: one one-dimensional C0 history per (number of elements,
    # periodicity) goes first, these are the states whose alternatives run TransformChainsTopology._basis_c0_structured on
    # self-neighbouring (one periodic element), doubly neighbouring (two) and ordinary grids
    must, seen = [], set()
    for h in order:
        d = h[0]
        if d['op'] == 'dim' and d['f'] == 'none' and d['a'][3] == 0 and sum(1 for o in h if o['op'] == 'dim') == 1 and (d['a'][1], d['a'][2]) not in seen:
            seen.add((d['a'][1], d['a'][2]))
            must.append(h)
        elif d['op'] == 'dim' and d['a'][0] >= 4 and d['a'][2] and len(h) == 2 and h[1]['op'] == 'ravel':     # the directed family "periodic seam" (struct-seam)
            must.append(h)
    order = must + [h for h in order if not any(h is m for m in must)]
    cases = collections.OrderedDict()
    cases['struct'] = order[:limits['struct']]
    for fam in ('nodal', 'hier', 'multi'):
        seen = {}
        for e in emitted[fam]:
            seen[R.hkey(e['hist'][0])] = (e['hist'][0], e['b'])
        items = [seen[k] for k in sorted(seen)]
        rng.shuffle(items)
        strata = collections.OrderedDict()
        for h, b in items:
            strata.setdefault((h['op'], h['p'], h.get('D'), tuple(h.get('n', ())) if isinstance(h.get('n'), list) else h.get('n')), []).append((h, b))
        order = []
        while strata:
            for k in list(strata):
                order.append(strata[k].pop())
                if not strata[k]:
                    del strata[k]
        cases[fam] = order[:limits[fam]]
    seen = {}
    for e in emitted['merge']:
        seen[R.hkey(e)] = e
    items = [seen[k] for k in sorted(seen)]
    rng.shuffle(items)
    cases['merge'] = items[:limits['merge']]
    return cases, preds, len(leaves)


def replay(rep, cases, preds, budget):
    tasks = []
    chunk = dict(struct=10, nodal=16, hier=10, multi=10, merge=400)
    # interleave the families so that a cut by the deadline hits all of them alike
    # the first chunks of every family (the cases are stratified: every kind of step / basis occurs early) are replayed
    # whatever the clock says; the deadline only cuts the rest
    ncore = dict(struct=4, nodal=2, hier=2, multi=1, merge=1) if rep.tier == 'quick' else dict(struct=40, nodal=12, hier=12, multi=6, merge=10)
    per = {fam: [(fam, cs[i:i + chunk[fam]], i // chunk[fam] < ncore[fam]) for i in range(0, len(cs), chunk[fam])] for fam, cs in cases.items()}
    tasks += per.pop('merge')        # cheap: first
    while any(per.values()):
        for fam in list(per):
            if per[fam]:
                tasks.append(per[fam].pop(0))
    _STATE.update(preds=preds, deadline=budget, seed=rep.seed)
    import nutils.mesh  # noqa: F401  (imported before the fork)
    ctx = multiprocessing.get_context('fork')
    with ctx.Pool(PLAN[rep.tier]['nproc']) as pool:
        outs = pool.map(_work, tasks, chunksize=1)
    tables = []
    skipped = collections.Counter()
    replayed = collections.Counter()
    for (fam, cs, core), out in zip(tasks, outs):
        if 'harness_error' in out:
            raise RuntimeError(out['harness_error'])
        for key, what, data in out['fails']:
            rep.violation(key, what, data)
        for s in out['states']:
            rep.case((fam, s), nontrivial=True)
        replayed[fam] += len(out['states'])
        rep.traces += out['complete']
        skipped[fam] += out['skipped']
        tables += out['tables']
    for fam, n in skipped.items():
        if n:
            rep.skip('{} behaviours not replayed within the time budget'.format(fam), n)
    rep.extra['states_replayed'] = dict(replayed)
    rep.lap('replay')
    return tables


def judge_tables(rep, tables):
    """binding T: TLC evaluates InverseMaps / MaskOp / PruneOp / PartOp on the exported tables"""
    uniq = collections.OrderedDict()
    for t in tables:
        body = {k: v for k, v in t.items() if k != 'key'}
        uniq.setdefault(json.dumps(body, sort_keys=True), t)
    recs = list(uniq.values())
    if not recs:
        raise RuntimeError('no tables exported')
    os.makedirs(WORKROOT, exist_ok=True)
    nchunk = max(1, min(PLAN[rep.tier]['ntab'], len(recs) // 50))
    # chunks of equal work: records dealt out round robin in the order of their size
    order = sorted(range(len(recs)), key=lambda i: -len(json.dumps(recs[i].get('t'))))
    parts = [order[c::nchunk] for c in range(nchunk)]

    def judge(c):
        path = os.path.join(WORKROOT, 'tables{}.json'.format(c))
        with open(path, 'w') as f:
            json.dump([{k: v for k, v in recs[i].items() if k != 'key'} for i in parts[c]], f)
        return tlc.run('BasisTables', 'BasisTables.cfg', tag='{}-tables{}'.format(RUNTAG, c), workers=1, env=dict(LEAN_JVM if rep.tier == 'quick' else {}, VF_TABLE=path),
                       deadlock=False, timeout=1500, heap='4g')
    with concurrent.futures.ThreadPoolExecutor(max_workers=nchunk) as pool:
        results = list(pool.map(judge, range(nchunk)))
    verdicts = {}
    for c, res in enumerate(results):
        rep.add_tlc(res)
        if res.violated:
            raise RuntimeError('BasisTables: TLC reports {}'.format(res.violated))
        for v in res.emitted:
            verdicts[parts[c][v['i'] - 1] + 1] = v
    if len(verdicts) != len(recs):
        raise RuntimeError('BasisTables judged {} of {} records'.format(len(verdicts), len(recs)))
    kinds = collections.Counter()
    for i, t in enumerate(recs, 1):
        v = verdicts[i]
        kinds[t['kind']] += 1
        if not v['shape']:
            rep.violation('table:{}:shape'.format(t['key']), 'get_dofs / get_support of a {} basis are out of range or unsorted'.format(t['key']), t)
        elif not v['inverse']:
            rep.violation('table:{}:inverse-maps'.format(t['key']), 'get_dofs and get_support of a {} basis are not mutual inverses'.format(t['key']), t)
        elif not v['op']:
            rep.violation('table:{}:not-{}op'.format(t['key'], t['kind']), 'the {} child of a {} basis is not the order preserving {} of its parent'.format(t['kind'], t['key'], t['kind']), t)
    rep.extra['tables_judged_by_tlc'] = dict(kinds)
    rep.traces += len(recs)
    rep.lap('tables')


def run(rep):
    quick = rep.tier == 'quick'
    rng = random.Random(rep.seed)
    jobs = plan(rep.tier, rep.seed)
    emitted = generate(rep, jobs)
    plan_t = PLAN[rep.tier]
    budget = float(os.environ.get('VF_C12_BUDGET') or plan_t['replay_cpu'])
    rep.extra['replay_budget_s'] = round(budget, 1)
    limits = dict(struct=420, nodal=260, hier=160, multi=90, merge=4000) if quick else dict(struct=5000, nodal=3000, hier=2000, multi=800, merge=40000)
    cases, preds, nleaves = choose(emitted, rng, limits)
    rep.extra['behaviours_generated'] = dict(struct=nleaves, **{f: len(emitted[f]) for f in ('nodal', 'hier', 'multi', 'merge')})
    for h in cases['struct'][:2]:
        rep.sample(dict(kind='BasisMachine behaviour', operations=[[o['op'], o['f'], o['a'], o['aa']] for o in h]))
    for fam in ('nodal', 'hier', 'multi'):
        if cases[fam]:
            rep.sample(dict(kind=fam + ' state', build=cases[fam][0][0]))
    tables = replay(rep, cases, preds, budget)
    judge_tables(rep, tables)
    rep.constants['BasisMachine'] = ('1-D: degree 0..3, 1..3 elements, every knot multiplicity vector / continuity argument / periodicity, removedofs; products of 2 small factors; '
                                     'every subset of <= 4 dofs / <= 3 elements, two derived steps' if quick else
                                     '1-D: degree 0..4, 1..5 elements; products of 2 factors exhaustively, 3 in simulation; every subset of <= 5 dofs / <= 3 elements, up to 4 derived steps')
    rep.constants['MergeIndex'] = 'nin <= 4, <= 2 merge sets of <= 3 indices' if quick else 'nin <= 4, <= 3 merge sets exhaustively; nin <= 6, <= 5 sets of <= 4 in simulation'
    rep.constants['BasisNodal'] = '<= 3 simplices on 5 vertices, 1-D and 2-D, degree <= 3' if quick else '<= 4 simplices on 5 vertices (1-D, 2-D), 3 on 6, tetrahedra on 5 vertices, degree <= 4; 6 of 7 in simulation'
    rep.constants['BasisHier'] = ('lines of 2 elements (open, periodic) to depth 2, 2x1 and 2x2 (periodic) grids to depth 1, degree <= 3' if quick else
                                  'lines of 1..4 elements (also periodic) to depth 2, 2x1 to depth 2 within 10 cells, 2x2 / 3x2 grids (also periodic) to depth 1, degree <= 3')
    rep.constants['BasisMulti'] = '<= 3 patches in a 2x2 block, 1..2 elements per side, degree <= 3' if quick else '<= 4 patches in a 3x2 block or a row, 1..3 elements per side, degree <= 3'
    rep.rule = ('cases = states of replayed behaviours: (history of construction steps) for structured bases, (mesh, basis type, degree) for nodal / hierarchical / '
                'multipatch bases, (nin, merge sets, condense) for merge_index_map; each compared with the model in tables and in the numeric clauses')
    rep.assumptions += [
        'geometry is the identity on unit cells (affine); knot values are uniform (knotvalues argument not varied: only the multiplicities decide structure and continuity)',
        'continuity is demanded as promised (at least C^c); that a basis is not smoother than advertised is not demanded',
        'values of the basis functions are not decided by the spec: evaluation is compared with the basis\' own coefficient tables (nutils_poly evaluates the polynomials)',
        'truncated hierarchical bases: number of functions, lower and upper bound of every per-element dof set, partition of unity, continuity and InverseMaps are decided; '
        'the exact truncated supports are not',
        'C0 bases on simplex meshes are compared up to a renumbering of the dofs (equality of the multiset of supports)',
        'trimmed topologies are represented by SubsetTopology of whole elements (a PrunedBasis does not depend on the cut); refined topologies by the level grids of the hierarchical model',
    ]
