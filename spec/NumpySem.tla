------------------------------ MODULE NumpySem ------------------------------
(***************************************************************************)
(* NumPy array semantics on tiny exact data (reference model for C07).     *)
(*                                                                         *)
(* Transcribed from NumPy's DOCUMENTED meaning (user guide: broadcasting,  *)
(* indexing, type promotion; reference pages of each routine), not from    *)
(* nutils.  The harness cross-checks every verdict of this module against  *)
(* the installed numpy on plain ndarrays; a disagreement there is a bug of *)
(* this module.                                                            *)
(*                                                                         *)
(* Scalars: <<re, im>> of normalised rationals <<n, d>> (ArraySem's        *)
(* rational arithmetic is reused); <<0,0>> is "undefined" and absorbing    *)
(* (division by zero, overflow of the cap, irrational roots, out-of-range  *)
(* run-time indices): undefined model values are never judged.             *)
(* Arrays: [sh |-> shape, dt |-> "b"|"i"|"f"|"c", v |-> flat C-order       *)
(* sequence of scalars].  Every operation returns an array or a verdict    *)
(*   Rej(why)   dt = "REJECT"  : NumPy refuses the operands for SHAPE      *)
(*                               reasons (the property demands that the    *)
(*                               function-array layer refuses as well)     *)
(*   TypeErr(w) dt = "TYPEERR" : NumPy has no loop for these element kinds *)
(*                               (nothing is demanded of the code)         *)
(*   NoDemand(w) dt = "NODEMAND": NumPy returns something by accident of   *)
(*                               its implementation (nothing is demanded)  *)
(* Only the element KIND is modelled (bool < int < real < complex), never  *)
(* the bit width.                                                          *)
(***************************************************************************)
EXTENDS ArraySem

\* ------------------------------------------------------------------ complex rationals
CBad == <<Bad, Bad>>
CZero == <<RZero, RZero>>
COne == <<ROne, RZero>>
CIsBad(z) == IsBad(z[1]) \/ IsBad(z[2])
CMk(re, im) == IF IsBad(re) \/ IsBad(im) THEN CBad ELSE <<re, im>>
CReal(r) == CMk(r, RZero)
CInt(n) == CReal(RInt(n))
CQ(n, d) == CReal(Norm(n, d))
CC(rn, rd, in, id) == CMk(Norm(rn, rd), Norm(in, id))
CBool(b) == IF b THEN COne ELSE CZero
CAdd(x, y) == CMk(RAdd(x[1], y[1]), RAdd(x[2], y[2]))
CNeg(x) == CMk(RNeg(x[1]), RNeg(x[2]))
CSub(x, y) == CAdd(x, CNeg(y))
CMul(x, y) == IF CIsBad(x) \/ CIsBad(y) THEN CBad
              ELSE IF x[2] = RZero /\ y[2] = RZero THEN CMk(RMul(x[1], y[1]), RZero)
              ELSE CMk(RSub(RMul(x[1], y[1]), RMul(x[2], y[2])), RAdd(RMul(x[1], y[2]), RMul(x[2], y[1])))
CConj(x) == CMk(x[1], RNeg(x[2]))
CNorm2(x) == RAdd(RMul(x[1], x[1]), RMul(x[2], x[2]))
CInv(x) == IF CIsBad(x) THEN CBad
           ELSE LET n == CNorm2(x) IN IF IsBad(n) \/ n[1] = 0 THEN CBad
                ELSE CMk(RDiv(x[1], n), RNeg(RDiv(x[2], n)))
CDiv(x, y) == CMul(x, CInv(y))
CTruth(x) == x[1][1] # 0 \/ x[2][1] # 0             \* x defined
CIsReal(x) == x[2] = RZero
\* lexicographic order on complex numbers (NumPy's order for complex kinds); both defined
CLt(x, y) == RLt(x[1], y[1]) \/ (x[1] = y[1] /\ RLt(x[2], y[2]))
RECURSIVE CPowNat(_, _)
CPowNat(x, k) == IF k = 0 THEN COne ELSE CMul(x, CPowNat(x, k - 1))
\* modulus of a complex number when it is rational
CAbsR(x) == IF CIsBad(x) THEN Bad
            ELSE IF x[2] = RZero THEN RAbs(x[1])
            ELSE LET n == CNorm2(x) IN IF IsBad(n) THEN Bad ELSE IF HasRSqrt(n) THEN RSqrt(n) ELSE Bad
RTrunc(a) == IF a[1] >= 0 THEN a[1] \div a[2] ELSE -((-a[1]) \div a[2])     \* toward zero, a defined

\* ------------------------------------------------------------------ kinds
KRank(k) == CASE k = "b" -> 0 [] k = "i" -> 1 [] k = "f" -> 2 [] k = "c" -> 3
KOf(r) == CASE r = 0 -> "b" [] r = 1 -> "i" [] r = 2 -> "f" [] r = 3 -> "c"
KMax(k1, k2) == IF KRank(k1) >= KRank(k2) THEN k1 ELSE k2
Kinds == {"b", "i", "f", "c"}

\* ------------------------------------------------------------------ verdicts and arrays
Rej(why) == [sh |-> <<>>, dt |-> "REJECT", v |-> <<why>>]
TypeErr(why) == [sh |-> <<>>, dt |-> "TYPEERR", v |-> <<why>>]
\* NumPy's behaviour is an implementation accident or a legacy form that no array library need reproduce: nothing is demanded
NoDemand(why) == [sh |-> <<>>, dt |-> "NODEMAND", v |-> <<why>>]
IsRej(a) == a.dt = "REJECT"
IsTypeErr(a) == a.dt = "TYPEERR"
IsVal(a) == a.dt \in Kinds
NRank(a) == Len(a.sh)
NSize(a) == Prod(a.sh)
NArr(sh, dt, F(_)) == [sh |-> sh, dt |-> dt, v |-> IF Prod(sh) = 0 THEN <<>> ELSE [k \in 1..Prod(sh) |-> F(Unflat(k - 1, sh))]]
NAt(a, idx) == IF InShape(idx, a.sh) THEN a.v[Flat(idx, a.sh) + 1] ELSE CBad
NMap1(a, dt, F(_)) == [sh |-> a.sh, dt |-> dt, v |-> [k \in 1..Len(a.v) |-> F(a.v[k])]]
NScalar(dt, x) == [sh |-> <<>>, dt |-> dt, v |-> <<x>>]
NAnyBad(a) == \E k \in 1..Len(a.v) : CIsBad(a.v[k])
NCast(a, dt) == [a EXCEPT !.dt = dt]                 \* upward casts keep the value
\* integer value of an index scalar (undefined -> -99999, never in range)
NIdx(x) == IF CIsBad(x) \/ x[1][2] # 1 THEN -99999 ELSE x[1][1]
SeqSum(s) == FoldSeq(LAMBDA a, b : a + b, 0, s, 1)
IMax(a, b) == IF a >= b THEN a ELSE b
IMin(a, b) == IF a <= b THEN a ELSE b
Remove(s, i) == SubSeq(s, 1, i - 1) \o SubSeq(s, i + 1, Len(s))          \* drop position i (1-based)
InsertAt(s, i, x) == SubSeq(s, 1, i - 1) \o <<x>> \o SubSeq(s, i, Len(s))  \* x becomes position i

\* ------------------------------------------------------------------ broadcasting
BadShape == <<-1>>
IsBadShape(s) == Len(s) = 1 /\ s[1] = -1
\* NumPy: align trailing axes; lengths must be equal or one of them 1
BShape(s1, s2) ==
    LET n == IMax(Len(s1), Len(s2))
        d1(i) == IF i <= n - Len(s1) THEN 1 ELSE s1[i - (n - Len(s1))]
        d2(i) == IF i <= n - Len(s2) THEN 1 ELSE s2[i - (n - Len(s2))]
    IN IF IsBadShape(s1) \/ IsBadShape(s2) THEN BadShape
       ELSE IF \E i \in 1..n : d1(i) # d2(i) /\ d1(i) # 1 /\ d2(i) # 1 THEN BadShape
       ELSE [i \in 1..n |-> IF d1(i) = 1 THEN d2(i) ELSE d1(i)]
\* index into an operand of shape sh for the index idx of the broadcast result (Len(idx) >= Len(sh))
BIdx(idx, sh) == [i \in 1..Len(sh) |-> IF sh[i] = 1 THEN 0 ELSE idx[Len(idx) - Len(sh) + i]]
BCompat(sh, to) == Len(sh) <= Len(to) /\ \A i \in 1..Len(sh) : sh[i] = to[Len(to) - Len(sh) + i] \/ sh[i] = 1
NBroadcastTo(a, sh) == IF ~BCompat(a.sh, sh) THEN Rej("broadcast_to") ELSE NArr(sh, a.dt, LAMBDA idx : NAt(a, BIdx(idx, a.sh)))
NMap2(a, b, dt, F(_, _)) ==
    LET sh == BShape(a.sh, b.sh) IN
    IF IsBadShape(sh) THEN Rej("broadcast") ELSE NArr(sh, dt, LAMBDA idx : F(NAt(a, BIdx(idx, a.sh)), NAt(b, BIdx(idx, b.sh))))

\* ------------------------------------------------------------------ elementwise binary functions
SOr(x, y) == IF CIsBad(x) \/ CIsBad(y) THEN CBad ELSE CBool(CTruth(x) \/ CTruth(y))
SAnd(x, y) == IF CIsBad(x) \/ CIsBad(y) THEN CBad ELSE CBool(CTruth(x) /\ CTruth(y))
SXor(x, y) == IF CIsBad(x) \/ CIsBad(y) THEN CBad ELSE CBool(CTruth(x) # CTruth(y))
SNot(x) == IF CIsBad(x) THEN CBad ELSE CBool(~CTruth(x))
SAddK(k, x, y) == IF k = "b" THEN SOr(x, y) ELSE CAdd(x, y)
SMulK(k, x, y) == IF k = "b" THEN SAnd(x, y) ELSE CMul(x, y)
\* floor division and remainder (sign of the remainder follows the divisor); real kinds only
SFloorDiv(x, y) == IF CIsBad(x) \/ CIsBad(y) \/ y[1][1] = 0 THEN CBad
                   ELSE LET q == RDiv(x[1], y[1]) IN IF IsBad(q) THEN CBad ELSE CInt(RFloor(q))
SMod(x, y) == IF CIsBad(x) \/ CIsBad(y) \/ y[1][1] = 0 THEN CBad
              ELSE LET q == RDiv(x[1], y[1]) IN IF IsBad(q) THEN CBad ELSE CReal(RSub(x[1], RMul(RInt(RFloor(q)), y[1])))
SMin(x, y) == IF CIsBad(x) \/ CIsBad(y) THEN CBad ELSE IF CLt(y, x) THEN y ELSE x
SMax(x, y) == IF CIsBad(x) \/ CIsBad(y) THEN CBad ELSE IF CLt(x, y) THEN y ELSE x
SCmp(op, x, y) == IF CIsBad(x) \/ CIsBad(y) THEN CBad
                  ELSE CBool(CASE op = "greater" -> CLt(y, x) [] op = "less" -> CLt(x, y)
                               [] op = "equal" -> x = y [] op = "not_equal" -> x # y
                               [] op = "greater_equal" -> ~CLt(x, y) [] op = "less_equal" -> ~CLt(y, x))
\* power: k is the RESULT kind
SPow(k, x, y) ==
    IF CIsBad(x) \/ CIsBad(y) THEN CBad
    ELSE IF k = "i" THEN (IF y[1][1] < 0 \/ y[1][1] > 12 THEN CBad ELSE CReal(RPowNat(x[1], y[1][1])))
    ELSE IF k = "f" THEN (IF x[1][1] = 0 /\ y[1][1] < 0 THEN CBad ELSE CReal(RPow(x[1], y[1])))
    ELSE \* complex: integer exponents only (exact)
         IF y[2] # RZero \/ y[1][2] # 1 \/ IAbs(y[1][1]) > 8 THEN CBad
         ELSE IF y[1][1] >= 0 THEN CPowNat(x, y[1][1]) ELSE CInv(CPowNat(x, -y[1][1]))
RECURSIVE BitAnd(_, _)
BitAnd(a, b) == IF a = 0 \/ b = 0 THEN 0 ELSE 2 * BitAnd(a \div 2, b \div 2) + (IF a % 2 = 1 /\ b % 2 = 1 THEN 1 ELSE 0)
RECURSIVE BitOr(_, _)
BitOr(a, b) == IF a = 0 THEN b ELSE IF b = 0 THEN a ELSE 2 * BitOr(a \div 2, b \div 2) + (IF a % 2 = 1 \/ b % 2 = 1 THEN 1 ELSE 0)
SBit(op, x, y) == IF CIsBad(x) \/ CIsBad(y) \/ x[1][1] < 0 \/ y[1][1] < 0 THEN CBad    \* negative operands: not modelled
                  ELSE CInt(IF op = "bitwise_and" THEN BitAnd(x[1][1], y[1][1]) ELSE BitOr(x[1][1], y[1][1]))

ArithOps == {"add", "subtract", "multiply", "true_divide", "floor_divide", "mod", "power", "minimum", "maximum"}
CmpOps == {"greater", "less", "equal", "not_equal", "greater_equal", "less_equal"}
LogicOps == {"logical_and", "logical_or", "logical_xor"}
BitOps == {"bitwise_and", "bitwise_or"}
FloatBinOps == {"hypot", "arctan2"}              \* real kinds only, result kind at least "f"
BinaryOps == ArithOps \cup CmpOps \cup LogicOps \cup BitOps \cup FloatBinOps

\* result kind of a binary ufunc ("X" = no loop for these kinds).  Promotion lattice b<i<f<c with the
\* per-function minimum.  WrongPower is the switch of the spec MUTANT (power of bools stays bool).
CONSTANT WrongPromotion
BinKind(op, k1, k2) ==
    LET m == KMax(k1, k2) IN
    CASE op \in {"add", "multiply", "minimum", "maximum"} -> m
      [] op = "subtract" -> IF m = "b" THEN "X" ELSE m
      [] op = "true_divide" -> IF WrongPromotion THEN m ELSE KMax(m, "f")
      [] op \in {"floor_divide", "mod"} -> IF m = "c" THEN "X" ELSE KMax(m, "i")
      [] op = "power" -> KMax(m, "i")
      [] op \in CmpOps \cup LogicOps -> "b"
      [] op \in BitOps -> IF m \in {"f", "c"} THEN "X" ELSE m
      [] op \in FloatBinOps -> IF m = "c" THEN "X" ELSE "f"

\* hypot is exact when x^2 + y^2 is the square of a rational; arctan2 only at (0, positive): everything else is "undefined"
\* in this rational model (the harness then falls back on the installed numpy for the value, see c07.py)
SHypot(x, y) == IF CIsBad(x) \/ CIsBad(y) THEN CBad
                ELSE LET n == RAdd(RMul(x[1], x[1]), RMul(y[1], y[1])) IN IF IsBad(n) \/ ~HasRSqrt(n) THEN CBad ELSE CReal(RSqrt(n))
SArctan2(x, y) == IF CIsBad(x) \/ CIsBad(y) THEN CBad ELSE IF x[1][1] = 0 /\ y[1][1] > 0 THEN CZero ELSE CBad

NBinary(op, a, b) ==
    LET k == BinKind(op, a.dt, b.dt) IN
    IF k = "X" THEN TypeErr(op)
    ELSE CASE op = "add" -> NMap2(a, b, k, LAMBDA x, y : SAddK(k, x, y))
           [] op = "subtract" -> NMap2(a, b, k, CSub)
           [] op = "multiply" -> NMap2(a, b, k, LAMBDA x, y : SMulK(k, x, y))
           [] op = "true_divide" -> NMap2(a, b, k, CDiv)
           [] op = "floor_divide" -> NMap2(a, b, k, SFloorDiv)
           [] op = "mod" -> NMap2(a, b, k, SMod)
           [] op = "power" -> NMap2(a, b, k, LAMBDA x, y : SPow(k, x, y))
           [] op = "minimum" -> NMap2(a, b, k, SMin)
           [] op = "maximum" -> NMap2(a, b, k, SMax)
           [] op \in CmpOps -> NMap2(a, b, k, LAMBDA x, y : SCmp(op, x, y))
           [] op = "logical_and" -> NMap2(a, b, k, SAnd)
           [] op = "logical_or" -> NMap2(a, b, k, SOr)
           [] op = "logical_xor" -> NMap2(a, b, k, SXor)
           [] op \in BitOps -> IF k = "b" THEN NMap2(a, b, k, LAMBDA x, y : IF op = "bitwise_and" THEN SAnd(x, y) ELSE SOr(x, y))
                               ELSE NMap2(a, b, k, LAMBDA x, y : SBit(op, x, y))
           [] op = "hypot" -> NMap2(a, b, k, SHypot)
           [] op = "arctan2" -> NMap2(a, b, k, SArctan2)

\* ------------------------------------------------------------------ elementwise unary functions
\* transcendental functions: shape and kind rule are modelled; the VALUE only at the few rational points where it is rational
TransOps == {"sin", "cos", "tan", "arcsin", "arccos", "arctan", "sinh", "cosh", "tanh", "arctanh", "exp", "log", "log2", "log10", "sinc"}
UnaryOps == {"negative", "positive", "absolute", "sign", "reciprocal", "square", "sqrt", "conjugate", "real", "imag",
             "logical_not", "invert"} \cup TransOps
UnKind(op, k) ==
    CASE op \in {"negative", "positive", "sign"} -> IF k = "b" THEN "X" ELSE k
      [] op = "absolute" -> IF k = "c" THEN "f" ELSE k
      [] op \in {"reciprocal", "square", "conjugate"} -> KMax(k, "i")
      [] op = "sqrt" -> KMax(k, "f")
      [] op \in {"real", "imag"} -> IF k = "c" THEN "f" ELSE k
      [] op = "logical_not" -> "b"
      [] op = "invert" -> IF k \in {"f", "c"} THEN "X" ELSE k
      [] op \in TransOps -> KMax(k, "f")
STrans(op, x) ==
    IF CIsBad(x) \/ x[2] # RZero THEN CBad
    ELSE LET r == x[1] IN
         CASE op \in {"sin", "tan", "arcsin", "arctan", "sinh", "tanh", "arctanh"} -> IF r = RZero THEN CZero ELSE CBad
           [] op \in {"cos", "cosh", "exp"} -> IF r = RZero THEN COne ELSE CBad
           [] op = "arccos" -> IF r = ROne THEN CZero ELSE CBad
           [] op = "log" -> IF r = ROne THEN CZero ELSE CBad
           [] op = "log2" -> IF r = ROne THEN CZero ELSE IF r = RInt(2) THEN COne ELSE IF r = RInt(4) THEN CInt(2) ELSE IF r = Norm(1, 2) THEN CInt(-1) ELSE CBad
           [] op = "log10" -> IF r = ROne THEN CZero ELSE IF r = RInt(10) THEN COne ELSE CBad
           [] op = "sinc" -> IF r = RZero THEN COne ELSE CBad        \* (sin(pi n) / (pi n) is 4e-17, not 0, in floating point)
SSign(x) == IF CIsBad(x) THEN CBad
            ELSE IF x[2] = RZero THEN CInt(RSgn(x[1]))
            ELSE LET m == CAbsR(x) IN IF IsBad(m) THEN CBad ELSE CMk(RDiv(x[1], m), RDiv(x[2], m))
SRecip(k, x) == IF CIsBad(x) THEN CBad
                ELSE IF k = "i" THEN (IF x[1][1] = 0 THEN CBad ELSE CInt(RTrunc(RInv(x[1]))))
                ELSE CInv(x)
SSqrt(x) == IF CIsBad(x) \/ x[2] # RZero \/ ~HasRSqrt(x[1]) THEN CBad ELSE CReal(RSqrt(x[1]))
NUnary(op, a) ==
    LET k == UnKind(op, a.dt) IN
    IF k = "X" THEN TypeErr(op)
    ELSE CASE op = "negative" -> NMap1(a, k, CNeg)
           [] op = "positive" -> NMap1(a, k, LAMBDA x : x)
           [] op = "absolute" -> NMap1(a, k, LAMBDA x : CReal(CAbsR(x)))
           [] op = "sign" -> NMap1(a, k, SSign)
           [] op = "reciprocal" -> NMap1(a, k, LAMBDA x : SRecip(k, x))
           [] op = "square" -> NMap1(a, k, LAMBDA x : CMul(x, x))
           [] op = "sqrt" -> NMap1(a, k, SSqrt)
           [] op = "conjugate" -> NMap1(a, k, CConj)
           [] op = "real" -> NMap1(a, k, LAMBDA x : CReal(x[1]))
           [] op = "imag" -> NMap1(a, k, LAMBDA x : CReal(x[2]))
           [] op = "logical_not" -> NMap1(a, k, SNot)
           [] op = "invert" -> IF k = "b" THEN NMap1(a, k, SNot) ELSE NMap1(a, k, LAMBDA x : CSub(CNeg(x), COne))
           [] op \in TransOps -> NMap1(a, k, LAMBDA x : STrans(op, x))

\* ------------------------------------------------------------------ axes
NormAxis(ax, n) == IF ax < 0 THEN ax + n ELSE ax
AxisOk(ax, n) == ax >= -n /\ ax < n
IsPerm(axes, n) == Len(axes) = n /\ (\A i \in 1..n : AxisOk(axes[i], n))
                   /\ \A i, j \in 1..n : i # j => NormAxis(axes[i], n) # NormAxis(axes[j], n)
\* numpy.transpose: result axis i is operand axis axes[i]
NTransposeN(a, axes) == \* axes normalised, valid
    NArr([i \in 1..Len(axes) |-> a.sh[axes[i] + 1]], a.dt,
         LAMBDA idx : NAt(a, [j \in 1..Len(axes) |-> idx[CHOOSE i \in 1..Len(axes) : axes[i] + 1 = j]]))
NTranspose(a, axes) == IF ~IsPerm(axes, NRank(a)) THEN Rej("transpose:axes")
                       ELSE NTransposeN(a, [i \in 1..Len(axes) |-> NormAxis(axes[i], NRank(a))])
NTransposeDefault(a) == NTransposeN(a, [i \in 1..NRank(a) |-> NRank(a) - i])
NSwapaxes(a, a1, a2) ==
    LET n == NRank(a) IN
    IF ~AxisOk(a1, n) \/ ~AxisOk(a2, n) THEN Rej("swapaxes:axis")
    ELSE LET x == NormAxis(a1, n)  y == NormAxis(a2, n)
         IN NTransposeN(a, [i \in 1..n |-> IF i - 1 = x THEN y ELSE IF i - 1 = y THEN x ELSE i - 1])
\* numpy.moveaxis(a, src, dst) with integer src, dst: the other axes keep their order
NMoveaxis(a, src, dst) ==
    LET n == NRank(a) IN
    IF ~AxisOk(src, n) \/ ~AxisOk(dst, n) THEN Rej("moveaxis:axis")
    ELSE LET s == NormAxis(src, n)  t == NormAxis(dst, n)
             rest == Remove([i \in 1..n |-> i - 1], s + 1)
         IN NTransposeN(a, InsertAt(rest, t + 1, s))
NExpandDims(a, ax) ==
    LET n == NRank(a) + 1 IN
    IF ~AxisOk(ax, n) THEN Rej("expand_dims:axis")
    ELSE LET p == NormAxis(ax, n) IN [sh |-> InsertAt(a.sh, p + 1, 1), dt |-> a.dt, v |-> a.v]

\* ------------------------------------------------------------------ reshape
CountNeg(sh) == Cardinality({i \in 1..Len(sh) : sh[i] < 0})
ProdPos(sh) == Prod([i \in 1..Len(sh) |-> IF sh[i] < 0 THEN 1 ELSE sh[i]])
NReshape(a, sh) ==
    IF CountNeg(sh) > 1 THEN Rej("reshape:two-unknown")
    ELSE IF CountNeg(sh) = 1 THEN
        (IF ProdPos(sh) = 0 \/ NSize(a) % ProdPos(sh) # 0 THEN Rej("reshape:size")
         ELSE [sh |-> [i \in 1..Len(sh) |-> IF sh[i] < 0 THEN NSize(a) \div ProdPos(sh) ELSE sh[i]], dt |-> a.dt, v |-> a.v])
    ELSE IF Prod(sh) # NSize(a) THEN Rej("reshape:size")
    ELSE [sh |-> sh, dt |-> a.dt, v |-> a.v]
NRavel(a) == [sh |-> <<NSize(a)>>, dt |-> a.dt, v |-> a.v]

\* ------------------------------------------------------------------ reductions
\* axes: spec = [mode |-> "none" | "int" | "tuple", ax |-> sequence of integers, kd |-> 0 | 1]
\* NumPy accepts the INTEGER axis 0 or -1 for a 0-d operand (nothing is reduced); a tuple naming an axis is refused
ZeroDimAxis(spec, n) == n = 0 /\ spec.mode = "int" /\ spec.ax[1] \in {0, -1}
RedAxes(spec, n) == IF spec.mode = "none" THEN [i \in 1..n |-> i - 1]
                    ELSE IF ZeroDimAxis(spec, n) THEN <<>>
                    ELSE [i \in 1..Len(spec.ax) |-> NormAxis(spec.ax[i], n)]
RedAxesOk(spec, n) == spec.mode = "none" \/ ZeroDimAxis(spec, n)
                      \/ ((\A i \in 1..Len(spec.ax) : AxisOk(spec.ax[i], n))
                          /\ \A i, j \in 1..Len(spec.ax) : i # j => NormAxis(spec.ax[i], n) # NormAxis(spec.ax[j], n))
InSeq(x, s) == \E i \in 1..Len(s) : s[i] = x
RECURSIVE KeepSeq(_, _, _)
KeepSeq(s, drop, i) == IF i > Len(s) THEN <<>> ELSE (IF InSeq(i - 1, drop) THEN <<>> ELSE <<s[i]>>) \o KeepSeq(s, drop, i + 1)
\* all index tuples of a shape, in C order
AllIdx(sh) == [k \in 1..Prod(sh) |-> Unflat(k - 1, sh)]
RECURSIVE Merge(_, _, _, _, _)
\* full index from the kept-axes index `kidx` and the reduced-axes index `ridx` (reduced axes `red` in the order given)
Merge(n, red, kidx, ridx, i) ==
    IF i > n THEN <<>>
    ELSE IF InSeq(i - 1, red)
         THEN <<ridx[CHOOSE j \in 1..Len(red) : red[j] = i - 1]>> \o Merge(n, red, kidx, ridx, i + 1)
         ELSE <<kidx[1]>> \o Merge(n, red, SubSeq(kidx, 2, Len(kidx)), ridx, i + 1)
NReduceG(a, spec, dt, F(_, _), z, why) ==
    LET n == NRank(a) IN
    IF ~RedAxesOk(spec, n) THEN Rej(why)
    ELSE LET red == RedAxes(spec, n)
             rsh == [j \in 1..Len(red) |-> a.sh[red[j] + 1]]
             ksh == KeepSeq(a.sh, red, 1)
             osh == IF spec.kd = 1 THEN [i \in 1..n |-> IF InSeq(i - 1, red) THEN 1 ELSE a.sh[i]] ELSE ksh
             ridxs == AllIdx(rsh)
             res == NArr(ksh, dt, LAMBDA kidx : FoldSeq(F, z, [m \in 1..Len(ridxs) |-> NAt(a, Merge(n, red, kidx, ridxs[m], 1))], 1))
         IN [sh |-> osh, dt |-> dt, v |-> res.v]
ReduceOps == {"sum", "prod", "any", "all", "max", "min"}
\* fold for max/min needs a first element: an empty reduction is refused by NumPy
NReduce(op, a, spec) ==
    CASE op = "sum" -> NReduceG(a, spec, KMax(a.dt, "i"), CAdd, CZero, "reduce:axis")
      [] op = "prod" -> NReduceG(a, spec, KMax(a.dt, "i"), CMul, COne, "reduce:axis")
      [] op = "any" -> NReduceG(a, spec, "b", SOr, CZero, "reduce:axis")
      [] op = "all" -> NReduceG(a, spec, "b", SAnd, COne, "reduce:axis")
      [] op \in {"max", "min"} ->
           LET n == NRank(a) IN
           IF ~RedAxesOk(spec, n) THEN Rej("reduce:axis")
           ELSE IF \E j \in 1..Len(RedAxes(spec, n)) : a.sh[RedAxes(spec, n)[j] + 1] = 0 THEN Rej("reduce:empty")
           ELSE LET first == NReduceG(a, spec, a.dt, LAMBDA acc, x : IF acc = <<>> THEN x ELSE IF op = "max" THEN SMax(acc, x) ELSE SMin(acc, x), <<>>, "reduce:axis")
                IN first

\* ------------------------------------------------------------------ indexing  a[items]
\* item = [k |-> "int" | "slice" | "ell" | "new" | "arr" | "mask",
\*         a |-> integers (int: <<i>>; slice: <<hasstart, start, hasstop, stop, hasstep, step>>; arr/mask: flat values),
\*         sh |-> shape of the index array (arr/mask),
\*         c |-> 1 when the index array is a literal (out of range refused at construction), 0 when it is a run-time value]
ItInt(i) == [k |-> "int", a |-> <<i>>, sh |-> <<>>, c |-> 1]
ItSlice(hs, s, he, e, ht, t) == [k |-> "slice", a |-> <<hs, s, he, e, ht, t>>, sh |-> <<>>, c |-> 1]
ItFull == ItSlice(0, 0, 0, 0, 0, 0)
ItEll == [k |-> "ell", a |-> <<>>, sh |-> <<>>, c |-> 1]
ItNew == [k |-> "new", a |-> <<>>, sh |-> <<>>, c |-> 1]
ItArr(sh, vals) == [k |-> "arr", a |-> vals, sh |-> sh, c |-> 1]
ItMask(sh, vals) == [k |-> "mask", a |-> vals, sh |-> sh, c |-> 1]
ItArrRT(sh, vals) == [k |-> "arr", a |-> vals, sh |-> sh, c |-> 0]
Clip(x, lo, hi) == IF x < lo THEN lo ELSE IF x > hi THEN hi ELSE x
CeilDiv(a, b) == (a + b - 1) \div b        \* b > 0
\* Python slice.indices(n): <<start, step, count>>
SliceIdx(sl, n) ==
    LET step == IF sl[5] = 1 THEN sl[6] ELSE 1 IN
    IF step > 0 THEN
        LET s0 == IF sl[1] = 0 THEN 0 ELSE Clip(IF sl[2] < 0 THEN sl[2] + n ELSE sl[2], 0, n)
            e0 == IF sl[3] = 0 THEN n ELSE Clip(IF sl[4] < 0 THEN sl[4] + n ELSE sl[4], 0, n)
        IN <<s0, step, IMax(0, CeilDiv(e0 - s0, step))>>
    ELSE
        LET s0 == IF sl[1] = 0 THEN n - 1 ELSE Clip(IF sl[2] < 0 THEN sl[2] + n ELSE sl[2], -1, n - 1)
            e0 == IF sl[3] = 0 THEN -1 ELSE Clip(IF sl[4] < 0 THEN sl[4] + n ELSE sl[4], -1, n - 1)
        IN <<s0, step, IMax(0, CeilDiv(s0 - e0, -step))>>
Consumed(it) == CASE it.k \in {"int", "slice", "arr"} -> 1 [] it.k = "mask" -> Len(it.sh) [] OTHER -> 0
RECURSIVE ExpandEll(_, _, _)
ExpandEll(items, fill, i) ==
    IF i > Len(items) THEN <<>>
    ELSE (IF items[i].k = "ell" THEN [j \in 1..fill |-> ItFull] ELSE <<items[i]>>) \o ExpandEll(items, fill, i + 1)
\* entries: [t |-> "new" | "sl" | "ix", ax, start, step, cnt, sh, v, err]
Entry(t, ax, start, step, cnt, sh, v, err) == [t |-> t, ax |-> ax, start |-> start, step |-> step, cnt |-> cnt, sh |-> sh, v |-> v, err |-> err]
NormIx(vals, n) == [j \in 1..Len(vals) |-> IF vals[j] < 0 THEN vals[j] + n ELSE vals[j]]
IxErr(vals, n, c) == IF \E j \in 1..Len(vals) : vals[j] < -n \/ vals[j] >= n THEN (IF c = 1 THEN "rej" ELSE "bad") ELSE ""
\* nonzero positions of a mask (C order), coordinate d (1-based axis of the mask)
RECURSIVE MaskNZ(_, _, _)
MaskNZ(it, d, k) == IF k > Len(it.a) THEN <<>>
                    ELSE (IF it.a[k] # 0 THEN <<Unflat(k - 1, it.sh)[d]>> ELSE <<>>) \o MaskNZ(it, d, k + 1)
RECURSIVE Walk(_, _, _, _)
Walk(ex, sh, i, ax) ==
    IF i > Len(ex) THEN <<>>
    ELSE LET it == ex[i] IN
         CASE it.k = "new" -> <<Entry("new", -1, 0, 1, 1, <<>>, <<>>, "")>> \o Walk(ex, sh, i + 1, ax)
           [] it.k = "slice" -> LET s == SliceIdx(it.a, sh[ax + 1]) IN
                                <<Entry("sl", ax, s[1], s[2], s[3], <<>>, <<>>, "")>> \o Walk(ex, sh, i + 1, ax + 1)
           [] it.k = "int" -> <<Entry("ix", ax, 0, 1, 1, <<>>, NormIx(it.a, sh[ax + 1]), IxErr(it.a, sh[ax + 1], 1))>> \o Walk(ex, sh, i + 1, ax + 1)
           [] it.k = "arr" -> <<Entry("ix", ax, 0, 1, 1, it.sh, NormIx(it.a, sh[ax + 1]), IxErr(it.a, sh[ax + 1], it.c))>> \o Walk(ex, sh, i + 1, ax + 1)
           [] it.k = "mask" ->
                LET m == Len(it.sh)
                    okk == \A d \in 1..m : it.sh[d] = sh[ax + d]
                IN [d \in 1..m |-> LET nz == MaskNZ(it, d, 1) IN Entry("ix", ax + d - 1, 0, 1, 1, <<Len(nz)>>, nz, IF okk THEN "" ELSE "rej")]
                   \o Walk(ex, sh, i + 1, ax + m)
RECURSIVE FoldBShape(_, _, _)
FoldBShape(shs, acc, i) == IF i > Len(shs) THEN acc ELSE FoldBShape(shs, BShape(acc, shs[i]), i + 1)
RECURSIVE SelSeq(_, _, _)
SelSeq(s, P(_), i) == IF i > Len(s) THEN <<>> ELSE (IF P(s[i]) THEN <<s[i]>> ELSE <<>>) \o SelSeq(s, P, i + 1)
NGetItem(a, items) ==
    LET nell == Cardinality({i \in 1..Len(items) : items[i].k = "ell"})
        nc == SeqSum([i \in 1..Len(items) |-> Consumed(items[i])])
        r == NRank(a)
    IN IF nell > 1 THEN Rej("index:two-ellipsis")
       ELSE IF nc > r THEN Rej("index:too-many")
       ELSE
        LET ex == IF nell = 1 THEN ExpandEll(items, r - nc, 1) ELSE items \o [j \in 1..(r - nc) |-> ItFull]
            E == Walk(ex, a.sh, 1, 0)
            ne == Len(E)
            adv == {i \in 1..ne : E[i].t = "ix"}
        IN IF \E i \in adv : E[i].err = "rej" THEN Rej("index:out-of-bounds")
           ELSE
            LET B == FoldBShape([i \in 1..ne |-> IF i \in adv THEN E[i].sh ELSE <<>>], <<>>, 1)
                nonadv == SelSeq([i \in 1..ne |-> i], LAMBDA i : i \notin adv, 1)     \* positions of slices/newaxes, in order
                D == [j \in 1..Len(nonadv) |-> E[nonadv[j]].cnt]
                first == IF adv = {} THEN 0 ELSE CHOOSE i \in adv : \A j \in adv : i <= j
                last == IF adv = {} THEN 0 ELSE CHOOSE i \in adv : \A j \in adv : i >= j
                adjacent == adv # {} /\ \A i \in first..last : i \in adv
                nb == IF adjacent THEN Cardinality({j \in 1..Len(nonadv) : nonadv[j] < first}) ELSE 0
                osh == SubSeq(D, 1, nb) \o B \o SubSeq(D, nb + 1, Len(D))
                bad == \E i \in adv : E[i].err = "bad"
            IN IF IsBadShape(B) THEN Rej("index:broadcast")
               ELSE NArr(osh, a.dt, LAMBDA ridx :
                    LET bidx == SubSeq(ridx, nb + 1, nb + Len(B))
                        didx == SubSeq(ridx, 1, nb) \o SubSeq(ridx, nb + Len(B) + 1, Len(ridx))
                        src == [x \in 1..r |->
                                  LET e == CHOOSE i \in 1..ne : E[i].t # "new" /\ E[i].ax = x - 1 IN
                                  IF E[e].t = "sl" THEN E[e].start + E[e].step * didx[CHOOSE j \in 1..Len(nonadv) : nonadv[j] = e]
                                  ELSE E[e].v[Flat(BIdx(bidx, E[e].sh), E[e].sh) + 1]]
                    IN IF bad THEN CBad ELSE NAt(a, src))

\* ------------------------------------------------------------------ take / choose / compress / repeat
\* numpy.take(a, indices, axis) (mode 'raise'); ind is an integer array; c = 1: literal indices
NTake(a, ind, axisgiven, axis, c) ==
    IF ind.dt \notin {"i", "b"} THEN TypeErr("take:index-kind")
    \* a 0-d operand is treated as a 1-d array of length 1 (NumPy)
    ELSE LET src == IF axisgiven = 0 THEN NRavel(a) ELSE IF NRank(a) = 0 THEN [a EXCEPT !.sh = <<1>>] ELSE a
             n == NRank(src)
         IN IF axisgiven = 1 /\ ~AxisOk(axis, n) THEN Rej("take:axis")
            ELSE LET ax == IF axisgiven = 0 THEN 0 ELSE NormAxis(axis, n)
                     \* numpy.take checks the bounds while it copies: when nothing is copied (an axis BEFORE the indexed
                     \* one has length 0) and the indexed axis is not itself empty, out-of-range literals are not refused
                     nocheck == Prod(SubSeq(src.sh, 1, ax)) = 0 /\ src.sh[ax + 1] > 0
                     items == [i \in 1..ax |-> ItFull] \o << [k |-> "arr", a |-> [j \in 1..Len(ind.v) |-> NIdx(ind.v[j])], sh |-> ind.sh,
                                                               c |-> IF nocheck THEN 0 ELSE c] >>
                     oob == \E j \in 1..Len(ind.v) : NIdx(ind.v[j]) < -src.sh[ax + 1] \/ NIdx(ind.v[j]) >= src.sh[ax + 1]
                 IN IF nocheck /\ c = 1 /\ oob THEN NoDemand("take:unchecked-out-of-bounds") ELSE NGetItem(src, items)
\* numpy.choose(a, choices): a and all choices broadcast together; a selects the choice
NChoose(a, choices) ==
    LET n == Len(choices)
        sh == FoldBShape([i \in 1..n |-> choices[i].sh], a.sh, 1)
        dt == FoldSeq(KMax, choices[1].dt, [i \in 1..n |-> choices[i].dt], 1)
    IN IF IsBadShape(sh) THEN Rej("choose:broadcast")
       ELSE IF a.dt \notin {"i", "b"} THEN TypeErr("choose:index-kind")
       ELSE NArr(sh, dt, LAMBDA idx : LET k == NIdx(NAt(a, BIdx(idx, a.sh))) IN
                                      IF k < 0 \/ k >= n THEN CBad ELSE NAt(choices[k + 1], BIdx(idx, choices[k + 1].sh)))
\* numpy.compress(condition, a, axis): condition a literal 1-D 0/1 list
RECURSIVE NZ(_, _)
NZ(cond, k) == IF k > Len(cond) THEN <<>> ELSE (IF cond[k] # 0 THEN <<k - 1>> ELSE <<>>) \o NZ(cond, k + 1)
NCompress(cond, a, axisgiven, axis) ==
    LET nz == NZ(cond, 1) IN
    NTake(a, [sh |-> <<Len(nz)>>, dt |-> "i", v |-> [j \in 1..Len(nz) |-> CInt(nz[j])]], axisgiven, axis, 1)
\* numpy.repeat(a, n, axis) with scalar n
NRepeat(a, n, axisgiven, axis) ==
    LET src == IF axisgiven = 0 THEN NRavel(a) ELSE IF NRank(a) = 0 THEN [a EXCEPT !.sh = <<1>>] ELSE a    \* 0-d: as 1-d of length 1
        r == NRank(src)
    IN IF r = 0 \/ (axisgiven = 1 /\ ~AxisOk(axis, r)) THEN Rej("repeat:axis")
       ELSE LET ax == IF axisgiven = 0 THEN 0 ELSE NormAxis(axis, r) IN
            NArr([i \in 1..r |-> IF i = ax + 1 THEN src.sh[i] * n ELSE src.sh[i]], src.dt,
                 LAMBDA idx : NAt(src, [i \in 1..r |-> IF i = ax + 1 THEN idx[i] \div n ELSE idx[i]]))

\* ------------------------------------------------------------------ stack / concatenate
PromoteAll(arrs) == FoldSeq(KMax, "b", [i \in 1..Len(arrs) |-> arrs[i].dt], 1)
NStack(arrs, axis) ==
    LET n == NRank(arrs[1]) + 1 IN
    IF \E i \in 2..Len(arrs) : arrs[i].sh # arrs[1].sh THEN Rej("stack:shape")
    ELSE IF ~AxisOk(axis, n) THEN Rej("stack:axis")
    ELSE LET ax == NormAxis(axis, n) IN
         NArr(InsertAt(arrs[1].sh, ax + 1, Len(arrs)), PromoteAll(arrs), LAMBDA idx : NAt(arrs[idx[ax + 1] + 1], Remove(idx, ax + 1)))
RECURSIVE Offsets(_, _, _)
Offsets(lens, acc, i) == IF i > Len(lens) THEN <<>> ELSE <<acc>> \o Offsets(lens, acc + lens[i], i + 1)
NConcatenate(arrs, axis) ==
    LET n == NRank(arrs[1]) IN
    IF \E i \in 1..Len(arrs) : NRank(arrs[i]) = 0 THEN Rej("concatenate:zero-dim")
    ELSE IF \E i \in 2..Len(arrs) : NRank(arrs[i]) # n THEN Rej("concatenate:ndim")
    ELSE IF ~AxisOk(axis, n) THEN Rej("concatenate:axis")
    ELSE LET ax == NormAxis(axis, n) IN
         IF \E i \in 2..Len(arrs) : Remove(arrs[i].sh, ax + 1) # Remove(arrs[1].sh, ax + 1) THEN Rej("concatenate:shape")
         ELSE LET lens == [i \in 1..Len(arrs) |-> arrs[i].sh[ax + 1]]
                  offs == Offsets(lens, 0, 1)
                  which(k) == CHOOSE i \in 1..Len(arrs) : offs[i] <= k /\ k < offs[i] + lens[i]
              IN NArr([i \in 1..n |-> IF i = ax + 1 THEN SeqSum(lens) ELSE arrs[1].sh[i]], PromoteAll(arrs),
                      LAMBDA idx : LET w == which(idx[ax + 1]) IN NAt(arrs[w], [i \in 1..n |-> IF i = ax + 1 THEN idx[i] - offs[w] ELSE idx[i]]))

\* ------------------------------------------------------------------ products
\* numpy.dot
NDot(a, b) ==
    LET k == KMax(a.dt, b.dt) ra == NRank(a) rb == NRank(b) IN
    IF ra = 0 \/ rb = 0 THEN NBinary("multiply", a, b)
    ELSE LET n == a.sh[ra]
             m == IF rb = 1 THEN b.sh[1] ELSE b.sh[rb - 1]
         IN IF n # m THEN Rej("dot:shape")
            ELSE LET ash == SFront(a.sh)
                     bsh == IF rb = 1 THEN <<>> ELSE Remove(b.sh, rb - 1)
                 IN NArr(ash \o bsh, k, LAMBDA idx :
                      LET ia == SubSeq(idx, 1, ra - 1)
                          ib == SubSeq(idx, ra, Len(idx))
                      IN FoldSeq(LAMBDA acc, t : SAddK(k, acc, t), CZero,
                                 [j \in 1..n |-> SMulK(k, NAt(a, Append(ia, j - 1)),
                                                           NAt(b, IF rb = 1 THEN <<j - 1>> ELSE InsertAt(ib, rb - 1, j - 1)))], 1))
\* numpy.matmul
NMatmul(a, b) ==
    LET k == KMax(a.dt, b.dt) ra == NRank(a) rb == NRank(b) IN
    IF ra = 0 \/ rb = 0 THEN Rej("matmul:zero-dim")
    ELSE LET a2 == IF ra = 1 THEN [a EXCEPT !.sh = <<1, a.sh[1]>>] ELSE a
             b2 == IF rb = 1 THEN [b EXCEPT !.sh = <<b.sh[1], 1>>] ELSE b
             r2a == NRank(a2) r2b == NRank(b2)
             n == a2.sh[r2a]
             bat == BShape(SubSeq(a2.sh, 1, r2a - 2), SubSeq(b2.sh, 1, r2b - 2))
         IN IF n # b2.sh[r2b - 1] THEN Rej("matmul:shape")
            ELSE IF IsBadShape(bat) THEN Rej("matmul:broadcast")
            ELSE LET full == NArr(bat \o <<a2.sh[r2a - 1], b2.sh[r2b]>>, k, LAMBDA idx :
                                LET bi == SubSeq(idx, 1, Len(bat))
                                    i == idx[Len(bat) + 1]
                                    j == idx[Len(bat) + 2]
                                IN FoldSeq(LAMBDA acc, t : SAddK(k, acc, t), CZero,
                                           [m \in 1..n |-> SMulK(k, NAt(a2, BIdx(bi, SubSeq(a2.sh, 1, r2a - 2)) \o <<i, m - 1>>),
                                                                     NAt(b2, BIdx(bi, SubSeq(b2.sh, 1, r2b - 2)) \o <<m - 1, j>>))], 1))
                     sh1 == IF ra = 1 THEN Remove(full.sh, Len(full.sh) - 1) ELSE full.sh
                     sh2 == IF rb = 1 THEN SFront(sh1) ELSE sh1
                 IN [full EXCEPT !.sh = sh2]
\* numpy.vdot: both operands are flattened, the first is conjugated
NVdot(a, b) ==
    LET k == KMax(a.dt, b.dt) IN
    IF NSize(a) # NSize(b) THEN Rej("vdot:size")
    ELSE NScalar(k, FoldSeq(LAMBDA acc, t : SAddK(k, acc, t), CZero, [j \in 1..NSize(a) |-> SMulK(k, CConj(a.v[j]), b.v[j])], 1))
\* numpy.diagonal(a, offset, axis1, axis2): the diagonal becomes the last axis
NDiagonal(a, off, ax1, ax2) ==
    LET n == NRank(a) IN
    IF n < 2 THEN Rej("diagonal:ndim")
    ELSE IF ~AxisOk(ax1, n) \/ ~AxisOk(ax2, n) THEN Rej("diagonal:axis")
    ELSE LET x == NormAxis(ax1, n) y == NormAxis(ax2, n) IN
         IF x = y THEN Rej("diagonal:same-axis")
         ELSE LET n1 == a.sh[x + 1] n2 == a.sh[y + 1]
                  len == IF off >= 0 THEN IMax(0, IMin(n1, n2 - off)) ELSE IMax(0, IMin(n1 + off, n2))
                  rest == KeepSeq(a.sh, <<x, y>>, 1)
              IN NArr(Append(rest, len), a.dt, LAMBDA idx :
                      LET d == SLast(idx)
                          i1 == IF off >= 0 THEN d ELSE d - off
                          i2 == IF off >= 0 THEN d + off ELSE d
                      IN NAt(a, Merge(n, <<x, y>>, SFront(idx), <<i1, i2>>, 1)))
NTrace(a, off, ax1, ax2) ==
    LET dg == NDiagonal(a, off, ax1, ax2) IN
    IF ~IsVal(dg) THEN dg ELSE NReduce("sum", dg, [mode |-> "int", ax |-> <<-1>>, kd |-> 0])
\* numpy.einsum with integer labels: ins = label sequence per operand, out = output labels, implicit = 1: out is
\* derived (labels occurring exactly once, sorted)
Labels(ins) == UNION {{ins[o][j] : j \in 1..Len(ins[o])} : o \in 1..Len(ins)}
CountLabel(ins, l) == SeqSum([o \in 1..Len(ins) |-> Cardinality({j \in 1..Len(ins[o]) : ins[o][j] = l})])
RECURSIVE SortSet(_)
SortSet(S) == IF S = {} THEN <<>> ELSE LET m == CHOOSE x \in S : \A y \in S : x <= y IN <<m>> \o SortSet(S \ {m})
NEinsum(ins, out0, implicit, ops) ==
    LET out == IF implicit = 1 THEN SortSet({l \in Labels(ins) : CountLabel(ins, l) = 1}) ELSE out0
        k == PromoteAll(ops)
    IN IF Len(ins) # Len(ops) \/ \E o \in 1..Len(ins) : Len(ins[o]) # NRank(ops[o]) THEN Rej("einsum:ndim")
       ELSE IF \E i \in 1..Len(out) : out[i] \notin Labels(ins) THEN Rej("einsum:output-label")
       ELSE IF \E i, j \in 1..Len(out) : i # j /\ out[i] = out[j] THEN Rej("einsum:output-repeat")
       ELSE LET dimset(l) == {ops[o].sh[j] : <<o, j>> \in {oj \in (1..Len(ins)) \X (1..4) : oj[2] <= Len(ins[oj[1]]) /\ ins[oj[1]][oj[2]] = l}}
                \* a label repeated WITHIN one operand needs equal lengths; BETWEEN operands a length-1 axis is broadcast
                within == \E o \in 1..Len(ins) : \E j1, j2 \in 1..Len(ins[o]) : ins[o][j1] = ins[o][j2] /\ ops[o].sh[j1] # ops[o].sh[j2]
            IN IF within \/ \E l \in Labels(ins) : Cardinality(dimset(l) \ {1}) > 1 THEN Rej("einsum:shape")
               ELSE LET dim(l) == CHOOSE d \in dimset(l) : \A e \in dimset(l) : e <= d
                        summed == SortSet(Labels(ins) \ {out[i] : i \in 1..Len(out)})
                        ssh == [j \in 1..Len(summed) |-> dim(summed[j])]
                        sidx == AllIdx(ssh)
                        val(l, oidx, s) == IF \E i \in 1..Len(out) : out[i] = l THEN oidx[CHOOSE i \in 1..Len(out) : out[i] = l]
                                           ELSE s[CHOOSE j \in 1..Len(summed) : summed[j] = l]
                    IN NArr([i \in 1..Len(out) |-> dim(out[i])], k, LAMBDA oidx :
                         FoldSeq(LAMBDA acc, t : SAddK(k, acc, t), CZero,
                                 [m \in 1..Len(sidx) |->
                                    FoldSeq(LAMBDA acc, t : SMulK(k, acc, t), COne, [o \in 1..Len(ops) |-> NAt(ops[o], [j \in 1..Len(ins[o]) |-> IF ops[o].sh[j] = 1 THEN 0 ELSE val(ins[o][j], oidx, sidx[m])])], 1)], 1))
\* numpy.cross on the last axes (3-vectors only in NumPy 2)
NCross(a, b) ==
    IF NRank(a) = 0 \/ NRank(b) = 0 THEN Rej("cross:ndim")
    \* 2-vectors: accepted by NumPy 1.x, refused by NumPy 2.x -- nothing is demanded of the code
    ELSE IF SLast(a.sh) = 2 /\ SLast(b.sh) = 2 THEN TypeErr("cross:2-vectors")
    ELSE IF SLast(a.sh) # 3 \/ SLast(b.sh) # 3 THEN Rej("cross:dimension")
    ELSE LET bat == BShape(SFront(a.sh), SFront(b.sh))
             k == KMax(a.dt, b.dt)
         IN IF IsBadShape(bat) THEN Rej("cross:broadcast")
            ELSE IF k = "b" THEN TypeErr("cross:bool")
            ELSE NArr(Append(bat, 3), k, LAMBDA idx :
                   LET bi == SFront(idx)
                       c == SLast(idx)
                       A(j) == NAt(a, Append(BIdx(bi, SFront(a.sh)), j))
                       Bv(j) == NAt(b, Append(BIdx(bi, SFront(b.sh)), j))
                   IN CSub(CMul(A((c + 1) % 3), Bv((c + 2) % 3)), CMul(A((c + 2) % 3), Bv((c + 1) % 3))))

\* ------------------------------------------------------------------ linear algebra (exact, n <= 3 for det, n <= 2 for inv)
LinKind(k) == IF k = "c" THEN "c" ELSE "f"
Det2(M(_, _)) == CSub(CMul(M(0, 0), M(1, 1)), CMul(M(0, 1), M(1, 0)))
NDet(a) ==
    LET r == NRank(a) IN
    IF r < 2 THEN Rej("det:ndim")
    ELSE IF a.sh[r] # a.sh[r - 1] THEN Rej("det:non-square")
    ELSE LET n == a.sh[r] IN
         NArr(SubSeq(a.sh, 1, r - 2), LinKind(a.dt), LAMBDA idx :
              LET M(i, j) == NAt(a, idx \o <<i, j>>) IN
              IF n = 0 THEN COne
              ELSE IF n = 1 THEN M(0, 0)
              ELSE IF n = 2 THEN Det2(M)
              ELSE IF n = 3 THEN
                   CAdd(CSub(CMul(M(0, 0), CSub(CMul(M(1, 1), M(2, 2)), CMul(M(1, 2), M(2, 1)))),
                             CMul(M(0, 1), CSub(CMul(M(1, 0), M(2, 2)), CMul(M(1, 2), M(2, 0))))),
                        CMul(M(0, 2), CSub(CMul(M(1, 0), M(2, 1)), CMul(M(1, 1), M(2, 0)))))
              ELSE CBad)
NInv(a) ==
    LET r == NRank(a) IN
    IF r < 2 THEN Rej("inv:ndim")
    ELSE IF a.sh[r] # a.sh[r - 1] THEN Rej("inv:non-square")
    ELSE LET n == a.sh[r] IN
         NArr(a.sh, LinKind(a.dt), LAMBDA idx :
              LET pre == SubSeq(idx, 1, r - 2)
                  i == idx[r - 1]
                  j == idx[r]
                  M(p, q) == NAt(a, pre \o <<p, q>>)
              IN IF n = 1 THEN CInv(M(0, 0))
                 ELSE IF n = 2 THEN
                      LET dd == CInv(Det2(M)) IN
                      IF i = j THEN CMul(M(1 - i, 1 - j), dd) ELSE CNeg(CMul(M(i, j), dd))
                 ELSE CBad)
\* numpy.linalg.norm(x, axis=None | int): 2-norm of the flattened array / of vectors along the axis
NNorm(a, axisgiven, axis) ==
    LET sq == NMap1(a, "f", LAMBDA x : CReal(CNorm2(x)))
        s == NReduce("sum", sq, IF axisgiven = 0 THEN [mode |-> "none", ax |-> <<>>, kd |-> 0] ELSE [mode |-> "int", ax |-> <<axis>>, kd |-> 0])
    IN IF ~IsVal(s) \/ (axisgiven = 1 /\ ~AxisOk(axis, NRank(a))) THEN Rej("norm:axis") ELSE NMap1(s, "f", SSqrt)

\* ------------------------------------------------------------------ searchsorted / interp
\* numpy.searchsorted(a, v, side): a sorted 1-D; number of entries < v (left) or <= v (right)
NSearchsorted(a, v, right) ==
    IF NRank(a) # 1 THEN Rej("searchsorted:ndim")
    \* NumPy does not check that `a` is sorted: the result for unsorted data is undefined; complex kinds use the lexicographic order
    ELSE NMap1(v, "i", LAMBDA x : IF CIsBad(x) \/ NAnyBad(a) \/ (\E j \in 1..(Len(a.v) - 1) : CLt(a.v[j + 1], a.v[j])) THEN CBad
                                  ELSE CInt(Cardinality({j \in 1..Len(a.v) : IF right = 1 THEN ~CLt(x, a.v[j]) ELSE CLt(a.v[j], x)})))
\* numpy.interp(x, xp, fp): xp increasing 1-D, piecewise linear, constant extrapolation
NInterp(x, xp, fp) ==
    IF NRank(xp) # 1 \/ NRank(fp) # 1 THEN Rej("interp:ndim")
    ELSE IF xp.sh # fp.sh THEN Rej("interp:length")
    \* an empty table is refused -- unless there is nothing to interpolate, which NumPy lets pass (accident)
    ELSE IF xp.sh[1] = 0 THEN (IF NSize(x) = 0 THEN NoDemand("interp:empty-x") ELSE Rej("interp:empty"))
    ELSE IF xp.dt = "c" THEN TypeErr("interp:complex")
    \* complex x: TypeError or silently truncated, depending on how NumPy converts it; complex fp: separate code path -- not modelled
    ELSE IF x.dt = "c" \/ fp.dt = "c" THEN NoDemand("interp:complex")
    ELSE LET n == xp.sh[1]
             X(j) == xp.v[j][1]
             F(j) == fp.v[j][1]
         IN NMap1(x, "f", LAMBDA s :
              \* xp must be increasing (NumPy does not check; the result is undefined otherwise)
              IF CIsBad(s) \/ NAnyBad(xp) \/ NAnyBad(fp) \/ (\E q \in 1..(n - 1) : ~RLt(X(q), X(q + 1))) THEN CBad
              ELSE LET t == s[1] IN
                   IF ~RLt(X(1), t) THEN CReal(F(1))
                   ELSE IF ~RLt(t, X(n)) THEN CReal(F(n))
                   ELSE LET j == CHOOSE q \in 1..(n - 1) : ~RLt(t, X(q)) /\ RLt(t, X(q + 1)) IN
                        CReal(RAdd(F(j), RMul(RDiv(RSub(F(j + 1), F(j)), RSub(X(j + 1), X(j))), RSub(t, X(j))))))

\* ------------------------------------------------------------------ properties of values (for the harness)
IsPow2(d) == d \in {1, 2, 4, 8, 16, 32, 64, 128, 256, 512, 1024, 2048, 4096}
RDyadic(r) == IsBad(r) \/ IsPow2(r[2])
NDyadic(a) == \A k \in 1..Len(a.v) : RDyadic(a.v[k][1]) /\ RDyadic(a.v[k][2])
\* JSON projection: [sh, dt, v = flat list of <<rn, rd, in, id>>]
NProj(a) == IF ~IsVal(a) THEN a ELSE [sh |-> a.sh, dt |-> a.dt, v |-> [k \in 1..Len(a.v) |-> <<a.v[k][1][1], a.v[k][1][2], a.v[k][2][1], a.v[k][2][2]>>]]
=============================================================================
