\* thorough, exhaustive: one operation more than quick, reversed views; one route per distinct (state, last call) is emitted
\* (2 allocations, 2 addresses, 3 arrays, 2 items)
SPECIFICATION Spec
CONSTANTS
  MaxBufs = 2
  Addrs = {1, 2}
  Items = {1, 2}
  MaxViews = 3
  MaxOps = 6
  MaxVer = 1
  UseKinds = {"even", "head", "headT", "odd", "mid", "rev"}
  FirstFit = TRUE
  KeyStrides = TRUE
  Finalizer = TRUE
  CheckBases = TRUE
VIEW StateView
INVARIANT TypeOK
INVARIANT Transparent
INVARIANT EntriesFresh
INVARIANT KeysDistinct
INVARIANT NoLeak
INVARIANT EmitCall
CHECK_DEADLOCK FALSE
