SPECIFICATION TSpec
CONSTANTS
  BaseOrd <- MCBaseOrd7
  Prefixes <- MCPrefixes
  Defs <- MCDefs
  AUnits <- MCAUnits
CONSTRAINT TEmit
INVARIANT TableOK
CHECK_DEADLOCK FALSE
