------------------------------ MODULE Geometry ------------------------------
(***************************************************************************)
(* C08 -- differential-geometric operators obey their defining identities. *)
(*                                                                         *)
(* STATE.  A mesh is a set of elements; an element is the image of a       *)
(* reference cell (line L, square S, triangle T, cube C, tetrahedron K)    *)
(* under an exact rational affine map  xi |-> x0 = o + E xi  to the base   *)
(* coordinates x0 of the mesh (the geometry that the mesh generator        *)
(* returns).  A geometry is a polynomial map X = G(x0) with integer        *)
(* coefficients, R^m -> R^n with n = m (domain) or n = m + 1 (manifold of  *)
(* codimension one); a field is a polynomial p(X), scalar or vector.       *)
(* All numbers are exact rationals <<num, den>>.                           *)
(*                                                                         *)
(* MACHINE, shaped like the way the implementation is driven and lowered:  *)
(*   Init/NewMesh   mesh.rectilinear / mesh.simplex / products of two or   *)
(*                  three topologies in different spaces                   *)
(*   Refine         topo.refined (child maps of transform.SimplexChild /   *)
(*                  TensorChild)                                           *)
(*   SetGeom        geom = G(x0)                                           *)
(*   SetField       f = p(geom)                                            *)
(*   EvalInterior   topo.sample: lowering of _Gradient / _SurfaceGradient  *)
(*                  / _Jacobian / _ExteriorNormal at the element points:   *)
(*                  R = d geom / d ref (the root derivative, DG(x0) B),    *)
(*                  d f / d ref, the inverse (or the Gram pseudo inverse)  *)
(*                  and the contraction                                    *)
(*   EvalBoundary   topo.boundary.sample: the same with the edge map       *)
(*                  appended to the chain; _Normal = Orthonormal(R T, R e) *)
(*                  with T the tangents of the edge (TransformLinear) and  *)
(*                  e the exterior vector of the edge (Updim.ext,          *)
(*                  TransformBasis); _Jacobian = sqrt det Gram(R T)        *)
(*   EvalInterfaces topo.interfaces.sample: both sides of interior facets  *)
(*   EvalBoundaryField  fields that LIVE ON the boundary topology (a       *)
(*                  manifold of codimension one: functions of              *)
(*                  topo.boundary.f_coords / topo.boundary.basis):         *)
(*                  _TransformsCoords.lower of the boundary chain gives    *)
(*                  d facet coords / d root = (L^T L)^-1 L^T, the Gram     *)
(*                  pseudo inverse of the linear part L of the chain       *)
(*                  (child maps and the edge map, TransformLinear), then   *)
(*                  _Gradient contracts with (d geom / d root)^-1; the     *)
(*                  surface gradient of the boundary sample goes through   *)
(*                  the tip target instead                                 *)
(*   Integrate      topo.integrate / topo.boundary.integrate with the      *)
(*                  Jacobian measure (exact rational quadrature: closed    *)
(*                  Newton-Cotes, simplices through the Duffy map)         *)
(*   RefineIntegrals  the same integrals on the refined mesh               *)
(* Product topologies (spaces X, Y, [Z]; mesh.sp lists their dimensions):  *)
(* the root derivative is the concatenation of one block per space,        *)
(* d . / d root_s (function._Gradient / _Jacobian / _Normal loop over      *)
(* args.exposed), for a geometry that spans all spaces; per-space          *)
(* operators (grad(f, geom[cols_s], spaces=[s])) use one diagonal block.   *)
(* `res` holds what the implementation route computes; the invariants      *)
(* compare it with the DEFINING identities of the property:                *)
(*   GradIsDerivative   grad p(X) = p'(X)  (d f/d ref R^-1 = p'(G(x0)))    *)
(*   SurfGradProjects   surface gradient = (I - n n^T) p'(X)               *)
(*   MeasureIsGram      J^2 = det(R^T R) = |generalised cross product|^2   *)
(*   NormalOrthogonal   N . tangent = 0 for all tangents of the facet      *)
(*   NormalOutward      N . (push forward of the direction from the cell   *)
(*                      centre to the facet centre) > 0                    *)
(*   NormalRoutes       Gram-Schmidt of R e (implementation), R Gram^-1 e  *)
(*                      and the oriented cross product are positive        *)
(*                      multiples of each other                            *)
(*   InterfaceOpposite  the two sides of an interface see opposite N dS    *)
(*   DivTheoremElem     sum over the facets of an element of int p . N dS  *)
(*                      = int div p J  over the element                    *)
(*   DivTheoremMesh     the same over the boundary of the mesh; interface  *)
(*                      fluxes cancel                                      *)
(*   RefinePreserves    (action property) refinement changes no integral   *)
(*   BoundaryFieldTangential  the gradient of a field on the boundary      *)
(*                      topology agrees with p'(X) along every tangent of  *)
(*                      the facet (its normal component is not defined)    *)
(*   BoundarySurfGrad   the surface gradient on a boundary sample is the   *)
(*                      tangential projection (I - n n^T) of p'(X)         *)
(*   ProductGradient    on product topologies the concatenated per-space   *)
(*                      blocks give p'(X) (and B is block diagonal)        *)
(*   CoarseMeasure      J of a geometry that lives on the topology of the   *)
(*                      previous level (tail of the chain) is the same J    *)
(*   PerSpace           per-space gradients of a separable geometry are the*)
(*                      partial derivatives with respect to that space     *)
(* Results only depend on x0, G, p: independence of parametrisation is the *)
(* fact that the implementation route (through ref coordinates, B = E)     *)
(* equals the definitional route (which does not see the element).         *)
(***************************************************************************)
EXTENDS Integers, Sequences, FiniteSets, TLC, Json

CONSTANTS MeshNames,     \* base meshes
          RefineOn,      \* base meshes that may be refined
          MaxLevel,      \* refinement levels 0..MaxLevel
          Refine2On,     \* base meshes that may be refined once more (levels 0..MaxLevel + 1)
          GeomIds,       \* indices into GmGeoms
          FieldIds,      \* indices into GmFields
          Lattice,       \* K: sample points have local coordinates k / K (meshes of dimension 1 and 2)
          Lattice3,      \* K for meshes of dimension 3
          IntegrateOn,   \* base meshes on which integrals are taken
          BFieldOn,      \* base meshes on whose boundary topology fields are defined (EvalBoundaryField)
          RefineOnB,     \* base meshes that may be refined for EvalBoundaryField only
          ProdGeomIds,   \* the geometry maps that are tried on the three-dimensional product meshes (instead of GeomIds)
          ProdFieldIds,  \* the fields that are tried on the three-dimensional product meshes (instead of FieldIds)
          GmMutant       \* "none" or the name of a deliberately wrong model variant

VARIABLES mesh, geom, field, stage, res
vars == <<mesh, geom, field, stage, res>>

(***************************************************************************)
(* exact rationals <<num, den>>, den > 0, normalised                       *)
(***************************************************************************)
GmAbs(x) == IF x < 0 THEN 0 - x ELSE x
RECURSIVE GmGcd(_, _)
GmGcd(a, b) == IF b = 0 THEN a ELSE GmGcd(b, a % b)
QMk(n, d) == IF n = 0 THEN <<0, 1>>
             ELSE LET g == GmGcd(GmAbs(n), GmAbs(d))
                      s == IF d < 0 THEN 0 - 1 ELSE 1
                  IN <<(s * n) \div g, (s * d) \div g>>
QI(n) == <<n, 1>>
QZero == <<0, 1>>
QOne == <<1, 1>>
QNeg(p) == <<0 - p[1], p[2]>>
QAdd(p, q) == IF p[1] = 0 THEN q ELSE IF q[1] = 0 THEN p
              ELSE LET g == GmGcd(p[2], q[2])
                   IN QMk(p[1] * (q[2] \div g) + q[1] * (p[2] \div g), (p[2] \div g) * q[2])
QSub(p, q) == QAdd(p, QNeg(q))
QMul(p, q) == IF p[1] = 0 \/ q[1] = 0 THEN <<0, 1>>
              ELSE LET g1 == GmGcd(GmAbs(p[1]), q[2])
                       g2 == GmGcd(GmAbs(q[1]), p[2])
                   IN <<(p[1] \div g1) * (q[1] \div g2), (p[2] \div g2) * (q[2] \div g1)>>
QRecip(q) == IF q[1] < 0 THEN <<0 - q[2], 0 - q[1]>> ELSE <<q[2], q[1]>>      \* q # 0
QDiv(p, q) == QMul(p, QRecip(q))
QSgn(p) == IF p[1] > 0 THEN 1 ELSE IF p[1] < 0 THEN 0 - 1 ELSE 0
RECURSIVE QPow(_, _)
QPow(p, k) == IF k = 0 THEN <<1, 1>> ELSE QMul(p, QPow(p, k - 1))
RECURSIVE QSumTo(_, _)
QSumTo(s, k) == IF k = 0 THEN <<0, 1>> ELSE QAdd(s[k], QSumTo(s, k - 1))
QSum(s) == QSumTo(s, Len(s))

(***************************************************************************)
(* vectors (sequences of rationals) and matrices (sequences of rows)       *)
(***************************************************************************)
IV(v) == TLCEval([i \in 1..Len(v) |-> QI(v[i])])                   \* integer vector
HV(v) == TLCEval([i \in 1..Len(v) |-> QMk(v[i], 2)])               \* numerators over 2
VAdd(u, v) == TLCEval([i \in 1..Len(u) |-> QAdd(u[i], v[i])])
VSub(u, v) == TLCEval([i \in 1..Len(u) |-> QSub(u[i], v[i])])
VScale(c, u) == TLCEval([i \in 1..Len(u) |-> QMul(c, u[i])])
VNeg(u) == TLCEval([i \in 1..Len(u) |-> QNeg(u[i])])
VDot(u, v) == QSum(TLCEval([i \in 1..Len(u) |-> QMul(u[i], v[i])]))
VZero(n) == TLCEval([i \in 1..n |-> QZero])
GmUnit(n, d) == TLCEval([i \in 1..n |-> IF i = d THEN QOne ELSE QZero])
MCol(A, j) == TLCEval([i \in 1..Len(A) |-> A[i][j]])
MT(A, nc) == TLCEval([j \in 1..nc |-> MCol(A, j)])                  \* transpose of a matrix with nc columns
MMul(A, B, nc) == LET BT == MT(B, nc) IN TLCEval([i \in 1..Len(A) |-> TLCEval([j \in 1..nc |-> VDot(A[i], BT[j])])])    \* B has nc columns
MVec(A, v) == TLCEval([i \in 1..Len(A) |-> VDot(A[i], v)])
\* linear combination sum_k c[k] cols[k] of vectors of length n
LinComb(c, cols, n) == TLCEval([i \in 1..n |-> QSum(TLCEval([k \in 1..Len(c) |-> QMul(c[k], cols[k][i])]))])
\* matrix (rows) whose columns are the given vectors of length n
FromCols(cols, n) == TLCEval([i \in 1..n |-> TLCEval([k \in 1..Len(cols) |-> cols[k][i]])])

IdCols(n) == TLCEval([k \in 1..n |-> GmUnit(n, k)])
\* the sub matrix of the rows rs and columns cs (sequences of indices)
SubMat(A, rs, cs) == TLCEval([i \in 1..Len(rs) |-> TLCEval([j \in 1..Len(cs) |-> A[rs[i]][cs[j]]])])
UpTo(n) == TLCEval([i \in 1..n |-> i])
\* horizontal concatenation of a sequence of matrices with the same number of rows
RECURSIVE RowCat(_, _, _)
RowCat(Bs, i, k) == IF k = 0 THEN <<>> ELSE RowCat(Bs, i, k - 1) \o Bs[k][i]
HCat(Bs) == TLCEval([i \in 1..Len(Bs[1]) |-> RowCat(Bs, i, Len(Bs))])
\* the columns of the s-th space of a product with space dimensions sp
RECURSIVE SpStart(_, _)
SpStart(sp, s) == IF s = 1 THEN 0 ELSE sp[s - 1] + SpStart(sp, s - 1)
SpCols(sp, s) == TLCEval([k \in 1..sp[s] |-> SpStart(sp, s) + k])
GmOthers(n, i) == IF n = 2 THEN <<3 - i>> ELSE IF i = 1 THEN <<2, 3>> ELSE IF i = 2 THEN <<1, 3>> ELSE <<1, 2>>
QMinor(A, i, j) == LET n == Len(A)
                       r == GmOthers(n, i)
                       c == GmOthers(n, j)
                   IN IF n = 1 THEN QOne
                      ELSE IF n = 2 THEN A[r[1]][c[1]]
                      ELSE QSub(QMul(A[r[1]][c[1]], A[r[2]][c[2]]), QMul(A[r[1]][c[2]], A[r[2]][c[1]]))
QCof(A, i, j) == IF (i + j) % 2 = 0 THEN QMinor(A, i, j) ELSE QNeg(QMinor(A, i, j))
QDet(A) == IF Len(A) = 0 THEN QOne ELSE QSum(TLCEval([j \in 1..Len(A) |-> QMul(A[1][j], QCof(A, 1, j))]))
\* inverse through the adjugate (n <= 3)
QInv(A) == LET d == QDet(A)
           IN TLCEval([i \in 1..Len(A) |-> TLCEval([j \in 1..Len(A) |->
                 QDiv(IF GmMutant = "inv-transpose" THEN QCof(A, i, j) ELSE QCof(A, j, i), d)])])
\* generalised cross product of the n - 1 columns of the n x (n-1) matrix A: orthogonal to all of them,
\* det [A | c] = c . c, |c|^2 = det(A^T A)
Cross(A) == LET n == Len(A)
                AZ == TLCEval([i \in 1..n |-> A[i] \o <<QZero>>])
            IN TLCEval([i \in 1..n |-> QCof(AZ, i, n)])
\* Gram matrix A^T A of a matrix with nc columns
Gram(A, nc) == MMul(MT(A, nc), A, nc)
\* u = c v with c > 0
PosParallel(u, v) == /\ \A i \in 1..Len(u) : \A j \in 1..Len(u) : QMul(u[i], v[j]) = QMul(u[j], v[i])
                     /\ QSgn(VDot(u, v)) = 1

(***************************************************************************)
(* polynomials: sequences of terms <<c, e1, e2, e3>>                       *)
(***************************************************************************)
TermVal(t, x) == LET n == Len(x)
                     a == IF n >= 1 THEN QPow(x[1], t[2]) ELSE QOne
                     b == IF n >= 2 THEN QPow(x[2], t[3]) ELSE QOne
                     c == IF n >= 3 THEN QPow(x[3], t[4]) ELSE QOne
                 IN QMul(QI(t[1]), QMul(a, QMul(b, c)))
PEval(P, x) == QSum(TLCEval([k \in 1..Len(P) |-> TermVal(P[k], x)]))
PDiff(P, i) == LET S == SelectSeq(P, LAMBDA t : t[i + 1] > 0)
               IN TLCEval([k \in 1..Len(S) |-> [S[k] EXCEPT ![1] = S[k][1] * S[k][i + 1], ![i + 1] = S[k][i + 1] - 1]])
GmMax(a, b) == IF a > b THEN a ELSE b
RECURSIVE PDegTo(_, _)
PDegTo(P, k) == IF k = 0 THEN 0 ELSE GmMax(P[k][2] + P[k][3] + P[k][4], PDegTo(P, k - 1))
PDeg(P) == PDegTo(P, Len(P))
RECURSIVE PsDegTo(_, _)
PsDegTo(Ps, k) == IF k = 0 THEN 0 ELSE GmMax(PDeg(Ps[k]), PsDegTo(Ps, k - 1))
PsDeg(Ps) == PsDegTo(Ps, Len(Ps))

(***************************************************************************)
(* the geometry maps (all of them diffeomorphisms / immersions on x0 >= 0) *)
(* sep: 0 not separable, 1 every component depends on its own coordinate   *)
(* only, 2 (x, y) |-> (X, Y) and z |-> Z separately                         *)
(***************************************************************************)
GmGeoms == <<
  \* ---- R -> R
  [m |-> 1, n |-> 1, sep |-> 1,  G |-> << <<<<1,1,0,0>>>> >>],                                   \*  1: x
  [m |-> 1, n |-> 1, sep |-> 1,  G |-> << <<<<0-2,1,0,0>>, <<1,0,0,0>>>> >>],                    \*  2: 1 - 2 x  (reversing)
  [m |-> 1, n |-> 1, sep |-> 1,  G |-> << <<<<1,1,0,0>>, <<1,2,0,0>>>> >>],                      \*  3: x + x^2
  [m |-> 1, n |-> 1, sep |-> 1,  G |-> << <<<<0-3,1,0,0>>, <<0-1,2,0,0>>, <<2,0,0,0>>>> >>],     \*  4: 2 - 3 x - x^2 (reversing)
  \* ---- R^2 -> R^2
  [m |-> 2, n |-> 2, sep |-> 1,  G |-> << <<<<1,1,0,0>>>>, <<<<1,0,1,0>>>> >>],                  \*  5: identity
  [m |-> 2, n |-> 2, sep |-> 0, G |-> << <<<<2,1,0,0>>, <<1,0,1,0>>, <<1,0,0,0>>>>,             \*  6: (2x + y + 1, x - y), det -3
                                             <<<<1,1,0,0>>, <<0-1,0,1,0>>>> >>],
  [m |-> 2, n |-> 2, sep |-> 0, G |-> << <<<<1,1,0,0>>, <<1,0,2,0>>>>, <<<<2,0,1,0>>>> >>],     \*  7: (x + y^2, 2 y), det 2
  [m |-> 2, n |-> 2, sep |-> 0, G |-> << <<<<1,1,0,0>>, <<1,2,0,0>>>>,                          \*  8: (x + x^2, y + x y), det (1+2x)(1+x)
                                             <<<<1,0,1,0>>, <<1,1,1,0>>>> >>],
  [m |-> 2, n |-> 2, sep |-> 0, G |-> << <<<<1,0,1,0>>, <<1,2,0,0>>>>, <<<<1,1,0,0>>>> >>],     \*  9: (y + x^2, x), det -1
  [m |-> 2, n |-> 2, sep |-> 1,  G |-> << <<<<1,1,0,0>>, <<1,2,0,0>>>>,                          \* 10: (x + x^2, 1 - 2 y) separable, reversing
                                             <<<<0-2,0,1,0>>, <<1,0,0,0>>>> >>],
  \* ---- R^3 -> R^3
  [m |-> 3, n |-> 3, sep |-> 1,  G |-> << <<<<1,1,0,0>>>>, <<<<1,0,1,0>>>>, <<<<1,0,0,1>>>> >>], \* 11: identity
  [m |-> 3, n |-> 3, sep |-> 0, G |-> << <<<<1,1,0,0>>, <<1,0,1,0>>>>,                          \* 12: (x + y, 2y + z, x - z), det -1
                                             <<<<2,0,1,0>>, <<1,0,0,1>>>>,
                                             <<<<1,1,0,0>>, <<0-1,0,0,1>>>> >>],
  [m |-> 3, n |-> 3, sep |-> 0, G |-> << <<<<1,1,0,0>>, <<1,0,1,1>>>>,                          \* 13: (x + y z, y + z^2, z), det 1
                                             <<<<1,0,1,0>>, <<1,0,0,2>>>>,
                                             <<<<1,0,0,1>>>> >>],
  [m |-> 3, n |-> 3, sep |-> 0, G |-> << <<<<1,1,0,0>>, <<1,1,0,1>>>>,                          \* 14: (x + x z, y + x^2, z + z^2), det (1+z)(1+2z)
                                             <<<<1,0,1,0>>, <<1,2,0,0>>>>,
                                             <<<<1,0,0,1>>, <<1,0,0,2>>>> >>],
  [m |-> 3, n |-> 3, sep |-> 0, G |-> << <<<<1,0,1,0>>>>,                                       \* 15: (y, x + z^2, 2 z) det -2
                                             <<<<1,1,0,0>>, <<1,0,0,2>>>>,
                                             <<<<2,0,0,1>>>> >>],
  \* ---- curves R -> R^2
  [m |-> 1, n |-> 2, sep |-> 0, G |-> << <<<<1,1,0,0>>>>, <<<<1,2,0,0>>>> >>],                  \* 16: (x, x^2)
  [m |-> 1, n |-> 2, sep |-> 0, G |-> << <<<<2,1,0,0>>>>, <<<<0-1,1,0,0>>, <<1,0,0,0>>>> >>],   \* 17: (2x, 1 - x)
  [m |-> 1, n |-> 2, sep |-> 0, G |-> << <<<<0-1,2,0,0>>>>, <<<<1,1,0,0>>, <<1,0,0,0>>>> >>],   \* 18: (-x^2, x + 1)
  \* ---- surfaces R^2 -> R^3
  [m |-> 2, n |-> 3, sep |-> 0, G |-> << <<<<1,1,0,0>>>>, <<<<1,0,1,0>>>>, <<<<1,1,1,0>>>> >>], \* 19: (x, y, x y)
  [m |-> 2, n |-> 3, sep |-> 0, G |-> << <<<<1,1,0,0>>, <<1,0,1,0>>>>,                          \* 20: (x + y, x - y, 2x + y^2)
                                             <<<<1,1,0,0>>, <<0-1,0,1,0>>>>,
                                             <<<<2,1,0,0>>, <<1,0,2,0>>>> >>],
  [m |-> 2, n |-> 3, sep |-> 0, G |-> << <<<<1,0,1,0>>>>, <<<<1,1,0,0>>>>,                      \* 21: (y, x, x + 2y) affine, reversing
                                             <<<<1,1,0,0>>, <<2,0,1,0>>>> >>],
  \* ---- R^3 -> R^3, separable (per-space operators on products of three / two spaces)
  [m |-> 3, n |-> 3, sep |-> 1, G |-> << <<<<1,1,0,0>>, <<1,2,0,0>>>>,                              \* 22: (x + x^2, 1 - 2 y, 2 z + z^2) reversing
                                         <<<<0-2,0,1,0>>, <<1,0,0,0>>>>,
                                         <<<<2,0,0,1>>, <<1,0,0,2>>>> >>],
  [m |-> 3, n |-> 3, sep |-> 2, G |-> << <<<<1,1,0,0>>, <<1,0,2,0>>>>,                              \* 23: (x + y^2, 2 y, z + z^2), det 2 (1 + 2z)
                                         <<<<2,0,1,0>>>>,
                                         <<<<1,0,0,1>>, <<1,0,0,2>>>> >>]
>>
\* dG: the polynomials d G_i / d x0_j (kept in the state: TLC does not memoise operator applications)
NoGeom == [id |-> 0, m |-> 0, n |-> 0, sep |-> 0, G |-> <<>>, dG |-> <<>>]
GeomRec(i) == [id |-> i, m |-> GmGeoms[i].m, n |-> GmGeoms[i].n, sep |-> GmGeoms[i].sep, G |-> GmGeoms[i].G,
               dG |-> TLCEval([a \in 1..GmGeoms[i].n |-> TLCEval([b \in 1..GmGeoms[i].m |-> TLCEval(PDiff(GmGeoms[i].G[a], b))])])]

(***************************************************************************)
(* the fields p(X): n = number of variables, P = components                *)
(***************************************************************************)
GmFields == <<
  \* ---- one variable
  [n |-> 1, kind |-> "s", P |-> << <<<<1,2,0,0>>>> >>],                                             \*  1: x^2
  [n |-> 1, kind |-> "v", P |-> << <<<<1,3,0,0>>, <<0-2,1,0,0>>>> >>],                              \*  2: (x^3 - 2x)
  [n |-> 1, kind |-> "v", P |-> << <<<<1,2,0,0>>, <<1,0,0,0>>>> >>],                                \*  3: (x^2 + 1)
  \* ---- two variables
  [n |-> 2, kind |-> "s", P |-> << <<<<1,1,1,0>>>> >>],                                             \*  4: x y
  [n |-> 2, kind |-> "s", P |-> << <<<<1,2,0,0>>, <<0-3,0,2,0>>, <<2,1,0,0>>>> >>],                 \*  5: x^2 - 3 y^2 + 2x
  [n |-> 2, kind |-> "s", P |-> << <<<<1,2,1,0>>, <<1,0,3,0>>>> >>],                                \*  6: x^2 y + y^3
  [n |-> 2, kind |-> "v", P |-> << <<<<1,1,1,0>>>>, <<<<1,0,2,0>>, <<0-1,1,0,0>>>> >>],             \*  7: (x y, y^2 - x)
  [n |-> 2, kind |-> "v", P |-> << <<<<1,2,0,0>>, <<1,0,1,0>>>>, <<<<2,1,1,0>>>> >>],               \*  8: (x^2 + y, 2 x y)
  [n |-> 2, kind |-> "v", P |-> << <<<<1,0,1,0>>>>, <<<<0-1,1,0,0>>>> >>],                          \*  9: (y, -x)
  [n |-> 2, kind |-> "v", P |-> << <<<<1,2,1,0>>>>, <<<<1,1,2,0>>, <<1,3,0,0>>>> >>],               \* 10: (x^2 y, x y^2 + x^3)
  \* ---- three variables
  [n |-> 3, kind |-> "s", P |-> << <<<<1,1,0,1>>, <<1,0,2,0>>>> >>],                                \* 11: x z + y^2
  [n |-> 3, kind |-> "s", P |-> << <<<<1,1,1,1>>, <<0-2,2,0,0>>>> >>],                              \* 12: x y z - 2 x^2
  [n |-> 3, kind |-> "v", P |-> << <<<<1,0,1,1>>>>, <<<<1,1,0,1>>, <<1,0,2,0>>>>, <<<<1,1,1,0>>>> >>],   \* 13: (y z, x z + y^2, x y)
  [n |-> 3, kind |-> "v", P |-> << <<<<1,2,0,0>>, <<1,0,0,1>>>>, <<<<1,1,1,0>>>>, <<<<1,0,1,0>>, <<0-1,0,0,2>>>> >>],  \* 14: (x^2 + z, x y, y - z^2)
  [n |-> 3, kind |-> "v", P |-> << <<<<1,0,0,1>>>>, <<<<1,1,0,0>>>>, <<<<1,0,1,0>>, <<1,1,0,0>>>> >>]    \* 15: (z, x, y + x)
>>
RECURSIVE PConcat(_, _)
PConcat(Ps, k) == IF k = 0 THEN <<>> ELSE PConcat(Ps, k - 1) \o Ps[k]
\* dP: the polynomials d p_c / d X_j; lapP: sum_j d^2 p_c / d X_j^2
NoField == [id |-> 0, n |-> 0, kind |-> "", P |-> <<>>, dP |-> <<>>, lapP |-> <<>>]
FieldRec(i) == [id |-> i, n |-> GmFields[i].n, kind |-> GmFields[i].kind, P |-> GmFields[i].P,
                dP |-> TLCEval([c \in 1..Len(GmFields[i].P) |-> TLCEval([j \in 1..GmFields[i].n |-> TLCEval(PDiff(GmFields[i].P[c], j))])]),
                lapP |-> TLCEval([c \in 1..Len(GmFields[i].P) |-> TLCEval(PConcat(TLCEval([j \in 1..GmFields[i].n |-> TLCEval(PDiff(PDiff(GmFields[i].P[c], j), j))]), GmFields[i].n))])]

(***************************************************************************)
(* reference cells                                                         *)
(***************************************************************************)
RefDim(rt) == CASE rt = "P" -> 0 [] rt = "L" -> 1 [] rt = "S" -> 2 [] rt = "T" -> 2 [] rt = "C" -> 3 [] rt = "K" -> 3
IsSimplex(rt) == rt \in {"T", "K"}
\* lattice points k / K of a reference cell (K = 1: its vertices)
LatPts(rt, K) ==
    CASE rt = "P" -> {<<>>}
      [] rt = "L" -> {<<QMk(a, K)>> : a \in 0..K}
      [] rt = "S" -> {<<QMk(a, K), QMk(b, K)>> : a \in 0..K, b \in 0..K}
      [] rt = "T" -> {<<QMk(ab[1], K), QMk(ab[2], K)>> : ab \in {x \in (0..K) \X (0..K) : x[1] + x[2] <= K}}
      [] rt = "C" -> {<<QMk(a, K), QMk(b, K), QMk(c, K)>> : a \in 0..K, b \in 0..K, c \in 0..K}
      [] rt = "K" -> {<<QMk(x[1], K), QMk(x[2], K), QMk(x[3], K)>> : x \in {y \in (0..K) \X (0..K) \X (0..K) : y[1] + y[2] + y[3] <= K}}
RefCentroid(rt) ==
    CASE rt = "P" -> <<>>
      [] rt = "L" -> <<QMk(1, 2)>>
      [] rt = "S" -> <<QMk(1, 2), QMk(1, 2)>>
      [] rt = "T" -> <<QMk(1, 3), QMk(1, 3)>>
      [] rt = "C" -> <<QMk(1, 2), QMk(1, 2), QMk(1, 2)>>
      [] rt = "K" -> <<QMk(1, 4), QMk(1, 4), QMk(1, 4)>>
\* the facets of a reference cell: origin fo, tangent vectors T (the facet is the image of the reference
\* cell ft under eta |-> fo + sum eta_k T_k)
MkFacet(fo, T, ft) == [fo |-> fo, T |-> T, ft |-> ft]
RefFacets(rt) ==
    CASE rt = "L" -> {MkFacet(IV(<<0>>), <<>>, "P"), MkFacet(IV(<<1>>), <<>>, "P")}
      [] rt = "S" -> {MkFacet(VScale(QI(a), GmUnit(2, d)), <<GmUnit(2, 3 - d)>>, "L") : a \in {0, 1}, d \in {1, 2}}
      [] rt = "T" -> {MkFacet(IV(<<1, 0>>), <<IV(<<0 - 1, 1>>)>>, "L"),
                      MkFacet(IV(<<0, 0>>), <<IV(<<0, 1>>)>>, "L"),
                      MkFacet(IV(<<0, 0>>), <<IV(<<1, 0>>)>>, "L")}
      [] rt = "C" -> {MkFacet(VScale(QI(a), GmUnit(3, d)), <<GmUnit(3, GmOthers(3, d)[1]), GmUnit(3, GmOthers(3, d)[2])>>, "S") : a \in {0, 1}, d \in {1, 2, 3}}
      [] rt = "K" -> {MkFacet(IV(<<1, 0, 0>>), <<IV(<<0 - 1, 1, 0>>), IV(<<0 - 1, 0, 1>>)>>, "T"),
                      MkFacet(IV(<<0, 0, 0>>), <<IV(<<0, 1, 0>>), IV(<<0, 0, 1>>)>>, "T"),
                      MkFacet(IV(<<0, 0, 0>>), <<IV(<<1, 0, 0>>), IV(<<0, 0, 1>>)>>, "T"),
                      MkFacet(IV(<<0, 0, 0>>), <<IV(<<1, 0, 0>>), IV(<<0, 1, 0>>)>>, "T")}
FacetMap(f, eta) == VAdd(f.fo, LinComb(eta, f.T, Len(f.fo)))
\* direction from the centre of the cell to the centre of the facet: points out of the cell
OutDir(rt, f) == VSub(FacetMap(f, RefCentroid(f.ft)), RefCentroid(rt))
\* outward normal of the facet in reference coordinates (the model's Updim.ext)
RefNormal(rt, f) == LET m == RefDim(rt)
                        c == Cross(FromCols(f.T, m))
                        s == QSgn(VDot(c, OutDir(rt, f)))
                    IN IF (s = 1) = (GmMutant # "normal-inward") THEN c ELSE VNeg(c)
\* the children of a reference cell: offset and the columns of the linear part
\* (transform.SimplexChild, TensorChild of two/three line children)
MkChild(off, lin) == [off |-> off, lin |-> lin]
ChildMaps(rt) ==
    CASE rt = "L" -> {MkChild(HV(<<a>>), <<HV(<<1>>)>>) : a \in {0, 1}}
      [] rt = "S" -> {MkChild(HV(<<a, b>>), <<HV(<<1, 0>>), HV(<<0, 1>>)>>) : a \in {0, 1}, b \in {0, 1}}
      [] rt = "C" -> {MkChild(HV(<<a, b, c>>), <<HV(<<1, 0, 0>>), HV(<<0, 1, 0>>), HV(<<0, 0, 1>>)>>) : a \in {0, 1}, b \in {0, 1}, c \in {0, 1}}
      [] rt = "T" -> {MkChild(HV(o), <<HV(<<1, 0>>), HV(<<0, 1>>)>>) : o \in {<<0, 0>>, <<1, 0>>, <<0, 1>>}}
                     \cup {MkChild(HV(<<1, 0>>), <<HV(<<0 - 1, 1>>), HV(<<0, 1>>)>>)}
      [] rt = "K" -> {MkChild(HV(o), <<HV(<<1, 0, 0>>), HV(<<0, 1, 0>>), HV(<<0, 0, 1>>)>>) : o \in {<<0, 0, 0>>, <<1, 0, 0>>, <<0, 1, 0>>, <<0, 0, 1>>}}
                     \cup {MkChild(HV(<<1, 0, 0>>), <<HV(<<0 - 1, 1, 0>>), HV(<<0, 1, 0>>), HV(<<0 - 1, 0, 1>>)>>),
                           MkChild(HV(<<1, 0, 0>>), <<HV(<<0, 1, 0>>), HV(<<0 - 1, 0, 1>>), HV(<<0, 0, 1>>)>>),
                           MkChild(HV(<<0, 1, 0>>), <<HV(<<1, 0, 0>>), HV(<<0, 0 - 1, 1>>), HV(<<0, 0, 1>>)>>),
                           MkChild(HV(<<1, 1, 0>>), <<HV(<<0 - 1, 0 - 1, 1>>), HV(<<0, 0 - 1, 1>>), HV(<<0 - 1, 0, 1>>)>>)}

(***************************************************************************)
(* meshes                                                                  *)
(***************************************************************************)
\* x0 = o + sum xi_k E[k]; C: the columns of the linear part of the chain from the coordinates of the element to the
\* root coordinates (the coordinates of the unrefined element it descends from): the product of the child maps;
\* tl: the columns of the last child map alone (the tail of the chain relative to the topology of the previous level)
MkElemC(rt, o, E, C, tl) == [ref |-> rt, o |-> o, E |-> E, C |-> C, tl |-> tl]
MkElem(rt, o, E) == MkElemC(rt, o, E, IdCols(RefDim(rt)), IdCols(RefDim(rt)))
Box1(a, b) == MkElem("L", IV(<<a>>), <<IV(<<b - a>>)>>)
Box2(a, b) == MkElem("S", IV(a), <<IV(<<b[1] - a[1], 0>>), IV(<<0, b[2] - a[2]>>)>>)
Box3(a, b) == MkElem("C", IV(a), <<IV(<<b[1] - a[1], 0, 0>>), IV(<<0, b[2] - a[2], 0>>), IV(<<0, 0, b[3] - a[3]>>)>>)
Simplex(rt, vs) == MkElem(rt, IV(vs[1]), TLCEval([k \in 1..(Len(vs) - 1) |-> VSub(IV(vs[k + 1]), IV(vs[1]))]))
BaseElems(name) ==
    CASE name = "line" -> {Box1(0, 1), Box1(1, 3)}                                       \* mesh.rectilinear([[0,1,3]])
      [] name = "rect" -> {Box2(<<0, 0>>, <<1, 2>>), Box2(<<1, 0>>, <<3, 2>>)}           \* mesh.rectilinear([[0,1,3],[0,2]])
      [] name = "prod" -> {Box2(<<0, 0>>, <<1, 1>>), Box2(<<1, 0>>, <<2, 1>>),           \* rectilinear([[0,1,2]], 'X') * rectilinear([[0,1,3]], 'Y')
                           Box2(<<0, 1>>, <<1, 3>>), Box2(<<1, 1>>, <<2, 3>>)}
      [] name = "tri" -> {Simplex("T", <<<<0, 0>>, <<2, 0>>, <<0, 1>>>>),                \* mesh.simplex, second triangle negatively oriented
                          Simplex("T", <<<<2, 0>>, <<0, 1>>, <<2, 2>>>>),
                          Simplex("T", <<<<0, 1>>, <<2, 2>>, <<0, 3>>>>)}
      [] name = "box" -> {Box3(<<0, 0, 0>>, <<1, 2, 1>>), Box3(<<0, 0, 1>>, <<1, 2, 3>>)}  \* mesh.rectilinear([[0,1],[0,2],[0,1,3]])
      [] name = "prod3" -> {Box3(<<0, 0, 0>>, <<1, 2, 1>>), Box3(<<0, 0, 1>>, <<1, 2, 3>>)}  \* rectilinear([[0,1]], 'X') * rectilinear([[0,2]], 'Y') * rectilinear([[0,1,3]], 'Z')
      [] name = "prodm" -> {Box3(<<0, 0, 0>>, <<1, 2, 1>>), Box3(<<1, 0, 0>>, <<3, 2, 1>>)}  \* rectilinear([[0,1,3],[0,2]], 'X') * rectilinear([[0,1]], 'Z')
      [] name = "tet" -> {Simplex("K", <<<<0, 0, 0>>, <<1, 0, 0>>, <<0, 2, 0>>, <<0, 0, 1>>>>),
                          Simplex("K", <<<<1, 0, 0>>, <<0, 2, 0>>, <<0, 0, 1>>, <<1, 2, 1>>>>)}
MeshDim(name) == CASE name = "line" -> 1 [] name \in {"rect", "prod", "tri"} -> 2 [] OTHER -> 3
\* the dimensions of the spaces of the mesh (one space, except for the products)
MeshSpaces(name) == CASE name = "prod" -> <<1, 1>> [] name = "prod3" -> <<1, 1, 1>> [] name = "prodm" -> <<2, 1>> [] OTHER -> <<MeshDim(name)>>
X0(el, xi) == VAdd(el.o, LinComb(xi, el.E, Len(el.o)))
BMat(el) == FromCols(el.E, Len(el.o))                     \* d x0 / d xi
Children(el) == {MkElemC(el.ref, X0(el, c.off), TLCEval([k \in 1..Len(el.E) |-> LinComb(c.lin[k], el.E, Len(el.o))]),
                              TLCEval([k \in 1..Len(el.E) |-> LinComb(c.lin[k], el.C, Len(el.o))]), c.lin) : c \in ChildMaps(el.ref)}
ElemVerts(el) == {X0(el, xi) : xi \in LatPts(el.ref, 1)}
FacetVerts(el, f) == {X0(el, FacetMap(f, eta)) : eta \in LatPts(f.ft, 1)}
\* all facets of all elements, with their vertex sets (computed once)
AllFacetsOf(E) == UNION {{[el |-> el, f |-> f, fv |-> FacetVerts(el, f)] : f \in RefFacets(el.ref)} : el \in E}
\* a facet that belongs to one element only is a boundary facet, one that is shared by two an interface
BoundaryFacetsOf(E) == LET A == AllFacetsOf(E) IN {x \in A : \A y \in A : y = x \/ y.fv # x.fv}
InterfaceFacetsOf(E) == LET A == AllFacetsOf(E) IN {x \in A : \E y \in A : y # x /\ y.fv = x.fv}
BoundaryFacets == BoundaryFacetsOf(mesh.elems)
InterfaceFacets == InterfaceFacetsOf(mesh.elems)

(***************************************************************************)
(* lowering at a point: the implementation route                           *)
(***************************************************************************)
M == geom.m
N == geom.n
\* d geom / d x0 at x0 (N x M)
DGeom(x0) == TLCEval([i \in 1..N |-> TLCEval([j \in 1..M |-> PEval(geom.dG[i][j], x0)])])
GeomAt(x0) == TLCEval([i \in 1..N |-> PEval(geom.G[i], x0)])
\* the block of one space of a product topology: d geom / d ref_s = (d geom / d x0_s) (d x0_s / d ref_s), N x sp[s]
\* (the derivative to the root target of space s; the coordinates of a space depend on that space only)
RBlock(el, x0, s) == LET cs == SpCols(mesh.sp, s)
                     IN MMul(SubMat(DGeom(x0), UpTo(N), cs), SubMat(BMat(el), cs, cs), Len(cs))
\* R = d geom / d ref: the root derivative of the geometry, DG B; on a product topology the concatenation of the
\* derivatives to the root targets of all spaces
RGrad(el, x0) == IF GmMutant = "no-chain" THEN DGeom(x0)
                 ELSE IF Len(mesh.sp) = 1 THEN MMul(DGeom(x0), BMat(el), M)
                 ELSE HCat(TLCEval([s \in 1..Len(mesh.sp) |-> RBlock(el, x0, s)]))
\* ... and the same for d f / d ref = p'(X) R.  (Spec mutant "same-block": the derivative of the field to the root
\* target of EVERY space is the one to the first space -- a memo of the derivative that is shared between targets.)
FGradR(el, x0) == IF GmMutant = "same-block" /\ Len(mesh.sp) > 1
                  THEN HCat(TLCEval([s \in 1..Len(mesh.sp) |-> RBlock(el, x0, 1)]))
                  ELSE RGrad(el, x0)
NComp == Len(field.P)
FieldAt(X) == TLCEval([c \in 1..NComp |-> PEval(field.P[c], X)])
\* p'(X): the defining gradient (NComp x N)
DField(X) == TLCEval([c \in 1..NComp |-> TLCEval([j \in 1..N |-> PEval(field.dP[c][j], X)])])
LapField(X) == TLCEval([c \in 1..NComp |-> PEval(field.lapP[c], X)])
Trace(A) == QSum(TLCEval([i \in 1..Len(A) |-> A[i][i]]))
CurlOf(A) == IF Len(A) = 3 /\ N = 3
             THEN <<QSub(A[3][2], A[2][3]), QSub(A[1][3], A[3][1]), QSub(A[2][1], A[1][2])>>
             ELSE <<>>
\* gradient through the reference coordinates: (p'(X) R) R^-1, or (p'(X) R) Gram^-1 R^T on a manifold
GradImpl(X, R, Rf) == LET dfdref == MMul(DField(X), Rf, M)
                  IN IF N = M THEN MMul(dfdref, QInv(R), N)
                     ELSE MMul(MMul(dfdref, QInv(Gram(R, M)), M), MT(R, M), N)
IsVec == field.kind = "v" /\ NComp = N
\* per-space operators are defined: a product topology and a geometry that does not couple its spaces
SepOn == Len(mesh.sp) > 1 /\ N = M /\ (geom.sep = 1 \/ (geom.sep = 2 /\ mesh.sp = <<2, 1>>))

InteriorRow(el, xi) ==
    LET x0 == X0(el, xi)
        X == GeomAt(x0)
        R == RGrad(el, x0)
        g == GradImpl(X, R, FGradR(el, x0))
    IN [ev |-> ElemVerts(el), x0 |-> x0, X |-> X, f |-> FieldAt(X), g |-> g,
        dv |-> IF IsVec THEN <<Trace(g)>> ELSE <<>>,
        cu |-> IF IsVec THEN CurlOf(g) ELSE <<>>,
        lap |-> IF N = M THEN LapField(X) ELSE <<>>,
        j2 |-> QDet(Gram(R, M)),
        \* the measure of a geometry that LIVES ON THE TOPOLOGY OF THE PREVIOUS LEVEL (a discrete geometry in a basis of the
        \* coarser mesh), evaluated on this element: _Jacobian differentiates to the tip target through
        \* TransformCoords(target = coarser topology): (d geom / d parent coordinates) TransformLinear(target, source), the
        \* linear part of the TAIL of the chain (spec mutant "whole-chain": of the whole chain to the root)
        jc2 |-> LET Rp == MMul(R, QInv(FromCols(el.tl, M)), M)
                    Tl == FromCols(IF GmMutant = "whole-chain" THEN el.C ELSE el.tl, M)
                IN QDet(Gram(MMul(Rp, Tl, M), M)),
        sg |-> IF N = M THEN QSgn(QDet(R)) ELSE 0,
        nv |-> IF N = M + 1 THEN Cross(R) ELSE <<>>,
        \* the exterior normal with respect to the reference geometry x0 (function.normal(geom, refgeom), _ExteriorNormal)
        nx |-> IF N = M + 1 THEN Cross(DGeom(x0)) ELSE <<>>,
        rc |-> IF N = M + 1 THEN MT(R, M) ELSE <<>>,               \* the tangents of the manifold (columns of R)
        \* per-space operators of a product topology with a separable geometry (grad(f, geom[cols_s], spaces=[s]), J(geom[cols_s], spaces=[s])):
        \* (d f / d ref_s) (d geom_s / d ref_s)^-1 and det(d geom_s / d ref_s)^2
        gs |-> IF SepOn THEN HCat(TLCEval([s \in 1..Len(mesh.sp) |->
                                 LET cs == SpCols(mesh.sp, s)
                                 IN MMul(MMul(DField(X), SubMat(R, UpTo(N), cs), Len(cs)), QInv(SubMat(R, cs, cs)), Len(cs))])) ELSE <<>>,
        js |-> IF SepOn THEN TLCEval([s \in 1..Len(mesh.sp) |-> LET d == QDet(SubMat(R, SpCols(mesh.sp, s), SpCols(mesh.sp, s))) IN QMul(d, d)]) ELSE <<>>]

\* a point of a facet of an element
FacetRow(el, f, eta) ==
    LET xi == FacetMap(f, eta)
        x0 == X0(el, xi)
        X == GeomAt(x0)
        R == RGrad(el, x0)
        Tp == MMul(R, FromCols(f.T, M), M - 1)                   \* tangents of the facet, N x (M-1)  (rgrad . TransformLinear)
        e == RefNormal(el.ref, f)                                \* exterior vector of the edge (Updim.ext)
        v == MVec(R, e)                                          \* pushed forward (rgrad . TransformBasis[:, -1])
        GT == Gram(Tp, M - 1)
        \* Orthonormal(Tp, v) without the normalisation: v - Tp (Tp^T Tp)^-1 Tp^T v
        nI == VSub(v, MVec(Tp, MVec(QInv(GT), MVec(MT(Tp, M - 1), v))))
        \* definition: the vector of the tangent space of the geometry whose inner product with every tangent
        \* of the facet vanishes and that points out: R Gram^-1 e
        nD == MVec(R, MVec(QInv(Gram(R, M)), e))
        \* domains: N dS = the oriented generalised cross product of the tangents
        c == IF N = M THEN Cross(Tp) ELSE <<>>
        out == MVec(R, OutDir(el.ref, f))
        nv == IF N = M THEN (IF QSgn(VDot(c, out)) = 1 THEN c ELSE VNeg(c)) ELSE nD
    IN [ev |-> ElemVerts(el), fv |-> FacetVerts(el, f), x0 |-> x0, X |-> X, f |-> FieldAt(X), g |-> GradImpl(X, R, FGradR(el, x0)),
        tp |-> MT(Tp, M - 1), out |-> out, nI |-> nI, nD |-> nD, nv |-> nv, j2 |-> QDet(GT), cod |-> N - M]

\* a point of a facet of an element of a domain (N = M), for a field that lives on the boundary topology:
\* f = p(G(x0(eta))) as a function of the coordinates eta of the facet
BFieldRow(el, f, eta) ==
    LET xi == FacetMap(f, eta)
        x0 == X0(el, xi)
        X == GeomAt(x0)
        R == RGrad(el, x0)                                       \* d geom / d (coordinates of the element)
        T == FromCols(f.T, M)                                    \* the edge map, M x (M-1)
        Tp == MMul(R, T, M - 1)                                  \* d geom / d eta: tangents of the facet, N x (M-1)
        Cm == FromCols(el.C, M)                                  \* root <- coordinates of the element (the child maps)
        L == MMul(Cm, T, M - 1)                                  \* TransformLinear(None, boundary chain): root <- eta
        GL == Gram(L, M - 1)
        \* _TransformsCoords.lower, todims > fromdims: d eta / d root = (L^T L)^-1 L^T
        \* (spec mutant "diag-gram": the Gram matrix is taken to be diagonal)
        GLinv == IF GmMutant = "diag-gram"
                 THEN TLCEval([i \in 1..(M - 1) |-> TLCEval([j \in 1..(M - 1) |-> IF i = j THEN QRecip(GL[i][i]) ELSE QZero])])
                 ELSE QInv(GL)
        Linv == MMul(GLinv, MT(L, M - 1), M)                     \* (M-1) x M
        dfdeta == MMul(DField(X), Tp, M - 1)                     \* chain rule: d f / d eta, NComp x (M-1)
        dfdroot == MMul(dfdeta, Linv, M)                         \* d f / d root
        Rroot == MMul(R, QInv(Cm), M)                            \* d geom / d root
        g == MMul(dfdroot, QInv(Rroot), N)                       \* _Gradient
        \* _SurfaceGradient on the boundary sample: tip target, d f / d eta (Tp^T Tp)^-1 Tp^T
        sg == MMul(MMul(dfdeta, QInv(Gram(Tp, M - 1)), M - 1), MT(Tp, M - 1), N)
        c == Cross(Tp)
        nv == IF QSgn(VDot(c, MVec(R, OutDir(el.ref, f)))) = 1 THEN c ELSE VNeg(c)
        tp == MT(Tp, M - 1)
    IN [ev |-> ElemVerts(el), fv |-> FacetVerts(el, f), x0 |-> x0, X |-> X, f |-> FieldAt(X),
        tp |-> tp, gt |-> TLCEval([k \in 1..(M - 1) |-> MVec(g, tp[k])]), sg |-> sg, nv |-> nv,
        orth |-> \A i \in 1..(M - 1) : \A j \in 1..(M - 1) : i = j \/ GL[i][j][1] = 0]

\* N dS alone (domains), for the flux integrals
FacetNv(el, f, eta) ==
    LET x0 == X0(el, FacetMap(f, eta))
        R == RGrad(el, x0)
        c == Cross(MMul(R, FromCols(f.T, M), M - 1))
    IN IF QSgn(VDot(c, MVec(R, OutDir(el.ref, f)))) = 1 THEN c ELSE VNeg(c)
\* (refined three-dimensional meshes are sampled at the vertices only)
LatticeK == IF mesh.m = 3 THEN (IF mesh.level = 0 THEN Lattice3 ELSE 1) ELSE Lattice
PointsOf(el) == LatPts(el.ref, LatticeK)
InteriorRows == UNION {{InteriorRow(el, xi) : xi \in PointsOf(el)} : el \in mesh.elems}
FacetRows(F) == UNION {{FacetRow(x.el, x.f, eta) : eta \in LatPts(x.f.ft, LatticeK)} : x \in F}
BFieldRows(F) == UNION {{BFieldRow(x.el, x.f, eta) : eta \in LatPts(x.f.ft, LatticeK)} : x \in F}

(***************************************************************************)
(* exact integrals: closed Newton-Cotes rules with np points per direction *)
(* (exact up to degree np, np odd; np - 1 for np = 2); simplices through   *)
(* the Duffy map                                                           *)
(***************************************************************************)
NCW(np) == CASE np = 2 -> <<QMk(1, 2), QMk(1, 2)>>
             [] np = 3 -> <<QMk(1, 6), QMk(4, 6), QMk(1, 6)>>
             [] np = 5 -> <<QMk(7, 90), QMk(32, 90), QMk(12, 90), QMk(32, 90), QMk(7, 90)>>
NCX(np, k) == QMk(k - 1, np - 1)
GmPow(a, k) == IF k = 0 THEN 1 ELSE IF k = 1 THEN a ELSE IF k = 2 THEN a * a ELSE a * a * a
\* quadrature points [x, w] of a reference cell
QuadPts(rt, np) ==
    LET d == RefDim(rt)
        w1 == NCW(np)
        dig(i, k) == (((i - 1) \div GmPow(np, k - 1)) % np) + 1      \* k-th digit of i - 1 in base np, plus one
        u(i, k) == NCX(np, dig(i, k))
        one == QOne
    IN TLCEval([i \in 1..GmPow(np, d) |->
          LET w0 == IF d = 0 THEN one ELSE IF d = 1 THEN w1[dig(i, 1)] ELSE IF d = 2 THEN QMul(w1[dig(i, 1)], w1[dig(i, 2)])
                    ELSE QMul(w1[dig(i, 1)], QMul(w1[dig(i, 2)], w1[dig(i, 3)]))
          IN IF rt = "T" THEN [x |-> <<u(i, 1), QMul(QSub(one, u(i, 1)), u(i, 2))>>, w |-> QMul(w0, QSub(one, u(i, 1)))]
             ELSE IF rt = "K" THEN [x |-> <<u(i, 1), QMul(QSub(one, u(i, 1)), u(i, 2)), QMul(QMul(QSub(one, u(i, 1)), QSub(one, u(i, 2))), u(i, 3))>>,
                                    w |-> QMul(w0, QMul(QMul(QSub(one, u(i, 1)), QSub(one, u(i, 1))), QSub(one, u(i, 2))))]
             ELSE [x |-> TLCEval([k \in 1..d |-> u(i, k)]), w |-> w0]])
IntRef(rt, np, H(_)) == LET QP == QuadPts(rt, np) IN QSum(TLCEval([i \in 1..Len(QP) |-> IF QP[i].w[1] = 0 THEN QZero ELSE QMul(QP[i].w, H(QP[i].x))]))
\* number of points needed for a polynomial integrand of total degree deg on the cell rt (0: not available)
NeedPts(rt, deg) == LET d == deg + (IF rt = "T" THEN 1 ELSE IF rt = "K" THEN 2 ELSE 0)
                    IN IF d <= 1 THEN 2 ELSE IF d <= 3 THEN 3 ELSE IF d <= 5 THEN 5 ELSE 0
DegG == PsDeg(geom.G)
DegP == PsDeg(field.P)
FacetType(rt) == CASE rt = "L" -> "P" [] rt = "S" -> "L" [] rt = "T" -> "L" [] rt = "C" -> "S" [] rt = "K" -> "T"
\* degrees in xi of: f(X) J, div p(X) J (cell), p(X) . N dS (facet)
DegCellF == DegP * DegG + M * (DegG - 1)
DegCellD == (IF DegP > 0 THEN DegP - 1 ELSE 0) * DegG + M * (DegG - 1)
DegFacet == DegP * DegG + (M - 1) * (DegG - 1)
\* (three-dimensional meshes that are refined: rules of at most three points per direction, the 32 bit integers of TLC
\* cannot hold the denominators of the five point rules on the children)
PtsCap == IF mesh.m = 3 /\ mesh.name \in RefineOn THEN 3 ELSE 5
CanIntegrate(rt) == /\ N = M
                    /\ NeedPts(rt, IF IsVec THEN DegCellD ELSE DegCellF) \in 1..PtsCap
                    /\ NeedPts(rt, DegCellF - DegP * DegG) \in 1..PtsCap
                    /\ (IsVec => NeedPts(FacetType(rt), DegFacet) \in 1..PtsCap)
AbsDetAt(el, xi) == LET d == QDet(RGrad(el, X0(el, xi))) IN IF GmMutant = "no-measure" THEN QOne ELSE IF d[1] < 0 THEN QNeg(d) ELSE d
CellVol(el) == LET H(xi) == AbsDetAt(el, xi) IN IntRef(el.ref, NeedPts(el.ref, DegCellF - DegP * DegG), H)
\* scalar field: int f J; vector field: int div p J
CellInt(el) == LET H(xi) == LET X == GeomAt(X0(el, xi))
                            IN QMul(IF IsVec THEN Trace(DField(X)) ELSE FieldAt(X)[1], AbsDetAt(el, xi))
               IN IntRef(el.ref, NeedPts(el.ref, IF IsVec THEN DegCellD ELSE DegCellF), H)
FacetFlux(el, f) == LET H(eta) == VDot(FieldAt(GeomAt(X0(el, FacetMap(f, eta)))), FacetNv(el, f, eta))
                    IN IF IsVec THEN IntRef(f.ft, NeedPts(f.ft, DegFacet), H) ELSE QZero
SumOver(S, H(_)) == LET RECURSIVE go(_)
                        go(T) == IF T = {} THEN QZero ELSE LET x == CHOOSE y \in T : TRUE IN QAdd(H(x), go(T \ {x}))
                    IN go(S)
ElemIntRow(el) == LET ff(f) == FacetFlux(el, f)
                  IN [ev |-> ElemVerts(el), vol |-> CellVol(el), int |-> CellInt(el), flux |-> SumOver(RefFacets(el.ref), ff)]
\* (a function of the element set: TLC does not cache LET values inside primed expressions)
IntegralsOf(E) ==
    LET rows == {ElemIntRow(el) : el \in E}
        fl(x) == FacetFlux(x.el, x.f)
        rv(r) == r.vol
        ri(r) == r.int
    IN [rows |-> rows,
        tot |-> [vol |-> SumOver(rows, rv), int |-> SumOver(rows, ri),
                 flux |-> SumOver(BoundaryFacetsOf(E), fl), iflux |-> SumOver(InterfaceFacetsOf(E), fl)]]
Integrals == IntegralsOf(mesh.elems)
NoTot == [vol |-> QZero, int |-> QZero, flux |-> QZero, iflux |-> QZero]

(***************************************************************************)
(* the machine                                                             *)
(***************************************************************************)
MkMesh(name, level, elems) == [name |-> name, level |-> level, m |-> MeshDim(name), sp |-> MeshSpaces(name), elems |-> elems]
\* the geometry is regular at every point that is looked at: the measure does not vanish and does not change sign
Regular(g) == LET RAt(el, xi) == MMul(TLCEval([i \in 1..g.n |-> TLCEval([j \in 1..g.m |-> PEval(g.dG[i][j], X0(el, xi))])]), BMat(el), g.m)
                  pts(el) == LatPts(el.ref, 1) \cup {RefCentroid(el.ref)}
                  \* the sign of det(d geom / d x0) (domains): the same everywhere
                  sgn(el, xi) == QSgn(QDet(RAt(el, xi))) * QSgn(QDet(BMat(el)))
              IN /\ \A el \in mesh.elems : \A xi \in pts(el) : QDet(Gram(RAt(el, xi), g.m))[1] > 0
                 /\ g.n = g.m => Cardinality(UNION {{sgn(el, xi) : xi \in pts(el)} : el \in mesh.elems}) = 1
Init == /\ \E name \in MeshNames : mesh = MkMesh(name, 0, BaseElems(name))
        /\ geom = NoGeom /\ field = NoField /\ stage = "mesh" /\ res = [rows |-> {}, tot |-> NoTot]
LevelMax(name) == IF name \in Refine2On THEN MaxLevel + 1 ELSE MaxLevel
Refine == /\ stage = "mesh" /\ mesh.level < LevelMax(mesh.name) /\ mesh.name \in RefineOn \cup RefineOnB
          /\ mesh' = MkMesh(mesh.name, mesh.level + 1, UNION {Children(el) : el \in mesh.elems})
          /\ UNCHANGED <<geom, field, stage, res>>
SetGeom == /\ stage = "mesh"
           /\ \E i \in (IF Len(mesh.sp) > 1 /\ mesh.m = 3 THEN ProdGeomIds ELSE GeomIds) :
                 /\ GmGeoms[i].m = mesh.m
                 /\ Regular(GeomRec(i))
                 /\ geom' = GeomRec(i)
           /\ stage' = "geom" /\ UNCHANGED <<mesh, field, res>>
SetField == /\ stage = "geom"
            /\ \E i \in (IF Len(mesh.sp) > 1 /\ mesh.m = 3 THEN ProdFieldIds ELSE FieldIds) : GmFields[i].n = geom.n /\ field' = FieldRec(i)
            /\ stage' = "field" /\ UNCHANGED <<mesh, geom, res>>
\* (meshes of RefineOnB \ RefineOn are refined for the boundary fields only)
FullEval == mesh.level = 0 \/ mesh.name \in RefineOn
EvalInterior == /\ stage = "field" /\ FullEval
                /\ stage' = "interior" /\ res' = [rows |-> InteriorRows, tot |-> NoTot]
                /\ UNCHANGED <<mesh, geom, field>>
EvalBoundary == /\ stage = "field" /\ FullEval
                /\ stage' = "boundary" /\ res' = [rows |-> FacetRows(BoundaryFacets), tot |-> NoTot]
                /\ UNCHANGED <<mesh, geom, field>>
EvalInterfaces == /\ stage = "field" /\ FullEval
                  /\ InterfaceFacets # {}
                  /\ stage' = "interfaces" /\ res' = [rows |-> FacetRows(InterfaceFacets), tot |-> NoTot]
                  /\ UNCHANGED <<mesh, geom, field>>
EvalBoundaryField == /\ stage = "field" /\ mesh.name \in BFieldOn /\ N = M /\ M >= 2 /\ Len(mesh.sp) = 1
                     /\ stage' = "bfield" /\ res' = [rows |-> BFieldRows(BoundaryFacets), tot |-> NoTot]
                     /\ UNCHANGED <<mesh, geom, field>>
CanIntegrateAll == FullEval /\ mesh.name \in IntegrateOn /\ \A el \in mesh.elems : CanIntegrate(el.ref)
Integrate == /\ stage = "field" /\ CanIntegrateAll
             /\ stage' = "integrals" /\ res' = Integrals
             /\ UNCHANGED <<mesh, geom, field>>
RefineIntegrals == /\ stage = "integrals" /\ mesh.level < LevelMax(mesh.name) /\ mesh.name \in RefineOn
                   /\ LET kids == UNION {Children(el) : el \in mesh.elems}
                      IN mesh' = MkMesh(mesh.name, mesh.level + 1, kids) /\ res' = IntegralsOf(kids)
                   /\ UNCHANGED <<geom, field, stage>>
Next == Refine \/ SetGeom \/ SetField \/ EvalInterior \/ EvalBoundary \/ EvalInterfaces \/ EvalBoundaryField \/ Integrate \/ RefineIntegrals
Spec == Init /\ [][Next]_vars

(***************************************************************************)
(* the property                                                            *)
(***************************************************************************)
IdMat(n) == TLCEval([i \in 1..n |-> GmUnit(n, i)])
Outer(u, v) == TLCEval([i \in 1..Len(u) |-> TLCEval([j \in 1..Len(v) |-> QMul(u[i], v[j])])])
MSub(A, B) == TLCEval([i \in 1..Len(A) |-> VSub(A[i], B[i])])
MScale(c, A) == TLCEval([i \in 1..Len(A) |-> VScale(c, A[i])])
PointStages == {"interior", "boundary", "interfaces"}
\* the gradient of p(X) equals p'(X) -- on interior, boundary and interface samples of domains
GradIsDerivative == (stage \in PointStages /\ N = M) => \A r \in res.rows : r.g = DField(r.X)
\* the surface gradient is the projection of p'(X) onto the tangent space:  |nv|^2 g = p'(X) (|nv|^2 I - nv nv^T)
SurfGradProjects == (stage = "interior" /\ N = M + 1) =>
                       \A r \in res.rows : LET nn == VDot(r.nv, r.nv)
                                           IN MScale(nn, r.g) = MMul(DField(r.X), MSub(MScale(nn, IdMat(N)), Outer(r.nv, r.nv)), N)
\* ... and on the boundary of a manifold the gradient is tangential as well and agrees with p'(X) along all tangents
\* (tangents of the facet and the conormal)
SurfGradBoundary == (stage \in {"boundary", "interfaces"} /\ N = M + 1) =>
                       \A r \in res.rows : /\ \A k \in 1..Len(r.tp) : MVec(r.g, r.tp[k]) = MVec(DField(r.X), r.tp[k])
                                           /\ MVec(r.g, r.nv) = MVec(DField(r.X), r.nv)
\* the measure is the root of the Gram determinant: the square of the cross product / of the determinant
MeasureIsGram == /\ (stage = "interior" /\ N = M + 1) => \A r \in res.rows : r.j2 = VDot(r.nv, r.nv) /\ r.j2[1] > 0
                 /\ (stage = "interior" /\ N = M) => \A r \in res.rows : r.j2[1] > 0 /\ r.sg # 0
                 /\ (stage \in {"boundary", "interfaces"} /\ N = M) => \A r \in res.rows : r.j2 = VDot(r.nv, r.nv) /\ r.j2[1] > 0
NormalOrthogonal == stage \in {"boundary", "interfaces"} =>
                       \A r \in res.rows : \A k \in 1..Len(r.tp) : VDot(r.nv, r.tp[k])[1] = 0 /\ VDot(r.nI, r.tp[k])[1] = 0
NormalOutward == stage \in {"boundary", "interfaces"} => \A r \in res.rows : QSgn(VDot(r.nv, r.out)) = 1
NormalRoutes == stage \in {"boundary", "interfaces"} => \A r \in res.rows : PosParallel(r.nI, r.nv) /\ PosParallel(r.nD, r.nv)
\* the exterior normal of a manifold is orthogonal to the manifold
ExteriorOrthogonal == (stage = "interior" /\ N = M + 1) =>
                         \A r \in res.rows : /\ \A k \in 1..M : VDot(r.nv, r.rc[k])[1] = 0 /\ VDot(r.nx, r.rc[k])[1] = 0
                                             /\ VDot(r.nx, r.nx)[1] > 0
\* both sides of an interface: same point, opposite N dS (domains), opposite direction (manifolds)
InterfaceOpposite == stage = "interfaces" =>
                        \A r \in res.rows : \E s \in res.rows : /\ s.x0 = r.x0 /\ s.fv = r.fv /\ s.ev # r.ev
                                                                /\ IF N = M THEN s.nv = VNeg(r.nv) ELSE PosParallel(s.nv, VNeg(r.nv))
DivTheoremElem == (stage = "integrals" /\ IsVec) => \A r \in res.rows : r.flux = r.int
DivTheoremMesh == (stage = "integrals" /\ IsVec) => res.tot.flux = res.tot.int /\ res.tot.iflux = QZero
VolumePositive == stage = "integrals" => res.tot.vol[1] > 0 /\ \A r \in res.rows : r.vol[1] > 0
\* per-space gradients of a separable geometry on a product topology are the partial derivatives
PerSpace == (stage = "interior" /\ SepOn) =>
               \A r \in res.rows : r.gs = DField(r.X) /\ \A s \in 1..Len(mesh.sp) : r.js[s][1] > 0
\* on a product topology with a geometry that spans all spaces the concatenation of the derivatives to the root
\* targets of the spaces gives the gradient p'(X) (and the spaces do not mix in the base coordinates)
ProductGradient == /\ (stage \in PointStages /\ N = M /\ Len(mesh.sp) > 1) => \A r \in res.rows : r.g = DField(r.X)
                   /\ Len(mesh.sp) > 1 => \A el \in mesh.elems : \A s \in 1..Len(mesh.sp) : \A t \in 1..Len(mesh.sp) :
                          s = t \/ \A i \in 1..mesh.sp[s] : \A j \in 1..mesh.sp[t] : BMat(el)[SpCols(mesh.sp, s)[i]][SpCols(mesh.sp, t)[j]][1] = 0
\* the measure does not depend on the level of the topology the geometry lives on (independence of refinement)
CoarseMeasure == stage = "interior" => \A r \in res.rows : r.jc2 = r.j2
\* a field that lives on the boundary topology: its gradient with respect to the geometry agrees with p'(X) along every
\* tangent of the facet (the normal component is not defined by the field)
BoundaryFieldTangential == stage = "bfield" =>
                              \A r \in res.rows : \A k \in 1..Len(r.tp) : r.gt[k] = MVec(DField(r.X), r.tp[k])
\* the surface gradient on a boundary sample of a domain is the tangential projection of p'(X)
BoundarySurfGrad == stage = "bfield" =>
                       \A r \in res.rows : LET nn == VDot(r.nv, r.nv)
                                           IN /\ nn[1] > 0 /\ \A k \in 1..Len(r.tp) : VDot(r.nv, r.tp[k])[1] = 0
                                              /\ MScale(nn, r.sg) = MMul(DField(r.X), MSub(MScale(nn, IdMat(N)), Outer(r.nv, r.nv)), N)
\* refinement changes no integral
RefinePreservesStep == (stage = "integrals" /\ stage' = "integrals" /\ mesh'.level = mesh.level + 1) =>
                          (res'.tot = res.tot /\ PrintT(<<"VF", ToJson([tab |-> "refine-preserved", mesh |-> mesh.name, geom |-> geom.id, field |-> field.id])>>))
RefinePreserves == [][RefinePreservesStep]_vars
TypeOK == /\ stage \in {"mesh", "geom", "field", "interior", "boundary", "interfaces", "bfield", "integrals"}
          /\ mesh.elems # {}
          /\ stage \in PointStages \cup {"bfield"} => res.rows # {}

(***************************************************************************)
(* emission of the predicted observations for the replay against nutils    *)
(***************************************************************************)
Emit(x) == PrintT(<<"VF", ToJson(x)>>)
Snapshot == [mesh |-> mesh.name, level |-> mesh.level, nelems |-> Cardinality(mesh.elems), sp |-> mesh.sp,
             elems |-> {ElemVerts(el) : el \in mesh.elems},
             geom |-> geom.id, G |-> geom.G, m |-> M, n |-> N, sep |-> geom.sep, sepon |-> SepOn, degfg |-> DegP * DegG,
             field |-> field.id, kind |-> field.kind, P |-> field.P,
             stage |-> stage, lattice |-> LatticeK, rows |-> res.rows, tot |-> res.tot]
EmitEval == (stage \in PointStages \cup {"bfield", "integrals"}) => Emit(Snapshot)
=============================================================================
