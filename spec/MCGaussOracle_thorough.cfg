\* thorough: trimming also in 3D, thresholds at quarters, higher degrees
SPECIFICATION Spec
CONSTANTS
  RefTypes <- MCRefs2
  TrimRefs <- MCTrim3
  DegRef = 14
  DegRegion = 7
  DegRegion3 = 5
  InvDeg = 2
  TrimLevels <- MCLevels2
  MaxRefine <- MCRefine01
  GoMutant = "none"
INVARIANT ChildrenTile
INVARIANT TrimSplits
INVARIANT RegionInside
INVARIANT RefVolume
INVARIANT EmitAll
INVARIANT Decomposition
CHECK_DEADLOCK FALSE
