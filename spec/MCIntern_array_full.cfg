SPECIFICATION Spec
CONSTANTS
  Args <- ArrayArgs
  CanonOf <- ArrayCanon
  PyOf <- ArrayPy
  KeyMode = "exact"
  Lossy = "reject"
  WrapOf <- ArrayWrap
  MaxOps = 4
  MaxPickles = 1
  Label = "array"
INVARIANT UniqueLive
INVARIANT ExactArgs
INVARIANT SameWhileAlive
INVARIANT TableSound
CONSTRAINT EmitBehaviour
CHECK_DEADLOCK FALSE
