SPECIFICATION Spec
CONSTANTS
  Procs = {p1, p2}
  PLen = 3
  MaxCrash = 3
  MaxCalls = 5
  CanRaise = TRUE
  DetPickle = TRUE
  InitFiles <- MCInitFilesNoGarbage
INVARIANT NoGarbageIfDet
INVARIANT Transparent
CHECK_DEADLOCK FALSE
