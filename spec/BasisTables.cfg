SPECIFICATION Spec
CONSTANTS
  Mutant = "none"
INVARIANT Judge
CHECK_DEADLOCK FALSE
