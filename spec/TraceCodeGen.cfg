SPECIFICATION Spec
CONSTRAINT Progress
POSTCONDITION TraceAccepted
CHECK_DEADLOCK FALSE
