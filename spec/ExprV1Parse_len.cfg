\* the design check of the version 1 length deduction (C19) on the family FamLen, stand-alone:
\*   java -cp tla2tools.jar:CommunityModules-deps.jar tlc2.TLC -deadlock -config ExprV1Parse_len.cfg MCExprV1Parse.tla
SPECIFICATION Spec
CONSTANTS
  Fams <- OnlyLen
  EmitMin = 0
  Bug = ""
  Lazy = FALSE
INVARIANT VerdictAgree
INVARIANT FreeAgree
INVARIANT GroupsAgree
INVARIANT InferenceSound
CHECK_DEADLOCK FALSE
